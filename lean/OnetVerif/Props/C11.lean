import OnetVerif.Model.C11
import OnetVerif.Shapes
/-! Property C11 — finished instances stay finished; trees outlive them as long as needed.
All statements hold for arbitrary schedules (`List Act`). -/
namespace C11

def setTok (tok : Nat) (t : Th) : Bool := t.pc == .set && t.tok == tok

structure Inv (s : St) : Prop where
  sub : ∀ t ∈ s.settled, t ∈ s.live
  safe : s.settled ≠ [] → s.present = true ∧ s.armed = false
  once : ∀ tok, s.thr.countP (regTok tok) + s.constructed.count tok ≤ 1
  born : ∀ tok, 0 < s.thr.countP (regTok tok) + s.constructed.count tok → tok ∈ s.live ∨ tok ∈ s.doneToks
  regLive : ∀ tok, 0 < s.thr.countP (regTok tok) → tok ∈ s.live
  setNew : ∀ tok ∈ s.settled, s.thr.countP (setTok tok) = 0
  disj : ∀ tok ∈ s.doneToks, tok ∉ s.live
  rel : s.used = true → s.present = true → s.live = [] → s.thr.countP (at_ .flushed) = 0 →
        s.thr.countP (at_ .found) = 0 → s.thr.countP (at_ .set) = 0 → s.thr.countP (at_ .bind) = 0 →
        s.armed = true
  /-- a thread inside the protocol constructor: its instance's creation has completed -/
  ctor : ∀ tok, s.thr.countP (setTok tok) < s.thr.countP (regTok tok) → tok ∈ s.settled

theorem inv_init : Inv {} := by constructor <;> simp

theorem countP_set' {p : Th → Bool} {l : List Th} {i : Nat} {t t' : Th} (h : l[i]? = some t) :
    (l.set i t').countP p + (if p t then 1 else 0) = l.countP p + (if p t' then 1 else 0) := by
  have hi : i < l.length := by
    rcases Nat.lt_or_ge i l.length with h' | h'
    · exact h'
    · simp [List.getElem?_eq_none h'] at h
  have ht : l[i] = t := by simpa [List.getElem?_eq_getElem hi] using h
  have := List.boole_getElem_le_countP (p := p) hi
  rw [List.countP_set hi, ht] at *
  omega

theorem setTok_le_regTok (tok : Nat) (l : List Th) : l.countP (setTok tok) ≤ l.countP (regTok tok) := by
  apply List.countP_mono_left
  intro t _ h
  simp [setTok, regTok] at *
  exact ⟨.inl h.1, h.2⟩

/-- count bookkeeping after moving thread `i` from pc `a` to pc `b` -/
theorem mv {l : List Th} {i tok0 m0 : Nat} {a : Pc} (h : l[i]? = some ⟨tok0, m0, a⟩) (b : Pc) :
    (∀ p, (l.set i ⟨tok0, m0, b⟩).countP (at_ p) + (if a = p then 1 else 0)
        = l.countP (at_ p) + (if b = p then 1 else 0)) ∧
    (∀ tok, (l.set i ⟨tok0, m0, b⟩).countP (setTok tok) + (if a = .set ∧ tok0 = tok then 1 else 0)
        = l.countP (setTok tok) + (if b = .set ∧ tok0 = tok then 1 else 0)) ∧
    (∀ tok, (l.set i ⟨tok0, m0, b⟩).countP (regTok tok) + (if (a = .set ∨ a = .bind) ∧ tok0 = tok then 1 else 0)
        = l.countP (regTok tok) + (if (b = .set ∨ b = .bind) ∧ tok0 = tok then 1 else 0)) := by
  refine ⟨fun p => ?_, fun tok => ?_, fun tok => ?_⟩
  · have := countP_set' (p := at_ p) (t' := ⟨tok0, m0, b⟩) h
    simpa [at_] using this
  · have := countP_set' (p := setTok tok) (t' := ⟨tok0, m0, b⟩) h
    simpa [setTok] using this
  · have := countP_set' (p := regTok tok) (t' := ⟨tok0, m0, b⟩) h
    simpa [regTok] using this

/-! the request path: parked messages and their flush -/
theorem countP_flushAll {p : Th → Bool} (hp : ∀ t, p (flushT t) = p t) (l : List Th) :
    (flushAll l).countP p = l.countP p := by
  induction l with
  | nil => rfl
  | cons t l ih => simp only [flushAll, List.map_cons, List.countP_cons, hp t] at *; rw [ih]

theorem flushT_pc (t : Th) : (flushT t).pc ≠ .parked ∧ (flushT t).tok = t.tok ∧ (flushT t).m = t.m ∧
    (t.pc ≠ .parked → flushT t = t) := by
  unfold flushT; split <;> simp_all

theorem flush_at (p : Pc) (hp : p ≠ .parked) (hf : p ≠ .flushed) (t : Th) : at_ p (flushT t) = at_ p t := by
  unfold flushT at_
  split
  · rename_i h; simp only [h]; cases p <;> first | rfl | simp_all
  · rfl

theorem flush_setTok (tok : Nat) (t : Th) : setTok tok (flushT t) = setTok tok t := by
  unfold flushT setTok
  split
  · rename_i h; simp only [h]; rfl
  · rfl

theorem flush_regTok (tok : Nat) (t : Th) : regTok tok (flushT t) = regTok tok t := by
  unfold flushT regTok
  split
  · rename_i h; simp only [h]; rfl
  · rfl

theorem flushAll_no_parked (l : List Th) : (flushAll l).countP (at_ .parked) = 0 := by
  rw [List.countP_eq_zero]
  intro t ht
  simp only [flushAll, List.mem_map] at ht
  obtain ⟨u, _, rfl⟩ := ht
  simp [at_, (flushT_pc u).1]

/-- what is parked waits for a tree that is not there, and a registered slot has a message waiting for it -/
structure Inv2 (s : St) : Prop where
  pk : 0 < s.thr.countP (at_ .parked) → s.present = false
  rq : s.requested = true → 0 < s.thr.countP (at_ .parked)

theorem inv2_init : Inv2 {} := by constructor <;> simp

theorem inv_thread (s s' : St) (i : Nat) (t : Th) (hI : Inv s) (ht : s.thr[i]? = some t)
    (hs : stepTh s i t = some s') : Inv s' := by
  obtain ⟨hsub, hsafe, honce, hborn, hrl, hsn, hdj, hrel, hct⟩ := hI
  obtain ⟨tok0, m0, pc0⟩ := t
  have look : ∀ (pc0 : Pc), (pc0 = .lookup ∨ pc0 = .flushed) → s.thr[i]? = some ⟨tok0, m0, pc0⟩ →
      Inv (lookupStep s i ⟨tok0, m0, pc0⟩) := by
    intro pc0 hpc ht
    have hns : pc0 ≠ .set ∧ pc0 ≠ .bind ∧ pc0 ≠ .found := by rcases hpc with rfl | rfl <;> simp
    unfold lookupStep
    cases hp : s.present
    · obtain ⟨cP, cS, cR⟩ := mv ht .parked
      simp [hns.1, hns.2.1] at cS cR
      simp only [Bool.false_eq_true, ↓reduceIte]
      refine ⟨hsub, ?_, ?_, ?_, ?_, ?_, hdj, ?_, ?_⟩
      all_goals (try dsimp only)
      · intro h; have := hsafe h; simp [hp] at this
      · intro tok; rw [cR tok]; exact honce tok
      · intro tok h; rw [cR tok] at h; exact hborn tok h
      · intro tok h; rw [cR tok] at h; exact hrl tok h
      · intro tok h; rw [cS tok]; exact hsn tok h
      · intro _ hp'; simp [hp] at hp'
      · intro tok h; rw [cS tok, cR tok] at h; exact hct tok h
    · obtain ⟨cP, cS, cR⟩ := mv ht .found
      have cF := cP .found
      simp [hns.1, hns.2.1, hns.2.2] at cF cS cR
      simp only [↓reduceIte]
      refine ⟨hsub, ?_, ?_, ?_, ?_, ?_, hdj, ?_, ?_⟩
      all_goals (try dsimp only)
      · intro h; have := hsafe h; simp [this]
      · intro tok; rw [cR tok]; exact honce tok
      · intro tok h; rw [cR tok] at h; exact hborn tok h
      · intro tok h; rw [cR tok] at h; exact hrl tok h
      · intro tok h; rw [cS tok]; exact hsn tok h
      · intro _ _ _ _ hf _ _; omega
      · intro tok h; rw [cS tok, cR tok] at h; exact hct tok h
  cases pc0 with
  | fin => simp [stepTh] at hs
  | parked => simp [stepTh] at hs
  | lookup => simp only [stepTh] at hs; simp at hs; subst hs; exact look .lookup (.inl rfl) ht
  | flushed => simp only [stepTh] at hs; simp at hs; subst hs; exact look .flushed (.inr rfl) ht
  | found =>
    simp only [stepTh] at hs
    split at hs
    · simp at hs
    · split at hs
      · -- late message for a finished instance
        simp at hs; subst hs
        obtain ⟨cP, cS, cR⟩ := mv ht .fin
        simp at cS cR
        refine ⟨hsub, ?_, ?_, ?_, ?_, ?_, hdj, ?_, ?_⟩
        all_goals (try dsimp only)
        · intro h
          have := hsafe h
          have hl : s.live ≠ [] := by
            intro e
            cases hse : s.settled with
            | nil => exact h hse
            | cons a l => have := hsub a (by simp [hse]); simp [e] at this
          simp [this, hl]
        · intro tok; rw [cR tok]; exact honce tok
        · intro tok h; rw [cR tok] at h; exact hborn tok h
        · intro tok h; rw [cR tok] at h; exact hrl tok h
        · intro tok h; rw [cS tok]; exact hsn tok h
        · intro _ _ hl _ _ _ _; simp [hl]
        · intro tok h; rw [cS tok, cR tok] at h; exact hct tok h
      · split at hs
        · -- the instance exists: hand over
          rename_i hlive
          simp at hs; subst hs
          obtain ⟨cP, cS, cR⟩ := mv ht .fin
          simp at cS cR
          refine ⟨hsub, hsafe, ?_, ?_, ?_, ?_, hdj, ?_, ?_⟩
          all_goals (try dsimp only)
          · intro tok; rw [cR tok]; exact honce tok
          · intro tok h; rw [cR tok] at h; exact hborn tok h
          · intro tok h; rw [cR tok] at h; exact hrl tok h
          · intro tok h; rw [cS tok]; exact hsn tok h
          · intro _ _ hl; simp [hl] at hlive
          · intro tok h; rw [cS tok, cR tok] at h; exact hct tok h
        · split at hs
          · -- the token names no node of the tree: refused, the removal is scheduled again
            simp at hs; subst hs
            obtain ⟨cP, cS, cR⟩ := mv ht .fin
            simp at cS cR
            refine ⟨hsub, ?_, ?_, ?_, ?_, ?_, hdj, ?_, ?_⟩
            all_goals (try dsimp only)
            · intro h
              have := hsafe h
              have hl : s.live ≠ [] := by
                intro e
                cases hse : s.settled with
                | nil => exact h hse
                | cons a l => have := hsub a (by simp [hse]); simp [e] at this
              simp [this, hl]
            · intro tok; rw [cR tok]; exact honce tok
            · intro tok h; rw [cR tok] at h; exact hborn tok h
            · intro tok h; rw [cR tok] at h; exact hrl tok h
            · intro tok h; rw [cS tok]; exact hsn tok h
            · intro _ _ hl _ _ _ _; simp [hl]
            · intro tok h; rw [cS tok, cR tok] at h; exact hct tok h
          · -- create the instance
            rename_i hnd hnl hnb
            simp at hs; subst hs
            obtain ⟨cP, cS0, cR0⟩ := mv ht .set
            have cS : ∀ tok, (s.thr.set i ⟨tok0, m0, .set⟩).countP (setTok tok)
                = s.thr.countP (setTok tok) + (if tok0 = tok then 1 else 0) := by
              intro tok; have := cS0 tok; simpa using this
            have cR : ∀ tok, (s.thr.set i ⟨tok0, m0, .set⟩).countP (regTok tok)
                = s.thr.countP (regTok tok) + (if tok0 = tok then 1 else 0) := by
              intro tok; have := cR0 tok; simpa using this
            have hzero : s.thr.countP (regTok tok0) + s.constructed.count tok0 = 0 := by
              apply Classical.byContradiction; intro hne
              rcases hborn tok0 (by omega) with h | h
              · exact hnl h
              · exact hnd h
            refine ⟨?_, hsafe, ?_, ?_, ?_, ?_, ?_, ?_, ?_⟩
            all_goals (try dsimp only)
            · intro x hx; simp; left; exact hsub x hx
            · intro tok; rw [cR tok]
              by_cases e : tok0 = tok
              · subst e; rw [if_pos rfl]; omega
              · rw [if_neg e]; have := honce tok; omega
            · intro tok h; rw [cR tok] at h
              by_cases e : tok0 = tok
              · subst e; simp
              · rw [if_neg e] at h
                rcases hborn tok (by omega) with h' | h'
                · simp [h']
                · simp [h']
            · intro tok h; rw [cR tok] at h
              by_cases e : tok0 = tok
              · subst e; simp
              · rw [if_neg e] at h
                have := hrl tok (by omega)
                simp [this]
            · intro tok h; rw [cS tok]
              by_cases e : tok0 = tok
              · subst e; exact absurd (hsub _ h) hnl
              · rw [if_neg e]; have := hsn tok h; omega
            · intro tok h
              simp
              refine ⟨hdj tok h, ?_⟩
              intro e; subst e; exact hnd h
            · intro _ _ hl; simp at hl
            · intro tok h; rw [cS tok, cR tok] at h
              by_cases e : tok0 = tok
              · subst e; rw [if_pos rfl] at h; exact hct _ (by omega)
              · rw [if_neg e] at h; exact hct _ (by omega)
  | set =>
    simp only [stepTh] at hs
    simp at hs; subst hs
    obtain ⟨cP0, cS0, cR0⟩ := mv ht .bind
    have fS : ∀ tok, (flushAll (s.thr.set i ⟨tok0, m0, .bind⟩)).countP (setTok tok)
        = (s.thr.set i ⟨tok0, m0, .bind⟩).countP (setTok tok) := fun tok => countP_flushAll (flush_setTok tok) _
    have fR : ∀ tok, (flushAll (s.thr.set i ⟨tok0, m0, .bind⟩)).countP (regTok tok)
        = (s.thr.set i ⟨tok0, m0, .bind⟩).countP (regTok tok) := fun tok => countP_flushAll (flush_regTok tok) _
    have cP : ∀ p, p ≠ .parked → p ≠ .flushed →
        (flushAll (s.thr.set i ⟨tok0, m0, .bind⟩)).countP (at_ p) + (if Pc.set = p then 1 else 0)
        = s.thr.countP (at_ p) + (if Pc.bind = p then 1 else 0) := by
      intro p h1 h2; rw [countP_flushAll (flush_at p h1 h2)]; exact cP0 p
    have cS : ∀ tok, (flushAll (s.thr.set i ⟨tok0, m0, .bind⟩)).countP (setTok tok) + (if tok0 = tok then 1 else 0)
        = s.thr.countP (setTok tok) := by
      intro tok; rw [fS]; have := cS0 tok; simpa using this
    have cR : ∀ tok, (flushAll (s.thr.set i ⟨tok0, m0, .bind⟩)).countP (regTok tok) = s.thr.countP (regTok tok) := by
      intro tok; rw [fR]; have := cR0 tok
      by_cases e : tok0 = tok
      · subst e; simp at this; omega
      · simp [e] at this; omega
    have hposS : 0 < s.thr.countP (setTok tok0) := by
      have := cS tok0; rw [if_pos rfl] at this; omega
    have hpos : 0 < s.thr.countP (regTok tok0) := Nat.lt_of_lt_of_le hposS (setTok_le_regTok tok0 s.thr)
    have hlive : tok0 ∈ s.live := hrl tok0 hpos
    have hSone : s.thr.countP (setTok tok0) = 1 := by
      have h1 := setTok_le_regTok tok0 s.thr
      have h2 := honce tok0
      omega
    have cB := cP .bind (by simp) (by simp)
    simp at cB
    refine ⟨?_, ?_, ?_, ?_, ?_, ?_, hdj, ?_, ?_⟩
    all_goals (try dsimp only)
    · intro x hx; simp [hlive] at hx
      rcases hx with hx | hx
      · exact hsub x hx
      · subst hx; exact hlive
    · intro _; simp
    · intro tok; rw [cR tok]; exact honce tok
    · intro tok h; rw [cR tok] at h; exact hborn tok h
    · intro tok h; rw [cR tok] at h; exact hrl tok h
    · intro tok h
      simp [hlive] at h
      have := cS tok
      rcases h with h | h
      · have := hsn tok h
        by_cases e : tok0 = tok
        · subst e; rw [if_pos rfl] at *; omega
        · rw [if_neg e] at *; omega
      · subst h; rw [if_pos rfl] at this; omega
    · intro _ _ hl; simp [hl] at hlive
    · intro tok h; rw [cR tok] at h; have := cS tok
      by_cases e : tok0 = tok
      · subst e; simp [hlive]
      · rw [if_neg e] at this; have := hct tok (by omega); simp [hlive, this]
  | bind =>
    simp only [stepTh] at hs
    simp at hs; subst hs
    obtain ⟨cP, cS0, cR0⟩ := mv ht .fin
    have cS : ∀ tok, (s.thr.set i ⟨tok0, m0, .fin⟩).countP (setTok tok) = s.thr.countP (setTok tok) := by
      intro tok; have := cS0 tok; simpa using this
    have cR : ∀ tok, (s.thr.set i ⟨tok0, m0, .fin⟩).countP (regTok tok) + (if tok0 = tok then 1 else 0)
        = s.thr.countP (regTok tok) := by
      intro tok; have := cR0 tok; simpa using this
    have hc : ∀ tok, (s.constructed ++ [tok0]).count tok
        = s.constructed.count tok + (if tok0 = tok then 1 else 0) := by
      intro tok
      by_cases e : tok0 = tok
      · subst e; simp [List.count_append]
      · have e' : ¬ tok = tok0 := fun h => e h.symm
        simp [List.count_append, List.count_singleton, e, e']
    have hpos : 0 < s.thr.countP (regTok tok0) := by
      have := cR tok0; rw [if_pos rfl] at this; omega
    have hlive : tok0 ∈ s.live := hrl tok0 hpos
    refine ⟨hsub, hsafe, ?_, ?_, ?_, ?_, hdj, ?_, ?_⟩
    all_goals (try dsimp only)
    · intro tok; rw [hc tok]; have := cR tok; have := honce tok
      by_cases e : tok0 = tok
      · subst e; rw [if_pos rfl] at *; omega
      · rw [if_neg e] at *; omega
    · intro tok h; rw [hc tok] at h; have := cR tok
      by_cases e : tok0 = tok
      · subst e; left; exact hlive
      · rw [if_neg e] at *; exact hborn tok (by omega)
    · intro tok h; have := cR tok
      by_cases e : tok0 = tok
      · subst e; exact hlive
      · rw [if_neg e] at this; exact hrl tok (by omega)
    · intro tok h; rw [cS tok]; exact hsn tok h
    · intro _ _ hl; simp [hl] at hlive
    · intro tok h; rw [cS tok] at h; have := cR tok
      by_cases e : tok0 = tok
      · subst e; rw [if_pos rfl] at this; exact hct _ (by omega)
      · rw [if_neg e] at this; exact hct _ (by omega)

theorem inv_step (s s' : St) (a : Act) (hI : Inv s) (h2 : Inv2 s) (hs : step s a = some s') : Inv s' := by
  cases a with
  | thread i =>
    simp only [step] at hs
    split at hs
    · rename_i t ht; exact inv_thread s s' i t hI ht hs
    · simp at hs
  | arrive tok m =>
    simp [step] at hs; subst hs
    obtain ⟨hsub, hsafe, honce, hborn, hrl, hsn, hdj, hrel, hct⟩ := hI
    refine ⟨hsub, hsafe, ?_, ?_, ?_, ?_, hdj, ?_, ?_⟩
    all_goals (try dsimp only)
    · intro t; have := honce t; simpa [List.countP_append, regTok] using this
    · intro t h; apply hborn t; simpa [List.countP_append, regTok] using h
    · intro t h; apply hrl t; simpa [List.countP_append, regTok] using h
    · intro t h; have := hsn t h; simpa [List.countP_append, setTok] using this
    · intro hu hp hl hfl hf hse hb
      apply hrel hu hp hl
      · simpa [List.countP_append, at_] using hfl
      · simpa [List.countP_append, at_] using hf
      · simpa [List.countP_append, at_] using hse
      · simpa [List.countP_append, at_] using hb
    · intro t h; apply hct t; simpa [List.countP_append, regTok, setTok] using h
  | done tok =>
    obtain ⟨hsub, hsafe, honce, hborn, hrl, hsn, hdj, hrel, hct⟩ := hI
    simp only [step] at hs
    split at hs
    · rename_i hcond
      obtain ⟨hset, hreg⟩ := hcond
      simp at hs; subst hs
      refine ⟨?_, ?_, honce, ?_, ?_, ?_, ?_, ?_, ?_⟩
      all_goals (try dsimp only)
      · intro x hx
        simp at hx
        simp [hsub x hx.1, hx.2]
      · intro h
        have hne : s.settled ≠ [] := by intro e; simp [e] at h
        have hs := hsafe hne
        obtain ⟨x, hx⟩ := List.exists_mem_of_ne_nil _ h
        simp at hx
        simp [hs]
        exact ⟨x, hsub x hx.1, hx.2⟩
      · intro t h
        rcases hborn t h with h' | h'
        · by_cases e : t = tok
          · right; simp [e]
          · left; simp [h', e]
        · right; simp [h']
      · intro t h
        have := hrl t h
        by_cases e : t = tok
        · subst e; omega
        · simp [this, e]
      · intro t h; simp at h; exact hsn t h.1
      · intro t h
        simp at h
        rcases h with h | h
        · intro hc; simp at hc; exact hdj t h hc.1
        · subst h; simp
      · intro _ _ hl _ _ _ _; simp at hl; simp; left; exact hl
      · intro t h; have := hct t h
        by_cases e : t = tok
        · subst e; omega
        · simp [this, e]
    · split at hs
      · simp at hs; subst hs; exact ⟨hsub, hsafe, honce, hborn, hrl, hsn, hdj, hrel, hct⟩
      · simp at hs
  | peerReq =>
    obtain ⟨hsub, hsafe, honce, hborn, hrl, hsn, hdj, hrel, hct⟩ := hI
    simp [step] at hs; subst hs
    exact ⟨hsub, hsafe, honce, hborn, hrl, hsn, hdj, hrel, hct⟩
  | treeResp =>
    obtain ⟨hsub, hsafe, honce, hborn, hrl, hsn, hdj, hrel, hct⟩ := hI
    simp only [step] at hs
    split at hs
    · rename_i hc
      simp at hs; subst hs
      have fS : ∀ tok, (flushAll s.thr).countP (setTok tok) = s.thr.countP (setTok tok) :=
        fun tok => countP_flushAll (flush_setTok tok) _
      have fR : ∀ tok, (flushAll s.thr).countP (regTok tok) = s.thr.countP (regTok tok) :=
        fun tok => countP_flushAll (flush_regTok tok) _
      refine ⟨hsub, ?_, ?_, ?_, ?_, ?_, hdj, ?_, ?_⟩
      all_goals (try dsimp only)
      · intro _; simp
      · intro tok; rw [fR]; exact honce tok
      · intro tok h; rw [fR] at h; exact hborn tok h
      · intro tok h; rw [fR] at h; exact hrl tok h
      · intro tok h; rw [fS]; exact hsn tok h
      · intro _ _ _ hfl _ _ _
        -- the slot was registered: a message was parked for it, and is flushed now
        have hpk := h2.rq hc.1
        have : 0 < (flushAll s.thr).countP (at_ .flushed) := by
          rw [List.countP_pos_iff] at hpk ⊢
          obtain ⟨t, ht, hpc⟩ := hpk
          refine ⟨flushT t, List.mem_map_of_mem ht, ?_⟩
          simp [at_] at hpc
          simp [at_, flushT, hpc]
        omega
      · intro tok h; rw [fS, fR] at h; exact hct tok h
    · simp at hs
  | doneRefused tok =>
    simp only [step] at hs
    split at hs
    · simp at hs; subst hs; exact hI
    · simp at hs
  | expire =>
    obtain ⟨hsub, hsafe, honce, hborn, hrl, hsn, hdj, hrel, hct⟩ := hI
    simp only [step] at hs
    split at hs
    · rename_i ha
      simp at hs; subst hs
      refine ⟨hsub, ?_, honce, hborn, hrl, hsn, hdj, ?_, hct⟩
      · intro h; have := hsafe h; simp [ha] at this
      · intro _ hp; simp at hp
    · simp at hs
  | localStart tok =>
    obtain ⟨hsub, hsafe, honce, hborn, hrl, hsn, hdj, hrel, hct⟩ := hI
    simp only [step] at hs
    split at hs
    · simp at hs
    · rename_i hfresh
      simp at hfresh
      simp at hs; subst hs
      have hzero : s.thr.countP (regTok tok) + s.constructed.count tok = 0 := by
        apply Classical.byContradiction; intro hne
        rcases hborn tok (by omega) with h | h
        · exact hfresh.2.1 h
        · exact hfresh.2.2.1 h
      have cR : ∀ t, (s.thr ++ [(⟨tok, 0, .set⟩ : Th)]).countP (regTok t)
          = s.thr.countP (regTok t) + (if tok = t then 1 else 0) := by
        intro t
        by_cases e : tok = t
        · subst e; simp [List.countP_append, regTok]
        · simp [List.countP_append, regTok, e]
      have cS : ∀ t, (s.thr ++ [(⟨tok, 0, .set⟩ : Th)]).countP (setTok t)
          = s.thr.countP (setTok t) + (if tok = t then 1 else 0) := by
        intro t
        by_cases e : tok = t
        · subst e; simp [List.countP_append, setTok]
        · simp [List.countP_append, setTok, e]
      refine ⟨?_, hsafe, ?_, ?_, ?_, ?_, ?_, ?_, ?_⟩
      all_goals (try dsimp only)
      · intro x hx; simp; left; exact hsub x hx
      · intro t; rw [cR t]
        by_cases e : tok = t
        · subst e; rw [if_pos rfl]; omega
        · rw [if_neg e]; have := honce t; omega
      · intro t h; rw [cR t] at h
        by_cases e : tok = t
        · subst e; simp
        · rw [if_neg e] at h
          rcases hborn t (by omega) with h' | h'
          · simp [h']
          · simp [h']
      · intro t h; rw [cR t] at h
        by_cases e : tok = t
        · subst e; simp
        · rw [if_neg e] at h
          have := hrl t (by omega)
          simp [this]
      · intro t h; rw [cS t]
        by_cases e : tok = t
        · subst e; exact absurd (hsub _ h) hfresh.2.1
        · rw [if_neg e]; have := hsn t h; omega
      · intro t h
        simp
        refine ⟨hdj t h, ?_⟩
        intro e; subst e; exact hfresh.2.2.1 h
      · intro _ _ hl; simp at hl
      · intro t h; rw [cS t, cR t] at h
        by_cases e : tok = t
        · subst e; rw [if_pos rfl] at h; exact hct _ (by omega)
        · rw [if_neg e] at h; exact hct _ (by omega)
  | ctorFail i _ =>
    obtain ⟨hsub, hsafe, honce, hborn, hrl, hsn, hdj, hrel, hct⟩ := hI
    simp only [step] at hs
    split at hs
    · rename_i t ht
      obtain ⟨tok0, m0, pc0⟩ := t
      split at hs
      · rename_i hpc
        simp only at hpc; subst hpc
        simp at hs; subst hs
        obtain ⟨cP, cS0, cR0⟩ := mv ht .fin
        have cS : ∀ tok, (s.thr.set i ⟨tok0, m0, .fin⟩).countP (setTok tok) = s.thr.countP (setTok tok) := by
          intro tok; have := cS0 tok; simpa using this
        have cR : ∀ tok, (s.thr.set i ⟨tok0, m0, .fin⟩).countP (regTok tok) + (if tok0 = tok then 1 else 0)
            = s.thr.countP (regTok tok) := by
          intro tok; have := cR0 tok; simpa using this
        have hc : ∀ tok, (s.constructed ++ [tok0]).count tok
            = s.constructed.count tok + (if tok0 = tok then 1 else 0) := by
          intro tok
          by_cases e : tok0 = tok
          · subst e; simp [List.count_append]
          · have e' : ¬ tok = tok0 := fun h => e h.symm
            simp [List.count_append, List.count_singleton, e, e']
        have hpos : 0 < s.thr.countP (regTok tok0) := by
          have := cR tok0; rw [if_pos rfl] at this; omega
        have hlive : tok0 ∈ s.live := hrl tok0 hpos
        have hzero : (s.thr.set i ⟨tok0, m0, .fin⟩).countP (regTok tok0) = 0 := by
          have := cR tok0; rw [if_pos rfl] at this; have := honce tok0; omega
        refine ⟨?_, ?_, ?_, ?_, ?_, ?_, ?_, ?_, ?_⟩
        all_goals (try dsimp only)
        · intro x hx
          simp at hx
          simp [hsub x hx.1, hx.2]
        · intro h
          have hne : s.settled ≠ [] := by intro e; simp [e] at h
          have hs := hsafe hne
          obtain ⟨x, hx⟩ := List.exists_mem_of_ne_nil _ h
          simp at hx
          simp [hs]
          exact ⟨x, hsub x hx.1, hx.2⟩
        · intro tok; rw [hc tok]; have := cR tok; have := honce tok
          by_cases e : tok0 = tok
          · subst e; rw [if_pos rfl] at *; omega
          · rw [if_neg e] at *; omega
        · intro tok h
          by_cases e : tok = tok0
          · right; simp [e]
          · have e' : ¬ tok0 = tok := fun h => e h.symm
            rw [hc tok, if_neg e'] at h; have := cR tok; rw [if_neg e'] at this
            rcases hborn tok (by omega) with h' | h'
            · left; simp [h', e]
            · right; simp [h']
        · intro tok h
          by_cases e : tok = tok0
          · subst e; omega
          · have e' : ¬ tok0 = tok := fun h => e h.symm
            have := cR tok; rw [if_neg e'] at this
            have := hrl tok (by omega)
            simp [this, e]
        · intro tok h; simp at h; rw [cS tok]; exact hsn tok h.1
        · intro tok h
          simp at h
          rcases h with h | h
          · intro hc'; simp at hc'; exact hdj tok h hc'.1
          · subst h; simp
        · intro _ _ hl _ _ _ _; simp at hl; simp; left; exact hl
        · intro tok h
          by_cases e : tok = tok0
          · subst e; omega
          · have e' : ¬ tok0 = tok := fun h => e h.symm
            rw [cS tok] at h; have := cR tok; rw [if_neg e'] at this
            have := hct tok (by omega)
            simp [this, e]
      · simp at hs
    · simp at hs

theorem lookupStep_frame (s : St) (i : Nat) (t : Th) :
    (lookupStep s i t).doneToks = s.doneToks ∧ (lookupStep s i t).present = s.present ∧
    (lookupStep s i t).live = s.live ∧ (lookupStep s i t).constructed = s.constructed ∧
    (lookupStep s i t).handed = s.handed := by
  unfold lookupStep; split <;> simp

/-- a thread step never removes a done marker or the tree -/
theorem stepTh_frame (s s' : St) (i : Nat) (t : Th) (hs : stepTh s i t = some s') :
    s'.doneToks = s.doneToks ∧ (s.present = true → s'.present = true) := by
  obtain ⟨t0, m0, pc0⟩ := t
  cases pc0 with
  | lookup => simp only [stepTh] at hs; simp at hs; subst hs; exact ⟨(lookupStep_frame _ _ _).1, fun h => by rw [(lookupStep_frame _ _ _).2.1]; exact h⟩
  | flushed => simp only [stepTh] at hs; simp at hs; subst hs; exact ⟨(lookupStep_frame _ _ _).1, fun h => by rw [(lookupStep_frame _ _ _).2.1]; exact h⟩
  | parked => simp [stepTh] at hs
  | fin => simp [stepTh] at hs
  | found =>
    simp only [stepTh] at hs
    split at hs
    · simp at hs
    · split at hs
      · simp at hs; subst hs; exact ⟨rfl, id⟩
      · split at hs
        · simp at hs; subst hs; exact ⟨rfl, id⟩
        · split at hs <;> (simp at hs; subst hs; exact ⟨rfl, id⟩)
  | set => simp only [stepTh] at hs; simp at hs; subst hs; exact ⟨rfl, fun _ => rfl⟩
  | bind => simp only [stepTh] at hs; simp at hs; subst hs; exact ⟨rfl, id⟩

theorem inv2_step (s s' : St) (a : Act) (h2 : Inv2 s) (hs : step s a = some s') : Inv2 s' := by
  obtain ⟨hpk, hrq⟩ := h2
  cases a with
  | arrive tok m =>
    simp [step] at hs; subst hs
    exact ⟨by simpa [List.countP_append, at_] using hpk, by simpa [List.countP_append, at_] using hrq⟩
  | localStart tok =>
    simp only [step] at hs
    split at hs
    · simp at hs
    · simp at hs; subst hs
      exact ⟨by simpa [List.countP_append, at_] using hpk, by simpa [List.countP_append, at_] using hrq⟩
  | peerReq => simp [step] at hs; subst hs; exact ⟨hpk, hrq⟩
  | doneRefused tok =>
    simp only [step] at hs
    split at hs
    · simp at hs; subst hs; exact ⟨hpk, hrq⟩
    · simp at hs
  | done tok =>
    simp only [step] at hs
    split at hs
    · simp at hs; subst hs; exact ⟨hpk, hrq⟩
    · split at hs
      · simp at hs; subst hs; exact ⟨hpk, hrq⟩
      · simp at hs
  | expire =>
    simp only [step] at hs
    split at hs
    · simp at hs; subst hs; exact ⟨fun _ => rfl, by simp⟩
    · simp at hs
  | treeResp =>
    simp only [step] at hs
    split at hs
    · simp at hs; subst hs
      exact ⟨fun h => by rw [flushAll_no_parked] at h; omega, by simp⟩
    · simp at hs
  | ctorFail i _ =>
    simp only [step] at hs
    split at hs
    · rename_i t ht
      obtain ⟨t0, m0, pc0⟩ := t
      split at hs
      · rename_i hpc
        simp only at hpc; subst hpc
        have c := (mv ht .fin).1 .parked
        simp at c
        simp at hs; subst hs
        exact ⟨fun h => by rw [c] at h; exact hpk h, fun h => by rw [c]; exact hrq h⟩
      · simp at hs
    · simp at hs
  | thread i =>
    simp only [step] at hs
    split at hs
    · rename_i t ht
      obtain ⟨t0, m0, pc0⟩ := t
      have look : ∀ pc0, (pc0 = .lookup ∨ pc0 = .flushed) → s.thr[i]? = some ⟨t0, m0, pc0⟩ →
          Inv2 (lookupStep s i ⟨t0, m0, pc0⟩) := by
        intro pc0 hpc ht
        have hnp : pc0 ≠ .parked := by rcases hpc with rfl | rfl <;> simp
        unfold lookupStep
        cases hp : s.present
        · simp only [Bool.false_eq_true, ↓reduceIte]
          have c := (mv ht .parked).1 .parked
          simp [hnp] at c
          exact ⟨fun _ => rfl,
            fun _ => by show 0 < List.countP (at_ .parked) (s.thr.set i ⟨t0, m0, .parked⟩); omega⟩
        · simp only [↓reduceIte]
          have c := (mv ht .found).1 .parked
          simp [hnp] at c
          exact ⟨fun h => by rw [c] at h; have := hpk h; simp [hp] at this, fun h => by rw [c]; exact hrq h⟩
      cases pc0 with
      | lookup => simp only [stepTh] at hs; simp at hs; subst hs; exact look .lookup (.inl rfl) ht
      | flushed => simp only [stepTh] at hs; simp at hs; subst hs; exact look .flushed (.inr rfl) ht
      | parked => simp [stepTh] at hs
      | fin => simp [stepTh] at hs
      | found =>
        have c : ∀ b, b ≠ .parked → (s.thr.set i ⟨t0, m0, b⟩).countP (at_ .parked) = s.thr.countP (at_ .parked) := by
          intro b hb; have := (mv ht b).1 .parked; simp [hb] at this; omega
        simp only [stepTh] at hs
        split at hs
        · simp at hs
        · split at hs
          · simp at hs; subst hs
            exact ⟨fun h => by rw [c .fin (by simp)] at h; exact hpk h, fun h => by rw [c .fin (by simp)]; exact hrq h⟩
          · split at hs
            · simp at hs; subst hs
              exact ⟨fun h => by rw [c .fin (by simp)] at h; exact hpk h, fun h => by rw [c .fin (by simp)]; exact hrq h⟩
            · split at hs
              · simp at hs; subst hs
                exact ⟨fun h => by rw [c .fin (by simp)] at h; exact hpk h, fun h => by rw [c .fin (by simp)]; exact hrq h⟩
              · simp at hs; subst hs
                exact ⟨fun h => by rw [c .set (by simp)] at h; exact hpk h, fun h => by rw [c .set (by simp)]; exact hrq h⟩
      | set =>
        simp only [stepTh] at hs; simp at hs; subst hs
        exact ⟨fun h => by rw [flushAll_no_parked] at h; omega, by simp⟩
      | bind =>
        have c := (mv ht .fin).1 .parked
        simp at c
        simp only [stepTh] at hs; simp at hs; subst hs
        exact ⟨fun h => by rw [c] at h; exact hpk h, fun h => by rw [c]; exact hrq h⟩
    · simp at hs

theorem inv_run' (as : List Act) (s : St) (h : Inv s) (h2 : Inv2 s) : Inv (run s as) ∧ Inv2 (run s as) := by
  induction as generalizing s with
  | nil => exact ⟨h, h2⟩
  | cons a as ih =>
    simp only [run]
    split
    · rename_i s' hs
      exact ih _ (inv_step _ _ _ h h2 hs) (inv2_step _ _ _ h2 hs)
    · exact ih _ h h2

theorem inv_run (as : List Act) (s : St) (h : Inv s) (h2 : Inv2 s := by exact inv2_init) : Inv (run s as) :=
  (inv_run' as s h h2).1

/-- **finished stays finished, and is no longer listed**: a done marker is never removed, and a
token that is marked done is never among the listed instances again. -/
theorem c11_done_monotone (s s' : St) (a : Act) (tok : Nat) (hs : step s a = some s')
    (hd : tok ∈ s.doneToks) : tok ∈ s'.doneToks := by
  cases a with
  | arrive t m => simp [step] at hs; subst hs; exact hd
  | thread i =>
    simp only [step] at hs
    split at hs
    · rename_i t _
      rw [(stepTh_frame s s' i t hs).1]; exact hd
    · simp at hs
  | done t =>
    simp only [step] at hs
    split at hs
    · simp at hs; subst hs; simp [hd]
    · split at hs
      · simp at hs; subst hs; exact hd
      · simp at hs
  | expire =>
    simp only [step] at hs
    split at hs
    · simp at hs; subst hs; exact hd
    · simp at hs
  | localStart t =>
    simp only [step] at hs
    split at hs
    · simp at hs
    · simp at hs; subst hs; exact hd
  | peerReq => simp [step] at hs; subst hs; exact hd
  | treeResp =>
    simp only [step] at hs
    split at hs
    · simp at hs; subst hs; exact hd
    · simp at hs
  | doneRefused t =>
    simp only [step] at hs
    split at hs
    · simp at hs; subst hs; exact hd
    · simp at hs
  | ctorFail i _ =>
    simp only [step] at hs
    split at hs
    · split at hs
      · simp at hs; subst hs; simp [hd]
      · simp at hs
    · simp at hs

theorem c11_done_not_listed (as : List Act) (tok : Nat) (hd : tok ∈ (run {} as).doneToks) :
    tok ∉ (run {} as).live :=
  (inv_run as {} inv_init).disj tok hd

/-- **late messages are dropped without creating anything**: the `transmitMux` region for a
message whose token is done changes neither the listed instances, nor the constructor log, nor
what was handed over, nor the tree. -/
theorem c11_late_dropped (s s' : St) (i : Nat) (t : Th) (ht : s.thr[i]? = some t)
    (hpc : t.pc = .found) (hd : t.tok ∈ s.doneToks) (hs : step s (.thread i) = some s') :
    s'.live = s.live ∧ s'.constructed = s.constructed ∧ s'.handed = s.handed ∧
    s'.doneToks = s.doneToks ∧ s'.present = s.present := by
  simp only [step, ht] at hs
  obtain ⟨t0, m0, pc0⟩ := t
  simp at hpc; subst hpc
  simp only [stepTh] at hs
  split at hs
  · simp at hs
  · simp at hd
    simp [hd] at hs; subst hs; simp

/-- **no resurrection**: under every schedule the protocol constructor runs at most once per
token — in particular never again after the instance finished. -/
theorem c11_constructed_once (as : List Act) (tok : Nat) : (run {} as).constructed.count tok ≤ 1 := by
  have := (inv_run as {} inv_init).once tok; omega

/-- **the tree stays while it is used**: in every reachable state, if some instance whose
creation has completed is still listed, the tree is in the storage (so the instance's `Tree()`
works and a peer's request is answered) and no removal is scheduled. -/
theorem c11_tree_while_used (as : List Act) (h : (run {} as).settled ≠ []) :
    (run {} as).present = true ∧ (run {} as).armed = false :=
  (inv_run as {} inv_init).safe h

def bindTok (tok : Nat) (t : Th) : Bool := t.pc == .bind && t.tok == tok

theorem reg_eq_set_add_bind (tok : Nat) (l : List Th) :
    l.countP (regTok tok) = l.countP (setTok tok) + l.countP (bindTok tok) := by
  induction l with
  | nil => rfl
  | cons t l ih =>
    obtain ⟨t0, m0, pc0⟩ := t
    simp only [List.countP_cons, ih]
    cases pc0 <;> by_cases e : t0 = tok <;> simp [regTok, setTok, bindTok, e] <;> omega

/-- **the tree stays while a constructor runs**: in every reachable state, while some thread is
inside the protocol constructor of instance `tok` (listed, `Set` done, not yet bound), that instance
is listed, the tree is in the storage and no removal is scheduled — whatever other instances of the
tree finish meanwhile. -/
theorem c11_tree_while_constructing (as : List Act) (t : Th) (ht : t ∈ (run {} as).thr)
    (hpc : t.pc = .bind) :
    t.tok ∈ (run {} as).live ∧ (run {} as).present = true ∧ (run {} as).armed = false := by
  have hI := inv_run as {} inv_init
  generalize run {} as = s at *
  have hb : 0 < s.thr.countP (bindTok t.tok) := by
    rw [List.countP_pos_iff]; exact ⟨t, ht, by simp [bindTok, hpc]⟩
  have hr := reg_eq_set_add_bind t.tok s.thr
  have ho := hI.once t.tok
  have hs : t.tok ∈ s.settled := hI.ctor t.tok (by omega)
  exact ⟨hI.sub _ hs, hI.safe (by intro e; simp [e] at hs)⟩

/-- **grace**: only the timer removes the tree — every other step keeps a present tree. -/
theorem c11_grace (s s' : St) (a : Act) (hs : step s a = some s') (hp : s.present = true)
    (ha : ∀ (e : a = .expire), False) : s'.present = true := by
  cases a with
  | arrive t m => simp [step] at hs; subst hs; exact hp
  | thread i =>
    simp only [step] at hs
    split at hs
    · rename_i t _
      exact (stepTh_frame s s' i t hs).2 hp
    · simp at hs
  | done t =>
    simp only [step] at hs
    split at hs
    · simp at hs; subst hs; exact hp
    · split at hs
      · simp at hs; subst hs; exact hp
      · simp at hs
  | expire => exact (ha rfl).elim
  | localStart t =>
    simp only [step] at hs
    split at hs
    · simp at hs
    · simp at hs; subst hs; exact hp
  | peerReq => simp [step] at hs; subst hs; exact hp
  | treeResp =>
    simp only [step] at hs
    split at hs
    · simp at hs; subst hs; rfl
    · simp at hs
  | doneRefused t =>
    simp only [step] at hs
    split at hs
    · simp at hs; subst hs; exact hp
    · simp at hs
  | ctorFail i _ =>
    simp only [step] at hs
    split at hs
    · split at hs
      · simp at hs; subst hs; exact hp
      · simp at hs
    · simp at hs

/-- **released afterwards**: once no instance is listed any more and no arrival is inside the
`transmitMux` region, a tree that was used by an instance is scheduled for removal; the timer
then removes it. -/
theorem c11_released (as : List Act)
    (hu : (run {} as).used = true) (hp : (run {} as).present = true) (hl : (run {} as).live = [])
    (hq : ∀ t ∈ (run {} as).thr, t.pc = .lookup ∨ t.pc = .fin) :
    (run {} as).armed = true ∧
    ∃ s', step (run {} as) .expire = some s' ∧ s'.present = false := by
  have hI := inv_run as {} inv_init
  generalize run {} as = s at *
  have h0 : s.thr.countP (at_ .flushed) = 0 := by
    rw [List.countP_eq_zero]; intro t ht; rcases hq t ht with h | h <;> simp [at_, h]
  have h1 : s.thr.countP (at_ .found) = 0 := by
    rw [List.countP_eq_zero]; intro t ht; rcases hq t ht with h | h <;> simp [at_, h]
  have h2 : s.thr.countP (at_ .set) = 0 := by
    rw [List.countP_eq_zero]; intro t ht; rcases hq t ht with h | h <;> simp [at_, h]
  have h3 : s.thr.countP (at_ .bind) = 0 := by
    rw [List.countP_eq_zero]; intro t ht; rcases hq t ht with h | h <;> simp [at_, h]
  have ha := hI.rel hu hp hl h0 h1 h2 h3
  exact ⟨ha, { s with present := false, armed := false, requested := false }, by simp [step, ha], rfl⟩

/-! ### peers asking for the tree, other instances, refused and repeated `Done()` (round 4) -/

/-- **a peer's tree request changes nothing**: it is answered exactly when the tree is stored, and it
touches neither the tree, nor a scheduled removal (it does not prolong the grace period — and it does not
cancel the removal, which would keep the tree for ever), nor any instance. -/
theorem c11_peer_request_reads_only (s s' : St) (h : step s .peerReq = some s') :
    s'.present = s.present ∧ s'.armed = s.armed ∧ s'.live = s.live ∧ s'.settled = s.settled ∧
    s'.doneToks = s.doneToks ∧ s'.constructed = s.constructed ∧ s'.handed = s.handed ∧ s'.thr = s.thr ∧
    s'.peerAnswered = s.peerAnswered + (if s.present then 1 else 0) := by
  simp [step] at h; subst h
  cases s.present <;> simp

/-- **peers asking for the tree are served while it is used**: in every reachable state in which an
instance (whose creation has completed) is listed, a peer's request for the tree is answered. -/
theorem c11_peers_served_while_used (as : List Act) (h : (run {} as).settled ≠ []) :
    ∃ s', step (run {} as) .peerReq = some s' ∧ s'.peerAnswered = (run {} as).peerAnswered + 1 := by
  have hp := (c11_tree_while_used as h).1
  refine ⟨_, rfl, ?_⟩
  simp [hp]

theorem present_stays_without_expire (as : List Act) (s : St) (hp : s.present = true)
    (hne : ∀ a ∈ as, a ≠ .expire) : (run s as).present = true := by
  induction as generalizing s with
  | nil => exact hp
  | cons a as ih =>
    have hne' : ∀ a ∈ as, a ≠ .expire := fun a ha => hne a (List.mem_cons_of_mem _ ha)
    simp only [run]
    split
    · rename_i s' hs
      exact ih s' (c11_grace s s' a hs hp (fun e => hne a (List.mem_cons_self ..) e)) hne'
    · exact ih s hp hne'

/-- **… and for the whole grace period after the last one finished**: from any state in which the tree is
stored, whatever happens next — instances finishing, late messages, new runs, other peers' requests —
as long as the removal timer has not fired, a peer's request for the tree is answered. -/
theorem c11_peers_served_during_grace (as : List Act) (s : St) (hp : s.present = true)
    (hne : ∀ a ∈ as, a ≠ .expire) :
    ∃ s', step (run s as) .peerReq = some s' ∧ s'.peerAnswered = (run s as).peerAnswered + 1 := by
  have := present_stays_without_expire as s hp hne
  refine ⟨_, rfl, ?_⟩
  simp [this]

/-- **other instances are unaffected** when an instance declares itself done: every other token is listed
(and settled) exactly as before, nothing is handed over or constructed, no thread moves, the tree stays
stored, and only this token is added to the done markers. -/
theorem c11_done_others_unaffected (s s' : St) (tok : Nat) (h : step s (.done tok) = some s') :
    (∀ t, t ≠ tok → ((t ∈ s'.live ↔ t ∈ s.live) ∧ (t ∈ s'.settled ↔ t ∈ s.settled) ∧
        (t ∈ s'.doneToks ↔ t ∈ s.doneToks))) ∧
    s'.handed = s.handed ∧ s'.constructed = s.constructed ∧ s'.thr = s.thr ∧ s'.present = s.present := by
  simp only [step] at h
  split at h
  · simp at h; subst h
    refine ⟨fun t ht => ?_, rfl, rfl, rfl, rfl⟩
    simp [ht]
  · split at h
    · simp at h; subst h; simp
    · simp at h

/-- … and they go on being served: in every reachable state, a message for a listed instance (creation
completed) that arrives while no other arrival is inside the `transmitMux` region is handed to that very
instance — whichever other instances have finished before. -/
theorem c11_live_instance_served (as : List Act) (t m : Nat) (ht : t ∈ (run {} as).settled)
    (hm : (run {} as).thr.countP holdsMux = 0) :
    let s := run {} as
    let n := s.thr.length
    (run s [.arrive t m, .thread n, .thread n]).handed = s.handed ++ [(t, m)] ∧
    (run s [.arrive t m, .thread n, .thread n]).live = s.live ∧
    (run s [.arrive t m, .thread n, .thread n]).constructed = s.constructed := by
  have hI := inv_run as {} inv_init
  simp only
  generalize run {} as = s at *
  have hlive : t ∈ s.live := hI.sub t ht
  have hnd : t ∉ s.doneToks := fun hd => hI.disj t hd hlive
  have hp : s.present = true := (hI.safe (by intro e; simp [e] at ht)).1
  simp [run, step, stepTh, lookupStep, hp, hm, holdsMux, hnd, hlive, List.countP_append]

/-- `Done()` refused by the instance's `OnDoneCallback`, and `Done()` called once more on a finished
instance (in any reachable state), change nothing at all -/
theorem c11_refused_or_repeated_done_is_noop (as : List Act) (tok : Nat) :
    (∀ s', step (run {} as) (.doneRefused tok) = some s' → s' = run {} as) ∧
    (tok ∈ (run {} as).doneToks → step (run {} as) (.done tok) = some (run {} as)) := by
  have hI := inv_run as {} inv_init
  generalize run {} as = s at *
  constructor
  · intro s' h
    simp only [step] at h
    split at h
    · simp at h; exact h.symm
    · simp at h
  · intro hd
    have hns : tok ∉ s.settled := fun hs => hI.disj tok hd (hI.sub tok hs)
    simp [step, hns, hd]

/-- non-vacuity: two runs share the tree, one finishes, the other is still served and a peer still gets
the tree; a refused `Done()` and a repeated one change nothing; after the last one finished the peer is
served during the grace period and no longer after it -/
example :
    let as : List Act := [.localStart 1, .thread 0, .thread 0, .localStart 2, .thread 1, .thread 1, .doneRefused 1, .done 1,
      .done 1, .peerReq, .arrive 2 7, .thread 2, .thread 2, .done 2, .peerReq, .expire, .peerReq]
    (run {} as).doneToks = [1, 2] ∧ (run {} as).handed = [(2, 7)] ∧ (run {} as).peerAsked = 3 ∧
    (run {} as).peerAnswered = 2 ∧ (run {} as).present = false ∧
    (run {} (as.take 7)).live = [1, 2] := by decide


/-! ### the request path: parked messages (round 4; the assumption "a message that finds no tree is not followed" is gone) -/

/-- **nothing stays parked while the tree is stored**: in every reachable state a message waiting in the
pending list waits for a tree that is not there — whenever the tree is stored (by a peer's answer, a
local start, or the creation of an instance for an arrival that had looked the tree up before it was
released) everything parked for it is given to `TransmitMsg` again. -/
theorem c11_parked_not_stuck (as : List Act) (t : Th) (ht : t ∈ (run {} as).thr) (hp : t.pc = .parked) :
    (run {} as).present = false := by
  have h2 := (inv_run' as {} inv_init inv2_init).2
  apply h2.pk
  rw [List.countP_pos_iff]
  exact ⟨t, ht, by simp [at_, hp]⟩

/-- **the peer's answer is accepted and releases what waits**: in every reachable state in which the tree
is requested, the tree response is accepted, stores the tree, and no message stays parked. -/
theorem c11_response_releases_parked (as : List Act) (hr : (run {} as).requested = true) :
    ∃ s', step (run {} as) .treeResp = some s' ∧ s'.present = true ∧ ∀ t ∈ s'.thr, t.pc ≠ .parked := by
  have h2 := (inv_run' as {} inv_init inv2_init).2
  generalize run {} as = s at *
  have hp : s.present = false := h2.pk (h2.rq hr)
  refine ⟨{ s with present := true, armed := false, requested := false, thr := flushAll s.thr },
    by simp [step, hr, hp], rfl, ?_⟩
  intro t ht
  simp only [flushAll, List.mem_map] at ht
  obtain ⟨u, _, rfl⟩ := ht
  exact (flushT_pc u).1

/-- **the creation path as it was before /repo fafcac0 leaves a message parked for ever**: arrival A looks
the tree up and waits; the last instance finishes, the grace period passes; message B misses the tree (parked,
tree requested); A goes on and stores the tree without a flush: B is parked although the tree is stored, and
the peer's answer is refused (the slot is not requested any more).  The code as it is flushes B. -/
theorem c11_old_creation_leaves_message_parked :
    let sch : List Act := [.localStart 1, .thread 0, .thread 0, .arrive 2 5, .thread 1, .done 1, .expire,
      .arrive 3 6, .thread 2, .thread 1, .thread 1]
    (runOld {} sch).present = true ∧ (runOld {} sch).thr[2]? = some ⟨3, 6, .parked⟩ ∧
    step (runOld {} sch) .treeResp = none ∧
    (run {} sch).present = true ∧ (run {} sch).thr[2]? = some ⟨3, 6, .flushed⟩ := by decide

/-- non-vacuity: a message misses the released tree, is parked, the peer's answer arrives, the message creates
its instance -/
example :
    let sch : List Act := [.localStart 1, .thread 0, .thread 0, .done 1, .expire, .arrive 2 5, .thread 1,
      .treeResp, .thread 1, .thread 1, .thread 1, .thread 1]
    (run {} (sch.take 7)).requested = true ∧ (run {} (sch.take 7)).thr[1]? = some ⟨2, 5, .parked⟩ ∧
    (run {} sch).live = [2] ∧ (run {} sch).handed = [(2, 5)] ∧ (run {} sch).constructed = [1, 2] := by decide


/-! ### non-vacuity -/
/-- a run: message creates instance 1, a second run 2 shares the tree, 1 finishes (tree stays: 2
uses it), a late message for 1 is dropped, 2 finishes (removal armed), timer fires (released) -/
private def demo : List Act :=
  [.localStart 9, .thread 0, .thread 0, .arrive 1 11, .thread 1, .thread 1, .thread 1, .thread 1,
   .arrive 2 12, .thread 2, .thread 2, .thread 2, .thread 2, .done 9, .done 1,
   .arrive 1 13, .thread 3, .thread 3, .done 2, .expire]
example : (run {} demo).doneToks = [9, 1, 2] ∧ (run {} demo).constructed = [9, 1, 2] ∧
    (run {} demo).handed = [(1, 11), (2, 12)] ∧ (run {} demo).present = false ∧
    (run {} (demo.take 19)).present = true ∧ (run {} (demo.take 19)).armed = true := by decide

/-- a constructor of run 2 is running while run 1 finishes: the tree stays, no removal is scheduled -/
private def demo2 : List Act :=
  [.localStart 1, .thread 0, .thread 0, .arrive 2 5, .thread 1, .thread 1, .thread 1, .done 1]
example : (run {} demo2).thr[1]? = some ⟨2, 5, .bind⟩ ∧ (run {} demo2).doneToks = [1] ∧
    (run {} demo2).live = [2] ∧ (run {} demo2).present = true ∧ (run {} demo2).armed = false ∧
    step (run {} demo2) (.done 2) = none := by decide

/-! ### tokens that name no node of the tree, constructors that fail (round 5)

Two ways a tree was never released, both reproduced on the real code
(`notes/probes/onet_c11_tree_pinned_probe_test.go.txt`) and repaired in /repo: a message whose token carries the
tree's id and an unknown node id cancelled the scheduled removal (its lookup) and returned on the error path
without scheduling it again; and `CreateProtocol` left the node of an instance whose constructor failed listed
for ever.  `rel` (the invariant behind `c11_released`) did not close for the first; the second left
`c11_released` vacuous (`live` never empty), which `c11_listed_built_or_building` now excludes. -/

/-- **a message for a node that is not in the tree is refused without a trace**: the `transmitMux` region
for such a token changes neither the listed instances, nor the done marks, nor the constructor log, nor what
was handed over, nor the tree — and when no instance is listed, the removal its lookup cancelled is
scheduled again. -/
theorem c11_bad_token_refused (s s' : St) (i : Nat) (t : Th) (ht : s.thr[i]? = some t)
    (hpc : t.pc = .found) (hb : badTok t.tok = true) (hnd : t.tok ∉ s.doneToks) (hnl : t.tok ∉ s.live)
    (hs : step s (.thread i) = some s') :
    s'.live = s.live ∧ s'.constructed = s.constructed ∧ s'.handed = s.handed ∧
    s'.doneToks = s.doneToks ∧ s'.present = s.present ∧ (s.live = [] → s'.armed = true) := by
  simp only [step, ht] at hs
  obtain ⟨t0, m0, pc0⟩ := t
  simp at hpc; subst hpc
  simp only [stepTh] at hs
  split at hs
  · simp at hs
  · simp at hnd hnl hb
    simp [hnd, hnl, hb] at hs; subst hs; simp
    intro h; exact .inl h

/-- **the code before the repair never releases the tree**: instance 1 runs and finishes (removal scheduled), a
message for a node that is not in the tree arrives during the grace period: its lookup cancels the removal and
nothing schedules it again — no instance, no thread, no removal: the timer never fires.  The code as it is
schedules the removal again and the timer releases the tree. -/
theorem c11_old_bad_token_pins_tree :
    let sch : List Act := [.localStart 1, .thread 0, .thread 0, .done 1, .arrive 1000 5, .thread 1, .thread 1]
    ((runOld5 {} sch).used = true ∧ (runOld5 {} sch).present = true ∧ (runOld5 {} sch).live = [] ∧
      (runOld5 {} sch).armed = false ∧ (runOld5 {} sch).thr.all (fun t => t.pc == .fin) = true ∧
      step (runOld5 {} sch) .expire = none) ∧
    ((run {} sch).armed = true ∧ (run {} (sch ++ [.expire])).present = false) := by decide

/-- every listed instance has been built or is being built: its creation has completed, or a thread is inside it -/
def Listed (s : St) : Prop := ∀ tok ∈ s.live, tok ∈ s.settled ∨ 0 < s.thr.countP (regTok tok)

theorem listed_step (s s' : St) (a : Act) (hI : Inv s) (hL : Listed s) (hs : step s a = some s') : Listed s' := by
  cases a with
  | arrive tok m =>
    simp [step] at hs; subst hs
    intro x hx; rcases hL x hx with h | h
    · exact .inl h
    · right; show 0 < List.countP (regTok x) (s.thr ++ [_]); rw [List.countP_append]; omega
  | peerReq => simp [step] at hs; subst hs; exact hL
  | doneRefused tok =>
    simp only [step] at hs
    split at hs
    · simp at hs; subst hs; exact hL
    · simp at hs
  | expire =>
    simp only [step] at hs
    split at hs
    · simp at hs; subst hs; exact hL
    · simp at hs
  | treeResp =>
    simp only [step] at hs
    split at hs
    · simp at hs; subst hs
      intro x hx; rcases hL x hx with h | h
      · exact .inl h
      · right; show 0 < (flushAll s.thr).countP (regTok x); rw [countP_flushAll (flush_regTok x)]; exact h
    · simp at hs
  | done tok =>
    simp only [step] at hs
    split at hs
    · simp at hs; subst hs
      intro x hx
      simp at hx
      rcases hL x hx.1 with h | h
      · left; simp [h, hx.2]
      · exact .inr h
    · split at hs
      · simp at hs; subst hs; exact hL
      · simp at hs
  | localStart tok =>
    simp only [step] at hs
    split at hs
    · simp at hs
    · simp at hs; subst hs
      intro x hx
      simp at hx
      show x ∈ s.settled ∨ 0 < List.countP (regTok x) (s.thr ++ [_])
      rw [List.countP_append]
      rcases hx with hx | hx
      · rcases hL x hx with h | h
        · exact .inl h
        · right; omega
      · subst hx; right; simp [regTok]
  | ctorFail i _ =>
    simp only [step] at hs
    split at hs
    · rename_i t ht
      obtain ⟨tok0, m0, pc0⟩ := t
      split at hs
      · rename_i hpc
        simp only at hpc; subst hpc
        simp at hs; subst hs
        intro x hx
        simp at hx
        have cR := (mv ht .fin).2.2 x
        have e' : ¬ tok0 = x := fun h => hx.2 h.symm
        simp [e'] at cR
        rcases hL x hx.1 with h | h
        · left; simp [h, hx.2]
        · right; show 0 < (s.thr.set i ⟨tok0, m0, .fin⟩).countP (regTok x); omega
      · simp at hs
    · simp at hs
  | thread i =>
    simp only [step] at hs
    split at hs
    · rename_i t ht
      obtain ⟨tok0, m0, pc0⟩ := t
      have look : ∀ pc0, (pc0 = .lookup ∨ pc0 = .flushed) → s.thr[i]? = some ⟨tok0, m0, pc0⟩ →
          Listed (lookupStep s i ⟨tok0, m0, pc0⟩) := by
        intro pc0 hpc ht
        have hns : pc0 ≠ .set ∧ pc0 ≠ .bind := by rcases hpc with rfl | rfl <;> simp
        unfold lookupStep
        split
        · intro x hx
          have cR := (mv ht .found).2.2 x
          simp [hns.1, hns.2] at cR
          rcases hL x hx with h | h
          · exact .inl h
          · right; show 0 < (s.thr.set i ⟨tok0, m0, .found⟩).countP (regTok x); omega
        · intro x hx
          have cR := (mv ht .parked).2.2 x
          simp [hns.1, hns.2] at cR
          rcases hL x hx with h | h
          · exact .inl h
          · right; show 0 < (s.thr.set i ⟨tok0, m0, .parked⟩).countP (regTok x); omega
      cases pc0 with
      | lookup => simp only [stepTh] at hs; simp at hs; subst hs; exact look .lookup (.inl rfl) ht
      | flushed => simp only [stepTh] at hs; simp at hs; subst hs; exact look .flushed (.inr rfl) ht
      | parked => simp [stepTh] at hs
      | fin => simp [stepTh] at hs
      | found =>
        have keep : ∀ s1 : St, s1.live = s.live → s1.settled = s.settled → s1.thr = s.thr.set i ⟨tok0, m0, .fin⟩ →
            Listed s1 := by
          intro s1 e1 e2 e3 x hx
          rw [e1] at hx; rw [e2, e3]
          have cR := (mv ht .fin).2.2 x
          simp at cR
          rcases hL x hx with h | h
          · exact .inl h
          · right; omega
        simp only [stepTh] at hs
        split at hs
        · simp at hs
        · split at hs
          · simp at hs; subst hs; exact keep _ rfl rfl rfl
          · split at hs
            · simp at hs; subst hs; exact keep _ rfl rfl rfl
            · split at hs
              · simp at hs; subst hs; exact keep _ rfl rfl rfl
              · simp at hs; subst hs
                intro x hx
                simp at hx
                have cR := (mv ht .set).2.2 x
                simp at cR
                show x ∈ s.settled ∨ 0 < (s.thr.set i ⟨tok0, m0, .set⟩).countP (regTok x)
                rcases hx with hx | hx
                · rcases hL x hx with h | h
                  · exact .inl h
                  · right; omega
                · subst hx; right; simp at cR; omega
      | set =>
        simp only [stepTh] at hs; simp at hs; subst hs
        intro x hx
        have cR := (mv ht .bind).2.2 x
        simp at cR
        show x ∈ (if tok0 ∈ s.live then s.settled ++ [tok0] else s.settled) ∨
          0 < (flushAll (s.thr.set i ⟨tok0, m0, .bind⟩)).countP (regTok x)
        rw [countP_flushAll (flush_regTok x)]
        rcases hL x hx with h | h
        · left; split <;> simp [h]
        · right; omega
      | bind =>
        simp only [stepTh] at hs; simp at hs; subst hs
        intro x hx
        have cR := (mv ht .fin).2.2 x
        simp at cR
        show x ∈ s.settled ∨ 0 < (s.thr.set i ⟨tok0, m0, .fin⟩).countP (regTok x)
        rcases hL x hx with h | h
        · exact .inl h
        · by_cases e : tok0 = x
          · subst e
            left
            apply hI.ctor
            have hb : 0 < s.thr.countP (bindTok tok0) := by
              rw [List.countP_pos_iff]
              exact ⟨⟨tok0, m0, .bind⟩, List.mem_of_getElem? ht, by simp [bindTok]⟩
            have := reg_eq_set_add_bind tok0 s.thr
            omega
          · simp [e] at cR; right; omega
    · simp at hs

theorem listed_run (as : List Act) : Listed (run {} as) := by
  suffices h : ∀ (as : List Act) (s : St), Inv s → Inv2 s → Listed s → Listed (run s as) from
    h as {} inv_init inv2_init (by intro x hx; simp at hx)
  intro as
  induction as with
  | nil => intro s _ _ h; exact h
  | cons a as ih =>
    intro s hI h2 hL
    simp only [run]
    split
    · rename_i s' hs
      exact ih s' (inv_step s s' a hI h2 hs) (inv2_step s s' a h2 hs) (listed_step s s' a hI hL hs)
    · exact ih s hI h2 hL

/-- **nobody is listed without being built**: in every reachable state a listed instance either has completed its
creation (it can be used, and can declare itself done) or a thread is inside its creation right now — so once no
thread is inside a creation, every listed instance is a complete one: a constructor that failed (for an arrival as
for a local start) leaves nothing listed behind that would keep the tree for ever. -/
theorem c11_listed_built_or_building (as : List Act) (tok : Nat) (h : tok ∈ (run {} as).live) :
    tok ∈ (run {} as).settled ∨ ∃ t ∈ (run {} as).thr, (t.pc = .set ∨ t.pc = .bind) ∧ t.tok = tok := by
  rcases listed_run as tok h with h | h
  · exact .inl h
  · right
    rw [List.countP_pos_iff] at h
    obtain ⟨t, ht, hp⟩ := h
    exact ⟨t, ht, by simpa [regTok] using hp⟩

/-- **a failed constructor leaves a finished token behind**: the node is unlisted and marked done, nothing is handed
over, the tree stays for now (the grace period runs if no other instance uses it); later messages for the token
are dropped (`c11_late_dropped`) and the constructor is never called for it again (`c11_constructed_once`). -/
theorem c11_failed_constructor_cleans_up (s s' : St) (i : Nat) (t : Th) (ht : s.thr[i]? = some t) (hpc : t.pc = .bind)
    (n : Bool) (hs : step s (.ctorFail i n) = some s') :
    t.tok ∉ s'.live ∧ t.tok ∈ s'.doneToks ∧ s'.handed = s.handed ∧ s'.present = s.present ∧
    (∀ x, x ≠ t.tok → (x ∈ s'.live ↔ x ∈ s.live)) ∧ (s'.live = [] → s'.armed = true) := by
  simp only [step, ht, hpc, if_true] at hs
  simp at hs; subst hs
  refine ⟨by simp, by simp, rfl, rfl, ?_, ?_⟩
  · intro x hx; simp [hx]
  · intro h; simp at h; simp; left; exact h

/-- **`CreateProtocol` as it was left the node listed for ever**: the constructor of a local start fails; the node stays
listed although every thread has ended and nobody holds the instance (the caller got the error): no removal is
scheduled, the tree is never released.  The code as it is unlists it and the tree goes after the grace period. -/
theorem c11_old_failed_local_start_stays_listed :
    let sch : List Act := [.localStart 1, .thread 0, .ctorFail 0 false]
    ((runOld5 {} sch).live = [1] ∧ (runOld5 {} sch).thr.all (fun t => t.pc == .fin) = true ∧
      (runOld5 {} sch).armed = false ∧ step (runOld5 {} sch) .expire = none) ∧
    ((run {} sch).live = [] ∧ (run {} sch).doneToks = [1] ∧ (run {} sch).armed = true ∧
      (run {} (sch ++ [.expire])).present = false) := by decide

/-- the three ways a constructor produces no instance for an arrival: it returns an error; it panics (a service's
`NewProtocol`: `serviceManager.newProtocol` recovers the panic into an error); it returns `(nil, nil)` -/
inductive NoInstance where | error | panic | nilNil deriving DecidableEq, Repr

def noInstanceAct (i : Nat) : NoInstance → Act
  | .error => .ctorFail i false
  | .panic => .ctorFail i false
  | .nilNil => .ctorFail i true

/-- **whatever way the constructor fails, nothing stays behind**: for each of the three outcomes `TransmitMsg` ends in
`nodeDelete` — the node is unlisted, the token marked finished (later messages are dropped, the constructor never runs
for it again), nothing is handed over, the other instances are untouched, and the removal of the tree is scheduled
when nothing else is listed. -/
theorem c11_every_constructor_failure_cleans_up (s s' : St) (i : Nat) (t : Th) (ht : s.thr[i]? = some t)
    (hpc : t.pc = .bind) (o : NoInstance) (hs : step s (noInstanceAct i o) = some s') :
    t.tok ∉ s'.live ∧ t.tok ∈ s'.doneToks ∧ s'.handed = s.handed ∧ s'.present = s.present ∧
    (∀ x, x ≠ t.tok → (x ∈ s'.live ↔ x ∈ s.live)) ∧ (s'.live = [] → s'.armed = true) := by
  cases o <;> exact c11_failed_constructor_cleans_up s s' i t ht hpc _ hs

/-- **`TransmitMsg` as it was returned without a trace when the constructor gave neither an instance nor an error**: the
node stays listed although every thread has ended and no instance exists (nobody can declare it done), no done mark,
no removal scheduled: the tree is never released (and on the real code every later message for the token runs the
constructor again).  The code as it is unlists it, marks it and the tree goes after the grace period. -/
theorem c11_old_nil_instance_stays_listed :
    let sch : List Act := [.arrive 240 5, .thread 0, .treeResp, .thread 0, .thread 0, .thread 0, .ctorFail 0 true]
    ((runOld5 {} sch).live = [240] ∧ (runOld5 {} sch).doneToks = [] ∧ (runOld5 {} sch).thr.all (fun t => t.pc == .fin) = true ∧
      (runOld5 {} sch).armed = false ∧ step (runOld5 {} sch) .expire = none) ∧
    ((run {} sch).live = [] ∧ (run {} sch).doneToks = [240] ∧ (run {} sch).handed = [] ∧ (run {} sch).armed = true ∧
      (run {} (sch ++ [.expire])).present = false) := by decide

/-- non-vacuity: the constructor of an arrival fails while another instance is listed (tree stays, not armed); a late
message for the failed token is dropped; a bad-token message while an instance is listed does not arm the removal -/
example :
    let sch : List Act := [.localStart 1, .thread 0, .thread 0, .arrive 2 5, .thread 1, .thread 1, .thread 1, .ctorFail 1 false,
      .arrive 2 6, .thread 2, .thread 2, .arrive 1000 7, .thread 3, .thread 3]
    (run {} sch).live = [1] ∧ (run {} sch).doneToks = [2] ∧ (run {} sch).constructed = [1, 2] ∧ (run {} sch).handed = [] ∧
    (run {} sch).armed = false ∧ (run {} sch).present = true := by decide

/-! ## the tree store on its own, for all tree ids at once (`Model/C11Store.lean`) -/
/-! ### the life of a token refines `unborn → creating → running → finished`

`phase s tok`: 3 = marked finished (`instancesInfo`), 2 = listed and its creation completed (`Set` done), 1 = listed, the
creation still under way (between the listing and `Set`), 0 = the server knows nothing of it.  Every step of the model —
any thread, any `Done`, expiry, local start, failing constructor, peer traffic — moves every token's phase forward or not
at all: nothing is ever listed again once finished, nothing falls back to "unknown" (which would let the next message
create it again), a completed creation is not undone.  Holds from EVERY state, not only the reachable ones. -/

def phase (s : St) (tok : Nat) : Nat :=
  if tok ∈ s.doneToks then 3 else if tok ∈ s.settled then 2 else if tok ∈ s.live then 1 else 0

theorem phase_mono_of (s s' : St) (tok : Nat) (h1 : ∀ x ∈ s.doneToks, x ∈ s'.doneToks)
    (h2 : ∀ x ∈ s.settled, x ∈ s'.settled ∨ x ∈ s'.doneToks) (h3 : ∀ x ∈ s.live, x ∈ s'.live ∨ x ∈ s'.doneToks) :
    phase s tok ≤ phase s' tok := by
  unfold phase
  by_cases hd : tok ∈ s.doneToks
  · simp [hd, h1 tok hd]
  · simp only [hd, if_false]
    by_cases hs : tok ∈ s.settled
    · simp only [hs, if_true]
      rcases h2 tok hs with h | h
      · by_cases hd' : tok ∈ s'.doneToks <;> simp [hd', h]
      · simp [h]
    · simp only [hs, if_false]
      by_cases hl : tok ∈ s.live
      · simp only [hl, if_true]
        rcases h3 tok hl with h | h
        · by_cases hd' : tok ∈ s'.doneToks
          · simp [hd']
          · by_cases hs' : tok ∈ s'.settled <;> simp [hd', hs', h]
        · simp [h]
      · simp [hl]

private theorem mem_filter_ne (l : List Nat) (t x : Nat) (hx : x ∈ l) : x ∈ l.filter (· != t) ∨ x = t := by
  by_cases e : x = t
  · exact .inr e
  · exact .inl (List.mem_filter.mpr ⟨hx, by simp [e]⟩)

theorem phase_stepTh (s s' : St) (i : Nat) (t : Th) (hs : stepTh s i t = some s') (tok : Nat) :
    phase s tok ≤ phase s' tok := by
  obtain ⟨t0, m0, pc0⟩ := t
  have same : ∀ x : St, x.doneToks = s.doneToks → x.settled = s.settled → x.live = s.live → phase s tok ≤ phase x tok := by
    intro x e1 e2 e3
    exact phase_mono_of s x tok (by rw [e1]; exact fun _ h => h) (by rw [e2]; exact fun _ h => .inl h)
      (by rw [e3]; exact fun _ h => .inl h)
  cases pc0 with
  | lookup => simp only [stepTh] at hs; simp at hs; subst hs; apply same <;> (unfold lookupStep; split <;> rfl)
  | flushed => simp only [stepTh] at hs; simp at hs; subst hs; apply same <;> (unfold lookupStep; split <;> rfl)
  | parked => simp [stepTh] at hs
  | fin => simp [stepTh] at hs
  | found =>
    simp only [stepTh] at hs
    split at hs
    · simp at hs
    · split at hs
      · simp at hs; subst hs; exact same _ rfl rfl rfl
      · split at hs
        · simp at hs; subst hs; exact same _ rfl rfl rfl
        · split at hs
          · simp at hs; subst hs; exact same _ rfl rfl rfl
          · simp at hs; subst hs
            exact phase_mono_of _ _ tok (fun _ h => h) (fun _ h => .inl h) (fun x h => .inl (by simp [h]))
  | set =>
    simp only [stepTh] at hs; simp at hs; subst hs
    refine phase_mono_of _ _ tok (fun _ h => h) (fun x h => .inl ?_) (fun _ h => .inl h)
    simp only; split <;> simp [h]
  | bind => simp only [stepTh] at hs; simp at hs; subst hs; exact same _ rfl rfl rfl

/-- **one step never moves a token backwards** -/
theorem c11_phase_step (s s' : St) (a : Act) (hs : step s a = some s') (tok : Nat) : phase s tok ≤ phase s' tok := by
  have same : ∀ x : St, x.doneToks = s.doneToks → x.settled = s.settled → x.live = s.live → phase s tok ≤ phase x tok := by
    intro x e1 e2 e3
    exact phase_mono_of s x tok (by rw [e1]; exact fun _ h => h) (by rw [e2]; exact fun _ h => .inl h)
      (by rw [e3]; exact fun _ h => .inl h)
  cases a with
  | arrive t m => simp [step] at hs; subst hs; exact same _ rfl rfl rfl
  | thread i =>
    simp only [step] at hs
    split at hs
    · rename_i t _; exact phase_stepTh s s' i t hs tok
    · simp at hs
  | done t =>
    simp only [step] at hs
    split at hs
    · simp at hs; subst hs
      refine phase_mono_of _ _ tok (fun x h => by simp [h]) (fun x h => ?_) (fun x h => ?_)
      · rcases mem_filter_ne s.settled t x h with h' | h'
        · exact .inl h'
        · exact .inr (by simp [h'])
      · rcases mem_filter_ne s.live t x h with h' | h'
        · exact .inl h'
        · exact .inr (by simp [h'])
    · split at hs
      · simp at hs; subst hs; exact Nat.le_refl _
      · simp at hs
  | expire =>
    simp only [step] at hs
    split at hs
    · simp at hs; subst hs; exact same _ rfl rfl rfl
    · simp at hs
  | localStart t =>
    simp only [step] at hs
    split at hs
    · simp at hs
    · simp at hs; subst hs
      exact phase_mono_of _ _ tok (fun _ h => h) (fun _ h => .inl h) (fun x h => .inl (by simp [h]))
  | peerReq => simp [step] at hs; subst hs; exact same _ rfl rfl rfl
  | treeResp =>
    simp only [step] at hs
    split at hs
    · simp at hs; subst hs; exact same _ rfl rfl rfl
    · simp at hs
  | doneRefused t =>
    simp only [step] at hs
    split at hs
    · simp at hs; subst hs; exact Nat.le_refl _
    · simp at hs
  | ctorFail i _ =>
    simp only [step] at hs
    split at hs
    · rename_i t _
      split at hs
      · simp at hs; subst hs
        refine phase_mono_of _ _ tok (fun x h => by simp [h]) (fun x h => ?_) (fun x h => ?_)
        · rcases mem_filter_ne s.settled t.tok x h with h' | h'
          · exact .inl h'
          · exact .inr (by simp [h'])
        · rcases mem_filter_ne s.live t.tok x h with h' | h'
          · exact .inl h'
          · exact .inr (by simp [h'])
      · simp at hs
    · simp at hs

/-- **refinement of the token life cycle over runs**: from any state, along any schedule, the phase of every token only
grows — a finished token stays finished (`phase = 3` is final), a listed one is never forgotten -/
theorem c11_lifecycle_refines (as : List Act) (s : St) (tok : Nat) : phase s tok ≤ phase (run s as) tok := by
  induction as generalizing s with
  | nil => exact Nat.le_refl _
  | cons a as ih =>
    simp only [run]
    cases h : step s a with
    | none => exact ih s
    | some s' => exact Nat.le_trans (c11_phase_step s s' a h tok) (ih s')

/-- in reachable states the phases are what they are called: a finished token is not listed, a token whose creation
has completed is listed -/
theorem c11_phases_exclusive (as : List Act) (tok : Nat) :
    (phase (run {} as) tok = 3 → tok ∉ (run {} as).live) ∧ (phase (run {} as) tok = 2 → tok ∈ (run {} as).live) := by
  have hi := inv_run as {} inv_init
  refine ⟨fun h => ?_, fun h => ?_⟩
  · apply hi.disj tok
    unfold phase at h
    by_cases hd : tok ∈ (run {} as).doneToks
    · exact hd
    · simp only [hd, if_false] at h
      split at h
      · omega
      · split at h <;> omega
  · apply hi.sub tok
    unfold phase at h
    by_cases hd : tok ∈ (run {} as).doneToks
    · simp [hd] at h
    · simp only [hd, if_false] at h
      by_cases hs : tok ∈ (run {} as).settled
      · exact hs
      · simp only [hs, if_false] at h
        split at h <;> omega

/-- the variant a developer may want ("the done markers pile up: drop them together with the released tree", seeded change
C11r3-A): expiry forgets the marks — a finished token falls back to `unborn`, and the next late message creates it again -/
def stepForget (s : St) : Act → Option St
  | .expire => if s.armed then some { s with present := false, armed := false, requested := false, doneToks := [] } else none
  | a => step s a

/-- negation witness: with `stepForget` the phase of token 1 goes 3 → 0 -/
theorem c11_forgetting_marks_breaks_lifecycle :
    ∃ s s', stepForget s .expire = some s' ∧ phase s 1 = 3 ∧ phase s' 1 = 0 := by
  refine ⟨{ present := true, armed := true, used := true, doneToks := [1], constructed := [1] }, _, rfl, by decide, by decide⟩

/-- non-vacuity: token 1 passes through all four phases; token 2's constructor fails: 0 → 1 → 2 → 3 without ever running -/
example : phase (run {} [.localStart 1]) 1 = 1 ∧ phase (run {} [.localStart 1, .thread 0]) 1 = 2 ∧
    phase (run {} [.localStart 1, .thread 0, .thread 0, .done 1]) 1 = 3 ∧
    phase (run {} [.localStart 1, .thread 0, .thread 0, .arrive 2 5, .thread 1, .thread 1, .thread 1, .ctorFail 1 false]) 2 = 3 := by decide

/-- **the set of finished tokens only grows** — along any schedule, from any state, whatever else starts and finishes
meanwhile and however many: a done mark is never dropped (neither with the released tree — seeded C11r3-A —, nor because
many other instances finished since — seeded C11r7-B bounded the list at 1024) -/
theorem c11_done_for_ever (as : List Act) (s : St) (tok : Nat) (hd : tok ∈ s.doneToks) : tok ∈ (run s as).doneToks := by
  induction as generalizing s with
  | nil => exact hd
  | cons a as ih =>
    simp only [run]
    cases h : step s a with
    | none => exact ih s hd
    | some s' => exact ih s' (c11_done_monotone s s' a tok h hd)

/-- and so a late message is dropped after any amount of other activity: the `transmitMux` region of a message whose
token finished at some point in the past finds the mark -/
theorem c11_late_dropped_after_anything (as : List Act) (s : St) (tok : Nat) (hd : tok ∈ s.doneToks) (i : Nat) (t : Th)
    (ht : (run s as).thr[i]? = some t) (hpc : t.pc = .found) (htok : t.tok = tok) (s' : St)
    (hs : step (run s as) (.thread i) = some s') :
    s'.live = (run s as).live ∧ s'.constructed = (run s as).constructed ∧ s'.handed = (run s as).handed :=
  let h := c11_late_dropped (run s as) s' i t ht hpc (by rw [htok]; exact c11_done_for_ever as s tok hd) hs
  ⟨h.1, h.2.1, h.2.2.1⟩


namespace Store
open C11.Store

theorem at_step (s : St) (o : Op) (id : Nat) :
    (step s o).at_ id = match restrict id o with
      | some o1 => step1 (s.at_ id) o1
      | none => s.at_ id := by
  cases o with
  | close => simp [step, restrict]
  | on j o' =>
    by_cases e : j = id
    · subst e
      cases o' <;> simp [step, restrict, upd]
    · have e' : ¬ id = j := fun h => e h.symm
      cases o' <;> simp [step, restrict, upd, e, e']

/-- **tree ids do not interfere**: under every sequence of store operations, on any ids and in any
order, what the store holds for one id is what a store holding only that id would hold after that
id's own operations (and the `Close`s) — the single-tree view that the C11 model takes is exact. -/
theorem independent (s : St) (ops : List Op) (id : Nat) :
    (run s ops).at_ id = run1 (s.at_ id) (ops.filterMap (restrict id)) := by
  induction ops generalizing s with
  | nil => rfl
  | cons o os ih =>
    simp only [run, List.filterMap_cons]
    rw [ih, at_step]
    cases h : restrict id o <;> simp [run1]

theorem reap_unarmed (t : St1) (g : Nat) (h : t.armed = none) :
    (step1 t (.reap g)).slot = t.slot ∧ (step1 t (.reap g)).armed = none ∧
    (step1 t (.reap g)).closed = t.closed := by
  unfold step1
  by_cases hg : g ∈ t.firing <;> simp [hg, h]

theorem timer_unarmed (t : St1) (h : t.armed = none) : step1 t .timer = t := by
  simp [step1, h]

theorem remove_closed (t : St1) (h : t.closed = true) : step1 t .remove = t := by
  simp [step1, h]

/-- operations that neither schedule a removal nor store a tree -/
def quiet : Op1 → Bool
  | .remove => false
  | .set _ => false
  | _ => true

/-- **a cancelled removal deletes nothing**: once `Set` has stored a tree (cancelling whatever removal
was scheduled), no sequence of timer firings, removal routines getting the lock — including routines
of removals scheduled BEFORE the `Set`, whose timers had already fired —, refreshes, registrations or a
`Close` takes the tree away; only a removal scheduled afterwards can. -/
theorem fresh_tree_survives (s : St1) (c : Nat) (ops : List Op1) (h : ∀ o ∈ ops, quiet o = true) :
    (run1 (step1 s (.set c)) ops).slot = .present c ∧ (run1 (step1 s (.set c)) ops).armed = none := by
  have key : ∀ (ops : List Op1) (t : St1), (∀ o ∈ ops, quiet o = true) → t.slot = .present c → t.armed = none →
      (run1 t ops).slot = .present c ∧ (run1 t ops).armed = none := by
    intro ops
    induction ops with
    | nil => intro t _ h1 h2; exact ⟨h1, h2⟩
    | cons o os ih =>
      intro t hq h1 h2
      have hq' : ∀ o ∈ os, quiet o = true := fun o ho => hq o (List.mem_cons_of_mem _ ho)
      have ho := hq o (List.mem_cons_self ..)
      simp only [run1]
      cases o with
      | remove => simp [quiet] at ho
      | set _ => simp [quiet] at ho
      | register => exact ih _ hq' (by simp [step1, h1]) (by simp [step1, h1, h2])
      | unregister => exact ih _ hq' (by simp [step1, h1]) (by simp [step1, h1, h2])
      | refresh => exact ih _ hq' (by simp [step1, h1]) (by simp [step1])
      | timer => rw [timer_unarmed t h2]; exact ih _ hq' h1 h2
      | close => exact ih _ hq' (by simp [step1, h1]) (by simp [step1])
      | reap g =>
        have hr := reap_unarmed t g h2
        exact ih _ hq' (by rw [hr.1, h1]) hr.2.1
  exact key ops _ h (by simp [step1]) (by simp [step1])

/-- the same for the whole store: other ids may do anything meanwhile -/
theorem fresh_tree_survives_store (s : St) (id c : Nat) (ops : List Op)
    (h : ∀ o ∈ ops, ∀ o1, restrict id o = some o1 → quiet o1 = true) :
    ((run (step s (.on id (.set c))) ops).at_ id).slot = .present c := by
  rw [independent, at_step]
  have : restrict id (.on id (.set c)) = some (.set c) := by simp [restrict]
  rw [this]
  refine (fresh_tree_survives (s.at_ id) c _ ?_).1
  intro o1 ho1
  rw [List.mem_filterMap] at ho1
  obtain ⟨o, ho, hr⟩ := ho1
  exact h o ho o1 hr

/-- a removal routine that finds its removal cancelled (or replaced by a later one) changes nothing
but its own bookkeeping -/
theorem cancelled_removal_deletes_nothing (s : St1) (g : Nat) (h : s.armed ≠ some g) :
    (step1 s (.reap g)).slot = s.slot ∧ (step1 s (.reap g)).armed = s.armed := by
  simp only [step1]
  split <;> simp [h]

/-- **released afterwards**: a scheduled removal that is not cancelled removes the tree once its timer
has fired and its routine got the lock -/
theorem removal_completes (s : St1) (g : Nat) (h : s.armed = some g) (hf : g ∉ s.firing) :
    (step1 (step1 s .timer) (.reap g)).slot = .absent ∧ (step1 (step1 s .timer) (.reap g)).armed = none := by
  simp [step1, h, hf]

/-- after `Close` nothing is scheduled any more, and nothing can be -/
theorem closed_store_schedules_nothing (s : St1) (ops : List Op1) (h : ∀ o ∈ ops, ∀ c, o ≠ .set c) :
    (run1 (step1 s .close) ops).closed = true ∧
    ((run1 (step1 s .close) ops).slot = .absent → s.slot = .absent ∨ s.slot = .requested) := by
  have key : ∀ (ops : List Op1) (t : St1), (∀ o ∈ ops, ∀ c, o ≠ .set c) → t.closed = true → t.armed = none →
      (run1 t ops).closed = true ∧ ((run1 t ops).slot = .absent → t.slot = .absent ∨ t.slot = .requested) := by
    intro ops
    induction ops with
    | nil => intro t _ h1 _; exact ⟨h1, fun h => .inl h⟩
    | cons o os ih =>
      intro t hq h1 h2
      have hq' : ∀ o ∈ os, ∀ c, o ≠ .set c := fun o ho => hq o (List.mem_cons_of_mem _ ho)
      have ho := hq o (List.mem_cons_self ..)
      simp only [run1]
      cases o with
      | set c => exact absurd rfl (ho c)
      | register =>
        have := ih (step1 t .register) hq' (by simp only [step1]; split <;> simp [h1]) (by simp only [step1]; split <;> simp [h2])
        refine ⟨this.1, fun h => ?_⟩
        have h' := this.2 h
        simp only [step1] at h'
        split at h' <;> simp_all
      | unregister =>
        have := ih (step1 t .unregister) hq' (by simp only [step1]; split <;> simp [h1]) (by simp only [step1]; split <;> simp [h2])
        refine ⟨this.1, fun h => ?_⟩
        have h' := this.2 h
        simp only [step1] at h'
        split at h' <;> simp_all
      | refresh => exact ih _ hq' (by simp [step1, h1]) (by simp [step1])
      | remove => rw [remove_closed t h1]; exact ih _ hq' h1 h2
      | timer => rw [timer_unarmed t h2]; exact ih _ hq' h1 h2
      | close => exact ih _ hq' (by simp [step1]) (by simp [step1])
      | reap g =>
        have hr := reap_unarmed t g h2
        have := ih (step1 t (.reap g)) hq' (by rw [hr.2.2, h1]) hr.2.1
        refine ⟨this.1, fun h => ?_⟩
        have h' := this.2 h
        rw [hr.1] at h'
        exact h'
  have := key ops (step1 s .close) h (by simp [step1]) (by simp [step1])
  simpa [step1] using this

/-- the store as the one-tree model of C11 sees it: is the tree there, is a removal scheduled -/
structure View where
  present : Bool
  armed : Bool
  deriving DecidableEq, Repr

inductive VOp where
  | skip | refresh | set | remove | expire
  deriving DecidableEq, Repr

def vstep (v : View) : VOp → View
  | .skip => v
  | .refresh => { v with armed := false }
  | .set => { present := true, armed := false }
  | .remove => { v with armed := true }
  | .expire => if v.armed then { present := false, armed := false } else v

def view (s : St1) : View :=
  { present := match s.slot with | .present _ => true | _ => false, armed := s.armed.isSome }

/-- what a store operation is in the view, given the state it is applied to -/
def vop (s : St1) : Op1 → VOp
  | .register => .skip
  | .unregister => .skip
  | .refresh => .refresh
  | .set _ => .set
  | .remove => if s.closed then .skip else .remove
  | .timer => .skip
  | .reap g => if g ∈ s.firing ∧ s.armed = some g then .expire else .skip
  | .close => .refresh

/-- **the two-step expiry refines the one-step expiry**: every operation of the real store — including
the timer firing and the routine getting the lock later, possibly after the removal was cancelled or
scheduled again — acts on the one-tree view as one of: nothing, refresh, set, remove, expire; and
`expire` only ever happens to a removal that is still the scheduled one. -/
theorem refines_view (s : St1) (o : Op1) : view (step1 s o) = vstep (view s) (vop s o) := by
  cases o with
  | register => simp only [step1, vop, vstep]; split <;> simp_all [view]
  | unregister => simp only [step1, vop, vstep]; split <;> simp_all [view]
  | refresh => simp [step1, vop, vstep, view]
  | set c => simp [step1, vop, vstep, view]
  | remove =>
    simp only [step1, vop]
    by_cases hc : s.closed = true
    · simp [hc, vstep]
    · simp only [hc]
      cases ha : s.armed <;> simp [vstep, view, ha]
  | timer =>
    simp only [step1, vop, vstep]
    cases ha : s.armed with
    | none => rfl
    | some g => by_cases hf : g ∈ s.firing <;> simp [hf, view, ha]
  | reap g =>
    simp only [step1, vop]
    by_cases hf : g ∈ s.firing
    · by_cases ha : s.armed = some g
      · simp [hf, ha, vstep, view]
      · simp [hf, ha, vstep, view]
    · simp [hf, vstep]
  | close => simp [step1, vop, vstep, view]


/-- the store operations each step of the one-tree model performs -/
def treeOps (s : C11.St) : C11.Act → List VOp
  | .arrive _ _ => []
  | .thread i => match s.thr[i]? with
      | some t => match t.pc with
          | .lookup => [.refresh]                       -- `getAndRefresh`
          | .flushed => [.refresh]
          -- late message, or a token that names no node of the tree: `cleanTreeStorage`
          | .found => if (t.tok ∈ s.doneToks ∨ badTok t.tok = true) ∧ s.live = [] then [.remove] else []
          | .set => [.set]                              -- `treeStorage.Set`
          | _ => []
      | none => []
  | .done tok =>
      -- `cleanTreeStorage`; a second `Done()` of a finished instance returns before it
      if tok ∈ s.settled ∧ s.thr.countP (regTok tok) = 0 then
        (if s.live.filter (· != tok) = [] then [.remove] else [])
      else []
  | .expire => [.expire]
  | .localStart _ => []
  | .peerReq => []                                       -- `treeStorage.Get`: no refresh
  | .doneRefused _ => []
  | .treeResp => [.set]                                  -- `RegisterTree`
  | .ctorFail i _ => match s.thr[i]? with                  -- `nodeDelete`: `cleanTreeStorage`
      | some t => if t.pc = .bind ∧ s.live.filter (· != t.tok) = [] then [.remove] else []
      | none => []

def cview (s : C11.St) : View := { present := s.present, armed := s.armed }

/-- **the one-tree model uses the store only through its operations**: on the tree's slot every step
of `Model/C11.lean` is exactly the listed store operations in the one-tree view — so, with
`refines_view` and `independent`, what is proved about that model's tree holds for the real store's
slot of that tree id, whatever happens to other trees and however late removal routines run. -/
theorem c11_model_uses_store_ops (s s' : C11.St) (a : C11.Act) (h : C11.step s a = some s') :
    cview s' = (treeOps s a).foldl vstep (cview s) := by
  cases a with
  | arrive tok m => simp [C11.step] at h; subst h; rfl
  | localStart tok =>
    simp only [C11.step] at h
    split at h
    · simp at h
    · simp at h; subst h; rfl
  | expire =>
    simp only [C11.step] at h
    split at h
    · rename_i ha; simp at h; subst h; simp [treeOps, vstep, cview, ha]
    · simp at h
  | peerReq => simp [C11.step] at h; subst h; rfl
  | doneRefused tok =>
    simp only [C11.step] at h
    split at h
    · simp at h; subst h; rfl
    · simp at h
  | done tok =>
    simp only [C11.step] at h
    split at h
    · rename_i hcond
      simp at h; subst h
      simp only [treeOps, cview, hcond, and_self, if_true]
      by_cases hl : s.live.filter (· != tok) = []
      · have hl' : ∀ a ∈ s.live, a = tok := by simpa using hl
        simp [hl, vstep]
        exact .inl hl'
      · have hl' : ¬ ∀ a ∈ s.live, a = tok := by simpa using hl
        simp [hl, hl']
    · rename_i hcond
      split at h
      · simp at h; subst h
        simp only [treeOps, hcond, if_false]; rfl
      · simp at h
  | thread i =>
    simp only [C11.step] at h
    split at h
    · rename_i t ht
      obtain ⟨t0, m0, pc0⟩ := t
      simp only [treeOps, ht]
      cases pc0 with
      | lookup =>
        simp only [C11.stepTh] at h; simp at h; subst h
        simp only [C11.lookupStep]; split <;> simp [vstep, cview]
      | flushed =>
        simp only [C11.stepTh] at h; simp at h; subst h
        simp only [C11.lookupStep]; split <;> simp [vstep, cview]
      | found =>
        simp only [C11.stepTh] at h
        split at h
        · simp at h
        · split at h
          · rename_i hd
            simp at h; subst h
            simp only [cview]
            split <;> simp_all [vstep]
          · rename_i hd
            split at h
            · rename_i hlive
              simp at h; subst h; simp only [cview, hd, false_or]
              have hl : ¬ (badTok t0 = true ∧ s.live = []) := fun hc => by simp [hc.2] at hlive
              simp [hl]
            · split at h
              · rename_i hb
                simp at h; subst h
                simp only [cview]
                split <;> simp_all [vstep]
              · rename_i hb
                simp at h; subst h; simp [cview, hd, hb]
      | set => simp only [C11.stepTh] at h; simp at h; subst h; simp [vstep, cview]
      | bind => simp only [C11.stepTh] at h; simp at h; subst h; simp [cview]
      | parked => simp [C11.stepTh] at h
      | fin => simp [C11.stepTh] at h
    · simp at h
  | treeResp =>
    simp only [C11.step] at h
    split at h
    · simp at h; subst h; simp [treeOps, vstep, cview]
    · simp at h
  | ctorFail i _ =>
    simp only [C11.step] at h
    split at h
    · rename_i t ht
      simp only [treeOps, ht]
      split at h
      · rename_i hpc
        simp at h; subst h
        simp only [cview, hpc, true_and]
        by_cases hl : s.live.filter (· != t.tok) = []
        · have hl' : ∀ a ∈ s.live, a = t.tok := by simpa using hl
          simp [hl, vstep]
          exact .inl hl'
        · have hl' : ¬ ∀ a ∈ s.live, a = t.tok := by simpa using hl
          simp [hl, hl']
      · simp at h
    · simp at h

/-- **the routine as it was before repair 2e39a89 deletes a tree that was just stored**: a removal is
scheduled, its timer fires while `Set` holds the lock, `Set` cancels the removal and stores the tree,
then the routine gets the lock and deletes without looking. -/
theorem old_routine_deletes_fresh_tree :
    (run1Old {} [.set 1, .remove, .timer, .set 2, .reap 0]).slot = .absent ∧
    (run1 {} [.set 1, .remove, .timer, .set 2, .reap 0]).slot = .present 2 := by decide

/-- worse: it also forgets a removal scheduled meanwhile, so the tree then stays for ever -/
theorem old_routine_forgets_new_removal :
    (run1Old {} [.set 1, .remove, .timer, .set 2, .remove, .reap 0]).armed = none ∧
    (run1 {} [.set 1, .remove, .timer, .set 2, .remove, .reap 0]).armed = some 1 := by decide

/-! ### stale removal routines and re-scheduled removals (seeded change C11r4-B) -/

/-- generations are handed out once: whatever has fired and whatever is scheduled is older than the next one -/
structure Fresh (s : St1) : Prop where
  fir : ∀ g ∈ s.firing, g < s.gen
  arm : ∀ a, s.armed = some a → a < s.gen

theorem fresh_init : Fresh {} := ⟨by simp, by simp⟩

theorem fresh_step (s : St1) (o : Op1) (h : Fresh s) : Fresh (step1 s o) := by
  obtain ⟨hf, ha⟩ := h
  cases o with
  | register => simp only [step1]; split <;> exact ⟨hf, ha⟩
  | unregister => simp only [step1]; split <;> exact ⟨hf, ha⟩
  | refresh => exact ⟨hf, by simp [step1]⟩
  | set c => exact ⟨hf, by simp [step1]⟩
  | remove =>
    simp only [step1]
    split
    · exact ⟨hf, ha⟩
    · split
      · exact ⟨hf, ha⟩
      · refine ⟨fun g hg => ?_, fun a h => ?_⟩
        · have := hf g hg; simp; omega
        · simp at h; subst h; simp
  | timer =>
    simp only [step1]
    split
    · rename_i g hg
      split
      · exact ⟨hf, ha⟩
      · refine ⟨fun x hx => ?_, ha⟩
        simp at hx
        rcases hx with hx | hx
        · exact hf x hx
        · subst hx; exact ha _ hg
    · exact ⟨hf, ha⟩
  | reap g =>
    simp only [step1]
    split
    · split
      · refine ⟨fun x hx => ?_, by simp⟩
        simp at hx; exact hf x hx.1
      · refine ⟨fun x hx => ?_, ha⟩
        simp at hx; exact hf x hx.1
    · exact ⟨hf, ha⟩
  | close => exact ⟨hf, by simp [step1]⟩

theorem fresh_run (ops : List Op1) (s : St1) (h : Fresh s) : Fresh (run1 s ops) := by
  induction ops generalizing s with
  | nil => exact h
  | cons o os ih => exact ih _ (fresh_step s o h)

/-- **a stale routine never completes a removal that is not its own**: in every reachable state of the
store, when a removal is newly scheduled (whatever was scheduled before has been cancelled), then
— as long as the timer of THIS removal has not fired — no removal routine that gets the lock (all the
stale ones of earlier, cancelled removals whose timers had fired), no refresh, registration or `Close`
releases the tree: it stays for the grace period of the latest removal. -/
theorem rearmed_removal_waits_for_own_timer (pre ops : List Op1) (c : Nat)
    (hs : (run1 {} pre).slot = .present c) (hn : (run1 {} pre).armed = none)
    (hc : (run1 {} pre).closed = false)
    (hq : ∀ o ∈ ops, o ≠ .timer ∧ (∀ c', o ≠ .set c')) :
    (run1 (step1 (run1 {} pre) .remove) ops).slot = .present c := by
  have hF := fresh_run pre {} fresh_init
  generalize run1 {} pre = s at *
  have key : ∀ (ops : List Op1) (t : St1), (∀ o ∈ ops, o ≠ .timer ∧ (∀ c', o ≠ .set c')) →
      t.slot = .present c → (∀ g ∈ t.firing, t.armed ≠ some g) → Fresh t →
      (run1 t ops).slot = .present c := by
    intro ops
    induction ops with
    | nil => intro t _ h _ _; exact h
    | cons o os ih =>
      intro t hq h1 h2 h3
      have hq' : ∀ o ∈ os, o ≠ .timer ∧ (∀ c', o ≠ .set c') := fun o ho => hq o (List.mem_cons_of_mem _ ho)
      have ho := hq o (List.mem_cons_self ..)
      simp only [run1]
      refine ih _ hq' ?_ ?_ (fresh_step t o h3)
      · cases o with
        | timer => exact absurd rfl ho.1
        | set c' => exact absurd rfl (ho.2 c')
        | register => simp [step1, h1]
        | unregister => simp [step1, h1]
        | refresh => simp [step1, h1]
        | close => simp [step1, h1]
        | remove => simp only [step1]; split; exact h1; split <;> simp [h1]
        | reap g =>
          simp only [step1]
          split
          · rename_i hg; simp [h2 g hg, h1]
          · exact h1
      · cases o with
        | timer => exact absurd rfl ho.1
        | set c' => exact absurd rfl (ho.2 c')
        | register => simp only [step1]; split <;> exact h2
        | unregister => simp only [step1]; split <;> exact h2
        | refresh => simp [step1]
        | close => simp [step1]
        | remove =>
          simp only [step1]
          split
          · exact h2
          · split
            · exact h2
            · intro g hg; simp; have := h3.fir g hg; omega
        | reap g =>
          simp only [step1]
          split
          · rename_i hg
            simp [h2 g hg]
            intro x hx _; exact h2 x hx
          · exact h2
  apply key ops _ hq
  · simp [step1, hc, hn, hs]
  · simp only [step1, hc, hn]
    intro g hg; simp; have := hF.fir g hg; omega
  · exact fresh_step s .remove hF

/-- a removal completes only through the routine whose own timer fired while it was the scheduled one -/
theorem removal_only_by_own_routine (s : St1) (g c : Nat) (hp : s.slot = .present c)
    (hd : (step1 s (.reap g)).slot ≠ .present c) : s.armed = some g ∧ g ∈ s.firing := by
  simp only [step1] at hd
  by_cases hg : g ∈ s.firing
  · by_cases ha : s.armed = some g
    · exact ⟨ha, hg⟩
    · simp [hg, ha, hp] at hd
  · simp [hg, hp] at hd

/-- **the variant that only asks whether some removal is registered releases the tree early**
(seeded change C11r4-B): removal 0 is scheduled, its timer fires, it is cancelled (`getAndRefresh`) and
removal 1 scheduled while routine 0 waits for the lock; routine 0 then deletes the tree although the
timer of removal 1 has not fired.  The code as it is keeps the tree and removal 1. -/
theorem planned_variant_releases_early :
    (run1Planned {} [.set 1, .remove, .timer, .refresh, .remove, .reap 0]).slot = .absent ∧
    (run1 {} [.set 1, .remove, .timer, .refresh, .remove, .reap 0]).slot = .present 1 ∧
    (run1 {} [.set 1, .remove, .timer, .refresh, .remove, .reap 0]).armed = some 1 ∧
    (run1 {} [.set 1, .remove, .timer, .refresh, .remove, .reap 0]).firing = [] := by decide

example : (run1 {} [.set 1, .remove, .timer, .refresh]).slot = .present 1 ∧
    (run1 {} [.set 1, .remove, .timer, .refresh]).armed = none ∧
    (run1 {} [.set 1, .remove, .timer, .refresh]).firing = [0] := by decide


/-- non-vacuity of `independent`/`fresh_tree_survives_store`: three ids interleaved -/
example : ((run {} [.on 0 (.set 1), .on 1 (.set 1), .on 0 .remove, .on 2 .register, .on 0 .timer,
      .on 1 .remove, .on 0 (.set 2), .on 0 (.reap 0), .on 1 .timer, .on 1 (.reap 0), .close]).at_ 0).slot = .present 2 ∧
    ((run {} [.on 0 (.set 1), .on 1 (.set 1), .on 0 .remove, .on 2 .register, .on 0 .timer,
      .on 1 .remove, .on 0 (.set 2), .on 0 (.reap 0), .on 1 .timer, .on 1 (.reap 0), .close]).at_ 1).slot = .absent ∧
    ((run {} [.on 0 (.set 1), .on 1 (.set 1), .on 0 .remove, .on 2 .register, .on 0 .timer,
      .on 1 .remove, .on 0 (.set 2), .on 0 (.reap 0), .on 1 .timer, .on 1 (.reap 0), .close]).at_ 2).slot = .requested := by
  decide


/-! ### the whole store refines "a map plus a set of pending removals" -/

/-- the abstract store: what every tree id maps to, the set of ids whose removal is pending, the closing flag -/
structure Abs where
  trees : Nat → Slot
  pending : Nat → Bool
  closed : Bool

/-- the operations of the abstract store; `expire id` is the only one that takes a tree away -/
inductive AOp where
  | skip
  | register (id : Nat) | unregister (id : Nat)
  | refresh (id : Nat)
  | set (id c : Nat)
  | remove (id : Nat)
  | expire (id : Nat)
  | close
  deriving DecidableEq, Repr

def updF {α : Type} (f : Nat → α) (i : Nat) (x : α) : Nat → α := fun j => if j = i then x else f j

def astep (a : Abs) : AOp → Abs
  | .skip => a
  | .register id => { a with trees := updF a.trees id (match a.trees id with | .absent => .requested | x => x) }
  | .unregister id => { a with trees := updF a.trees id (match a.trees id with | .requested => .absent | x => x) }
  | .refresh id => { a with pending := updF a.pending id false }
  | .set id c => { a with trees := updF a.trees id (.present c), pending := updF a.pending id false }
  | .remove id => if a.closed then a else { a with pending := updF a.pending id true }
  | .expire id =>
      if a.pending id then { a with trees := updF a.trees id .absent, pending := updF a.pending id false } else a
  | .close => { a with pending := fun _ => false, closed := true }

def arun (a : Abs) : List AOp → Abs
  | [] => a
  | o :: os => arun (astep a o) os

/-- what the abstract store sees of the concrete one: the generation numbers, the routines waiting for the lock
and the per-id copies of the closing flag are gone -/
def abs (s : St) : Abs :=
  { trees := fun i => (s.at_ i).slot, pending := fun i => (s.at_ i).armed.isSome, closed := s.closed }

/-- the closing flag is one flag (the model keeps a copy per id so that `step1` can read it) -/
def Coherent (s : St) : Prop := ∀ i, (s.at_ i).closed = s.closed

theorem coherent_init : Coherent {} := fun _ => rfl

theorem step1_closed (t : St1) (o : Op1) (h : o ≠ .close) : (step1 t o).closed = t.closed := by
  cases o with
  | close => exact absurd rfl h
  | register => simp only [step1]; split <;> rfl
  | unregister => simp only [step1]; split <;> rfl
  | refresh => rfl
  | set c => rfl
  | remove =>
    simp only [step1]
    split
    · rfl
    · split <;> rfl
  | timer =>
    simp only [step1]
    split
    · split <;> rfl
    · rfl
  | reap g =>
    simp only [step1]
    split
    · split <;> rfl
    · rfl

theorem coherent_step (s : St) (o : Op) (h : Coherent s) : Coherent (step s o) := by
  intro i
  cases o with
  | close => simp [step, step1]
  | on j o' =>
    by_cases hc : o' = .close
    · subst hc; simpa [step] using h i
    · have e : (step s (.on j o')).closed = s.closed := by cases o' <;> rfl
      rw [e, at_step]
      by_cases hj : j = i
      · have : restrict i (.on j o') = some o' := by simp [restrict, hj, hc]
        rw [this]; simp only []
        rw [step1_closed _ _ hc]; exact h i
      · have : restrict i (.on j o') = none := by simp [restrict, hj]
        rw [this]; exact h i

/-- the abstract operation a concrete one amounts to, given the state it is applied to: the timer firing and a
routine that finds its removal cancelled or replaced are invisible; a routine completes the removal exactly
when its timer fired and its generation is still the scheduled one -/
def aop (s : St) : Op → AOp
  | .close => .close
  | .on id o => match o with
    | .register => .register id
    | .unregister => .unregister id
    | .refresh => .refresh id
    | .set c => .set id c
    | .remove => .remove id
    | .timer => .skip
    | .reap g => if g ∈ (s.at_ id).firing ∧ (s.at_ id).armed = some g then .expire id else .skip
    | .close => .skip

private theorem abs_ext {a b : Abs} (h1 : ∀ i, a.trees i = b.trees i) (h2 : ∀ i, a.pending i = b.pending i)
    (h3 : a.closed = b.closed) : a = b := by
  cases a; cases b
  simp only [Abs.mk.injEq]
  exact ⟨funext h1, funext h2, h3⟩

/-- **the tree store is a map plus a set of pending removals**: every operation of the store model — on any id,
including the two halves of an expiry and routines of removals that were cancelled or scheduled again
meanwhile — is exactly one operation of the abstract store. -/
theorem refines_map_and_pending (s : St) (o : Op) (h : Coherent s) :
    abs (step s o) = astep (abs s) (aop s o) := by
  cases o with
  | close =>
    apply abs_ext
    · intro i; simp [abs, step, step1, aop, astep]
    · intro i; simp [abs, step, step1, aop, astep]
    · simp [abs, step, aop, astep]
  | on id o' =>
    have hcl : (step s (.on id o')).closed = s.closed := by cases o' <;> rfl
    cases o' with
    | close => simp [step, aop, astep]
    | register =>
      apply abs_ext
      · intro i
        by_cases e : i = id
        · subst e; simp only [abs, step, upd, aop, astep, updF, if_pos, step1]
          split <;> simp_all
        · simp [abs, step, upd, aop, astep, updF, e]
      · intro i
        by_cases e : i = id
        · subst e; simp only [abs, step, upd, aop, astep, if_pos, step1]
          split <;> simp_all
        · simp [abs, step, upd, aop, astep, e]
      · simp [abs, step, aop, astep]
    | unregister =>
      apply abs_ext
      · intro i
        by_cases e : i = id
        · subst e; simp only [abs, step, upd, aop, astep, updF, if_pos, step1]
          split <;> simp_all
        · simp [abs, step, upd, aop, astep, updF, e]
      · intro i
        by_cases e : i = id
        · subst e; simp only [abs, step, upd, aop, astep, if_pos, step1]
          split <;> simp_all
        · simp [abs, step, upd, aop, astep, e]
      · simp [abs, step, aop, astep]
    | refresh =>
      apply abs_ext
      · intro i
        by_cases e : i = id
        · subst e; simp [abs, step, upd, aop, astep, step1]
        · simp [abs, step, upd, aop, astep, e]
      · intro i
        by_cases e : i = id
        · subst e; simp [abs, step, upd, aop, astep, updF, step1]
        · simp [abs, step, upd, aop, astep, updF, e]
      · simp [abs, step, aop, astep]
    | set c =>
      apply abs_ext
      · intro i
        by_cases e : i = id
        · subst e; simp [abs, step, upd, aop, astep, updF, step1]
        · simp [abs, step, upd, aop, astep, updF, e]
      · intro i
        by_cases e : i = id
        · subst e; simp [abs, step, upd, aop, astep, updF, step1]
        · simp [abs, step, upd, aop, astep, updF, e]
      · simp [abs, step, aop, astep]
    | remove =>
      have hc := h id
      by_cases hcl' : s.closed = true
      · have : step1 (s.at_ id) .remove = s.at_ id := remove_closed _ (by rw [hc]; exact hcl')
        apply abs_ext
        · intro i
          by_cases e : i = id
          · subst e; simp [abs, step, upd, aop, astep, this, hcl']
          · simp [abs, step, upd, aop, astep, e, hcl']
        · intro i
          by_cases e : i = id
          · subst e; simp [abs, step, upd, aop, astep, this, hcl']
          · simp [abs, step, upd, aop, astep, e, hcl']
        · simp [abs, step, aop, astep, hcl']
      · have hc' : (s.at_ id).closed = false := by rw [hc]; simpa using hcl'
        have hcl'' : s.closed = false := by simpa using hcl'
        apply abs_ext
        · intro i
          by_cases e : i = id
          · subst e; simp only [abs, step, upd, aop, astep, if_pos, step1, hc', hcl'']
            cases ha : (s.at_ i).armed <;> simp
          · simp [abs, step, upd, aop, astep, e, hcl'']
        · intro i
          by_cases e : i = id
          · subst e; simp only [abs, step, upd, aop, astep, updF, if_pos, step1, hc', hcl'']
            cases ha : (s.at_ i).armed <;> simp [ha, updF]
          · simp [abs, step, upd, aop, astep, updF, e, hcl'']
        · simp [abs, step, aop, astep, hcl'']
    | timer =>
      apply abs_ext
      · intro i
        by_cases e : i = id
        · subst e; simp only [abs, step, upd, aop, astep, if_pos, step1]
          split
          · split <;> rfl
          · rfl
        · simp [abs, step, upd, aop, astep, e]
      · intro i
        by_cases e : i = id
        · subst e; simp only [abs, step, upd, aop, astep, if_pos, step1]
          split
          · split <;> simp_all
          · rfl
        · simp [abs, step, upd, aop, astep, e]
      · simp [abs, step, aop, astep]
    | reap g =>
      by_cases hf : g ∈ (s.at_ id).firing
      · by_cases ha : (s.at_ id).armed = some g
        · apply abs_ext
          · intro i
            by_cases e : i = id
            · subst e; simp [abs, step, upd, aop, astep, updF, step1, hf, ha]
            · simp [abs, step, upd, aop, astep, updF, e, hf, ha]
          · intro i
            by_cases e : i = id
            · subst e; simp [abs, step, upd, aop, astep, updF, step1, hf, ha]
            · simp [abs, step, upd, aop, astep, updF, e, hf, ha]
          · simp [abs, step, aop, astep, hf, ha]
        · apply abs_ext
          · intro i
            by_cases e : i = id
            · subst e; simp [abs, step, upd, aop, astep, step1, hf, ha]
            · simp [abs, step, upd, aop, astep, e, hf, ha]
          · intro i
            by_cases e : i = id
            · subst e; simp [abs, step, upd, aop, astep, step1, hf, ha]
            · simp [abs, step, upd, aop, astep, e, hf, ha]
          · simp [abs, step, aop, astep, hf, ha]
      · apply abs_ext
        · intro i
          by_cases e : i = id
          · subst e; simp [abs, step, upd, aop, astep, step1, hf]
          · simp [abs, step, upd, aop, astep, e, hf]
        · intro i
          by_cases e : i = id
          · subst e; simp [abs, step, upd, aop, astep, step1, hf]
          · simp [abs, step, upd, aop, astep, e, hf]
        · simp [abs, step, aop, astep, hf]

/-- the abstract trace of a concrete run -/
def atrace (s : St) : List Op → List AOp
  | [] => []
  | o :: os => aop s o :: atrace (step s o) os

/-- **refinement over runs**: from the empty store (or any coherent one), every run of the store model is the
run of the abstract store over its trace -/
theorem run_refines (s : St) (ops : List Op) (h : Coherent s) :
    abs (run s ops) = arun (abs s) (atrace s ops) ∧ Coherent (run s ops) := by
  induction ops generalizing s with
  | nil => exact ⟨rfl, h⟩
  | cons o os ih =>
    simp only [run, atrace, arun]
    rw [← refines_map_and_pending s o h]
    exact ih _ (coherent_step s o h)

/-- in the abstract store a tree goes away only by the expiry of a removal that is pending — never by a
registration, a withdrawal, a refresh, a `Set` of another id, a removal being scheduled, or `Close` -/
theorem abs_tree_leaves_only_by_expire (a : Abs) (o : AOp) (id c : Nat)
    (h : a.trees id = .present c) (h' : (astep a o).trees id ≠ .present c) :
    (o = .expire id ∧ a.pending id = true) ∨ (∃ c', c' ≠ c ∧ o = .set id c') := by
  cases o with
  | skip => exact absurd h h'
  | close => exact absurd h h'
  | refresh j => exact absurd h h'
  | remove j =>
    simp only [astep] at h'
    split at h' <;> exact absurd h h'
  | register j =>
    simp only [astep, updF] at h'
    by_cases e : id = j
    · subst e; simp [h] at h'
    · simp [e] at h'; exact absurd h h'
  | unregister j =>
    simp only [astep, updF] at h'
    by_cases e : id = j
    · subst e; simp [h] at h'
    · simp [e] at h'; exact absurd h h'
  | set j c' =>
    simp only [astep, updF] at h'
    by_cases e : id = j
    · subst e
      by_cases ec : c' = c
      · subst ec; simp at h'
      · exact .inr ⟨c', ec, rfl⟩
    · simp [e] at h'; exact absurd h h'
  | expire j =>
    simp only [astep] at h'
    by_cases hp : a.pending j = true
    · simp only [hp, if_true, updF] at h'
      by_cases e : id = j
      · subst e; exact .inl ⟨rfl, hp⟩
      · simp [e] at h'; exact absurd h h'
    · simp [hp] at h'; exact absurd h h'

/-- **liveness at quiescence**: when no removal is pending, no timer firing and no removal routine — however
stale — changes the abstract store: the trees that are stored stay stored until the overlay schedules a
removal. -/
theorem quiescent_store_is_stable (s : St) (id g : Nat) (hq : (s.at_ id).armed = none) :
    aop s (.on id .timer) = .skip ∧ aop s (.on id (.reap g)) = .skip := by
  simp [aop, hq]

/-- and the other direction: a pending removal whose timer fired is completed by its own routine, as the
abstract `expire` -/
theorem pending_removal_expires (s : St) (id g : Nat) (ha : (s.at_ id).armed = some g) (hf : g ∉ (s.at_ id).firing) :
    aop (step s (.on id .timer)) (.on id (.reap g)) = .expire id := by
  have : (step s (.on id .timer)).at_ id = step1 (s.at_ id) .timer := by simp [step, upd]
  simp [aop, this, step1, ha, hf]

/-- non-vacuity: set, remove, timer, a refresh and a new removal inside the fired window, the stale routine, then
the new removal's own expiry — the abstract trace is `set, remove, skip, refresh, remove, skip, skip, expire` -/
example : atrace {} [.on 2 (.set 7), .on 2 .remove, .on 2 .timer, .on 2 .refresh, .on 2 .remove, .on 2 (.reap 0),
      .on 2 .timer, .on 2 (.reap 1)]
    = [.set 2 7, .remove 2, .skip, .refresh 2, .remove 2, .skip, .skip, .expire 2] := by decide

/-- the same read on the store model itself: the tree stored under an id is replaced or removed only by a `Set` of
that id or by the removal routine of that id whose generation is the scheduled one and whose timer has fired -/
theorem store_tree_leaves_only_by_expire (s : St) (o : Op) (h : Coherent s) (id c : Nat)
    (hp : (s.at_ id).slot = .present c) (hn : ((step s o).at_ id).slot ≠ .present c) :
    (aop s o = .expire id ∧ (s.at_ id).armed.isSome = true) ∨ (∃ c', c' ≠ c ∧ aop s o = .set id c') := by
  have r := refines_map_and_pending s o h
  exact abs_tree_leaves_only_by_expire (abs s) (aop s o) id c hp (by rw [← r]; exact hn)

/-- **the roster of a stored tree is handed out** (`GetRoster`, what `handleRequestRoster` answers a peer of the
deprecated exchange with): whatever else the store holds or has released -/
theorem roster_of_stored_tree_found (ids : List Nat) (ro : Nat → Nat) (s : St) (j c : Nat) (hj : j ∈ ids)
    (hs : (s.at_ j).slot = .present c) : getRosterIn ids ro s (ro j) = true := by
  unfold getRosterIn
  exact List.any_eq_true.mpr ⟨j, hj, by simp [get, hs]⟩

/-- **the release of one tree does not take a sibling's roster away**: tree `j` is stored; after any operations on
OTHER ids — removals scheduled, timers fired, routines completed, so that trees over the same roster are released —
`GetRoster` still finds the roster of `j` (seeded change C11r7-A kept an index of rosters and dropped the entry with the
first tree that went) -/
theorem sibling_release_keeps_roster (ids : List Nat) (ro : Nat → Nat) (s : St) (j c : Nat) (hj : j ∈ ids)
    (hs : (s.at_ j).slot = .present c) (ops : List Op) (hops : ∀ o ∈ ops, ∃ i o1, o = .on i o1 ∧ i ≠ j) :
    getRosterIn ids ro (run s ops) (ro j) = true := by
  apply roster_of_stored_tree_found ids ro _ j c hj
  rw [independent]
  have : ops.filterMap (restrict j) = [] := by
    apply List.filterMap_eq_nil_iff.mpr
    intro o ho
    obtain ⟨i, o1, rfl, hne⟩ := hops o ho
    simp [restrict, hne]
  rw [this]; exact hs

/-- non-vacuity: trees 0 and 1 over roster 0; tree 0 is removed and released; the roster is still found through tree 1 -/
example : getRosterIn (List.range 6) (· / 3)
    (run {} [.on 0 (.set 1), .on 1 (.set 1), .on 0 .remove, .on 0 .timer, .on 0 (.reap 0)]) 0 = true ∧
    ((run {} [.on 0 (.set 1), .on 1 (.set 1), .on 0 .remove, .on 0 .timer, .on 0 (.reap 0)]).at_ 0).slot = .absent := by decide

/-- `GetRoster` on the abstract store: a roster is found iff some stored tree carries it -/
def absGetRoster (ids : List Nat) (ro : Nat → Nat) (a : Abs) (r : Nat) : Bool :=
  ids.any fun k => (match a.trees k with | .present _ => true | _ => false) && ro k == r

/-- **`GetRoster` is part of the refinement**: the store model's answer is the abstract store's — it depends on the
map alone (not on pending removals, generations, routines waiting for the lock, the closing flag) -/
theorem getRoster_refines (ids : List Nat) (ro : Nat → Nat) (s : St) (r : Nat) :
    getRosterIn ids ro s r = absGetRoster ids ro (abs s) r := by
  unfold getRosterIn absGetRoster
  congr 1
  funext k
  simp only [abs, get]
  cases (s.at_ k).slot <;> rfl

/-- so on the abstract store: `GetRoster ro = true` iff some id of the range holds a tree over `ro` -/
theorem absGetRoster_iff (ids : List Nat) (ro : Nat → Nat) (a : Abs) (r : Nat) :
    absGetRoster ids ro a r = true ↔ ∃ k ∈ ids, (∃ c, a.trees k = .present c) ∧ ro k = r := by
  unfold absGetRoster
  rw [List.any_eq_true]
  constructor
  · rintro ⟨k, hk, h⟩
    refine ⟨k, hk, ?_⟩
    cases ht : a.trees k <;> simp [ht] at h ⊢
    exact h
  · rintro ⟨k, hk, ⟨c, hc⟩, hr⟩
    exact ⟨k, hk, by simp [hc, hr]⟩

/-- **a tree that is present is never replaced by a peer's tree** — `setIfMissing` leaves the whole per-id state alone
(tree, scheduled removal, routines) and says so; this is the step both peer paths store with, so two answers handled at
the same time cannot replace each other's tree (before /repo 6a4418f the test and the `Set` were two steps: probe
`notes/probes/onet_c06_sendtree_race_probe_test.go.txt`, 2843 replacements in 3000 rounds) -/
theorem setIfMissing_never_replaces (s : St1) (c0 c : Nat) (b : Bool) (h : s.slot = .present c0) :
    setIfMissing1 s c b = (s, false) := by
  simp [setIfMissing1, h]

/-- it is `Set` or nothing, and the flag says which; with `onlyRequested` it stores only into a requested slot -/
theorem setIfMissing_is_set_or_nothing (s : St1) (c : Nat) (b : Bool) :
    (setIfMissing1 s c b = (s, false) ∧ (s.slot = .absent → b = true) ∧ s.slot ≠ .requested) ∨
    (setIfMissing1 s c b = (step1 s (.set c), true) ∧ (b = true → s.slot = .requested) ∧ ∀ c0, s.slot ≠ .present c0) := by
  unfold setIfMissing1
  cases hs : s.slot with
  | present c0 => left; simp
  | requested => right; simp
  | absent =>
    cases b with
    | true => left; simp
    | false => right; simp

/-- two answers one after the other, in either order: the second changes nothing (what the race needed two steps for) -/
theorem second_answer_changes_nothing (s : St1) (c c' : Nat) (b b' : Bool) (h : (setIfMissing1 s c b).2 = true) :
    setIfMissing1 (setIfMissing1 s c b).1 c' b' = ((setIfMissing1 s c b).1, false) := by
  rcases setIfMissing_is_set_or_nothing s c b with ⟨e, _, _⟩ | ⟨e, _, _⟩
  · rw [e] at h; simp at h
  · rw [e]; exact setIfMissing_never_replaces _ c c' b' (by simp [step1])

end Store

/-! ### the code regions the model stands for
Regenerated from /repo's source on every run (`harness/cmd/astfacts` → `OnetVerif/Shapes.lean`): the
calls that matter for synchronisation and data flow, the lock regions and (for decision logic) the
conditions, in source order.  A re-ordering, a dropped call or a changed condition breaks these
obligations even when no sampled input or schedule shows a difference; the check then searches for
a failing input. -/
theorem c11_shape_Overlay_nodeDone :
    Shapes.overlay_Overlay_nodeDone =
   ["instancesLock.Lock", "o.nodeDelete", "instancesLock.Unlock"] := rfl

theorem c11_shape_Overlay_nodeDelete :
    Shapes.overlay_Overlay_nodeDelete =
   ["token.ID", "tni.closeDispatch", "o.cleanTreeStorage"] := rfl

theorem c11_shape_Overlay_cleanTreeStorage :
    Shapes.overlay_Overlay_cleanTreeStorage =
   ["if:inst.token.TreeID.Equal(token.TreeID)", "if:notUsed", "treeStorage.Remove"] := rfl

theorem c11_shape_Overlay_newTreeNodeInstanceFromToken :
    Shapes.overlay_Overlay_newTreeNodeInstanceFromToken =
   ["newTreeNodeInstance", "instancesLock.Lock", "defer:instancesLock.Unlock", "if:o.closed",
     "tni.closeDispatch", "return:tni", "tok.ID", "return:tni"] := rfl

theorem c11_shape_Overlay_NewTreeNodeInstanceFromService :
    Shapes.overlay_Overlay_NewTreeNodeInstanceFromService =
   ["uuid.NewRandom", "uuid.Must", "RoundID", "o.newTreeNodeInstanceFromToken", "o.RegisterTree"] := rfl

theorem c11_shape_Overlay_Close :
    Shapes.overlay_Overlay_Close =
   ["instancesLock.Lock", "defer:instancesLock.Unlock", "tni.Token", "o.nodeDelete",
     "treeStorage.Close"] := rfl

theorem c11_shape_treeStorage_Register :
    Shapes.treestorage_treeStorage_Register =
   ["ts.Lock", "if:!ok", "ts.Unlock"] := rfl

theorem c11_shape_treeStorage_Unregister :
    Shapes.treestorage_treeStorage_Unregister =
   ["ts.Lock", "defer:ts.Unlock", "if:(tree==nil)"] := rfl

theorem c11_shape_treeStorage_getAndRefresh :
    Shapes.treestorage_treeStorage_getAndRefresh =
   ["ts.Lock", "defer:ts.Unlock", "ts.cancelDeletion"] := rfl

theorem c11_shape_treeStorage_Set :
    Shapes.treestorage_treeStorage_Set =
   ["ts.Lock", "defer:ts.Unlock", "ts.cancelDeletion"] := rfl

theorem c11_shape_treeStorage_Remove :
    Shapes.treestorage_treeStorage_Remove =
   ["ts.Lock", "defer:ts.Unlock", "if:ts.closed", "return:", "if:ok", "return:", "wg.Add", "go{",
     "defer:wg.Done", "time.NewTimer", "recv:C", "verifPoint:ts.fired", "ts.Lock",
     "if:(ts.cancellations[]==c)", "ts.Unlock", "recv:c", "timer.Stop", "return:", "}"] := rfl

theorem c11_shape_treeStorage_cancelDeletion :
    Shapes.treestorage_treeStorage_cancelDeletion =
   ["close:c"] := rfl

theorem c11_shape_treeStorage_Close :
    Shapes.treestorage_treeStorage_Close =
   ["ts.Lock", "close:c", "ts.Unlock", "wg.Wait"] := rfl

theorem c11_shape_Overlay_CreateProtocol_c11 :
    Shapes.overlay_Overlay_CreateProtocol_c11 =
   ["protoIO.getByName", "assign:io:=o.protoIO.getByName(name)", "ProtocolNameToID",
     "o.NewTreeNodeInstanceFromService",
     "assign:tni:=o.NewTreeNodeInstanceFromService(t,t.Root,ProtocolNameToID(name),sid,io)",
     "server.protocolInstantiate",
     "assign:pi,err:=o.server.protocolInstantiate(tni.token.ProtoID,tni)", "if:(err!=nil)",
     "instancesLock.Lock", "o.nodeDelete", "instancesLock.Unlock",
     "return:nil,xerrors.Errorf(\"\",err)", "o.RegisterProtocolInstance",
     "assign:err=o.RegisterProtocolInstance(pi)", "if:(err!=nil)",
     "return:nil,xerrors.Errorf(\"\",err)", "go{", "defer{", "assign:r:=recover()",
     "if:(r!=nil)", "}", "pi.Dispatch", "assign:err:=pi.Dispatch()", "if:(err!=nil)", "}",
     "return:pi,err"] := rfl

theorem c11_shape_Overlay_nodeDelete_c11 :
    Shapes.overlay_Overlay_nodeDelete_c11 =
   ["token.ID", "assign:tok:=token.ID()", "assign:tni,ok:=o.instances[tok]", "if:!ok", "return:",
     "tni.closeDispatch", "assign:err:=tni.closeDispatch()", "if:(err!=nil)",
     "o.cleanTreeStorage", "assign:o.instancesInfo[tok]=true"] := rfl

theorem c11_shape_Overlay_cleanTreeStorage_c11 :
    Shapes.overlay_Overlay_cleanTreeStorage_c11 =
   ["assign:notUsed:=true", "range:_,inst:=o.instances{",
     "if:inst.token.TreeID.Equal(token.TreeID)", "assign:notUsed=false", "}", "if:notUsed",
     "treeStorage.Remove"] := rfl

theorem c11_shape_Overlay_nodeDone_c11 :
    Shapes.overlay_Overlay_nodeDone_c11 =
   ["instancesLock.Lock", "o.nodeDelete", "instancesLock.Unlock"] := rfl


end C11
