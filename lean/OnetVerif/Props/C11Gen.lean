import OnetVerif.Model.C11Store
import OnetVerif.Gen.C11
import OnetVerif.Gen.C11S
/-! Property C11 — the definitions regenerated from the Go source (`Gen/C11.lean`, written by `harness/cmd/go2lean` on
every check run from `treestorage.go`): `IsRegistered`, `IsRequested`, `Get`, `Register`, `Unregister` on the field
`trees` of `treeStorage` (a Go map; a tree pointer is read as an option of the tree's copy number).  The model of the
store (`Model/C11Store.lean`) gives every tree id a `Slot` (absent / requested / present); `slotOf` reads the slot of
an id off the translated map.  The theorems: the two tests are tests on the slot, `Get` returns the present tree,
`Register` / `Unregister` change the slot of their id as `step1 .register` / `.unregister` do and leave every other
id's slot alone.  Nothing imports this file. -/
set_option linter.unusedSimpArgs false
namespace C11.Store

/-- the slot of a tree id in the translated store -/
def slotOf (ts : Gen.C11.treeStorage) (id : Nat) : Slot :=
  match Gen.Rt.Map.find ts.trees id with
  | none => .absent
  | some none => .requested
  | some (some c) => .present c

/-- **`IsRegistered` as translated: the slot is not absent** -/
theorem c11_gen_IsRegistered_eq (ts : Gen.C11.treeStorage) (id : Nat) :
    Gen.C11.treeStorage_IsRegistered ts id = (slotOf ts id != .absent) := by
  unfold Gen.C11.treeStorage_IsRegistered slotOf
  rcases Option.eq_none_or_eq_some (Gen.Rt.Map.find ts.trees id) with h | ⟨v, h⟩
  · simp [h]
  · cases v <;> simp [h]

/-- **`IsRequested` as translated: the slot is `requested`** (key present, nil tree) -/
theorem c11_gen_IsRequested_eq (ts : Gen.C11.treeStorage) (id : Nat) :
    Gen.C11.treeStorage_IsRequested ts id = (slotOf ts id == .requested) := by
  unfold Gen.C11.treeStorage_IsRequested slotOf
  rcases Option.eq_none_or_eq_some (Gen.Rt.Map.find ts.trees id) with h | ⟨v, h⟩
  · simp [h]
  · cases v <;> simp [h]

/-- **`Get` as translated: the tree of a present slot, nil otherwise** -/
theorem c11_gen_Get_eq (ts : Gen.C11.treeStorage) (id : Nat) :
    Gen.C11.treeStorage_Get ts id = (match slotOf ts id with | .present c => some c | _ => none) := by
  unfold Gen.C11.treeStorage_Get Gen.Rt.Map.get slotOf
  rcases Option.eq_none_or_eq_some (Gen.Rt.Map.find ts.trees id) with h | ⟨v, h⟩
  · simp [h]
  · cases v <;> simp [h]

private theorem find_cons (l : List (Nat × Option Nat)) (k : Nat) (v : Option Nat) (j : Nat) :
    Gen.Rt.Map.find (some ((k, v) :: l)) j = if j = k then some v else Gen.Rt.Map.find (some l) j := by
  by_cases h : j = k
  · subst h; simp [Gen.Rt.Map.find, List.lookup]
  · have : (j == k) = false := by simp [h]
    simp [Gen.Rt.Map.find, List.lookup, this, h]

private theorem find_erase (l : List (Nat × Option Nat)) (k j : Nat) :
    Gen.Rt.Map.find (Gen.Rt.Map.erase (some l) k) j = if j = k then none else Gen.Rt.Map.find (some l) j := by
  simp only [Gen.Rt.Map.find, Gen.Rt.Map.erase, Option.map_some, Option.getD_some]
  induction l with
  | nil => simp [List.lookup]
  | cons p rest ih =>
    obtain ⟨k', v'⟩ := p
    by_cases hk : k' = k
    · subst hk
      by_cases hj : j = k'
      · subst hj; simpa [List.filter_cons, List.lookup] using ih
      · have : (j == k') = false := by simp [hj]
        simpa [List.filter_cons, List.lookup, this, hj] using ih
    · have hk' : (k' == k) = false := by simp [hk]
      by_cases hj : j = k'
      · subst hj; simp [List.filter_cons, List.lookup, hk', hk]
      · have : (j == k') = false := by simp [hj]
        simp only [List.filter_cons, hk', Bool.not_false, if_true, List.lookup, this]
        exact ih

/-- **`Register` as translated is the model's `register` step on the slot of its id** (on a store made by
`newTreeStorage`: the map is not nil, so the write cannot panic) and changes no other id's slot -/
theorem c11_gen_Register_eq (ts : Gen.C11.treeStorage) (id : Nat) (hm : ts.trees.isSome) :
    ∃ ts', Gen.C11.treeStorage_Register ts id = some ts' ∧
      slotOf ts' id = (step1 { slot := slotOf ts id } .register).slot ∧ ∀ j, j ≠ id → slotOf ts' j = slotOf ts j := by
  obtain ⟨tr⟩ := ts
  cases tr with
  | none => simp at hm
  | some l =>
    unfold Gen.C11.treeStorage_Register
    rcases Option.eq_none_or_eq_some (Gen.Rt.Map.find (some l) id) with h | ⟨v, h⟩
    · simp only [h, Option.isSome_none, Bool.not_false, if_true, Gen.Rt.Map.insert?]
      refine ⟨_, rfl, ?_, fun j hj => ?_⟩
      · simp [slotOf, find_cons, h, step1]
      · simp [slotOf, find_cons, hj]
    · simp only [h, Option.isSome_some, Bool.not_true, Bool.false_eq_true, if_false]
      refine ⟨_, rfl, ?_, fun j _ => rfl⟩
      cases v <;> simp [slotOf, h, step1]

/-- **`Unregister` as translated is the model's `unregister` step on the slot of its id** (a requested slot becomes
absent, a present tree is kept) and changes no other id's slot -/
theorem c11_gen_Unregister_eq (ts : Gen.C11.treeStorage) (id : Nat) :
    slotOf (Gen.C11.treeStorage_Unregister ts id) id = (step1 { slot := slotOf ts id } .unregister).slot ∧
      ∀ j, j ≠ id → slotOf (Gen.C11.treeStorage_Unregister ts id) j = slotOf ts j := by
  obtain ⟨tr⟩ := ts
  unfold Gen.C11.treeStorage_Unregister Gen.Rt.Map.get
  cases tr with
  | none => simp [slotOf, Gen.Rt.Map.find, Gen.Rt.Map.erase, step1]
  | some l =>
    rcases Option.eq_none_or_eq_some (Gen.Rt.Map.find (some l) id) with h | ⟨v, h⟩
    · simp only [h, Option.getD_none, Option.isNone_none, if_true]
      refine ⟨?_, fun j hj => ?_⟩
      · simp [slotOf, find_erase, h, step1]
      · simp [slotOf, find_erase, hj]
    · cases v with
      | none =>
        simp only [h, Option.getD_some, Option.isNone_none, if_true]
        refine ⟨?_, fun j hj => ?_⟩
        · simp [slotOf, find_erase, h, step1]
        · simp [slotOf, find_erase, hj]
      | some c =>
        simp only [h, Option.getD_some, Option.isNone_some, Bool.false_eq_true, if_false]
        simp [slotOf, h, step1]

/-! ### the rest of `treestorage.go` (module `Gen/C11S.lean`): `cancelDeletion`, `getAndRefresh`, `Set`, `Close`, and the
two decisions of `Remove` — its closing test and the re-check of the removal routine once it holds the lock.

The store as translated has three fields: `trees` (tree pointer ↦ option of a `Tree` reduced to its `ID`),
`cancellations` (the channel of a scheduled removal ↦ its identity, an `Option Nat`: the generation number of the model,
`none` = nil channel) and `closed`.  `viewS ts id g f` reads the model's per-id state `St1` off it (the generation
counter `g` and the routines waiting for the lock `f` are not fields of the Go struct: they stand for the channel
allocator and the goroutines).  The theorems say that each translated function IS the model's step on that view — for its
own id and, with `…_others`, leaves every other id's view alone. -/

def slotS (ts : Gen.C11S.treeStorage) (id : Nat) : Slot :=
  match Gen.Rt.Map.find ts.trees id with
  | none => .absent
  | some none => .requested
  | some (some t) => .present t.ID

def armedS (ts : Gen.C11S.treeStorage) (id : Nat) : Option Nat := Gen.Rt.Map.get ts.cancellations id none

def viewS (ts : Gen.C11S.treeStorage) (id g : Nat) (f : List Nat) : St1 :=
  { slot := slotS ts id, armed := armedS ts id, gen := g, firing := f, closed := ts.closed }

private theorem findg_cons {ν : Type} (l : List (Nat × ν)) (k : Nat) (v : ν) (j : Nat) :
    Gen.Rt.Map.find (some ((k, v) :: l)) j = if j = k then some v else Gen.Rt.Map.find (some l) j := by
  by_cases h : j = k
  · subst h; simp [Gen.Rt.Map.find, List.lookup]
  · have : (j == k) = false := by simp [h]
    simp [Gen.Rt.Map.find, List.lookup, this, h]

private theorem findg_erase {ν : Type} (m : Gen.Rt.Map Nat ν) (k j : Nat) :
    Gen.Rt.Map.find (Gen.Rt.Map.erase m k) j = if j = k then none else Gen.Rt.Map.find m j := by
  cases m with
  | none => simp [Gen.Rt.Map.find, Gen.Rt.Map.erase]
  | some l =>
    simp only [Gen.Rt.Map.find, Gen.Rt.Map.erase, Option.map_some, Option.getD_some]
    induction l with
    | nil => simp [List.lookup]
    | cons p rest ih =>
      obtain ⟨k', v'⟩ := p
      by_cases hk : k' = k
      · subst hk
        by_cases hj : j = k'
        · subst hj; simpa [List.filter_cons, List.lookup] using ih
        · have : (j == k') = false := by simp [hj]
          simpa [List.filter_cons, List.lookup, this, hj] using ih
      · have hk' : (k' == k) = false := by simp [hk]
        by_cases hj : j = k'
        · subst hj; simp [List.filter_cons, List.lookup, hk', hk]
        · have : (j == k') = false := by simp [hj]
          simp only [List.filter_cons, hk', Bool.not_false, if_true, List.lookup, this]
          exact ih

/-- `cancelDeletion` as translated: the removal of its id is no longer scheduled, whatever it was; nothing else changes -/
theorem c11_gen_cancelDeletion_eq (ts : Gen.C11S.treeStorage) (id g : Nat) (f : List Nat) :
    viewS (Gen.C11S.treeStorage_cancelDeletion ts id) id g f = step1 (viewS ts id g f) .refresh ∧
    ∀ j, j ≠ id → viewS (Gen.C11S.treeStorage_cancelDeletion ts id) j g f = viewS ts j g f := by
  unfold Gen.C11S.treeStorage_cancelDeletion
  cases hc : Gen.Rt.Map.get ts.cancellations id none with
  | none =>
    refine ⟨?_, fun j _ => ?_⟩
    · simp [viewS, step1, armedS, slotS, hc]
    · simp
  | some c =>
    refine ⟨?_, fun j hj => ?_⟩
    · simp [viewS, step1, armedS, slotS, Gen.Rt.Map.get, findg_erase]
    · simp [viewS, armedS, slotS, Gen.Rt.Map.get, findg_erase, hj]

/-- **`getAndRefresh` as translated returns the tree of a present slot** (the cancellation it performs first is
`c11_gen_cancelDeletion_eq`; the function's result does not carry the updated store) -/
theorem c11_gen_getAndRefresh_eq (ts : Gen.C11S.treeStorage) (id : Nat) :
    (Gen.C11S.treeStorage_getAndRefresh ts id).map (·.ID) = (match slotS ts id with | .present c => some c | _ => none) := by
  have htr : (Gen.C11S.treeStorage_cancelDeletion ts id).trees = ts.trees := by
    unfold Gen.C11S.treeStorage_cancelDeletion
    cases Gen.Rt.Map.get ts.cancellations id none <;> simp
  unfold Gen.C11S.treeStorage_getAndRefresh
  simp only [htr, Gen.Rt.Map.get, slotS]
  rcases Option.eq_none_or_eq_some (Gen.Rt.Map.find ts.trees id) with h | ⟨v, h⟩
  · simp [h]
  · cases v <;> simp [h]

/-- **`Set` as translated is the model's `set` step** on the view of the tree's id (on a store made by
`newTreeStorage`: the map is not nil), and changes no other id's view; a nil tree is the panic outcome -/
theorem c11_gen_Set_eq (ts : Gen.C11S.treeStorage) (k g : Nat) (f : List Nat) (hm : ts.trees.isSome) :
    ∃ ts', Gen.C11S.treeStorage_Set ts (some { ID := k }) = some ts' ∧
      viewS ts' k g f = step1 (viewS ts k g f) (.set k) ∧ ∀ j, j ≠ k → viewS ts' j g f = viewS ts j g f := by
  have hcd := c11_gen_cancelDeletion_eq ts k g f
  have htr : (Gen.C11S.treeStorage_cancelDeletion ts k).trees = ts.trees := by
    unfold Gen.C11S.treeStorage_cancelDeletion
    cases Gen.Rt.Map.get ts.cancellations k none <;> simp
  have ha : Gen.Rt.Map.get (Gen.C11S.treeStorage_cancelDeletion ts k).cancellations k none = none := by
    have := congrArg St1.armed hcd.1; simpa [viewS, step1, armedS] using this
  have hcl : (Gen.C11S.treeStorage_cancelDeletion ts k).closed = ts.closed := by
    have := congrArg St1.closed hcd.1; simpa [viewS, step1] using this
  have hao : ∀ j, j ≠ k → Gen.Rt.Map.get (Gen.C11S.treeStorage_cancelDeletion ts k).cancellations j none =
      Gen.Rt.Map.get ts.cancellations j none := by
    intro j hj; have := congrArg St1.armed (hcd.2 j hj); simpa [viewS, armedS] using this
  unfold Gen.C11S.treeStorage_Set
  simp only [htr]
  cases htl : ts.trees with
  | none => simp [htl] at hm
  | some l =>
    simp only [Gen.Rt.Map.insert?]
    refine ⟨_, rfl, ?_, fun j hj => ?_⟩
    · simp [viewS, step1, slotS, armedS, findg_cons, ha, hcl]
    · simp [viewS, slotS, armedS, findg_cons, hj, htl, hao j hj, hcl]

theorem c11_gen_Set_nil_panics (ts : Gen.C11S.treeStorage) : Gen.C11S.treeStorage_Set ts none = none := rfl

/-- **`Close` as translated is the model's `close` step on every id's view**: the flag is set, no removal stays
scheduled, no tree is touched -/
theorem c11_gen_Close_eq (ts : Gen.C11S.treeStorage) (j g : Nat) (f : List Nat) :
    viewS (Gen.C11S.treeStorage_Close ts) j g f = step1 (viewS ts j g f) .close := by
  unfold Gen.C11S.treeStorage_Close
  cases hc : ts.cancellations <;>
    simp [viewS, step1, armedS, slotS, Gen.Rt.Map.get, Gen.Rt.Map.find, Gen.Rt.Map.clear, hc]

/-- **the two decisions of `Remove`**: its first test is the model's `closed` test; the re-check of the removal routine
under the lock (`ts.cancellations[id] == c`, /repo 2e39a89) is the model's `armed = some g` — the routine of generation
`g` deletes exactly when its own removal is still the scheduled one -/
theorem c11_gen_Remove_decisions (ts : Gen.C11S.treeStorage) (id g g' : Nat) (f : List Nat) :
    Gen.C11S.Remove_closed ts = (viewS ts id g f).closed ∧
    (Gen.C11S.Remove_reap_deletes ts id (some g') = true ↔ (viewS ts id g f).armed = some g') := by
  refine ⟨by simp [Gen.C11S.Remove_closed, viewS], ?_⟩
  simp [Gen.C11S.Remove_reap_deletes, viewS, armedS]

/-- so the model's `reap` is the routine as translated: given that the timer of generation `g'` has fired, the step
deletes the tree and the registration iff the translated re-check says so -/
theorem c11_gen_reap_uses_translated_recheck (ts : Gen.C11S.treeStorage) (id g g' : Nat) (f : List Nat) (hf : g' ∈ f) :
    step1 (viewS ts id g f) (.reap g') =
      (if Gen.C11S.Remove_reap_deletes ts id (some g') then
        { viewS ts id g f with firing := f.filter (· != g'), slot := .absent, armed := none }
       else { viewS ts id g f with firing := f.filter (· != g') }) := by
  have h := (c11_gen_Remove_decisions ts id g g' f).2
  by_cases hd : Gen.C11S.Remove_reap_deletes ts id (some g') = true
  · have ha := h.mp hd
    simp only [hd, if_true]
    simp only [viewS] at ha ⊢
    simp [step1, hf, ha]
  · have ha : ¬ (viewS ts id g f).armed = some g' := fun e => hd (h.mpr e)
    simp only [hd]
    simp only [viewS] at ha ⊢
    simp [step1, hf, ha]

/-- `setIfMissing` as translated: the test, then exactly the body of `Set` -/
private theorem gen_setIfMissing_unfold (ts : Gen.C11S.treeStorage) (k : Nat) (b : Bool) :
    Gen.C11S.treeStorage_setIfMissing ts (some { ID := k }) b =
      (if (!((Gen.Rt.Map.find ts.trees k).getD none).isNone) || (b && !(Gen.Rt.Map.find ts.trees k).isSome)
       then some (false, ts)
       else (Gen.C11S.treeStorage_Set ts (some { ID := k })).map fun x => (true, x)) := by
  unfold Gen.C11S.treeStorage_setIfMissing Gen.C11S.treeStorage_Set
  simp only []
  split
  · rfl
  · cases (Gen.Rt.Map.insert? (Gen.C11S.treeStorage_cancelDeletion ts k).trees k (some { ID := k })) <;> rfl

/-- **`setIfMissing` as translated is the model's `setIfMissing1`** on the view of the tree's id (non-nil map): the same
flag, the same state of that id, every other id untouched — test and write are one function under one lock, which is
what makes a handler one step -/
theorem c11_gen_setIfMissing_eq (ts : Gen.C11S.treeStorage) (k g : Nat) (f : List Nat) (b : Bool) (hm : ts.trees.isSome) :
    ∃ r, Gen.C11S.treeStorage_setIfMissing ts (some { ID := k }) b = some r ∧
      r.1 = (setIfMissing1 (viewS ts k g f) k b).2 ∧ viewS r.2 k g f = (setIfMissing1 (viewS ts k g f) k b).1 ∧
      ∀ j, j ≠ k → viewS r.2 j g f = viewS ts j g f := by
  rw [gen_setIfMissing_unfold]
  obtain ⟨ts', hset, hv, ho⟩ := c11_gen_Set_eq ts k g f hm
  rcases Option.eq_none_or_eq_some (Gen.Rt.Map.find ts.trees k) with h | ⟨v, h⟩
  · -- the slot is absent
    have hs : (viewS ts k g f).slot = .absent := by simp [viewS, slotS, h]
    cases b with
    | true =>
      refine ⟨(false, ts), by simp [h], ?_, ?_, fun _ _ => rfl⟩ <;> simp [setIfMissing1, hs]
    | false =>
      refine ⟨(true, ts'), by simp [h, hset], ?_, ?_, ho⟩
      · simp [setIfMissing1, hs]
      · simp only [setIfMissing1, hs]; exact hv
  · cases v with
    | none =>
      have hs : (viewS ts k g f).slot = .requested := by simp [viewS, slotS, h]
      refine ⟨(true, ts'), by simp [h, hset], ?_, ?_, ho⟩
      · simp [setIfMissing1, hs]
      · simp only [setIfMissing1, hs]; exact hv
    | some t =>
      have hs : (viewS ts k g f).slot = .present t.ID := by simp [viewS, slotS, h]
      refine ⟨(false, ts), by simp [h], ?_, ?_, fun _ _ => rfl⟩ <;> simp [setIfMissing1, hs]
end C11.Store
