import OnetVerif.Model.C11Store
import OnetVerif.Gen.C11
/-! Property C11 — the definitions regenerated from the Go source (`Gen/C11.lean`, written by `harness/cmd/go2lean` on
every check run from `treestorage.go`): `IsRegistered`, `IsRequested`, `Get`, `Register`, `Unregister` on the field
`trees` of `treeStorage` (a Go map; a tree pointer is read as an option of the tree's copy number).  The model of the
store (`Model/C11Store.lean`) gives every tree id a `Slot` (absent / requested / present); `slotOf` reads the slot of
an id off the translated map.  The theorems: the two tests are tests on the slot, `Get` returns the present tree,
`Register` / `Unregister` change the slot of their id as `step1 .register` / `.unregister` do and leave every other
id's slot alone.  Nothing imports this file. -/
set_option linter.unusedSimpArgs false
namespace C11.Store

/-- the slot of a tree id in the translated store -/
def slotOf (ts : Gen.C11.treeStorage) (id : Nat) : Slot :=
  match Gen.Rt.Map.find ts.trees id with
  | none => .absent
  | some none => .requested
  | some (some c) => .present c

/-- **`IsRegistered` as translated: the slot is not absent** -/
theorem c11_gen_IsRegistered_eq (ts : Gen.C11.treeStorage) (id : Nat) :
    Gen.C11.treeStorage_IsRegistered ts id = (slotOf ts id != .absent) := by
  unfold Gen.C11.treeStorage_IsRegistered slotOf
  rcases Option.eq_none_or_eq_some (Gen.Rt.Map.find ts.trees id) with h | ⟨v, h⟩
  · simp [h]
  · cases v <;> simp [h]

/-- **`IsRequested` as translated: the slot is `requested`** (key present, nil tree) -/
theorem c11_gen_IsRequested_eq (ts : Gen.C11.treeStorage) (id : Nat) :
    Gen.C11.treeStorage_IsRequested ts id = (slotOf ts id == .requested) := by
  unfold Gen.C11.treeStorage_IsRequested slotOf
  rcases Option.eq_none_or_eq_some (Gen.Rt.Map.find ts.trees id) with h | ⟨v, h⟩
  · simp [h]
  · cases v <;> simp [h]

/-- **`Get` as translated: the tree of a present slot, nil otherwise** -/
theorem c11_gen_Get_eq (ts : Gen.C11.treeStorage) (id : Nat) :
    Gen.C11.treeStorage_Get ts id = (match slotOf ts id with | .present c => some c | _ => none) := by
  unfold Gen.C11.treeStorage_Get Gen.Rt.Map.get slotOf
  rcases Option.eq_none_or_eq_some (Gen.Rt.Map.find ts.trees id) with h | ⟨v, h⟩
  · simp [h]
  · cases v <;> simp [h]

private theorem find_cons (l : List (Nat × Option Nat)) (k : Nat) (v : Option Nat) (j : Nat) :
    Gen.Rt.Map.find (some ((k, v) :: l)) j = if j = k then some v else Gen.Rt.Map.find (some l) j := by
  by_cases h : j = k
  · subst h; simp [Gen.Rt.Map.find, List.lookup]
  · have : (j == k) = false := by simp [h]
    simp [Gen.Rt.Map.find, List.lookup, this, h]

private theorem find_erase (l : List (Nat × Option Nat)) (k j : Nat) :
    Gen.Rt.Map.find (Gen.Rt.Map.erase (some l) k) j = if j = k then none else Gen.Rt.Map.find (some l) j := by
  simp only [Gen.Rt.Map.find, Gen.Rt.Map.erase, Option.map_some, Option.getD_some]
  induction l with
  | nil => simp [List.lookup]
  | cons p rest ih =>
    obtain ⟨k', v'⟩ := p
    by_cases hk : k' = k
    · subst hk
      by_cases hj : j = k'
      · subst hj; simpa [List.filter_cons, List.lookup] using ih
      · have : (j == k') = false := by simp [hj]
        simpa [List.filter_cons, List.lookup, this, hj] using ih
    · have hk' : (k' == k) = false := by simp [hk]
      by_cases hj : j = k'
      · subst hj; simp [List.filter_cons, List.lookup, hk', hk]
      · have : (j == k') = false := by simp [hj]
        simp only [List.filter_cons, hk', Bool.not_false, if_true, List.lookup, this]
        exact ih

/-- **`Register` as translated is the model's `register` step on the slot of its id** (on a store made by
`newTreeStorage`: the map is not nil, so the write cannot panic) and changes no other id's slot -/
theorem c11_gen_Register_eq (ts : Gen.C11.treeStorage) (id : Nat) (hm : ts.trees.isSome) :
    ∃ ts', Gen.C11.treeStorage_Register ts id = some ts' ∧
      slotOf ts' id = (step1 { slot := slotOf ts id } .register).slot ∧ ∀ j, j ≠ id → slotOf ts' j = slotOf ts j := by
  obtain ⟨tr⟩ := ts
  cases tr with
  | none => simp at hm
  | some l =>
    unfold Gen.C11.treeStorage_Register
    rcases Option.eq_none_or_eq_some (Gen.Rt.Map.find (some l) id) with h | ⟨v, h⟩
    · simp only [h, Option.isSome_none, Bool.not_false, if_true, Gen.Rt.Map.insert?]
      refine ⟨_, rfl, ?_, fun j hj => ?_⟩
      · simp [slotOf, find_cons, h, step1]
      · simp [slotOf, find_cons, hj]
    · simp only [h, Option.isSome_some, Bool.not_true, Bool.false_eq_true, if_false]
      refine ⟨_, rfl, ?_, fun j _ => rfl⟩
      cases v <;> simp [slotOf, h, step1]

/-- **`Unregister` as translated is the model's `unregister` step on the slot of its id** (a requested slot becomes
absent, a present tree is kept) and changes no other id's slot -/
theorem c11_gen_Unregister_eq (ts : Gen.C11.treeStorage) (id : Nat) :
    slotOf (Gen.C11.treeStorage_Unregister ts id) id = (step1 { slot := slotOf ts id } .unregister).slot ∧
      ∀ j, j ≠ id → slotOf (Gen.C11.treeStorage_Unregister ts id) j = slotOf ts j := by
  obtain ⟨tr⟩ := ts
  unfold Gen.C11.treeStorage_Unregister Gen.Rt.Map.get
  cases tr with
  | none => simp [slotOf, Gen.Rt.Map.find, Gen.Rt.Map.erase, step1]
  | some l =>
    rcases Option.eq_none_or_eq_some (Gen.Rt.Map.find (some l) id) with h | ⟨v, h⟩
    · simp only [h, Option.getD_none, Option.isNone_none, if_true]
      refine ⟨?_, fun j hj => ?_⟩
      · simp [slotOf, find_erase, h, step1]
      · simp [slotOf, find_erase, hj]
    · cases v with
      | none =>
        simp only [h, Option.getD_some, Option.isNone_none, if_true]
        refine ⟨?_, fun j hj => ?_⟩
        · simp [slotOf, find_erase, h, step1]
        · simp [slotOf, find_erase, hj]
      | some c =>
        simp only [h, Option.getD_some, Option.isNone_some, Bool.false_eq_true, if_false]
        simp [slotOf, h, step1]
end C11.Store
