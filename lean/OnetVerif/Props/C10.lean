import OnetVerif.Model.C10
/-! Property C10 — property theorems, negation witnesses, `_partial` variants and non-vacuity
examples only (helper lemmas that need Mathlib go to OnetVerif/Proofs/). -/
namespace C10

end C10
