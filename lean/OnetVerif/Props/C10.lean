import OnetVerif.Model.C10
import OnetVerif.Props.C09
import OnetVerif.Shapes
import OnetVerif.Proofs.C09Pause
/-! Property C10 — closing a server is clean and safe under concurrent traffic.
Only property theorems, witnesses, non-vacuity examples and the lemmas they need. -/
namespace C10

/-! ### the router: invariant of every schedule -/

/-- what holds of every connection in every reachable state -/
structure Good (fixed flag stopped : Bool) (c : Conn) : Prop where
  /-- a receive loop exists only after a successful launch -/
  a  : c.setup ≠ .ok → c.h = .none
  /-- a receive loop that is past its deferred `c.Close()` has closed the connection -/
  b  : c.h = .removing ∨ c.h = .gone → c.isOpen = false
  /-- an open connection is always somebody's: its set-up goroutine has still to register it,
  or it is listed while `Stop` has not run, or its receive loop is alive -/
  k  : fixed = true → c.isOpen = true →
        c.setup = .greeting ∨ c.setup = .pending ∨ (flag = false ∧ c.inTable = true) ∨ c.h.live = true
  /-- once the flag is set every listed connection is closed -/
  l  : flag = true → c.inTable = true → c.isOpen = false
  /-- a live receive loop's connection is listed -/
  lt : c.h.live = true → c.inTable = true
  /-- once a `Stop` has returned there is no live receive loop -/
  j  : stopped = true → c.h.live = false
  r  : c.setup = .registered → c.inTable = true

structure Inv (fixed : Bool) (s : St) : Prop where
  conns : ∀ c ∈ s.conns, Good fixed s.flag s.stopped c
  sf    : s.stopped = true → s.flag = true
  /-- a `Stop` that is in or past `wg.Wait()` has set the flag -/
  pf    : ∀ p ∈ s.stops, p ≠ .crit → s.flag = true
  nl    : s.stops ≠ [] → s.listening = false
  ss    : s.stopped = true → s.stops ≠ []

theorem inv_init (f : Bool) : Inv f {} := by
  constructor <;> simp

theorem getElem?_mem {α} {l : List α} {i : Nat} {a : α} (h : l[i]? = some a) : a ∈ l := by
  obtain ⟨hi, rfl⟩ := List.getElem?_eq_some_iff.mp h
  exact List.getElem_mem hi

theorem inv_setConn {f : Bool} {s : St} {i : Nat} {c c' : Conn} (h : Inv f s)
    (hc : s.conns[i]? = some c) (hg : Good f s.flag s.stopped c → Good f s.flag s.stopped c') :
    Inv f (s.setConn i c') := by
  refine ⟨?_, h.sf, h.pf, h.nl, h.ss⟩
  intro x hx
  simp only [St.setConn] at hx ⊢
  rcases List.mem_or_eq_of_mem_set hx with hx | rfl
  · exact h.conns x hx
  · exact hg (h.conns c (getElem?_mem hc))

theorem inv_append {f : Bool} {s : St} {c : Conn} (h : Inv f s) (hg : Good f s.flag s.stopped c) :
    Inv f { s with conns := s.conns ++ [c] } := by
  refine ⟨?_, h.sf, h.pf, h.nl, h.ss⟩
  intro x hx
  simp only [List.mem_append, List.mem_singleton] at hx
  rcases hx with hx | rfl
  · exact h.conns x hx
  · exact hg

theorem mem_set_stop {l : List StopPc} {j : Nat} {a p : StopPc} (h : p ∈ l.set j a) : p = a ∨ p ∈ l := by
  rcases List.mem_or_eq_of_mem_set h with h | h
  · exact Or.inr h
  · exact Or.inl h

/-- **every action preserves the invariant** -/
theorem inv_step {f : Bool} {s s' : St} {a : Act} (h : Inv f s) (hs : step f s a = some s') : Inv f s' := by
  cases a with
  | dial =>
    simp only [step, Option.some.injEq] at hs; subst hs
    exact inv_append h (by constructor <;> simp [Handler.live])
  | incoming =>
    simp only [step] at hs
    split at hs
    · simp only [Option.some.injEq] at hs; subst hs
      exact inv_append h (by constructor <;> simp [Handler.live])
    · simp at hs
  | identity i ok =>
    simp only [step] at hs
    split at hs
    · rename_i c hc
      split at hs
      · rename_i hsu
        simp only [Option.some.injEq] at hs; subst hs
        apply inv_setConn h hc
        intro g
        obtain ⟨ga, gb, gk, gl, glt, gj, gr⟩ := g
        have hn := ga (by rw [hsu]; simp)
        cases ok <;> constructor <;> simp_all [Handler.live]
      · simp at hs
    · simp at hs
  | register i =>
    simp only [step] at hs
    split at hs
    · rename_i c hc
      split at hs
      · rename_i hsu
        simp only [Option.some.injEq] at hs; subst hs
        apply inv_setConn h hc
        intro g
        obtain ⟨ga, gb, gk, gl, glt, gj, gr⟩ := g
        have hn := ga (by rw [hsu]; simp)
        cases hfl : s.flag <;> cases f <;> constructor <;> simp_all [Handler.live]
      · simp at hs
    · simp at hs
  | launch i =>
    simp only [step] at hs
    split at hs
    · rename_i c hc
      split at hs
      · rename_i hsu
        simp only [Option.some.injEq] at hs; subst hs
        have hsf := h.sf
        apply inv_setConn h hc
        intro g
        obtain ⟨ga, gb, gk, gl, glt, gj, gr⟩ := g
        have hn := ga (by rw [hsu]; simp)
        cases hfl : s.flag <;> cases hst : s.stopped <;> constructor <;> simp_all [Handler.live]
      · simp at hs
    · simp at hs
  | peerSend i m =>
    simp only [step] at hs
    split at hs
    · rename_i c hc
      split at hs
      · simp only [Option.some.injEq] at hs; subst hs
        apply inv_setConn h hc
        intro g
        obtain ⟨ga, gb, gk, gl, glt, gj, gr⟩ := g
        constructor <;> simp_all
      · simp at hs
    · simp at hs
  | peerClose i =>
    simp only [step] at hs
    split at hs
    · rename_i c hc
      split at hs
      · simp only [Option.some.injEq] at hs; subst hs
        apply inv_setConn h hc
        intro g
        obtain ⟨ga, gb, gk, gl, glt, gj, gr⟩ := g
        constructor <;> simp_all
      · simp at hs
    · simp at hs
  | recv i =>
    simp only [step] at hs
    split at hs
    · rename_i c hc
      split at hs
      · rename_i hh
        split at hs
        · simp only [Option.some.injEq] at hs; subst hs
          apply inv_setConn h hc
          intro g
          obtain ⟨ga, gb, gk, gl, glt, gj, gr⟩ := g
          constructor <;> simp_all [Handler.live]
        · split at hs
          · simp only [Option.some.injEq] at hs; subst hs
            apply inv_setConn h hc
            intro g
            obtain ⟨ga, gb, gk, gl, glt, gj, gr⟩ := g
            constructor <;> simp_all [Handler.live]
          · simp at hs
      · simp at hs
    · simp at hs
  | check i =>
    simp only [step] at hs
    split at hs
    · rename_i c hc
      split at hs
      · rename_i x hh
        simp only [Option.some.injEq] at hs; subst hs
        apply inv_setConn h hc
        intro g
        obtain ⟨ga, gb, gk, gl, glt, gj, gr⟩ := g
        cases hfl : s.flag <;> cases x <;> constructor <;> simp_all [Handler.live]
      · simp at hs
    · simp at hs
  | dispatch i =>
    simp only [step] at hs
    split at hs
    · rename_i c hc
      split at hs
      · rename_i m hh
        simp only [Option.some.injEq] at hs; subst hs
        have := inv_setConn (c' := { c with h := .recv }) h hc (by
          intro g
          obtain ⟨ga, gb, gk, gl, glt, gj, gr⟩ := g
          constructor <;> simp_all [Handler.live])
        exact ⟨this.conns, this.sf, this.pf, this.nl, this.ss⟩
      · simp at hs
    · simp at hs
  | hclose i =>
    simp only [step] at hs
    split at hs
    · rename_i c hc
      split at hs
      · rename_i hh
        simp only [Option.some.injEq] at hs; subst hs
        apply inv_setConn h hc
        intro g
        obtain ⟨ga, gb, gk, gl, glt, gj, gr⟩ := g
        constructor <;> simp_all [Handler.live]
      · simp at hs
    · simp at hs
  | hremove i =>
    simp only [step] at hs
    split at hs
    · rename_i c hc
      split at hs
      · rename_i hh
        simp only [Option.some.injEq] at hs; subst hs
        apply inv_setConn h hc
        intro g
        obtain ⟨ga, gb, gk, gl, glt, gj, gr⟩ := g
        have hso : c.setup = .ok := Classical.byContradiction fun hne => by
          have := ga hne; simp_all
        constructor <;> simp_all [Handler.live]
      · simp at hs
    · simp at hs
  | stopBegin =>
    simp only [step, Option.some.injEq] at hs; subst hs
    refine ⟨h.conns, h.sf, ?_, by simp, by simp⟩
    intro p hp hne
    simp only [List.mem_append, List.mem_singleton] at hp
    rcases hp with hp | rfl
    · exact h.pf p hp hne
    · exact absurd rfl hne
  | stopCrit j =>
    simp only [step] at hs
    split at hs
    · simp only [Option.some.injEq] at hs; subst hs
      refine ⟨?_, by simp, by simp, ?_, ?_⟩
      · intro x hx
        simp only [List.mem_map] at hx
        obtain ⟨c, hc, rfl⟩ := hx
        obtain ⟨ga, gb, gk, gl, glt, gj, gr⟩ := h.conns c hc
        by_cases ht : c.inTable = true
        · simp only [ht, if_true]
          constructor <;> simp_all
        · simp only [ht]
          constructor <;> simp_all
      · intro hne
        apply h.nl
        intro he
        simp [he] at hne
      · intro hst
        have := h.ss hst
        intro he
        apply this
        have hl : (s.stops.set j StopPc.wait).length = 0 := by simp at he; simp [he]
        simpa using hl
    · simp at hs
  | stopWait j =>
    simp only [step] at hs
    split at hs
    · rename_i hcond
      simp only [Option.some.injEq] at hs; subst hs
      simp only [Bool.and_eq_true, Bool.not_eq_true', decide_eq_true_eq] at hcond
      obtain ⟨hj, hlive⟩ := hcond
      have hflag : s.flag = true := h.pf .wait (getElem?_mem hj) (by simp)
      refine ⟨?_, fun _ => hflag, ?_, ?_, ?_⟩
      · intro c hc
        obtain ⟨ga, gb, gk, gl, glt, gj, gr⟩ := h.conns c hc
        have hnl : c.h.live = false := by
          simp only [anyLive, List.any_eq_false] at hlive
          simpa using hlive c hc
        exact ⟨ga, gb, gk, gl, glt, fun _ => hnl, gr⟩
      · intro p hp hne
        exact hflag
      · intro hne
        apply h.nl
        intro he
        simp [he] at hj
      · intro _ he
        have hl : (s.stops.set j StopPc.returned).length = 0 := by simp at he; simp [he]
        have : s.stops = [] := by simpa using hl
        simp [this] at hj
    · simp at hs

theorem inv_run (f : Bool) (s : St) (h : Inv f s) (acts : List Act) : Inv f (run f s acts) := by
  induction acts generalizing s with
  | nil => exact h
  | cons a as ih =>
    simp only [run]
    cases hs : step f s a with
    | none => exact ih s h
    | some s' => exact ih s' (inv_step h hs)

/-! ### the theorems about the router -/

/-- once some `Stop` has returned, that stays so, and the dispatch log does not move any more -/
theorem stopped_step {f : Bool} {s s' : St} {a : Act} (h : Inv f s) (hst : s.stopped = true)
    (hs : step f s a = some s') : s'.stopped = true ∧ s'.log = s.log := by
  cases a with
  | dispatch i =>
    simp only [step] at hs
    split at hs
    · rename_i c hc
      split at hs
      · rename_i m hh
        have := (h.conns c (getElem?_mem hc)).j hst
        simp [hh, Handler.live] at this
      · simp at hs
    · simp at hs
  | stopCrit j =>
    simp only [step] at hs
    split at hs
    · simp only [Option.some.injEq] at hs; subst hs; exact ⟨hst, rfl⟩
    · simp at hs
  | stopWait j =>
    simp only [step] at hs
    split at hs
    · simp only [Option.some.injEq] at hs; subst hs; exact ⟨rfl, rfl⟩
    · simp at hs
  | stopBegin => simp only [step, Option.some.injEq] at hs; subst hs; exact ⟨hst, rfl⟩
  | dial => simp only [step, Option.some.injEq] at hs; subst hs; exact ⟨hst, rfl⟩
  | incoming =>
    simp only [step] at hs
    split at hs
    · simp only [Option.some.injEq] at hs; subst hs; exact ⟨hst, rfl⟩
    · simp at hs
  | identity i ok | register i | launch i | peerSend i m | peerClose i | check i | hclose i | hremove i =>
    simp only [step] at hs
    split at hs
    · split at hs
      · simp only [Option.some.injEq] at hs; subst hs; exact ⟨hst, rfl⟩
      · simp at hs
    · simp at hs
  | recv i =>
    simp only [step] at hs
    split at hs
    · split at hs
      · split at hs
        · simp only [Option.some.injEq] at hs; subst hs; exact ⟨hst, rfl⟩
        · split at hs
          · simp only [Option.some.injEq] at hs; subst hs; exact ⟨hst, rfl⟩
          · simp at hs
      · simp at hs
    · simp at hs

/-- **no dispatch after close**: for every schedule, with unboundedly many connections, once a
`Stop` call has returned no receive loop is alive, no `dispatch` action is enabled, and whatever
happens afterwards — late connections, messages still arriving, further sends, further `Stop`s —
the list of dispatched messages stays what it was when `Stop` returned. -/
theorem c10_no_dispatch_after_close (fixed : Bool) (acts : List Act) :
    let s := run fixed {} acts
    s.stopped = true →
      (∀ c ∈ s.conns, c.h.live = false) ∧
      (∀ i, step fixed s (.dispatch i) = none) ∧
      (∀ more, (run fixed s more).log = s.log ∧ (run fixed s more).stopped = true) := by
  intro s hst
  have hinv : Inv fixed s := inv_run fixed {} (inv_init fixed) acts
  refine ⟨fun c hc => (hinv.conns c hc).j hst, ?_, ?_⟩
  · intro i
    cases hd : step fixed s (.dispatch i) with
    | none => rfl
    | some s' =>
      exfalso
      simp only [step] at hd
      split at hd
      · rename_i c hc
        split at hd
        · rename_i m hh
          have := (hinv.conns c (getElem?_mem hc)).j hst
          simp [hh, Handler.live] at this
        · simp at hd
      · simp at hd
  · intro more
    have key : ∀ (t : St), Inv fixed t → t.stopped = true →
        (run fixed t more).log = t.log ∧ (run fixed t more).stopped = true := by
      induction more with
      | nil => intro t _ ht; exact ⟨rfl, ht⟩
      | cons a as ih =>
        intro t hi ht
        simp only [run]
        cases hs : step fixed t a with
        | none => exact ih t hi ht
        | some t' =>
          obtain ⟨h1, h2⟩ := stopped_step hi ht hs
          obtain ⟨h3, h4⟩ := ih t' (inv_step hi hs) h1
          exact ⟨h3.trans h2, h4⟩
    exact key s hinv hst

/-- **all closed**: on the current code, for every schedule: when a `Stop` has returned and
every goroutine of the router has come to rest, every connection ever opened or accepted —
before, while or after `Stop` ran — is closed. -/
theorem c10_all_closed (acts : List Act) :
    let s := run true {} acts
    s.stopped = true → quiescent s = true → ∀ c ∈ s.conns, c.isOpen = false := by
  intro s hst hq c hc
  have hinv : Inv true s := inv_run true {} (inv_init true) acts
  have g := hinv.conns c hc
  have hflag := hinv.sf hst
  simp only [quiescent, Bool.and_eq_true, List.all_eq_true] at hq
  have hq1 := hq.1 c hc
  simp only [Bool.or_eq_true, beq_iff_eq] at hq1
  cases ho : c.isOpen with
  | false => rfl
  | true =>
    exfalso
    rcases g.k rfl ho with h1 | h1 | h1 | h1
    · rcases hq1.1 with h2 | h2 <;> simp [h1] at h2
    · rcases hq1.1 with h2 | h2 <;> simp [h1] at h2
    · simp [hflag] at h1
    · rcases hq1.2 with h2 | h2 <;> simp [h2, Handler.live] at h1

/-- the code before commit d76eafc: a connection whose registration is refused because `Stop` has
run is left open for ever (`Send` after `Stop`: dial, stop, refused) — the probed leak -/
theorem c10_all_closed_needed_the_fix :
    let s := run false {} [.dial, .stopBegin, .stopCrit 0, .stopWait 0, .register 0]
    s.stopped = true ∧ quiescent s = true ∧ (s.conns.map (·.isOpen)) = [true] := by
  decide

/-- steps the set-up goroutine of a connection still has to take -/
def Setup.rank : Setup → Nat
  | .greeting => 3 | .pending => 2 | .registered => 1 | .ok => 0 | .err => 0

/-- steps a receive loop has still to take once the closed flag is set -/
def Handler.rank : Handler → Nat
  | .disp _ => 5 | .recv => 4 | .got _ => 3 | .closing => 2 | .removing => 1 | .gone => 0 | .none => 0

/-- **racing operations fail cleanly**: in every reachable state, whatever `Stop` is doing,
(1) a set-up goroutine (a `Send` that has to connect, an incoming connection) that is not
finished can always take its next step — it is never stuck — and that step brings it strictly
closer to its end, which is `ok` or `err` (`Setup.rank = 0`);
(2) the wait group is never misused: when `launchHandleRoutine` adds to it, no `Stop` is in or
past `wg.Wait()`;
(3) a `Stop` that waits is never stuck either: either `wg.Wait()` can return, or some receive
loop can take a step, and under the closed flag every step of a receive loop brings it strictly
closer to its end. -/
theorem c10_racing_ops_fail_cleanly (fixed : Bool) (acts : List Act) :
    let s := run fixed {} acts
    (∀ i c, s.conns[i]? = some c →
      (c.setup = .greeting → ∀ ok, ∃ s', step fixed s (.identity i ok) = some s' ∧
          ∃ c', s'.conns[i]? = some c' ∧ c'.setup.rank < c.setup.rank) ∧
      (c.setup = .pending → ∃ s', step fixed s (.register i) = some s' ∧
          ∃ c', s'.conns[i]? = some c' ∧ c'.setup.rank < c.setup.rank) ∧
      (c.setup = .registered → ∃ s', step fixed s (.launch i) = some s' ∧
          ∃ c', s'.conns[i]? = some c' ∧ c'.setup.rank < c.setup.rank ∧
            (c'.setup = .ok → ∀ p ∈ s.stops, p = .crit))) ∧
    (∀ j, s.stops[j]? = some .wait →
      (∃ s', step fixed s (.stopWait j) = some s') ∨
      (∃ i c, s.conns[i]? = some c ∧ c.h.live = true ∧
        ∃ a, (a = .recv i ∨ a = .check i ∨ a = .dispatch i ∨ a = .hclose i) ∧
          ∃ s', step fixed s a = some s' ∧ ∃ c', s'.conns[i]? = some c' ∧ c'.h.rank < c.h.rank)) := by
  intro s
  have hinv : Inv fixed s := inv_run fixed {} (inv_init fixed) acts
  have hset : ∀ (i : Nat) (c c' : Conn), s.conns[i]? = some c → (s.setConn i c').conns[i]? = some c' := by
    intro i c c' hc
    simp only [St.setConn]
    rw [List.getElem?_set_self]
    exact (List.getElem?_eq_some_iff.mp hc).1
  constructor
  · intro i c hc
    refine ⟨?_, ?_, ?_⟩
    · intro hg ok
      have hstep : step fixed s (.identity i ok) = some (s.setConn i
          (if ok then { c with setup := .pending } else { c with setup := .err, isOpen := false })) := by
        simp only [step, hc, hg, if_true]
      refine ⟨_, hstep, _, hset i c _ hc, ?_⟩
      cases ok <;> simp [hg, Setup.rank]
    · intro hg
      have hstep : step fixed s (.register i) = some (s.setConn i
          (if s.flag then { c with setup := .err, isOpen := c.isOpen && !fixed }
           else { c with setup := .registered, inTable := true })) := by
        simp only [step, hc, hg, if_true]
      refine ⟨_, hstep, _, hset i c _ hc, ?_⟩
      cases s.flag <;> simp [hg, Setup.rank]
    · intro hg
      have hstep : step fixed s (.launch i) = some (s.setConn i
          (if s.flag then { c with setup := .err } else { c with setup := .ok, h := .recv })) := by
        simp only [step, hc, hg, if_true]
      refine ⟨_, hstep, _, hset i c _ hc, ?_⟩
      cases hfl : s.flag
      · refine ⟨by simp [hg, Setup.rank], ?_⟩
        intro _ p hp
        exact Classical.byContradiction fun hne => by
          have := hinv.pf p hp hne
          simp [hfl] at this
      · exact ⟨by simp [hg, Setup.rank], by simp⟩
  · intro j hj
    have hflag : s.flag = true := hinv.pf .wait (getElem?_mem hj) (by simp)
    cases hl : anyLive s.conns with
    | false =>
      left
      exact ⟨{ s with stops := s.stops.set j .returned, stopped := true }, by simp [step, hj, hl]⟩
    | true =>
      right
      simp only [anyLive, List.any_eq_true] at hl
      obtain ⟨c, hcm, hlive⟩ := hl
      obtain ⟨i, hi, hget⟩ := List.getElem_of_mem hcm
      have hc : s.conns[i]? = some c := by rw [List.getElem?_eq_getElem hi, hget]
      have g := hinv.conns c hcm
      have hclosed : c.isOpen = false := g.l hflag (g.lt hlive)
      refine ⟨i, c, hc, hlive, ?_⟩
      cases hh : c.h with
      | none => simp [hh, Handler.live] at hlive
      | removing => simp [hh, Handler.live] at hlive
      | gone => simp [hh, Handler.live] at hlive
      | recv =>
        have hstep : step fixed s (.recv i) = some (s.setConn i { c with h := .got none }) := by
          simp [step, hc, hh, hclosed]
        exact ⟨.recv i, by simp, _, hstep, _, hset i c _ hc, by simp [Handler.rank]⟩
      | got x =>
        have hstep : step fixed s (.check i) = some (s.setConn i { c with h := .closing }) := by
          simp [step, hc, hh, hflag]
        exact ⟨.check i, by simp, _, hstep, _, hset i c _ hc, by simp [Handler.rank]⟩
      | disp m =>
        have hstep : step fixed s (.dispatch i) =
            some { (s.setConn i { c with h := .recv }) with log := s.log ++ [(i, m)] } := by
          simp [step, hc, hh]
        exact ⟨.dispatch i, by simp, _, hstep, _, hset i c { c with h := .recv } hc, by simp [Handler.rank]⟩
      | closing =>
        have hstep : step fixed s (.hclose i) = some (s.setConn i { c with h := .removing, isOpen := false }) := by
          simp [step, hc, hh]
        exact ⟨.hclose i, by simp, _, hstep, _, hset i c _ hc, by simp [Handler.rank]⟩

theorem idem_aux (fixed : Bool) (s : St) (hinv : Inv fixed s) (hst : s.stopped = true) :
    run fixed s [.stopBegin, .stopCrit s.stops.length, .stopWait s.stops.length]
      = { s with stops := s.stops ++ [.returned] } := by
  have hflag := hinv.sf hst
  have hlisten : s.listening = false := hinv.nl (hinv.ss hst)
  have hmap : s.conns.map (fun c => if c.inTable then { c with isOpen := false } else c) = s.conns := by
    conv => rhs; rw [← List.map_id s.conns]
    apply List.map_congr_left
    intro c hc
    by_cases ht : c.inTable = true
    · have := (hinv.conns c hc).l hflag ht
      simp only [ht, if_true, id]
      cases c; simp_all
    · simp [ht]
  have hnl : anyLive s.conns = false := by
    simp only [anyLive, List.any_eq_false]
    intro c hc
    simpa using (hinv.conns c hc).j hst
  obtain ⟨flag, listening, conns, stops, log, stopped⟩ := s
  simp only at hst hflag hlisten hmap hnl
  subst hst hflag hlisten
  have h1 : (stops ++ [StopPc.crit])[stops.length]? = some .crit := by simp
  have h2 : ((stops ++ [StopPc.crit]).set stops.length StopPc.wait)[stops.length]? = some .wait := by
    simp
  simp only [run, step, h1, if_true, hmap, h2, hnl, Bool.not_false, Bool.and_true, decide_true]
  simp

/-- **idempotent**: when a `Stop` has returned, a further `Stop` that finds everything at rest
runs through without waiting, panics nowhere and changes nothing: no connection, no flag, no
dispatched message — only its own record is added. -/
theorem c10_idempotent (fixed : Bool) (acts : List Act) :
    let s := run fixed {} acts
    s.stopped = true →
      run fixed s [.stopBegin, .stopCrit s.stops.length, .stopWait s.stops.length]
        = { s with stops := s.stops ++ [.returned] } := by
  intro s hst
  exact idem_aux fixed s (inv_run fixed {} (inv_init fixed) acts) hst

/-! ### the overlay -/

structure OvGood (closed : Bool) (x : Inst) : Prop where
  /-- listed instances have been through the critical section and their reader runs -/
  ld : x.listed = true → x.decided = true
  bl : x.bound = true → x.listed = true
  /-- decided and not listed — refused because closed, or finished — means: reader stopped -/
  dr : x.decided = true → x.listed = false → x.reader = false
  cl : closed = true → x.listed = false

theorem ov_inv_step {o o' : Ov} {a : OvAct} (h : ∀ x ∈ o.insts, OvGood o.closed x)
    (hs : ovStep o a = some o') :
    (∀ x ∈ o'.insts, OvGood o'.closed x) ∧ (o.closed = true → o'.closed = true) := by
  cases a with
  | create =>
    simp only [ovStep, Option.some.injEq] at hs; subst hs
    refine ⟨?_, id⟩
    intro x hx
    simp only [List.mem_append, List.mem_singleton] at hx
    rcases hx with hx | rfl
    · exact h x hx
    · constructor <;> simp
  | decide i =>
    simp only [ovStep] at hs
    split at hs
    · rename_i x hx
      split at hs
      · simp at hs
      · simp only [Option.some.injEq] at hs; subst hs
        refine ⟨?_, id⟩
        intro y hy
        rcases List.mem_or_eq_of_mem_set hy with hy | rfl
        · exact h y hy
        · obtain ⟨g1, g2, g3, g4⟩ := h x (getElem?_mem hx)
          cases hc : o.closed <;> constructor <;> simp_all
    · simp at hs
  | bind i =>
    simp only [ovStep] at hs
    split at hs
    · rename_i x hx
      split at hs
      · simp only [Option.some.injEq] at hs; subst hs
        refine ⟨?_, id⟩
        intro y hy
        rcases List.mem_or_eq_of_mem_set hy with hy | rfl
        · exact h y hy
        · obtain ⟨g1, g2, g3, g4⟩ := h x (getElem?_mem hx)
          constructor <;> simp_all
      · simp at hs
    · simp at hs
  | done i =>
    simp only [ovStep] at hs
    split at hs
    · rename_i x hx
      split at hs
      · simp only [Option.some.injEq] at hs; subst hs
        refine ⟨?_, id⟩
        intro y hy
        rcases List.mem_or_eq_of_mem_set hy with hy | rfl
        · exact h y hy
        · obtain ⟨g1, g2, g3, g4⟩ := h x (getElem?_mem hx)
          constructor <;> simp_all
      · simp at hs
    · simp at hs
  | close =>
    simp only [ovStep, Option.some.injEq] at hs; subst hs
    refine ⟨?_, fun _ => rfl⟩
    intro y hy
    simp only [List.mem_map] at hy
    obtain ⟨x, hx, rfl⟩ := hy
    obtain ⟨g1, g2, g3, g4⟩ := h x hx
    by_cases hl : x.listed = true
    · simp only [hl, if_true]; constructor <;> simp_all
    · simp only [hl]
      constructor <;> simp_all

theorem ov_inv_run (o : Ov) (h : ∀ x ∈ o.insts, OvGood o.closed x) (acts : List OvAct) :
    (∀ x ∈ (ovRun o acts).insts, OvGood (ovRun o acts).closed x) ∧
    (o.closed = true → (ovRun o acts).closed = true) := by
  induction acts generalizing o with
  | nil => exact ⟨h, id⟩
  | cons a as ih =>
    simp only [ovRun]
    cases hs : ovStep o a with
    | none => exact ih o h
    | some o' =>
      obtain ⟨h1, h2⟩ := ov_inv_step h hs
      obtain ⟨h3, h4⟩ := ih o' h1
      exact ⟨h3, fun hc => h4 (h2 hc)⟩

/-- **no instance after close**: for every interleaving of instance creations (local protocol
starts, instances created for incoming messages), bindings, `Done`s and `Overlay.Close`, with
unboundedly many instances: once `Close` has been through, and for ever after, no instance is
listed, none has a protocol bound to it, `RegisterProtocolInstance` is refused for every
instance, and every instance whose creation has completed — whether it began before or after
`Close` — has no reader goroutine any more. -/
theorem c10_no_instance_after_close (acts : List OvAct) :
    let o := ovRun {} acts
    o.closed = true →
      (∀ x ∈ o.insts, x.listed = false ∧ x.bound = false ∧ (x.decided = true → x.reader = false)) ∧
      (∀ i, ovStep o (.bind i) = none) ∧
      (∀ more, (ovRun o more).closed = true) := by
  intro o hc
  have hinv := (ov_inv_run {} (by simp) acts).1
  have hall : ∀ x ∈ o.insts, x.listed = false ∧ x.bound = false ∧ (x.decided = true → x.reader = false) := by
    intro x hx
    obtain ⟨g1, g2, g3, g4⟩ := hinv x hx
    have hl := g4 hc
    refine ⟨hl, ?_, fun hd => g3 hd hl⟩
    cases hb : x.bound with
    | false => rfl
    | true => simp [g2 hb] at hl
  refine ⟨hall, ?_, fun more => (ov_inv_run o hinv more).2 hc⟩
  intro i
  simp only [ovStep]
  cases hi : o.insts[i]? with
  | none => rfl
  | some x => simp [(hall x (getElem?_mem hi)).1]

/-- before commit 2493f6e the overlay had no closed state: an instance created after `Close` was
listed and kept its reader — in this model: `decide` without the `closed` test.  The witness is
what the probe did on the real code: close, then start. -/
theorem c10_start_after_close_is_refused :
    ovRun {} [.close, .create, .decide 0, .bind 0] =
      { closed := true, insts := [{ decided := true, listed := false, reader := false, bound := false }] } := by
  decide

/-! ### the tree store -/

def cleanerRank : Cleaner → Nat
  | .armed _ => 2 | .fired => 1 | .done => 0

theorem tsMeasure_eq (t : Ts) : tsMeasure t = (t.cleaners.map cleanerRank).sum +
    (match t.close with | .idle => 3 | .locked => 2 | .waiting => 1 | .returned => 0) := by
  simp only [tsMeasure]
  congr 2

theorem sum_map_set {l : List Cleaner} {i : Nat} {a b : Cleaner} (h : l[i]? = some a) :
    ((l.set i b).map cleanerRank).sum + cleanerRank a = (l.map cleanerRank).sum + cleanerRank b := by
  induction l generalizing i with
  | nil => simp at h
  | cons x xs ih =>
    cases i with
    | zero =>
      simp only [List.getElem?_cons_zero, Option.some.injEq] at h
      subst h
      simp only [List.set_cons_zero, List.map_cons, List.sum_cons]
      omega
    | succ n =>
      simp only [List.getElem?_cons_succ] at h
      have := ih h
      simp only [List.set_cons_succ, List.map_cons, List.sum_cons]
      omega

/-- every step of a cleaner or of `Close` uses up the measure; arming does not add to it once
the store is closed -/
theorem ts_step_measure {u : Bool} {t t' : Ts} {a : TsAct} (hs : tsStep u t a = some t') :
    (a ≠ .arm → tsMeasure t' < tsMeasure t) ∧ (t.closed = true → tsMeasure t' ≤ tsMeasure t) := by
  rw [tsMeasure_eq, tsMeasure_eq]
  cases a with
  | arm =>
    simp only [tsStep] at hs
    split at hs; · simp at hs
    split at hs
    · simp only [Option.some.injEq] at hs; subst hs; simp
    · rename_i hc
      simp only [Option.some.injEq] at hs; subst hs
      simp [hc]
  | fire i =>
    simp only [tsStep] at hs
    split at hs
    · rename_i b hi
      simp only [Option.some.injEq] at hs; subst hs
      have := sum_map_set (b := .fired) hi
      simp only [cleanerRank] at this
      constructor <;> intros <;> simp only <;> omega
    · simp at hs
  | cleanup i =>
    simp only [tsStep] at hs
    split at hs; · simp at hs
    split at hs
    · rename_i hi
      simp only [Option.some.injEq] at hs; subst hs
      have := sum_map_set (b := .done) hi
      simp only [cleanerRank] at this
      constructor <;> intros <;> simp only <;> omega
    · simp at hs
  | cancel i =>
    simp only [tsStep] at hs
    split at hs
    · rename_i hi
      simp only [Option.some.injEq] at hs; subst hs
      have := sum_map_set (b := .done) hi
      simp only [cleanerRank] at this
      constructor <;> intros <;> simp only <;> omega
    · simp at hs
  | lock =>
    simp only [tsStep] at hs
    split at hs
    · rename_i hc
      simp only [Option.some.injEq] at hs; subst hs
      have hm : (t.cleaners.map Cleaner.cancelled).map cleanerRank = t.cleaners.map cleanerRank := by
        rw [List.map_map]
        apply List.map_congr_left
        intro c _
        cases c <;> rfl
      simp only [hc]
      rw [hm]
      constructor <;> intros <;> omega
    · simp at hs
  | unlock =>
    simp only [tsStep] at hs
    split at hs
    · rename_i hc
      simp only [Bool.and_eq_true, decide_eq_true_eq] at hc
      simp only [Option.some.injEq] at hs; subst hs
      simp only [hc.1]
      constructor <;> intros <;> omega
    · simp at hs
  | wait =>
    simp only [tsStep] at hs
    split at hs
    · rename_i hc
      simp only [Bool.and_eq_true, Bool.or_eq_true, decide_eq_true_eq] at hc
      simp only [Option.some.injEq] at hs; subst hs
      rcases hc.1 with h1 | h1
      · simp only [h1]; constructor <;> intros <;> omega
      · simp only [h1.1]; constructor <;> intros <;> omega
    · simp at hs

/-- **`Close` of the tree store terminates** (current order: unlock, then wait — commit 148f173):
in every state in which `Close` has started and not returned, `Close` or one of the cleaning
goroutines can take a step — whatever timers have fired meanwhile, with any number of cleaners —
and every such step uses up a measure that nothing increases after `Close` has taken the lock. So
`Close`, and with it `Overlay.Close` and `Server.Close`, returns after at most `tsMeasure` steps. -/
theorem c10_close_terminates (acts : List TsAct) :
    let t := tsRun true {} acts
    ((t.close = .locked ∨ t.close = .waiting) →
      (∃ t', tsStep true t .unlock = some t') ∨ (∃ t', tsStep true t .wait = some t') ∨
      (∃ i t', tsStep true t (.fire i) = some t') ∨ (∃ i t', tsStep true t (.cleanup i) = some t')) ∧
    (∀ a t', tsStep true t a = some t' →
      (a ≠ .arm → tsMeasure t' < tsMeasure t) ∧ (t.closed = true → tsMeasure t' ≤ tsMeasure t)) := by
  intro t
  refine ⟨?_, fun a t' hs => ts_step_measure hs⟩
  intro hc
  rcases hc with hc | hc
  · left; exact ⟨{ t with close := .waiting }, by simp [tsStep, hc]⟩
  · cases hall : t.cleaners.all (· == .done) with
    | true => right; left; exact ⟨{ t with close := .returned }, by simp [tsStep, hc, hall]⟩
    | false =>
      right; right
      simp only [List.all_eq_false] at hall
      obtain ⟨c, hcm, hnd⟩ := hall
      obtain ⟨i, hi, hget⟩ := List.getElem_of_mem hcm
      have hci : t.cleaners[i]? = some c := by rw [List.getElem?_eq_getElem hi, hget]
      cases c with
      | armed b => left; exact ⟨i, { t with cleaners := t.cleaners.set i .fired }, by simp [tsStep, hci]⟩
      | fired => right; exact ⟨i, { t with cleaners := t.cleaners.set i .done }, by simp [tsStep, hci, hc]⟩
      | done => simp at hnd

/-- the order before the fix (wait while holding the lock): a cleaner whose timer fires just
before `Close` takes the lock can never take it; `Close` waits for that cleaner for ever.  No
action is enabled — the probed hang (`onet_c10_treestorage_close_hang_probe_test.go`). -/
theorem c10_treestore_old_order_deadlocks :
    let t := tsRun false {} [.arm, .fire 0, .lock]
    t.close = .locked ∧ t.cleaners = [.fired] ∧
    tsStep false t .unlock = none ∧ tsStep false t .wait = none ∧ tsStep false t (.cleanup 0) = none ∧
    tsStep false t (.cancel 0) = none ∧ tsStep false t (.fire 0) = none := by
  decide

/-! ### `Server.Close` as a whole -/

/-- closing twice: the second `Server.Close` finds every part closed, changes nothing, cannot
panic (there is no such outcome), and at worst returns the error of the already removed file -/
theorem c10_server_close_idempotent (s : Srv) :
    (serverClose (serverClose s).1).1 = (serverClose s).1 ∧
    (serverClose s).1 = { started := false, routerUp := false, wsStarted := false, ovClosed := true,
                          tsClosed := true, dbOpen := false, dbFile := false } := by
  simp [serverClose]


/-- **a delivery in flight that uses the database after `Close` fails cleanly**: whatever state the
server is in, a `Save` / `Load` completes or is refused with an error; after `Server.Close` — once or
repeatedly — it is refused; it never panics -/
theorem c10_db_use_after_close_fails_cleanly (s : Srv) :
    dbUse false s ≠ .panic ∧ dbUse false (serverClose s).1 = .err ∧
    dbUse false (serverClose (serverClose s).1).1 = .err := by
  cases s with
  | mk a b c d e f g => cases f <;> simp [dbUse, serverClose]

/-- the variant that drops the handle after closing it: the late use dereferences nil -/
theorem c10_db_handle_must_stay :
    dbUse true (serverClose { started := true, routerUp := true, wsStarted := true, ovClosed := false,
                              tsClosed := false, dbOpen := true, dbFile := true }).1 = .panic := by
  decide

/-- **a delivery that arrives after `Close` reaches no user code**: whatever routine hands a peer
message to `TransmitMsg` once the server is closed — `Router.Stop` does not wait for the hand-over
of parked messages — no constructor runs and no `Dispatch` routine is started, bound to a service
or not; on a running server whatever is started is also listed (so that it will be shut down) -/
theorem c10_late_hand_over_reaches_no_user_code (serviceBound closed : Bool) :
    (closed = true → lateHandOver true closed serviceBound = ⟨false, false, false⟩) ∧
    ((lateHandOver true closed serviceBound).dispatching = true →
      (lateHandOver true closed serviceBound).registered = true) := by
  cases serviceBound <;> cases closed <;> decide

/-- the variant that tests `server.Closed()` only on the path of service-bound protocols: a protocol
that is not bound to a service is constructed on the closed node and its `Dispatch` is started,
listed nowhere -/
theorem c10_closed_test_must_come_first :
    lateHandOver false true false = ⟨true, true, false⟩ := by decide

/-! ### `Server.Start` / `Server.Close`: the token on `closeitChannel` -/

/-- what holds of the hand-shake in every reachable state of the code as it is -/
structure HsInv (s : Hs) : Prop where
  st  : s.isStarted = true → s.start = .flagged ∨ s.start = .waiting
  snd : ∀ j, s.closers[j]? = some .sending → s.lock = some j ∧ s.isStarted = true
  unl : ∀ j, s.closers[j]? = some .unlock → s.lock = some j
  lk  : ∀ j, s.lock = some j → s.closers[j]? = some .sending ∨ s.closers[j]? = some .unlock
  sh  : s.shutdowns ≤ 1 ∧ (s.shutdowns = 1 ↔ s.start = .returned)

theorem hs_inv_init : HsInv {} := by
  refine ⟨by simp, by simp, by simp, by simp, by simp⟩

theorem hs_inv_step {s s' : Hs} {a : HsAct} (h : HsInv s) (hs : hsStep true s a = some s') : HsInv s' := by
  obtain ⟨h1, h2, h3, h4, h5⟩ := h
  cases a with
  | startCall =>
    simp only [hsStep] at hs
    split at hs
    · cases hs
      refine ⟨?_, h2, h3, h4, ?_⟩
      · intro hst; have := h1 hst; grind
      · grind
    · cases hs
  | startFlag =>
    simp only [hsStep] at hs
    split at hs
    · cases hs
      refine ⟨by simp, ?_, h3, h4, by grind⟩
      intro j hj; have := h2 j hj; grind
    · cases hs
  | startWait =>
    simp only [hsStep] at hs
    split at hs
    · cases hs
      exact ⟨by simp, h2, h3, h4, by grind⟩
    · cases hs
  | closeCall =>
    simp only [hsStep] at hs
    cases hs
    refine ⟨h1, ?_, ?_, ?_, h5⟩
    · intro j hj
      have : s.closers[j]? = some .sending := by grind
      exact h2 j this
    · intro j hj
      have : s.closers[j]? = some .unlock := by grind
      exact h3 j this
    · intro j hj
      have := h4 j hj
      grind
  | closeLock j =>
    simp only [hsStep] at hs
    split at hs
    · rename_i hc
      split at hs
      · rename_i hst
        cases hs
        refine ⟨h1, ?_, ?_, ?_, h5⟩
        · intro k hk
          by_cases hkj : j = k
          · subst hkj; simp [hst]
          · have : s.closers[k]? = some .sending := by grind
            have := h2 k this; grind
        · intro k hk
          have : s.closers[k]? = some .unlock := by grind
          have := h3 k this; grind
        · intro k hk
          simp only [if_true, Option.some.injEq] at hk
          subst hk
          left; grind
      · cases hs
        refine ⟨h1, ?_, ?_, ?_, h5⟩
        · intro k hk
          have : s.closers[k]? = some .sending := by grind
          exact h2 k this
        · intro k hk
          have : s.closers[k]? = some .unlock := by grind
          exact h3 k this
        · intro k hk
          have := h4 k hk; grind
    · cases hs
  | handshake j =>
    simp only [hsStep] at hs
    split at hs
    · rename_i hc
      cases hs
      have hl := (h2 j hc.1).1
      refine ⟨by simp, ?_, ?_, ?_, by grind⟩
      · intro k hk
        have : s.closers[k]? = some .sending ∧ k ≠ j := by grind
        have := h2 k this.1; grind
      · intro k hk
        by_cases hkj : j = k
        · subst hkj; exact hl
        · have : s.closers[k]? = some .unlock := by grind
          exact h3 k this
      · intro k hk
        have : k = j := by grind
        subst this; right; grind
    · cases hs
  | closeUnlock j =>
    simp only [hsStep] at hs
    split at hs
    · rename_i hc
      cases hs
      have hl := h3 j hc
      refine ⟨h1, ?_, ?_, by simp, h5⟩
      · intro k hk
        have : s.closers[k]? = some .sending ∧ k ≠ j := by grind
        have := h2 k this.1; grind
      · intro k hk
        have : s.closers[k]? = some .unlock ∧ k ≠ j := by grind
        have := h3 k this.1; grind
    · cases hs
  | closeRest j =>
    simp only [hsStep] at hs
    split at hs
    · rename_i hc
      cases hs
      refine ⟨h1, ?_, ?_, ?_, h5⟩
      · intro k hk
        have : s.closers[k]? = some .sending := by grind
        exact h2 k this
      · intro k hk
        have : s.closers[k]? = some .unlock := by grind
        exact h3 k this
      · intro k hk
        have := h4 k hk; grind
    · cases hs

theorem hs_inv_run (s : Hs) (h : HsInv s) (acts : List HsAct) : HsInv (hsRun true s acts) := by
  induction acts generalizing s with
  | nil => exact h
  | cons a as ih =>
    simp only [hsRun]
    cases hs : hsStep true s a with
    | none => exact ih s h
    | some s' => exact ih s' (hs_inv_step h hs)

theorem sum_map_set_gen {α : Type} (f : α → Nat) {l : List α} {i : Nat} {a b : α} (h : l[i]? = some a) :
    ((l.set i b).map f).sum + f a = (l.map f).sum + f b := by
  induction l generalizing i with
  | nil => simp at h
  | cons x xs ih =>
    cases i with
    | zero =>
      simp only [List.getElem?_cons_zero, Option.some.injEq] at h
      subst h
      simp only [List.set_cons_zero, List.map_cons, List.sum_cons]
      omega
    | succ n =>
      simp only [List.getElem?_cons_succ] at h
      have := ih h
      simp only [List.set_cons_succ, List.map_cons, List.sum_cons]
      omega

theorem hs_step_measure {held : Bool} {s s' : Hs} {a : HsAct} (hs : hsStep held s a = some s')
    (ha : a ≠ .closeCall) : hsMeasure s' < hsMeasure s := by
  cases a with
  | closeCall => exact absurd rfl ha
  | startCall =>
    simp only [hsStep] at hs
    split at hs
    · rename_i h; cases hs; simp [hsMeasure, h, StartPc.rank]
    · cases hs
  | startFlag =>
    simp only [hsStep] at hs
    split at hs
    · rename_i h; cases hs; simp [hsMeasure, h.1, StartPc.rank]
    · cases hs
  | startWait =>
    simp only [hsStep] at hs
    split at hs
    · rename_i h; cases hs; simp [hsMeasure, h, StartPc.rank]
    · cases hs
  | closeLock j =>
    simp only [hsStep] at hs
    split at hs
    · rename_i h
      split at hs
      · cases hs
        have := sum_map_set_gen ClPc.rank (b := ClPc.sending) h.1
        simp only [hsMeasure, ClPc.rank] at this ⊢
        omega
      · cases hs
        have := sum_map_set_gen ClPc.rank (b := ClPc.rest) h.1
        simp only [hsMeasure, ClPc.rank] at this ⊢
        omega
    · cases hs
  | handshake j =>
    simp only [hsStep] at hs
    split at hs
    · rename_i h
      cases hs
      have := sum_map_set_gen ClPc.rank (b := ClPc.unlock) h.1
      simp only [hsMeasure, ClPc.rank, h.2, StartPc.rank] at this ⊢
      omega
    · cases hs
  | closeUnlock j =>
    simp only [hsStep] at hs
    split at hs
    · rename_i h
      cases hs
      have := sum_map_set_gen ClPc.rank (b := ClPc.rest) h
      simp only [hsMeasure, ClPc.rank] at this ⊢
      omega
    · cases hs
  | closeRest j =>
    simp only [hsStep] at hs
    split at hs
    · rename_i h
      cases hs
      have := sum_map_set_gen ClPc.rank (b := ClPc.returned) h
      simp only [hsMeasure, ClPc.rank] at this ⊢
      omega
    · cases hs

/-- **any number of concurrent `Server.Close` calls get past the hand-shake with `Start`, and exactly
one of them performs it**: for every interleaving of one `Start` and unboundedly many `Close` calls
(the code as it is: the server's mutex is held from the test of `IsStarted` to its reset),
(1) no `Close` call is ever stuck: one that waits for the mutex can take it, or its holder — blocked
in the send — is served by `Start` (which reaches its receive by itself); one that is sending is
served; (2) every step of `Start` and of a `Close` call uses up `hsMeasure`, which only a new call
increases; (3) `Start` takes at most one token: the flag is reset under the same mutex, so no second
call ever sends. -/
theorem c10_close_handshake_terminates (acts : List HsAct) :
    let s := hsRun true {} acts
    (∀ j, s.closers[j]? = some .want →
      (∃ s', hsStep true s (.closeLock j) = some s') ∨
      (∃ k, s.lock = some k ∧ ((∃ s', hsStep true s .startWait = some s') ∨
        (∃ s', hsStep true s (.handshake k) = some s') ∨ (∃ s', hsStep true s (.closeUnlock k) = some s')))) ∧
    (∀ j, s.closers[j]? = some .sending →
      (∃ s', hsStep true s .startWait = some s') ∨ (∃ s', hsStep true s (.handshake j) = some s')) ∧
    (∀ j, s.closers[j]? = some .unlock → ∃ s', hsStep true s (.closeUnlock j) = some s') ∧
    (∀ j, s.closers[j]? = some .rest → ∃ s', hsStep true s (.closeRest j) = some s') ∧
    (∀ a s', hsStep true s a = some s' → a ≠ .closeCall → hsMeasure s' < hsMeasure s) ∧
    s.shutdowns ≤ 1 ∧ (s.shutdowns = 1 ↔ s.start = .returned) ∧
    (∀ j k : Nat, s.closers[j]? = some ClPc.sending → s.closers[k]? = some ClPc.sending → j = k) := by
  intro s
  have ex : ∀ {o : Option Hs}, o.isSome = true → ∃ x, o = some x := fun h => Option.isSome_iff_exists.mp h
  have hinv : HsInv s := hs_inv_run {} hs_inv_init acts
  have sending : ∀ j, s.closers[j]? = some .sending →
      (∃ s', hsStep true s .startWait = some s') ∨ (∃ s', hsStep true s (.handshake j) = some s') := by
    intro j hj
    rcases hinv.st (hinv.snd j hj).2 with h | h
    · left; exact ex (by simp [hsStep, h])
    · right; exact ex (by simp [hsStep, hj, h])
  refine ⟨?_, sending, ?_, ?_, fun a s' hs ha => hs_step_measure hs ha, hinv.sh.1, hinv.sh.2, ?_⟩
  · intro j hj
    cases hl : s.lock with
    | none => left; exact ex (by simp only [hsStep, hj, hl, and_self, if_true]; split <;> rfl)
    | some k =>
      right
      refine ⟨k, rfl, ?_⟩
      rcases hinv.lk k hl with h | h
      · rcases sending k h with h' | h'
        · exact .inl h'
        · exact .inr (.inl h')
      · exact .inr (.inr (ex (by simp [hsStep, h])))
  · intro j hj; exact ex (by simp [hsStep, hj])
  · intro j hj; exact ex (by simp [hsStep, hj])
  · intro j k hj hk
    have h1 := (hinv.snd j hj).1
    have h2 := (hinv.snd k hk).1
    rw [h1] at h2; exact Option.some.inj h2

/-- the variant that releases the mutex between reading `IsStarted` and sending: two overlapping
`Close` calls both see the flag set and both send; `Start` takes one token and returns; the second
call is blocked in its send for ever — no action of the system can serve it -/
theorem c10_close_handshake_needs_the_lock :
    let s := hsRun false {} [.startCall, .startFlag, .startWait, .closeCall, .closeCall,
                             .closeLock 0, .closeLock 1, .handshake 0, .closeUnlock 0, .closeRest 0]
    s.closers = [.returned, .sending] ∧ s.start = .returned ∧
    hsStep false s (.handshake 1) = none ∧ hsStep false s .startWait = none ∧
    hsStep false s .startCall = none ∧ hsStep false s .startFlag = none := by
  decide


/-! ### the client side: `WebSocket.start` / `WebSocket.stop` -/

/-- what holds of the websocket's start/stop hand-shake in every reachable state -/
structure WsInv (s : Ws) : Prop where
  st  : s.started = true ↔ (s.start = .locked ∨ s.start = .sending)
  sv  : s.serving = true → s.started = true ∧ ∀ j, s.lock ≠ some (.stop j)
  sh  : ∀ j, s.stops[j]? = some .shutting → s.lock = some (.stop j) ∧ s.start = .sending
  lk1 : s.lock = some .start ↔ s.start = .locked
  lk2 : ∀ j, s.lock = some (.stop j) → s.stops[j]? = some .shutting

theorem ws_inv_init : WsInv {} := by
  refine ⟨by simp, by simp, by simp, by simp, by simp⟩

theorem ws_inv_step {s s' : Ws} {a : WsAct} (h : WsInv s) (hs : wsStep s a = some s') : WsInv s' := by
  obtain ⟨h1, h2, h3, h4, h5⟩ := h
  cases a with
  | startLock =>
    simp only [wsStep] at hs
    split at hs
    · rename_i hc
      cases hs
      refine ⟨by simp, by simp, ?_, by simp, ?_⟩
      · intro j hj; have := h3 j hj; grind
      · intro j hj; simp at hj
    · cases hs
  | startUnlock =>
    simp only [wsStep] at hs
    split at hs
    · rename_i hc
      cases hs
      have hst := h1.mpr (.inl hc)
      refine ⟨by simp [hst], ?_, ?_, by simp, ?_⟩
      · intro _; exact ⟨hst, by simp⟩
      · intro j hj; have := h3 j hj; grind
      · intro j hj; simp at hj
    · cases hs
  | stopCall =>
    simp only [wsStep] at hs
    cases hs
    refine ⟨h1, h2, ?_, h4, ?_⟩
    · intro j hj
      have : s.stops[j]? = some .shutting := by grind
      exact h3 j this
    · intro j hj
      have := h5 j hj
      grind
  | stopLock j =>
    simp only [wsStep] at hs
    split at hs
    · rename_i hc
      split at hs
      · rename_i hst
        cases hs
        have hstart : s.start = .sending := by
          rcases h1.mp hst with h | h
          · have := h4.mpr h; grind
          · exact h
        refine ⟨h1, by simp, ?_, by simp [hstart], ?_⟩
        · intro k hk
          by_cases hkj : j = k
          · subst hkj; exact ⟨rfl, hstart⟩
          · have : s.stops[k]? = some .shutting := by grind
            have := h3 k this; grind
        · intro k hk
          have : j = k := by simpa using hk
          subst this
          grind
      · cases hs
        refine ⟨h1, h2, ?_, h4, ?_⟩
        · intro k hk
          have : s.stops[k]? = some .shutting := by grind
          exact h3 k this
        · intro k hk
          have := h5 k hk
          grind
    · cases hs
  | handshake j =>
    simp only [wsStep] at hs
    split at hs
    · rename_i hc
      cases hs
      have hl := (h3 j hc.1).1
      refine ⟨by simp, ?_, ?_, by simp, by simp⟩
      · intro hv
        exact absurd hl ((h2 hv).2 j)
      · intro k hk
        have hne : k ≠ j := by grind
        have : s.stops[k]? = some .shutting := by grind
        have := (h3 k this).1
        rw [hl] at this
        exact absurd (by simpa using this.symm) hne
    · cases hs

theorem ws_inv_run (s : Ws) (h : WsInv s) (acts : List WsAct) : WsInv (wsRun s acts) := by
  induction acts generalizing s with
  | nil => exact h
  | cons a as ih =>
    simp only [wsRun]
    cases hs : wsStep s a with
    | none => exact ih s h
    | some s' => exact ih s' (ws_inv_step h hs)

theorem ws_step_measure {s s' : Ws} {a : WsAct} (hs : wsStep s a = some s') (ha : a ≠ .stopCall) :
    wsMeasure s' < wsMeasure s := by
  cases a with
  | stopCall => exact absurd rfl ha
  | startLock =>
    simp only [wsStep] at hs
    split at hs
    · rename_i h; cases hs; simp [wsMeasure, h.1, WsStartPc.rank]
    · cases hs
  | startUnlock =>
    simp only [wsStep] at hs
    split at hs
    · rename_i h; cases hs; simp [wsMeasure, h, WsStartPc.rank]
    · cases hs
  | stopLock j =>
    simp only [wsStep] at hs
    split at hs
    · rename_i h
      split at hs
      · cases hs
        have := sum_map_set_gen WsStopPc.rank (b := WsStopPc.shutting) h.1
        simp only [wsMeasure, WsStopPc.rank] at this ⊢
        omega
      · cases hs
        have := sum_map_set_gen WsStopPc.rank (b := WsStopPc.returned) h.1
        simp only [wsMeasure, WsStopPc.rank] at this ⊢
        omega
    · cases hs
  | handshake j =>
    simp only [wsStep] at hs
    split at hs
    · rename_i h
      cases hs
      have := sum_map_set_gen WsStopPc.rank (b := WsStopPc.returned) h.1
      simp only [wsMeasure, WsStopPc.rank, h.2, WsStartPc.rank] at this ⊢
      omega
    · cases hs

/-- **`WebSocket.stop` always comes back**: for every interleaving of the websocket's `start` and
unboundedly many `stop` calls, (1) a `stop` that waits for the mutex can take it, or its holder can
move: `start` (inside its critical section) releases it, another `stop` (blocked in `<-startstop`)
is served by `start`, which is blocked in its send at that moment; (2) a `stop` that has shut the
server down and waits for the token is served; (3) every step of `start` and of a `stop` uses up
`wsMeasure`, which only a new call increases. -/
theorem c10_ws_stop_terminates (acts : List WsAct) :
    let s := wsRun {} acts
    (∀ j, s.stops[j]? = some .want →
      (∃ s', wsStep s (.stopLock j) = some s') ∨
      (s.lock = some .start ∧ ∃ s', wsStep s .startUnlock = some s') ∨
      (∃ k, s.lock = some (.stop k) ∧ ∃ s', wsStep s (.handshake k) = some s')) ∧
    (∀ j, s.stops[j]? = some .shutting → ∃ s', wsStep s (.handshake j) = some s') ∧
    (∀ a s', wsStep s a = some s' → a ≠ .stopCall → wsMeasure s' < wsMeasure s) := by
  intro s
  have ex : ∀ {o : Option Ws}, o.isSome = true → ∃ x, o = some x := fun h => Option.isSome_iff_exists.mp h
  have hinv : WsInv s := ws_inv_run {} ws_inv_init acts
  have shut : ∀ j, s.stops[j]? = some .shutting → ∃ s', wsStep s (.handshake j) = some s' := by
    intro j hj
    exact ex (by simp [wsStep, hj, (hinv.sh j hj).2])
  refine ⟨?_, shut, fun a s' hs ha => ws_step_measure hs ha⟩
  intro j hj
  cases hl : s.lock with
  | none => left; exact ex (by simp only [wsStep, hj, hl, and_self, if_true]; split <;> rfl)
  | some hd =>
    right
    cases hd with
    | start =>
      left
      exact ⟨rfl, ex (by simp [wsStep, hinv.lk1.mp hl])⟩
    | stop k =>
      right
      exact ⟨k, rfl, shut k (hinv.lk2 k hl)⟩

/-- **the client-side port is given back**: in every reachable state the HTTP server's goroutine
holds the port only while the websocket counts as started and no `stop` is inside its critical
section; so once `start` has returned — which is what a `stop` that found the websocket started
brings about before it returns — the port is free, `started` is reset and the mutex is free. -/
theorem c10_ws_port_released (acts : List WsAct) :
    let s := wsRun {} acts
    (s.serving = true → s.started = true ∧ (s.start = .locked ∨ s.start = .sending)) ∧
    (s.start = .returned → s.serving = false ∧ s.started = false ∧ s.lock = none) ∧
    (∀ j : Nat, s.stops[j]? = some WsStopPc.shutting → s.serving = false) := by
  intro s
  have hinv : WsInv s := ws_inv_run {} ws_inv_init acts
  refine ⟨fun hv => ⟨(hinv.sv hv).1, hinv.st.mp (hinv.sv hv).1⟩, ?_, ?_⟩
  · intro hr
    have hst : s.started = false := by
      cases h : s.started
      · rfl
      · rcases hinv.st.mp h with h' | h' <;> simp [hr] at h'
    have hsv : s.serving = false := by
      cases h : s.serving
      · rfl
      · have := (hinv.sv h).1; simp [hst] at this
    refine ⟨hsv, hst, ?_⟩
    cases hl : s.lock with
    | none => rfl
    | some hd =>
      cases hd with
      | start => have := hinv.lk1.mp hl; simp [hr] at this
      | stop k => have := (hinv.sh k (hinv.lk2 k hl)).2; simp [hr] at this
  · intro j hj
    cases h : s.serving
    · rfl
    · exact absurd (hinv.sh j hj).1 ((hinv.sv h).2 j)

/-- **a further `stop` changes nothing**: once `start` has returned, every later `stop` takes the
free mutex, finds `started` reset and returns; no second `Shutdown`, no wait for a token that nobody
sends. -/
theorem c10_ws_stop_idempotent (acts : List WsAct) :
    let s := wsRun {} acts
    s.start = .returned → ∀ j, s.stops[j]? = some .want →
      wsStep s (.stopLock j) = some { s with stops := s.stops.set j .returned } := by
  intro s hr j hj
  have h := (c10_ws_port_released acts).2.1 hr
  have hl : s.lock = none := h.2.2
  have hst : s.started = false := h.2.1
  simp [wsStep, hj, hl, hst]

/-- outside the property's quantifier (a `Close` that overtakes `Start`): a `stop` that runs before the
websocket's `start` finds nothing to stop and returns; the `start` that follows opens the port and
blocks for a token no finished `stop` will take — only a new `stop` call ends it -/
theorem c10_ws_stop_before_start_leaves_port :
    let s := wsRun {} [.stopCall, .stopLock 0, .startLock, .startUnlock]
    s.stops = [.returned] ∧ s.serving = true ∧ s.start = .sending ∧
    wsStep s (.handshake 0) = none ∧ wsStep s (.stopLock 0) = none := by
  decide

/-- non-vacuity: the usual life — `start`, then two overlapping `stop` calls — ends with the port
free, `start` returned, one `Shutdown` -/
example :
    let s := wsRun {} [.startLock, .stopCall, .stopLock 0, .startUnlock, .stopCall, .stopLock 1, .stopLock 0,
                       .handshake 1, .handshake 0, .stopLock 0]
    s.stops = [.returned, .returned] ∧ s.serving = false ∧ s.start = .returned ∧ s.shutdowns = 1 ∧
    s.lock = none := by decide


/-! ### the connection table with several connections per peer -/

theorem tbl_step_refines (l l' : List C09.Conn) (hn : (l.map (·.id)).Nodup)
    (hm : ∀ x, x ∈ l ↔ x ∈ l') (a : TblAct) :
    ((tblStep false l a).map (·.id)).Nodup ∧ ∀ x, x ∈ tblStep false l a ↔ x ∈ tblSpecStep l' a := by
  cases a with
  | register i p =>
    have hany : l.any (·.id == i) = l'.any (·.id == i) := by
      rw [Bool.eq_iff_iff]
      simp only [List.any_eq_true]
      constructor
      · rintro ⟨x, hx, h⟩; exact ⟨x, (hm x).mp hx, h⟩
      · rintro ⟨x, hx, h⟩; exact ⟨x, (hm x).mpr hx, h⟩
    simp only [tblStep, tblSpecStep, ← hany]
    cases h : l.any (·.id == i)
    · simp only [Bool.false_eq_true, if_false]
      refine ⟨?_, fun x => by simp [hm x]⟩
      rw [List.map_append, List.nodup_append]
      refine ⟨hn, by simp, ?_⟩
      intro a ha b hb hab
      simp only [List.map_cons, List.map_nil, List.mem_singleton] at hb
      obtain ⟨y, hy, hyi⟩ := List.mem_map.mp ha
      have : l.any (·.id == i) = true := List.any_eq_true.mpr ⟨y, hy, by simp [hyi, hab, hb]⟩
      rw [h] at this
      cases this
    · simp only [if_true]; exact ⟨hn, hm⟩
  | remove i =>
    simp only [tblStep, tblSpecStep, Bool.false_and, Bool.false_eq_true, if_false]
    cases hf : l.find? (·.id == i) with
    | none =>
      refine ⟨hn, fun x => ?_⟩
      have hnone := List.find?_eq_none.mp hf
      simp only [List.mem_filter, ← hm x]
      constructor
      · intro hx; exact ⟨hx, by simpa using hnone x hx⟩
      · exact fun h => h.1
    | some c =>
      have hc : c ∈ l := List.mem_of_find?_eq_some hf
      have hci : c.id = i := by simpa using List.find?_some hf
      refine ⟨C09.removeSwap_nodup l c hc hn, fun x => ?_⟩
      rw [C09.mem_removeSwap l c hc hn x, List.mem_filter, ← hm x, hci]
      simp

/-- **the table lists exactly the connections that live** (refinement to a set with insert and
erase): after any sequence of registrations and removals — any number of connections per peer, in any
order — a connection is in the table iff it was registered and not removed since; in particular the
loop of `Router.Stop` over the table closes every connection whose receive loop `Stop` then waits
for. -/
theorem c10_table_lists_exactly_the_live (acts : List TblAct) :
    ((tblRun false [] acts).map (·.id)).Nodup ∧
    ∀ x, x ∈ tblRun false [] acts ↔ x ∈ tblSpecRun [] acts := by
  suffices h : ∀ (l l' : List C09.Conn), (l.map (·.id)).Nodup → (∀ x, x ∈ l ↔ x ∈ l') →
      ((tblRun false l acts).map (·.id)).Nodup ∧ ∀ x, x ∈ tblRun false l acts ↔ x ∈ tblSpecRun l' acts from
    h [] [] (by simp) (by simp)
  induction acts with
  | nil => intro l l' hn hm; exact ⟨hn, hm⟩
  | cons a as ih =>
    intro l l' hn hm
    have := tbl_step_refines l l' hn hm a
    exact ih _ _ this.1 this.2

/-- the variant that deletes the peer's entry when one connection remains: two connections with
one peer, the first ends — the table is empty although the second lives; `Stop` closes nothing and
waits for that connection's receive loop -/
theorem c10_table_must_keep_the_last_entry :
    tblRun true [] [.register 0 1, .register 1 1, .remove 0] = [] ∧
    tblSpecRun [] [.register 0 1, .register 1 1, .remove 0] = [{ id := 1, peer := 1, alive := true }] := by
  decide

/-- non-vacuity: three connections with one peer and one with another; the first and the third of
the peer end — its second one and the other peer's are listed -/
example : (tblRun false [] [.register 0 1, .register 1 1, .register 2 2, .register 3 1, .remove 0, .remove 3]).map (·.id) = [2, 1] := by
  decide

/-! ### the listeners -/

def LoopPc.alive : LoopPc → Bool
  | .accepting | .gotErr | .sendQuit => true
  | _ => false

/-- what holds of the TCP/TLS listener in every reachable state -/
structure LnInv (s : Ln) : Prop where
  /-- `close(t.quit)` happens under the lock, and the lock is only released with a fresh channel -/
  free  : s.lock = none → s.quitClosed = false
  hold  : ∀ j : Nat, s.lock = some j → s.stops[j]? = some LnStopPc.waiting ∨ s.stops[j]? = some LnStopPc.finishing
  held  : ∀ j : Nat, s.stops[j]? = some LnStopPc.waiting ∨ s.stops[j]? = some LnStopPc.finishing → s.lock = some j
  wait  : ∀ j : Nat, s.stops[j]? = some LnStopPc.waiting → s.loop.alive = true ∧ s.quitClosed = true ∧ s.sockOpen = false
  alive : s.loop.alive = true → s.listening = true
  lis   : s.listening = true → s.loop.alive = true ∨ ∃ k : Nat, s.stops[k]? = some LnStopPc.finishing
  sq    : s.loop = .sendQuit → ∃ k : Nat, s.stops[k]? = some LnStopPc.waiting
  fin   : ∀ j : Nat, s.stops[j]? = some LnStopPc.finishing → s.loop.alive = false
  stp   : s.stopped = true → s.closed = true ∧ s.sockOpen = false ∧ s.loop.alive = false ∧ s.listening = false
  cl    : s.closed = true → s.sockOpen = false
  lsock : ∀ j : Nat, s.lock = some j → s.sockOpen = false

theorem ln_inv_init : LnInv {} := by
  refine ⟨by simp, by simp, by simp, by simp, by simp [LoopPc.alive], by simp, by simp, by simp, by simp, by simp, by simp⟩

theorem ln_inv_step {s s' : Ln} {a : LnAct} (h : LnInv s) (hs : lnStep s a = some s') : LnInv s' := by
  obtain ⟨h1, h2, h3, h4, h5, h6, h7, h8, h9, h10, h11⟩ := h
  cases a with
  | listen =>
    simp only [lnStep] at hs
    split at hs
    · rename_i hc
      have nolock : ∀ k : Nat, ¬ (s.stops[k]? = some LnStopPc.waiting ∨ s.stops[k]? = some LnStopPc.finishing) := by
        intro k hk; have := h3 k hk; simp [hc.2] at this
      split at hs
      · rename_i hcl
        cases hs
        refine ⟨h1, h2, h3, ?_, by simp [LoopPc.alive], ?_, by simp, by simp [LoopPc.alive], ?_, h10, h11⟩
        · intro j hj; exact absurd (.inl hj) (nolock j)
        · intro hl
          rcases h6 hl with h | ⟨k, hk⟩
          · simp [hc.1, LoopPc.alive] at h
          · exact absurd (.inr hk) (nolock k)
        · intro hst; have := h9 hst; exact ⟨this.1, this.2.1, by simp [LoopPc.alive], this.2.2.2⟩
      · rename_i hcl
        cases hs
        refine ⟨h1, h2, h3, ?_, by simp, ?_, by simp, ?_, ?_, h10, h11⟩
        · intro j hj; exact absurd (.inl hj) (nolock j)
        · intro _; left; simp [LoopPc.alive]
        · intro j hj; exact absurd (.inr hj) (nolock j)
        · intro hst; have := (h9 hst).1; exact absurd this hcl
    · cases hs
  | accept =>
    simp only [lnStep] at hs
    split at hs
    · cases hs; exact ⟨h1, h2, h3, h4, h5, h6, h7, h8, h9, h10, h11⟩
    · cases hs
  | acceptErr =>
    simp only [lnStep] at hs
    split at hs
    · rename_i hc
      cases hs
      refine ⟨h1, h2, h3, ?_, ?_, ?_, by simp, ?_, ?_, h10, h11⟩
      · intro j hj; have := h4 j hj; exact ⟨by simp [LoopPc.alive], this.2⟩
      · intro _; exact h5 (by simp [hc, LoopPc.alive])
      · intro _; left; simp [LoopPc.alive]
      · intro j hj; have := h8 j hj; simp [hc, LoopPc.alive] at this
      · intro hst; have := (h9 hst).2.2; simp [hc, LoopPc.alive] at this
    · cases hs
  | checkQuit =>
    simp only [lnStep] at hs
    split at hs
    · rename_i hc
      cases hs
      have hal : s.loop.alive = true := by simp [hc, LoopPc.alive]
      refine ⟨h1, h2, h3, ?_, ?_, ?_, ?_, ?_, ?_, h10, h11⟩
      · intro j hj; have := h4 j hj; exact ⟨by split <;> simp [LoopPc.alive], this.2⟩
      · intro _; exact h5 hal
      · intro _; left; split <;> simp [LoopPc.alive]
      · intro hq
        cases hqc : s.quitClosed with
        | false => simp [hqc] at hq
        | true =>
          -- the lock is held (the channel is closed), the loop is alive: its holder waits
          cases hl : s.lock with
          | none => have := h1 hl; simp [hqc] at this
          | some k =>
            rcases h2 k hl with hk | hk
            · exact ⟨k, hk⟩
            · have := h8 k hk; simp [hal] at this
      · intro j hj; have := h8 j hj; simp [hal] at this
      · intro hst; have := (h9 hst).2.2; simp [hal] at this
    · cases hs
  | stopCall =>
    simp only [lnStep] at hs
    cases hs
    have app : ∀ (j : Nat) (p : LnStopPc), p ≠ .want → (s.stops ++ [LnStopPc.want])[j]? = some p → s.stops[j]? = some p := by
      intro j p hp hj; grind
    refine ⟨h1, ?_, ?_, ?_, h5, ?_, ?_, ?_, h9, h10, h11⟩
    · intro j hj; have := h2 j hj; grind
    · intro j hj
      rcases hj with hj | hj
      · exact h3 j (.inl (app j _ (by simp) hj))
      · exact h3 j (.inr (app j _ (by simp) hj))
    · intro j hj; exact h4 j (app j _ (by simp) hj)
    · intro hl; rcases h6 hl with h | ⟨k, hk⟩
      · exact .inl h
      · right; exact ⟨k, by grind⟩
    · intro hq; obtain ⟨k, hk⟩ := h7 hq; exact ⟨k, by grind⟩
    · intro j hj; exact h8 j (app j _ (by simp) hj)
  | stopLock j =>
    simp only [lnStep] at hs
    split at hs
    · rename_i hc
      cases hs
      have hnone : ∀ k : Nat, ¬ (s.stops[k]? = some LnStopPc.waiting ∨ s.stops[k]? = some LnStopPc.finishing) := by
        intro k hk; have := h3 k hk; simp [hc.2] at this
      have hlt : j < s.stops.length := by
        have := hc.1; grind
      refine ⟨by simp, ?_, ?_, ?_, h5, ?_, ?_, ?_, ?_, ?_, ?_⟩
      · intro k hk
        simp only [Option.some.injEq] at hk
        subst hk
        rw [List.getElem?_set_self hlt]
        cases s.listening <;> simp
      · intro k hk
        by_cases hkj : j = k
        · subst hkj; rfl
        · rw [List.getElem?_set_ne hkj] at hk
          exact absurd hk (hnone k)
      · intro k hk
        by_cases hkj : j = k
        · subst hkj
          rw [List.getElem?_set_self hlt] at hk
          cases hl : s.listening with
          | false => simp [hl] at hk
          | true =>
            rcases h6 hl with h | ⟨m, hm⟩
            · exact ⟨h, rfl, rfl⟩
            · exact absurd (.inr hm) (hnone m)
        · rw [List.getElem?_set_ne hkj] at hk
          exact absurd (.inl hk) (hnone k)
      · intro hl
        rcases h6 hl with h | ⟨m, hm⟩
        · exact .inl h
        · exact absurd (.inr hm) (hnone m)
      · intro hq; obtain ⟨k, hk⟩ := h7 hq; exact absurd (.inl hk) (hnone k)
      · intro k hk
        by_cases hkj : j = k
        · subst hkj
          rw [List.getElem?_set_self hlt] at hk
          cases hl : s.listening with
          | true => simp [hl] at hk
          | false =>
            cases hal : s.loop.alive with
            | false => rfl
            | true => have := h5 hal; simp [hl] at this
        · rw [List.getElem?_set_ne hkj] at hk
          exact absurd (.inr hk) (hnone k)
      · intro hst; have := h9 hst; exact ⟨this.1, rfl, this.2.2⟩
      · intro _; rfl
      · intro _ _; rfl
    · cases hs
  | quitShake j =>
    simp only [lnStep] at hs
    split at hs
    · rename_i hc
      cases hs
      have hlk := h3 j (.inl hc.1)
      have hlt : j < s.stops.length := by have := hc.1; grind
      have uniq : ∀ k : Nat, s.stops[k]? = some LnStopPc.waiting ∨ s.stops[k]? = some LnStopPc.finishing → k = j := by
        intro k hk; have := h3 k hk; rw [hlk] at this; exact (Option.some.inj this).symm
      refine ⟨h1, ?_, ?_, ?_, by simp [LoopPc.alive], ?_, by simp, by simp [LoopPc.alive], ?_, h10, h11⟩
      · intro k hk
        have : k = j := by rw [hlk] at hk; exact (Option.some.inj hk).symm
        subst this; right; exact List.getElem?_set_self hlt
      · intro k hk
        by_cases hkj : j = k
        · subst hkj; exact hlk
        · rw [List.getElem?_set_ne hkj] at hk; exact h3 k hk
      · intro k hk
        by_cases hkj : j = k
        · subst hkj; rw [List.getElem?_set_self hlt] at hk; simp at hk
        · rw [List.getElem?_set_ne hkj] at hk; exact absurd (uniq k (.inl hk)) (fun e => hkj e.symm)
      · intro _; right; exact ⟨j, List.getElem?_set_self hlt⟩
      · intro hst; have := (h9 hst).2.2; simp [hc.2, LoopPc.alive] at this
    · cases hs
  | stopFinish j =>
    simp only [lnStep] at hs
    split at hs
    · rename_i hc
      cases hs
      have hlk := h3 j (.inr hc)
      have hlt : j < s.stops.length := by grind
      have uniq : ∀ k : Nat, s.stops[k]? = some LnStopPc.waiting ∨ s.stops[k]? = some LnStopPc.finishing → k = j := by
        intro k hk; have := h3 k hk; rw [hlk] at this; exact (Option.some.inj this).symm
      have hdead := h8 j hc
      have hsock : s.sockOpen = false := h11 j hlk
      refine ⟨by simp, by simp, ?_, ?_, ?_, by simp, ?_, ?_, ?_, ?_, by simp⟩
      · intro k hk
        by_cases hkj : j = k
        · subst hkj; rw [List.getElem?_set_self hlt] at hk; simp at hk
        · rw [List.getElem?_set_ne hkj] at hk; exact absurd (uniq k hk) (fun e => hkj e.symm)
      · intro k hk
        by_cases hkj : j = k
        · subst hkj; rw [List.getElem?_set_self hlt] at hk; simp at hk
        · rw [List.getElem?_set_ne hkj] at hk; exact absurd (uniq k (.inl hk)) (fun e => hkj e.symm)
      · intro hal; simp [hdead] at hal
      · intro hq
        have hq' : s.loop = .sendQuit := hq
        rw [hq'] at hdead; simp [LoopPc.alive] at hdead
      · intro k hk
        by_cases hkj : j = k
        · subst hkj; rw [List.getElem?_set_self hlt] at hk; simp at hk
        · rw [List.getElem?_set_ne hkj] at hk; exact absurd (uniq k (.inr hk)) (fun e => hkj e.symm)
      · intro _; exact ⟨rfl, hsock, hdead, rfl⟩
      · intro _; exact hsock
    · cases hs

theorem ln_inv_run (s : Ln) (h : LnInv s) (acts : List LnAct) : LnInv (lnRun s acts) := by
  induction acts generalizing s with
  | nil => exact h
  | cons a as ih =>
    simp only [lnRun]
    cases hs : lnStep s a with
    | none => exact ih s h
    | some s' => exact ih s' (ln_inv_step h hs)

theorem ln_stopped_step {s s' : Ln} {a : LnAct} (h : LnInv s) (hst : s.stopped = true)
    (hs : lnStep s a = some s') : s'.stopped = true ∧ s'.handed = s.handed := by
  have h9 := h.stp hst
  cases a with
  | accept =>
    simp only [lnStep] at hs
    split at hs
    · rename_i hc; simp [h9.2.1] at hc
    · cases hs
  | listen =>
    simp only [lnStep] at hs
    split at hs
    · split at hs <;> cases hs <;> exact ⟨hst, rfl⟩
    · cases hs
  | acceptErr => simp only [lnStep] at hs; split at hs <;> cases hs; exact ⟨hst, rfl⟩
  | checkQuit => simp only [lnStep] at hs; split at hs <;> cases hs; exact ⟨hst, rfl⟩
  | stopCall => simp only [lnStep] at hs; cases hs; exact ⟨hst, rfl⟩
  | stopLock j => simp only [lnStep] at hs; split at hs <;> cases hs; exact ⟨hst, rfl⟩
  | quitShake j => simp only [lnStep] at hs; split at hs <;> cases hs; exact ⟨hst, rfl⟩
  | stopFinish j => simp only [lnStep] at hs; split at hs <;> cases hs; exact ⟨rfl, rfl⟩

/-- a `Stop` call that holds the lock can go on, or the accept loop it waits for can, and each step
of the loop brings the loop closer to its end -/
def LnHolderMoves (s : Ln) (k : Nat) : Prop :=
  (∃ s', lnStep s (.quitShake k) = some s') ∨ (∃ s', lnStep s (.stopFinish k) = some s') ∨
  (∃ s', lnStep s .acceptErr = some s' ∧ s'.loop.rank < s.loop.rank) ∨
  (∃ s', lnStep s .checkQuit = some s' ∧ s'.loop.rank < s.loop.rank)

/-- **`TCPListener.Stop` terminates, under any interleaving with `Listen`, incoming connections and
further `Stop` calls**: in every reachable state (1) a `Stop` call that wants the lock can take it, or
the call that holds it can move; (2) a call that waits for the accept loop is answered: the loop is
alive, the socket and `quit` are closed, so `Accept` fails, the `select` sees `quit` closed, and the
loop sends on `quitListener` — three steps, each enabled, after which the hand-shake is; (3) a call
past the hand-shake finishes; (4) `close(t.quit)` never meets a closed channel (it would panic):
whenever the lock is free the channel is open. -/
theorem c10_listener_stop_terminates (acts : List LnAct) :
    let s := lnRun {} acts
    (∀ j : Nat, s.stops[j]? = some LnStopPc.want →
      (∃ s', lnStep s (.stopLock j) = some s') ∨ (∃ k, s.lock = some k ∧ LnHolderMoves s k)) ∧
    (∀ j : Nat, s.stops[j]? = some LnStopPc.waiting → LnHolderMoves s j) ∧
    (∀ j : Nat, s.stops[j]? = some LnStopPc.finishing → ∃ s', lnStep s (.stopFinish j) = some s') ∧
    (∀ j s', lnStep s (.stopLock j) = some s' → s.quitClosed = false) := by
  intro s
  have hinv : LnInv s := ln_inv_run {} ln_inv_init acts
  have ex : ∀ {o : Option Ln}, o.isSome = true → ∃ x, o = some x := fun h => Option.isSome_iff_exists.mp h
  have waiting : ∀ j : Nat, s.stops[j]? = some LnStopPc.waiting → LnHolderMoves s j := by
    intro j hj
    obtain ⟨hal, hq, _⟩ := hinv.wait j hj
    cases hl : s.loop with
    | none => simp [hl, LoopPc.alive] at hal
    | returned => simp [hl, LoopPc.alive] at hal
    | accepting =>
      right; right; left
      exact ⟨{ s with loop := .gotErr }, by simp [lnStep, hl], by simp [hl, LoopPc.rank]⟩
    | gotErr =>
      right; right; right
      exact ⟨{ s with loop := .sendQuit }, by simp [lnStep, hl, hq], by simp [hl, LoopPc.rank]⟩
    | sendQuit => left; exact ex (by simp [lnStep, hj, hl])
  have finishing : ∀ j : Nat, s.stops[j]? = some LnStopPc.finishing → ∃ s', lnStep s (.stopFinish j) = some s' := by
    intro j hj; exact ex (by simp [lnStep, hj])
  refine ⟨?_, waiting, finishing, ?_⟩
  · intro j hj
    cases hl : s.lock with
    | none => left; exact ex (by simp [lnStep, hj, hl])
    | some k =>
      right
      refine ⟨k, rfl, ?_⟩
      rcases hinv.hold k hl with h | h
      · exact waiting k h
      · exact .inr (.inl (finishing k h))
  · intro j s' hs
    simp only [lnStep] at hs
    split at hs
    · rename_i hc; exact hinv.free hc.2
    · cases hs

/-- **after `Stop` the listener hands out nothing**: once a `Stop` call has returned the socket is
closed, the accept loop has ended, `listening` is false and `closed` is true; `accept` is disabled and
stays so whatever follows (late `Listen`, further `Stop`s): the number of connections handed to the
callback never moves again -/
theorem c10_listener_no_accept_after_stop (acts : List LnAct) :
    let s := lnRun {} acts
    s.stopped = true →
      s.sockOpen = false ∧ s.listening = false ∧ s.closed = true ∧ s.loop.alive = false ∧
      lnStep s .accept = none ∧
      (∀ more, (lnRun s more).handed = s.handed ∧ (lnRun s more).stopped = true) := by
  intro s hst
  have hinv : LnInv s := ln_inv_run {} ln_inv_init acts
  have h9 := hinv.stp hst
  refine ⟨h9.2.1, h9.2.2.2, h9.1, h9.2.2.1, by simp [lnStep, h9.2.1], ?_⟩
  intro more
  have key : ∀ (t : Ln), LnInv t → t.stopped = true →
      (lnRun t more).handed = t.handed ∧ (lnRun t more).stopped = true := by
    induction more with
    | nil => intro t _ ht; exact ⟨rfl, ht⟩
    | cons a as ih =>
      intro t hi ht
      simp only [lnRun]
      cases hs : lnStep t a with
      | none => exact ih t hi ht
      | some t' =>
        obtain ⟨h1, h2⟩ := ln_stopped_step hi ht hs
        obtain ⟨h3, h4⟩ := ih t' (ln_inv_step hi hs) h1
        exact ⟨h3.trans h2, h4⟩
  exact key s hinv hst

/-- **`Stop` is idempotent**: after a `Stop` has returned, a further one (finding the lock free)
takes the lock, closes the fresh `quit` channel and the already closed socket, does not wait — nobody
listens — and leaves every field as it was -/
theorem c10_listener_stop_idempotent (acts : List LnAct) :
    let s := lnRun {} acts
    s.stopped = true → s.lock = none →
      lnRun s [.stopCall, .stopLock s.stops.length, .stopFinish s.stops.length]
        = { s with stops := s.stops ++ [.returned] } := by
  intro s hst hl
  have hinv : LnInv s := ln_inv_run {} ln_inv_init acts
  have h9 := hinv.stp hst
  have hq := hinv.free hl
  obtain ⟨lock, listening, closed, quitClosed, sockOpen, loop, stops, handed, stopped⟩ := s
  simp only at hst hl h9 hq
  obtain ⟨hc, hso, _, hli⟩ := h9
  subst hst hl hc hso hli hq
  have e1 : (stops ++ [LnStopPc.want])[stops.length]? = some .want := by simp
  have e2 : ((stops ++ [LnStopPc.want]).set stops.length LnStopPc.finishing)[stops.length]? = some .finishing := by simp
  simp only [lnRun, lnStep, e1, and_self, if_true, Bool.false_eq_true, if_false, e2]
  simp

/-! the in-memory listener: every operation is one critical section -/

theorem ll_inv_run (s : Ll) (h : s.listening = false → s.blocked = 0) (acts : List LlAct) :
    (llRun s acts).listening = false → (llRun s acts).blocked = 0 := by
  induction acts generalizing s with
  | nil => exact h
  | cons a as ih =>
    simp only [llRun]
    apply ih
    cases a <;> simp only [llStep] <;> split <;> simp_all

/-- **the in-memory listener**: in every reachable state `Stop` ends with nobody listening and no
`Listen` call blocked, a further `Stop` changes nothing, and no connection is handed to the callback
any more -/
theorem c10_local_listener_stop (acts : List LlAct) :
    let t := llStep (llRun {} acts) .stop
    t.listening = false ∧ t.blocked = 0 ∧ llStep t .stop = t ∧ llStep t .connect = t := by
  intro t
  have hinv := ll_inv_run {} (by simp) acts
  have hl : t.listening = false := by
    simp only [t, llStep]; split <;> simp_all
  have hb : t.blocked = 0 := by
    simp only [t, llStep]; split
    · rfl
    · rename_i h; exact hinv (by simpa using h)
  exact ⟨hl, hb, by simp [llStep, hl], by simp [llStep, hl]⟩

/-- **an `Accept` error does not end the listener**: as long as nobody stops it, after any number of
failed `Accept` calls (out of file descriptors, aborted connections) the loop is back in `Accept`,
the state is what it was, and the next connection is handed to the callback -/
theorem c10_listener_survives_accept_errors (s : Ln) (k : Nat)
    (hl : s.loop = .accepting) (hq : s.quitClosed = false) :
    lnRun s (List.replicate k [LnAct.acceptErr, .checkQuit]).flatten = s ∧
    (s.sockOpen = true → ∃ s', lnStep s .accept = some s' ∧ s'.handed = s.handed + 1) := by
  have one : ∀ rest, lnRun s (LnAct.acceptErr :: .checkQuit :: rest) = lnRun s rest := by
    intro rest
    cases s with
    | mk lock listening closed quitClosed sockOpen loop stops handed stopped =>
      simp only at hl hq
      subst hl hq
      simp [lnRun, lnStep]
  constructor
  · induction k with
    | zero => simp [lnRun]
    | succ n ih =>
      rw [List.replicate_succ, List.flatten_cons]
      simp only [List.cons_append, List.nil_append]
      rw [one]; exact ih
  · intro ho
    exact ⟨{ s with handed := s.handed + 1 }, by simp [lnStep, hl, ho], rfl⟩

/-- the variant that returns from `listen` on such an error: one failed `Accept`, later a `Stop` —
the call holds `listeningLock`, waits on `quitListener`, and no action of the system can ever serve
it: `Router.Stop` and `Server.Close` hang -/
theorem c10_listener_accept_error_must_not_end_the_loop :
    let s := lnRunReturnOnErr {} [.listen, .acceptErr, .checkQuit, .stopCall, .stopLock 0]
    s.stops = [.waiting] ∧ s.loop = .returned ∧ s.listening = true ∧ s.lock = some 0 ∧
    lnStepReturnOnErr s (.quitShake 0) = none ∧ lnStepReturnOnErr s (.stopFinish 0) = none ∧
    lnStepReturnOnErr s .acceptErr = none ∧ lnStepReturnOnErr s .checkQuit = none ∧
    lnStepReturnOnErr s .listen = none := by
  decide

/-! ### non-vacuity -/

/-- a schedule with traffic: one outgoing and one incoming connection, messages dispatched, then
`Stop` racing with a delivery in flight; everything ends closed and at rest -/
example :
    let s := run true {} [.dial, .incoming, .identity 1 true, .register 0, .register 1, .launch 0, .launch 1,
      .peerSend 0 7, .peerSend 1 8, .recv 0, .check 0, .dispatch 0, .recv 1, .check 1,
      .stopBegin, .stopCrit 0, .dispatch 1, .recv 0, .recv 1, .check 0, .check 1,
      .hclose 0, .hclose 1, .hremove 0, .hremove 1, .stopWait 0]
    s.stopped = true ∧ quiescent s = true ∧ s.log = [(0, 7), (1, 8)] ∧ s.conns.map (·.isOpen) = [false, false] := by
  decide

/-- a `Send` that connects after `Stop`: refused, and (now) closed -/
example :
    let s := run true {} [.stopBegin, .stopCrit 0, .stopWait 0, .dial, .register 0]
    s.stopped = true ∧ quiescent s = true ∧ s.conns.map (fun c => (c.setup, c.isOpen)) = [(.err, false)] := by
  decide

/-- the tree store: two cleaners, one timer fires while `Close` holds the lock — it still ends -/
example : (tsRun true {} [.arm, .arm, .fire 0, .lock, .unlock, .cleanup 0, .cancel 1, .wait]).close = .returned := by
  decide
/-- the hand-shake with traffic: `Start` is waiting, three `Close` calls overlap; the first to take the
mutex sends, `Start` returns, the others find the flag reset; all return, one shutdown -/
example :
    let s := hsRun true {} [.startCall, .startFlag, .closeCall, .closeCall, .closeLock 1, .closeLock 0,
      .handshake 1, .startWait, .closeCall, .closeLock 2, .handshake 1, .closeLock 0, .closeUnlock 1,
      .closeLock 0, .closeLock 2, .closeRest 0, .closeRest 1, .closeRest 2]
    s.closers = [.returned, .returned, .returned] ∧ s.shutdowns = 1 ∧ s.start = .returned ∧ s.lock = none := by
  decide

/-- the listener: a connection is accepted, two `Stop`s overlap with it, the loop leaves through the
hand-shake, the second `Stop` does not wait; a late `Listen` returns at once -/
example :
    let s := lnRun {} [.listen, .accept, .stopCall, .stopCall, .stopLock 1, .accept, .stopLock 0, .acceptErr,
      .checkQuit, .quitShake 1, .stopFinish 1, .stopLock 0, .stopFinish 0, .accept]
    s.stops = [.returned, .returned] ∧ s.handed = 1 ∧ s.loop = .returned ∧ s.listening = false ∧
    s.closed = true ∧ s.quitClosed = false ∧ s.lock = none := by
  decide

example : (lnRun {} [.stopCall, .stopLock 0, .stopFinish 0, .listen]).loop = .returned := by decide


/-! ### round 7 — `Stop` and the pause gate (`Model/C09Pause.lean`, lemmas in `Proofs/C09Pause.lean`) -/

/-- **liveness at the gate**: once `Unpause` has run — `Router.Stop` begins with it — every loop that stands at
the gate can return (its wake-up is enabled), whatever happened before; so `Stop`'s `wg.Wait` never waits for
a loop that is stuck there. -/
theorem c10_stop_is_not_held_at_the_pause_gate (acts : List C09.GateAct) (i : Nat) (ch : Nat) :
    let s := C09.gateRun true (C09.gateRun true {} acts) [.unpause]
    s.loops[i]? = some (.wait ch) → (C09.gateStep true s (.wake i)).isSome = true := by
  intro s hl
  have hinv : C09.GateInv s := C09.gate_inv_run _ (C09.gate_inv_run {} C09.gate_inv_init acts) [.unpause]
  have hp : s.paused = none := by
    simp only [s, C09.gateRun, C09.gateStep]
    split <;> rename_i hh
    · split at hh
      · simp only [Option.some.injEq] at hh; subst hh; rfl
      · rename_i hn; simp only [Option.some.injEq] at hh; subst hh; exact hn
    · split at hh <;> cases hh
  have := (hinv _ (C09.gate_getElem?_mem hl)).1 ch rfl
  rcases this with hc | hq
  · have hm : ch ∈ s.closedCh := List.contains_iff_mem.mp hc
    simp [C09.gateStep, hl, hm]
  · rw [hp] at hq; cases hq

/-- witness for the code before the repair: loop 0 is woken by the first `Unpause`; a second `Pause` makes
channel 1 and loop 1 reads it; then loop 0 writes `r.paused = nil`.  Loop 1 now waits on a channel that is not
closed and that no `Unpause` (no `Stop`) will close: its wake-up stays disabled after one more `Unpause`.
Probed against the real router: `notes/probes/onet_c09_pause_gate_stop_hang_probe_test.go.txt`. -/
theorem c10_woken_loop_must_not_reset_the_gate :
    let s := C09.gateRun false {} [.launch, .launch, .pause, .received 0, .unpause, .wake 0, .pause, .received 1,
      .reset 0, .unpause]
    s.loops[1]? = some (.wait 1) ∧ C09.GatePc.stranded s (.wait 1) = true ∧ C09.gateStep false s (.wake 1) = none ∧
    -- the same schedule on the repaired code (`reset` is not enabled there): loop 1 can return
    (let t := C09.gateRun true {} [.launch, .launch, .pause, .received 0, .unpause, .wake 0, .pause, .received 1,
      .reset 0, .unpause]
     (C09.gateStep true t (.wake 1)).isSome = true) := by
  decide



/-! ### round 7 — several `Close` calls at the same time (`Model/C10Closers.lean`) -/

/-- how far a `Close` call has come says what is released already -/
def CcGood (s : Cc) (pc : CcPc) : Prop :=
  (pc ≠ .start → s.closedFlag = true) ∧ (pc.rank ≤ 3 → s.deliveries = 0) ∧ (pc.rank ≤ 2 → s.wsBound = false) ∧
  (pc.rank ≤ 1 → s.ovClosed = true) ∧ (pc.rank = 0 → s.dbOpen = false)

theorem cc_getElem?_mem {l : List CcPc} {i : Nat} {a : CcPc} (h : l[i]? = some a) : a ∈ l := by
  obtain ⟨hlt, he⟩ := List.getElem?_eq_some_iff.mp h
  exact he ▸ List.getElem_mem hlt

theorem cc_inv_step {s s' : Cc} {a : CcAct} (h : ∀ pc ∈ s.closers, CcGood s pc)
    (hs : ccStep false s a = some s') : ∀ pc ∈ s'.closers, CcGood s' pc := by
  cases a with
  | deliver =>
    simp only [ccStep] at hs
    split at hs
    · cases hs
    · rename_i hc
      simp only [Option.some.injEq] at hs; subst hs
      intro pc hpc
      have hg := h pc hpc
      have hst : pc = .start := by
        cases pc <;> first | rfl | (exfalso; exact hc (hg.1 (by simp)))
      subst hst
      simp [CcGood, CcPc.rank]
  | finish =>
    simp only [ccStep] at hs
    split at hs
    · rename_i hd
      simp only [Option.some.injEq] at hs; subst hs
      intro pc hpc
      have hg := h pc hpc
      refine ⟨hg.1, fun hr => ?_, hg.2.2.1, hg.2.2.2.1, hg.2.2.2.2⟩
      have := hg.2.1 hr
      omega
    · cases hs
  | closeCall =>
    simp only [ccStep, Option.some.injEq] at hs; subst hs
    intro pc hpc
    simp only [List.mem_append, List.mem_singleton] at hpc
    rcases hpc with hpc | rfl
    · exact h pc hpc
    · simp [CcGood, CcPc.rank]
  | go j =>
    simp only [ccStep] at hs
    split at hs
    · rename_i hl
      simp only [Bool.false_eq_true, false_and, if_false, Option.some.injEq] at hs; subst hs
      intro pc hpc
      rcases List.mem_or_eq_of_mem_set hpc with hpc | rfl
      · have hg := h pc hpc
        exact ⟨fun _ => rfl, hg.2.1, hg.2.2.1, hg.2.2.2.1, hg.2.2.2.2⟩
      · simp [CcGood, CcPc.rank]
    · rename_i hl
      have ho := h _ (cc_getElem?_mem hl)
      split at hs
      · rename_i hd
        simp only [Option.some.injEq] at hs; subst hs
        intro pc hpc
        rcases List.mem_or_eq_of_mem_set hpc with hpc | rfl
        · exact h pc hpc
        · exact ⟨fun _ => ho.1 (by simp), fun _ => hd, by simp [CcPc.rank], by simp [CcPc.rank], by simp [CcPc.rank]⟩
      · cases hs
    · rename_i hl
      have ho := h _ (cc_getElem?_mem hl)
      simp only [Option.some.injEq] at hs; subst hs
      intro pc hpc
      rcases List.mem_or_eq_of_mem_set hpc with hpc | rfl
      · have hg := h pc hpc
        exact ⟨hg.1, hg.2.1, fun _ => rfl, hg.2.2.2.1, hg.2.2.2.2⟩
      · exact ⟨fun _ => ho.1 (by simp), fun _ => ho.2.1 (by simp [CcPc.rank]), fun _ => rfl, by simp [CcPc.rank], by simp [CcPc.rank]⟩
    · rename_i hl
      have ho := h _ (cc_getElem?_mem hl)
      simp only [Option.some.injEq] at hs; subst hs
      intro pc hpc
      rcases List.mem_or_eq_of_mem_set hpc with hpc | rfl
      · have hg := h pc hpc
        exact ⟨hg.1, hg.2.1, hg.2.2.1, fun _ => rfl, hg.2.2.2.2⟩
      · exact ⟨fun _ => ho.1 (by simp), fun _ => ho.2.1 (by simp [CcPc.rank]), fun _ => ho.2.2.1 (by simp [CcPc.rank]), fun _ => rfl, by simp [CcPc.rank]⟩
    · rename_i hl
      have ho := h _ (cc_getElem?_mem hl)
      simp only [Option.some.injEq] at hs; subst hs
      intro pc hpc
      rcases List.mem_or_eq_of_mem_set hpc with hpc | rfl
      · have hg := h pc hpc
        exact ⟨hg.1, hg.2.1, hg.2.2.1, hg.2.2.2.1, fun _ => rfl⟩
      · exact ⟨fun _ => ho.1 (by simp), fun _ => ho.2.1 (by simp [CcPc.rank]), fun _ => ho.2.2.1 (by simp [CcPc.rank]),
          fun _ => ho.2.2.2.1 (by simp [CcPc.rank]), fun _ => rfl⟩
    · cases hs

theorem cc_inv_run (s : Cc) (h : ∀ pc ∈ s.closers, CcGood s pc) (acts : List CcAct) :
    ∀ pc ∈ (ccRun false s acts).closers, CcGood (ccRun false s acts) pc := by
  induction acts generalizing s with
  | nil => exact h
  | cons a as ih =>
    simp only [ccRun]
    split
    · rename_i s' hs; exact ih s' (cc_inv_step h hs)
    · exact ih s h

/-- **when ANY `Close` call returns, the server is closed**: for every number of overlapping `Close` calls, every
number of deliveries in flight and every interleaving — a call that has returned has seen the router closed, every
delivery over, the client-side port released, the overlay closed and the database closed.  Falsified by any way out of
`Close` that does not run (or wait for) the whole sequence — e.g. a return on `Router.Closed()`, which only says that
some `Close` has begun (`c10_closed_flag_is_not_closed`). -/
theorem c10_any_close_return_means_closed (acts : List CcAct) :
    CcPc.returned ∈ (ccRun false {} acts).closers → (ccRun false {} acts).released = true := by
  intro hm
  have hg := cc_inv_run {} (by intro pc hpc; cases hpc) acts _ hm
  have h1 := hg.1 (by simp)
  have h2 := hg.2.1 (by simp [CcPc.rank])
  have h3 := hg.2.2.1 (by simp [CcPc.rank])
  have h4 := hg.2.2.2.1 (by simp [CcPc.rank])
  have h5 := hg.2.2.2.2 (by simp [CcPc.rank])
  simp [Cc.released, h1, h2, h3, h4, h5]

/-- **liveness**: once no delivery is in flight every `Close` call that has not returned can take its next step, and
each step brings it closer to its return; while deliveries are in flight a processor's return is enabled.  So
overlapping `Close` calls all return as soon as the processors do (they do not wait for each other). -/
theorem c10_overlapping_closes_progress (s : Cc) (j : Nat) (pc : CcPc) (hl : s.closers[j]? = some pc)
    (hr : pc ≠ .returned) :
    (0 < s.deliveries → (ccStep false s .finish).isSome = true) ∧
    (s.deliveries = 0 → ∃ s' pc', ccStep false s (.go j) = some s' ∧ s'.closers[j]? = some pc' ∧ pc'.rank < pc.rank) := by
  obtain ⟨hlt, he⟩ := List.getElem?_eq_some_iff.mp hl
  refine ⟨fun hd => by simp [ccStep, hd], fun hd => ?_⟩
  cases pc with
  | returned => exact absurd rfl hr
  | start => simp [ccStep, he, hd, hlt, CcPc.rank]
  | waiting => simp [ccStep, he, hd, hlt, CcPc.rank]
  | ws => simp [ccStep, he, hd, hlt, CcPc.rank]
  | ov => simp [ccStep, he, hd, hlt, CcPc.rank]
  | db => simp [ccStep, he, hd, hlt, CcPc.rank]

/-- witness for the variant that returns when the router's closed flag is set (seeded change C10r7-B): a delivery is
in flight, the first `Close` waits in `Router.Stop`, the second returns at once — with the delivery running, the
client-side port bound and the database open.  On the code as it is the second call waits as well. -/
theorem c10_closed_flag_is_not_closed :
    let s := ccRun true {} [.deliver, .closeCall, .closeCall, .go 0, .go 1]
    s.closers = [.waiting, .returned] ∧ s.released = false ∧ s.deliveries = 1 ∧ s.wsBound = true ∧ s.dbOpen = true ∧
    (ccRun false {} [.deliver, .closeCall, .closeCall, .go 0, .go 1]).closers = [.waiting, .waiting] := by
  decide

/-- non-vacuity: two overlapping calls that both return, after the delivery is over -/
example :
    let s := ccRun false {} [.deliver, .closeCall, .go 0, .closeCall, .go 1, .finish, .go 1, .go 0, .go 1, .go 1, .go 0, .go 1, .go 0, .go 0]
    s.closers = [.returned, .returned] ∧ s.released = true := by decide


/-! ### the code regions the model stands for
Regenerated from /repo's source on every run (`harness/cmd/astfacts` → `OnetVerif/Shapes.lean`): the
calls that matter for synchronisation and data flow, the lock regions and (for decision logic) the
conditions, in source order.  A re-ordering, a dropped call or a changed condition breaks these
obligations even when no sampled input or schedule shows a difference; the check then searches for
a failing input. -/
theorem c10_shape_router_Router_Stop_b4 :
    Shapes.network_router_Router_Stop_b4 =
   ["host.Stop", "assign:err=r.host.Stop()", "r.Unpause", "verifC10Point", "r.Lock",
     "assign:r.isClosed=true", "range:_,arr:=r.connections{", "range:_,c:=arr{", "c.Close",
     "assign:err:=c.Close()", "if:(err!=nil)", "}", "}", "r.Unlock", "verifC10Point", "wg.Wait",
     "verifC10Point", "if:(err!=nil)", "return:xerrors.Errorf(\"\",err)", "return:nil"] := rfl

theorem c10_shape_router_Router_Start :
    Shapes.network_router_Router_Start =
   ["defer:verifC10Point", "r.receiveServerIdentity", "c.Close", "r.isPeerValid", "c.Close",
     "verifC10Point", "r.registerConnection", "c.Close", "verifC10Point",
     "r.launchHandleRoutine", "host.Listen"] := rfl

theorem c10_shape_router_Router_registerConnection_b4 :
    Shapes.network_router_Router_registerConnection_b4 =
   ["r.Lock", "defer:r.Unlock", "if:r.isClosed", "return:xerrors.Errorf(\"\",ErrClosed)",
     "remote.GetID", "assign:_,okc:=r.connections[remote.GetID()]", "if:okc", "remote.GetID",
     "assign:r.connections[remote.GetID()]=append(r.connections[remote.GetID()],c)",
     "return:nil"] := rfl

theorem c10_shape_router_Router_launchHandleRoutine_b4 :
    Shapes.network_router_Router_launchHandleRoutine_b4 =
   ["r.Lock", "defer:r.Unlock", "if:r.isClosed", "return:xerrors.Errorf(\"\",ErrClosed)",
     "wg.Add", "go{", "r.handleConn", "}", "return:nil"] := rfl

theorem c10_shape_router_Router_connect :
    Shapes.network_router_Router_connect =
   ["host.Connect", "c.Send", "c.Close", "verifC10Point", "r.registerConnection", "c.Close",
     "verifC10Point", "r.launchHandleRoutine"] := rfl

theorem c10_shape_router_Router_handleConn :
    Shapes.network_router_Router_handleConn =
   ["defer{", "c.Close", "c.Rx", "c.Tx", "traffic.updateRx", "traffic.updateTx", "wg.Done",
     "r.removeConnection", "verifC10Point", "}", "verifC10Point", "c.Remote", "c.Receive",
     "verifC10Point", "r.Lock", "r.Unlock", "recv:paused", "r.Closed",
     "r.triggerConnectionErrorHandlers", "r.triggerConnectionErrorHandlers",
     "r.triggerConnectionErrorHandlers", "verifC10Point", "msgTraffic.updateRx", "r.Dispatch"] := rfl

theorem c10_shape_Server_Close_b4 :
    Shapes.server_Server_Close_b4 =
   ["c.Lock", "if:c.IsStarted", "send:closeitChannel", "assign:c.IsStarted=false", "c.Unlock",
     "Router.Stop", "assign:err:=c.Router.Stop()", "if:(err!=nil)",
     "assign:err=xerrors.Errorf(\"\",err)", "WebSocket.stop", "overlay.Close",
     "serviceManager.closeDatabase", "assign:err=c.serviceManager.closeDatabase()",
     "if:(err!=nil)", "assign:err=xerrors.Errorf(\"\",err)", "return:err"] := rfl

theorem c10_shape_treeStorage_Close_b4 :
    Shapes.treestorage_treeStorage_Close_b4 =
   ["ts.Lock", "assign:ts.closed=true", "range:k,c:=ts.cancellations{", "close:c", "}",
     "ts.Unlock", "wg.Wait"] := rfl

theorem c10_shape_Overlay_Close_b4 :
    Shapes.overlay_Overlay_Close_b4 =
   ["instancesLock.Lock", "defer:instancesLock.Unlock", "assign:o.closed=true",
     "range:_,tni:=o.instances{", "tni.Token", "o.nodeDelete", "}", "treeStorage.Close"] := rfl

theorem c10_shape_Overlay_newTreeNodeInstanceFromToken_b4 :
    Shapes.overlay_Overlay_newTreeNodeInstanceFromToken_b4 =
   ["newTreeNodeInstance", "assign:tni:=newTreeNodeInstance(o,tok,tn,io)", "instancesLock.Lock",
     "defer:instancesLock.Unlock", "if:o.closed", "tni.closeDispatch", "return:tni",
     "assign:o.instances[tok.ID()]=tni", "return:tni"] := rfl

theorem c10_shape_TreeNodeInstance_dispatchMsgReader_b4 :
    Shapes.treenode_TreeNodeInstance_dispatchMsgReader_b4 =
   ["for:{", "msgDispatchQueueMutex.Lock", "if:n.closing", "msgDispatchQueueMutex.Unlock",
     "return:", "if:(len(n.msgDispatchQueue)>0)", "assign:msg:=n.msgDispatchQueue[0]",
     "assign:n.msgDispatchQueue=n.msgDispatchQueue[1:]", "msgDispatchQueueMutex.Unlock",
     "n.dispatchMsgToProtocol", "assign:err:=n.dispatchMsgToProtocol(msg)", "if:(err!=nil)",
     "else", "msgDispatchQueueMutex.Unlock", "recv:msgDispatchQueueWait", "}"] := rfl

theorem c10_shape_local_LocalManager_send :
    Shapes.network_local_LocalManager_send =
   ["lm.Lock", "defer:lm.Unlock", "send:incomingQueue"] := rfl

theorem c10_shape_tcp_TCPListener_listen_b4 :
    Shapes.network_tcp_TCPListener_listen_b4 =
   ["listeningLock.Lock", "if:(t.closed==true)", "listeningLock.Unlock", "return:nil",
     "assign:t.listening=true", "listeningLock.Unlock", "for:{", "listener.Accept",
     "assign:conn,err:=t.listener.Accept()", "if:(err!=nil)", "recv:quit", "send:quitListener",
     "return:nil", "continue", "assign:c:=TCPConn{conn:conn,suite:t.suite}", "fn", "}"] := rfl

theorem c10_shape_tcp_TCPListener_Stop_b4 :
    Shapes.network_tcp_TCPListener_Stop_b4 =
   ["listeningLock.Lock", "defer:listeningLock.Unlock", "close:quit", "if:(t.listener!=nil)",
     "listener.Close", "assign:err:=t.listener.Close()", "if:(err!=nil)",
     "if:(handleError(err)!=ErrClosed)", "return:xerrors.Errorf(\"\",handleError(err))",
     "if:t.listening", "for:!stop{", "recv:quitListener", "assign:stop=true", "recv:After()",
     "time.After", "continue", "}", "assign:t.quit=make(conv)", "assign:t.listening=false",
     "assign:t.closed=true", "return:nil"] := rfl

theorem c10_shape_tcp_TCPListener_Listen :
    Shapes.network_tcp_TCPListener_Listen =
   ["go{", "fn", "}", "t.listen"] := rfl

theorem c10_shape_local_LocalListener_Listen_b4 :
    Shapes.network_local_LocalListener_Listen_b4 =
   ["ll.Lock", "if:ll.listening", "ll.Unlock", "return:xerrors.Errorf(\"\",ll.addr)",
     "assign:ll.quit=make(conv)", "manager.setListening", "assign:ll.listening=true",
     "ll.Unlock", "recv:quit", "return:nil"] := rfl

theorem c10_shape_local_LocalListener_Stop_b4 :
    Shapes.network_local_LocalListener_Stop_b4 =
   ["ll.Lock", "defer:ll.Unlock", "if:!ll.listening", "return:nil", "manager.unsetListening",
     "close:quit", "assign:ll.listening=false", "return:nil"] := rfl

theorem c10_shape_Server_Start_b4 :
    Shapes.server_Server_Start_b4 =
   ["InformServerStarted", "time.Now", "assign:c.started=time.Now()", "if:!c.Quiet", "go{",
     "Router.Start", "}", "go{", "WebSocket.start", "}",
     "for:(!c.Router.Listening()||!c.WebSocket.Listening()){", "time.Sleep", "}", "c.Lock",
     "assign:c.IsStarted=true", "c.Unlock", "recv:closeitChannel"] := rfl

theorem c10_shape_WebSocket_stop :
    Shapes.websocket_WebSocket_stop =
   ["w.Lock", "defer:w.Unlock", "if:!w.started", "return:", "time.Now", "Now().Add",
     "context.Background", "context.WithDeadline", "server.Shutdown", "cancel", "recv:startstop"] := rfl

theorem c10_shape_serviceManager_closeDatabase :
    Shapes.service_serviceManager_closeDatabase =
   ["if:(s.db!=nil)", "db.Close", "if:(err!=nil)", "if:s.delDb", "s.dbFileName", "os.Remove",
     "if:(err!=nil)", "return:xerrors.Errorf(\"\",err)", "return:nil"] := rfl

theorem c10_shape_router_Router_Closed_b4 :
    Shapes.network_router_Router_Closed_b4 =
   ["r.Lock", "defer:r.Unlock", "return:r.isClosed"] := rfl


theorem c10_shape_router_Router_Pause_b7d :
    Shapes.network_router_Router_Pause_b7d =
   ["r.Lock", "if:(r.paused==nil)", "assign:r.paused=make(conv)", "r.Unlock"] := rfl

theorem c10_shape_router_Router_Unpause_b7d :
    Shapes.network_router_Router_Unpause_b7d =
   ["r.Lock", "if:(r.paused!=nil)", "close:paused", "assign:r.paused=nil", "r.Unlock"] := rfl

end C10
