import OnetVerif.Model.C15
import OnetVerif.Gen.C15
/-! Property C15 — the decisions regenerated from the Go source (`Gen/C15.lean`, written by `harness/cmd/go2lean` on every
check run from `processor.go` and `websocket.go`).  `ProcessClientStreamRequest` and `wsHandler.ServeHTTP` are goroutines,
channels, locks and reflection and cannot be translated as functions; their **decisions** are lifted out as predicates over
the variables they read (`"extract"` in `meta/go2lean.json`): when `outChan` is closed (`forwarders == 0 && !outClosed`, in
`endStream` and in a forwarder's deferred function), whether a request is refused (`refused := outClosed || noChan`), whether
it counts as a forwarder (`!refused && !known`), whether it gets none (`refused || known`), whether its stopper waits for
`stopAll` (`!refused`), the adapter's draining (`ended`), the end of a forwarder (`!ok`), the normal close (`!ok` on
`outChan`).  The theorems say that the transition system of `Model/C15.lean` — the code as it is, `Variant.fixed` — takes
exactly these decisions.  Nothing imports this file. -/
namespace C15

/-- the conditions as read from the source -/
theorem c15_gen_conditions (f : Int) (oc nc r k e ok s : Bool) :
    Gen.C15.endStream_closesOut f oc = (f == 0 && !oc) ∧
    Gen.C15.forwarderExit_closesOut f oc = (f == 0 && !oc) ∧
    Gen.C15.adapter_refused oc nc = (oc || nc) ∧
    Gen.C15.adapter_countsForwarder r k = (!r && !k) ∧
    Gen.C15.adapter_noForwarder r k = (r || k) ∧
    Gen.C15.stopper_waitsForStopAll r = !r ∧
    Gen.C15.adapter_drains e = e ∧
    Gen.C15.adapter_nilChannelEnds nc = nc ∧
    Gen.C15.forwarder_channelClosed ok = !ok ∧
    Gen.C15.serve_streamOver ok = !ok ∧
    Gen.C15.serve_plainRequest s = !s := ⟨rfl, rfl, rfl, rfl, rfl, rfl, rfl, rfl, rfl, rfl, rfl⟩

/-- **the end of a forwarder** (`fwdExit`, the deferred function, processor.go:597-606): `forwarders--`, and `outChan` is
closed exactly when the translated test on the new count says so -/
theorem c15_gen_forwarder_exit (s : St) (h : 1 ≤ s.fcount) :
    (fwdExit .fixed s).fcount = s.fcount - 1 ∧
    (fwdExit .fixed s).outClosed =
      (s.outClosed || Gen.C15.forwarderExit_closesOut ((s.fcount : Int) - 1) s.outClosed) := by
  have e : (((s.fcount : Int) - 1) == 0) = (s.fcount - 1 == 0) := by
    rw [Bool.eq_iff_iff]; simp only [beq_iff_eq]; omega
  refine ⟨rfl, ?_⟩
  simp only [fwdExit, Variant.fixed, if_true, Gen.C15.forwarderExit_closesOut, e]
  cases s.outClosed <;> simp

/-- **a message that does not decode / a failing handler** (`adapterFail`: `ended = true; endStream()`,
processor.go:484-494, 512-531): the adapter drains from now on, every service is told to stop, and `outChan` is closed
exactly when the translated test of `endStream` says so -/
theorem c15_gen_end_stream (s : St) :
    (adapterFail .fixed s).ended = true ∧ (adapterFail .fixed s).stopAll = true ∧
    (adapterFail .fixed s).outClosed = (s.outClosed || Gen.C15.endStream_closesOut (s.fcount : Int) s.outClosed) := by
  have e : (((s.fcount : Int)) == 0) = (s.fcount == 0) := by
    rw [Bool.eq_iff_iff]; simp only [beq_iff_eq]; omega
  refine ⟨rfl, rfl, ?_⟩
  simp only [adapterFail, Variant.fixed, if_true, Gen.C15.endStream_closesOut, e]
  cases s.outClosed <;> simp

/-- **a request whose handler hands back a channel** (`newStream`, processor.go:533-584): the stream it adds is refused
exactly when the translated `refused := outClosed || noChan` (with a real channel) says so, it is counted as a forwarder
exactly when the translated `!refused && !known` says so (a new channel: not known), and it has no forwarder exactly
when the translated `refused || known` does -/
theorem c15_gen_new_stream (s : St) (t : Stream) (ht : t.refused = false) (hf : t.fwd = .recv) :
    let refused := Gen.C15.adapter_refused s.outClosed false
    (newStream .fixed s t).streams = s.streams ++
      [if Gen.C15.adapter_noForwarder refused false then { t with refused := true, fwd := .done } else t] ∧
    (newStream .fixed s t).fcount = (if Gen.C15.adapter_countsForwarder refused false then s.fcount + 1 else s.fcount) ∧
    (∀ st ∈ (newStream .fixed s t).streams, st ∉ s.streams →
      st.refused = refused ∧ (st.fwd = .done ↔ Gen.C15.adapter_noForwarder refused false = true)) := by
  simp only [newStream, Variant.fixed, if_true, Gen.C15.adapter_refused, Gen.C15.adapter_noForwarder,
    Gen.C15.adapter_countsForwarder, Bool.or_false, Bool.not_false, Bool.and_true]
  cases hoc : s.outClosed
  · simp only [Bool.false_eq_true, if_false, Bool.not_false, if_true, true_and]
    intro st hst hn
    rcases List.mem_append.mp hst with h | h
    · exact absurd h hn
    · simp only [List.mem_singleton] at h; subst h; simp [ht, hf]
  · simp only [if_true, Bool.not_true, Bool.false_eq_true, if_false, true_and]
    intro st hst hn
    rcases List.mem_append.mp hst with h | h
    · exact absurd h hn
    · simp only [List.mem_singleton] at h; subst h; simp

/-- **a request whose handler hands back a nil channel** (`nilOut`, processor.go:547-556): it ends the stream like a
failing handler (the translated `if noChan`), is refused by the translated `refused := outClosed || noChan` whatever
`outClosed` is, and gets no forwarder; **a channel handed back a second time** (`known`): no second forwarder -/
theorem c15_gen_nil_channel_and_known (s : St) (oc r : Bool) :
    Gen.C15.adapter_nilChannelEnds true = true ∧
    Gen.C15.adapter_refused oc true = true ∧
    Gen.C15.adapter_noForwarder (Gen.C15.adapter_refused oc true) false = true ∧
    Gen.C15.adapter_countsForwarder (Gen.C15.adapter_refused oc true) false = false ∧
    (nilOut .fixed s).ended = true ∧ (nilOut .fixed s).fcount = s.fcount ∧
    (∃ st, (nilOut .fixed s).streams = s.streams ++ [st] ∧ st.refused = true ∧ st.fwd = .done ∧ st.noOut = true) ∧
    Gen.C15.adapter_noForwarder r true = true ∧ Gen.C15.adapter_countsForwarder r true = false := by
  refine ⟨rfl, by cases oc <;> rfl, by cases oc <;> rfl, by cases oc <;> rfl, rfl, rfl, ⟨_, rfl, rfl, rfl, rfl⟩,
    by cases r <;> rfl, by cases r <;> rfl⟩

/-- **who waits for `stopAll`**: the stopper of a request does its work (`Act.stop k`) when `stopAll` is closed or — the
translated `if !refused { <-stopAll }` — at once when the request was refused -/
theorem c15_gen_stopper (caps : Caps) (s : St) (k : Nat) (st : Stream) (hk : s.streams[k]? = some st)
    (hp : s.panic = none) (hs : st.stopClosed = false) :
    (step .fixed caps s (.stop k)).isSome = (s.stopAll || !Gen.C15.stopper_waitsForStopAll st.refused) := by
  simp only [step, hp, Option.isSome_none, Bool.false_eq_true, if_false, hk, hs, Bool.not_false, Bool.and_true,
    Gen.C15.stopper_waitsForStopAll, Bool.not_not]
  cases s.stopAll <;> cases st.refused <;> simp

end C15
