import OnetVerif.Model.C03
import OnetVerif.Gen.C03
/-! Property C03 — the conditions regenerated from the Go source (`Gen/C03.lean`, written by `harness/cmd/go2lean` on
every check run from `network/tcp.go`).  `receiveRawProd` and `sendRaw` read and write a socket and cannot be
translated as functions; their **decisions** are lifted out as predicates over the variables they read
(`"extract"` in `meta/go2lean.json`): the size test of the header against `MaxPacketSize`, the loop condition of the
body read, the loop condition of the body write.  The model (`recvFrame`) takes the limit as its parameter `max`.
Nothing imports this file. -/
namespace C03

/-- the three conditions as read from the source: strictly greater than the limit; as long as fewer bytes than
announced have been read / written -/
theorem c03_gen_conditions (total max read sent size : Nat) :
    Gen.C03.receiveRawProd_tooBig total max = decide (total > max) ∧
    Gen.C03.receiveRawProd_moreToRead read total = decide (read < total) ∧
    Gen.C03.sendRaw_moreToWrite sent size = decide (sent < size) := ⟨rfl, rfl, rfl⟩

/-- **the size test of the model is the translated one**: once the four header bytes are there, `recvFrame` refuses
the frame exactly when the translated test of the announced size against the limit says so (a frame of exactly
`max` bytes is accepted), and otherwise goes on to read exactly the announced number of bytes -/
theorem c03_gen_recvFrame_size_test (max : Nat) (c c1 : Segs) (hdr : List Nat)
    (h : readExact 4 c 4 [] = (some hdr, c1)) :
    recvFrame max c =
      if Gen.C03.receiveRawProd_tooBig (unbe32 hdr) max then (.error .tooBig, c1)
      else match readExact (unbe32 hdr) c1 (unbe32 hdr) [] with
        | (none, c2) => (.error .eof, c2)
        | (some b, c2) => (.ok b, c2) := by
  unfold recvFrame Gen.C03.receiveRawProd_tooBig
  rw [h]
  by_cases hm : unbe32 hdr > max
  · simp [hm]
  · simp only [hm, if_false, decide_false, Bool.false_eq_true]
    rcases readExact (unbe32 hdr) c1 (unbe32 hdr) [] with ⟨_ | b, c2⟩ <;> rfl

/-- the boundary: a frame of exactly the limit passes the test, one byte more does not -/
theorem c03_gen_limit_boundary (max : Nat) :
    Gen.C03.receiveRawProd_tooBig max max = false ∧ Gen.C03.receiveRawProd_tooBig (max + 1) max = true := by
  simp [Gen.C03.receiveRawProd_tooBig]

/-! ### the type registry (`encoding.go` `typeRegistry.get` / `put`, translated as functions) -/

theorem lookup_eq_find (r : Registry) (id : List Nat) :
    List.lookup id r = (r.find? (fun e => e.1 == id)).map (·.2) := by
  induction r with
  | nil => rfl
  | cons e r ih =>
    obtain ⟨k, t⟩ := e
    by_cases h : id = k
    · subst h; simp [List.lookup, List.find?]
    · have h1 : (id == k) = false := by simp [h]
      have h2 : (k == id) = false := by simp [Ne.symm h]
      simp [List.lookup, List.find?, h1, h2, ih]

/-- **the registry of the model is the translated one**: on the table `newTypeRegistry` makes (a non-nil map),
`registry.get` as translated from the source returns the model's `Registry.get` (with Go's comma-ok pair: the zero
type and `false` for an unknown id), and `registry.put` is the model's `Registry.put` — the latest registration of
an id is the one found (`c03_registry_last_wins` is about exactly this table) and `put` never panics.
(Falsified by: a `put` that keeps the first registration, a `get` on another table or key.) -/
theorem c03_gen_registry (r : Registry) (id : List Nat) (t : GoType) :
    Gen.C03.typeRegistry_get ⟨some r⟩ id = ((r.get id).getD ⟨[], 0⟩, (r.get id).isSome) ∧
    Gen.C03.typeRegistry_put ⟨some r⟩ id t = some ⟨some (r.put id t)⟩ := by
  refine ⟨?_, rfl⟩
  simp only [Gen.C03.typeRegistry_get, Gen.Rt.Map.find, Option.getD_some, Registry.get, lookup_eq_find]

/-- … and therefore a registration followed by a look-up of the same id finds the type just registered, whatever was
registered before — on the translated functions -/
theorem c03_gen_put_get (r : Registry) (id : List Nat) (t : GoType) :
    (Gen.C03.typeRegistry_put ⟨some r⟩ id t).map (fun tr => Gen.C03.typeRegistry_get tr id) = some (t, true) := by
  simp [Gen.C03.typeRegistry_put, Gen.Rt.Map.insert?, Gen.C03.typeRegistry_get, Gen.Rt.Map.find]
end C03
