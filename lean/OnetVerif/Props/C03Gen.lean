import OnetVerif.Model.C03
import OnetVerif.Gen.C03
/-! Property C03 — the conditions regenerated from the Go source (`Gen/C03.lean`, written by `harness/cmd/go2lean` on
every check run from `network/tcp.go`).  `receiveRawProd` and `sendRaw` read and write a socket and cannot be
translated as functions; their **decisions** are lifted out as predicates over the variables they read
(`"extract"` in `meta/go2lean.json`): the size test of the header against `MaxPacketSize`, the loop condition of the
body read, the loop condition of the body write.  The model (`recvFrame`) takes the limit as its parameter `max`.
Nothing imports this file. -/
namespace C03

/-- the three conditions as read from the source: strictly greater than the limit; as long as fewer bytes than
announced have been read / written -/
theorem c03_gen_conditions (total max read sent size : Nat) :
    Gen.C03.receiveRawProd_tooBig total max = decide (total > max) ∧
    Gen.C03.receiveRawProd_moreToRead read total = decide (read < total) ∧
    Gen.C03.sendRaw_moreToWrite sent size = decide (sent < size) := ⟨rfl, rfl, rfl⟩

/-- **the size test of the model is the translated one**: once the four header bytes are there, `recvFrame` refuses
the frame exactly when the translated test of the announced size against the limit says so (a frame of exactly
`max` bytes is accepted), and otherwise goes on to read exactly the announced number of bytes -/
theorem c03_gen_recvFrame_size_test (max : Nat) (c c1 : Segs) (hdr : List Nat)
    (h : readExact 4 c 4 [] = (some hdr, c1)) :
    recvFrame max c =
      if Gen.C03.receiveRawProd_tooBig (unbe32 hdr) max then (.error .tooBig, c1)
      else match readExact (unbe32 hdr) c1 (unbe32 hdr) [] with
        | (none, c2) => (.error .eof, c2)
        | (some b, c2) => (.ok b, c2) := by
  unfold recvFrame Gen.C03.receiveRawProd_tooBig
  rw [h]
  by_cases hm : unbe32 hdr > max
  · simp [hm]
  · simp only [hm, if_false, decide_false, Bool.false_eq_true]
    rcases readExact (unbe32 hdr) c1 (unbe32 hdr) [] with ⟨_ | b, c2⟩ <;> rfl

/-- the boundary: a frame of exactly the limit passes the test, one byte more does not -/
theorem c03_gen_limit_boundary (max : Nat) :
    Gen.C03.receiveRawProd_tooBig max max = false ∧ Gen.C03.receiveRawProd_tooBig (max + 1) max = true := by
  simp [Gen.C03.receiveRawProd_tooBig]
end C03
