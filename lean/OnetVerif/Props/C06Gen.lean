import OnetVerif.Model.C06
import OnetVerif.Gen.C06
/-! Property C06 — the definitions regenerated from the Go source (`Gen/C06.lean`, written by `harness/cmd/go2lean`
on every check run from `treestorage.go`) equal the hand-written model of the tree store (`Model/C06.lean`,
`Ovl.store` with `lookup` / `insert` / `erase`).  `Gen.C06.treeStorage` keeps the field `trees` of the Go struct
(a Go map: `Gen.Rt.Map`, `none` = the nil map; a value `none` = the nil tree pointer of a requested slot);
`storeOf` reads it as the model's association list.  Two association lists are compared as maps: by what
`lookup` finds for every key.  Nothing imports this file. -/
set_option linter.unusedSimpArgs false
namespace C06

/-- the translated store read as the model's -/
def storeOf (ts : Gen.C06.treeStorage) : List (Nat × Option Tree) := ts.trees.getD []

/-- the model's overlay state with that store -/
def ovlOf (ts : Gen.C06.treeStorage) : Ovl := { store := storeOf ts }

theorem find_eq_lookup {α} (m : Gen.Rt.Map Nat α) (id : Nat) :
    Gen.Rt.Map.find m id = lookup (m.getD []) id := by
  unfold Gen.Rt.Map.find
  induction m.getD [] with
  | nil => rfl
  | cons p rest ih =>
    obtain ⟨k, v⟩ := p
    simp only [List.lookup, lookup]
    by_cases h : k = id
    · subst h; simp
    · have : (id == k) = false := by simp; exact fun e => h e.symm
      simp [this, h, ih]

theorem lookup_eq_find (ts : Gen.C06.treeStorage) (id : Nat) :
    Gen.Rt.Map.find ts.trees id = lookup (storeOf ts) id := find_eq_lookup _ _

/-- **`treeStorage.IsRegistered` as translated is the model's `isRegistered`**: the id has a slot -/
theorem c06_gen_IsRegistered_eq (ts : Gen.C06.treeStorage) (id : Nat) :
    Gen.C06.treeStorage_IsRegistered ts id = (ovlOf ts).isRegistered id := by
  simp [Gen.C06.treeStorage_IsRegistered, Ovl.isRegistered, ovlOf, lookup_eq_find]

/-- **`treeStorage.IsRequested` as translated is the model's `isRequested`**: the id has a slot and the slot holds
the nil tree -/
theorem c06_gen_IsRequested_eq (ts : Gen.C06.treeStorage) (id : Nat) :
    Gen.C06.treeStorage_IsRequested ts id = (ovlOf ts).isRequested id := by
  simp only [Gen.C06.treeStorage_IsRequested, Ovl.isRequested, ovlOf, lookup_eq_find]
  cases h : lookup (storeOf ts) id with
  | none => rfl
  | some v => cases v <;> rfl

/-- **`treeStorage.Get` as translated is the model's `get`**: the tree, nil for an absent or a requested slot -/
theorem c06_gen_Get_eq (ts : Gen.C06.treeStorage) (id : Nat) :
    Gen.C06.treeStorage_Get ts id = (ovlOf ts).get id := by
  simp only [Gen.C06.treeStorage_Get, Gen.Rt.Map.get, Ovl.get, ovlOf, lookup_eq_find]
  cases h : lookup (storeOf ts) id with
  | none => rfl
  | some v => cases v <;> rfl

private theorem lookup_insert {α} (l : List (Nat × α)) (k : Nat) (v : α) (j : Nat) :
    lookup (insert l k v) j = if k = j then some v else lookup l j := by
  induction l with
  | nil => simp [insert, lookup]
  | cons p rest ih =>
    obtain ⟨k', v'⟩ := p
    by_cases h : k' = k
    · subst h; by_cases hj : k' = j <;> simp [insert, lookup, hj]
    · by_cases hj : k' = j
      · subst hj; simp [insert, lookup, h]; exact fun e => absurd e.symm h
      · simp [insert, lookup, h, hj, ih]

private theorem erase_cons {α} (k' : Nat) (v' : α) (rest : List (Nat × α)) (k : Nat) :
    erase ((k', v') :: rest) k = if k' = k then erase rest k else (k', v') :: erase rest k := by
  by_cases h : k' = k <;> simp [erase, List.filter_cons, h]

private theorem lookup_erase {α} (l : List (Nat × α)) (k : Nat) (j : Nat) :
    lookup (erase l k) j = if k = j then none else lookup l j := by
  induction l with
  | nil => simp [erase, lookup]
  | cons p rest ih =>
    obtain ⟨k', v'⟩ := p
    rw [erase_cons]
    by_cases h : k' = k
    · subst h
      by_cases hj : k' = j
      · subst hj; simpa using ih
      · simp [lookup, hj, ih]
    · by_cases hj : k' = j
      · subst hj; simp [lookup, h]; exact fun e => absurd e.symm h
      · simp [lookup, h, hj, ih]

private theorem erase_eq {α} (l : List (Nat × α)) (id : Nat) :
    (Gen.Rt.Map.erase (some l) id).getD [] = erase l id := by
  simp only [Gen.Rt.Map.erase, Option.map_some, Option.getD_some, erase]
  congr 1
  funext p
  by_cases hp : p.1 = id <;> simp [hp]

/-- **`treeStorage.Register` as translated is the model's local step `request`** (on a store that was made by
`newTreeStorage`, i.e. whose map is not nil — writing to the nil map is the panic outcome `none`): it does not
panic, and afterwards every id finds what it finds in the model's store — a slot holding the nil tree is made
unless the id has a slot already -/
theorem c06_gen_Register_eq (ts : Gen.C06.treeStorage) (id : Nat) (hm : ts.trees.isSome) :
    ∃ ts', Gen.C06.treeStorage_Register ts id = some ts' ∧
      ∀ j, lookup (storeOf ts') j = lookup (localStep (ovlOf ts) (.request id)).store j := by
  obtain ⟨tr⟩ := ts
  cases tr with
  | none => simp at hm
  | some l =>
    have hf := find_eq_lookup (some l) id
    simp only [Option.getD_some] at hf
    simp only [Gen.C06.treeStorage_Register, localStep, ovlOf, storeOf, Option.getD_some, hf]
    rcases Option.eq_none_or_eq_some (lookup l id) with h | ⟨v, h⟩
    · simp only [h, Option.isSome_none, Bool.not_false, if_true, Gen.Rt.Map.insert?, Bool.false_eq_true, if_false]
      refine ⟨_, rfl, fun j => ?_⟩
      simp only [Option.getD_some, lookup_insert, lookup]
    · simp only [h, Option.isSome_some, Bool.not_true, Bool.false_eq_true, if_false, if_true]
      exact ⟨_, rfl, fun j => rfl⟩

/-- **`treeStorage.Unregister` as translated is the model's local step `unrequest`**: the slot is removed when it
holds the nil tree (removing an absent slot changes nothing), a slot that holds a tree is kept -/
theorem c06_gen_Unregister_eq (ts : Gen.C06.treeStorage) (id : Nat) :
    ∀ j, lookup (storeOf (Gen.C06.treeStorage_Unregister ts id)) j =
      lookup (localStep (ovlOf ts) (.unrequest id)).store j := by
  intro j
  obtain ⟨tr⟩ := ts
  have hf := find_eq_lookup tr id
  simp only [Gen.C06.treeStorage_Unregister, Gen.Rt.Map.get, localStep, Ovl.isRequested, ovlOf, storeOf, hf]
  cases tr with
  | none => simp [lookup, Gen.Rt.Map.erase, erase]
  | some l =>
    simp only [Option.getD_some]
    rcases Option.eq_none_or_eq_some (lookup l id) with h | ⟨v, h⟩
    · have e1 : ((none : Option (Option Tree)) == some none) = false := rfl
      simp only [h, Option.getD_none, Option.isNone_none, if_true, e1, Bool.false_eq_true, if_false, erase_eq, lookup_erase]
      by_cases hj : id = j
      · subst hj; simp [h]
      · simp [hj]
    · cases v with
      | none =>
        have e1 : ((some (none : Option Tree)) == some none) = true := rfl
        simp only [h, Option.getD_some, Option.isNone_none, if_true, e1, erase_eq]
      | some t =>
        have e1 : ((some (some t)) == some (none : Option Tree)) = false := by simp
        simp [h, e1]

/-- a roster of the model as the translated `Roster` sees it: no entry is the nil pointer, every entry carries
its `ID` field -/
def rosterOf (l : List Server) : Gen.C06.Roster := { List := l.map fun s => some { ID := s.sid } }

/-- what `Roster.Search` returns for the model's answer: position and entry, or `-1, nil` -/
def searchResult : Option (Nat × Server) → Int × Option Gen.C06.ServerIdentity
  | some (i, s) => (Int.ofNat i, some { ID := s.sid })
  | none => (-1, none)

private theorem search_from (l : List Server) (sid n : Nat) :
    (match Gen.Rt.rangeReturn (Gen.Rt.enumFrom n (l.map fun s => some ({ ID := s.sid } : Gen.C06.ServerIdentity)))
        (fun p => match p.2 with
          | none => some none
          | some e => if (e.ID == sid) then some (some (p.1, p.2)) else none) with
      | some r => r
      | none => some ((-1 : Int), none)) =
    some (searchResult ((search l sid).map fun (i, e) => (i + n, e))) := by
  induction l generalizing n with
  | nil => rfl
  | cons s rest ih =>
    simp only [List.map_cons, Gen.Rt.enumFrom, Gen.Rt.rangeReturn, List.findSome?_cons, search]
    by_cases h : s.sid = sid
    · simp [h, searchResult]
    · have hb : (s.sid == sid) = false := by simp [h]
      simp only [hb, Bool.false_eq_true, if_false, h]
      have := ih (n + 1)
      simp only [Gen.Rt.rangeReturn] at this
      rw [this]
      cases search rest sid with
      | none => rfl
      | some p => obtain ⟨i, e⟩ := p; simp [searchResult]; omega

/-- **`Roster.Search` as translated is the model's `search`** on a roster without nil entries: it does not panic
and returns the position and the entry of the first server whose `ID` field is the id, `-1, nil` when there is
none (a nil entry before the hit is the panic outcome: the loop reads `e.ID`) -/
theorem c06_gen_Roster_Search_eq (l : List Server) (sid : Nat) :
    Gen.C06.Roster_Search (rosterOf l) sid = some (searchResult (search l sid)) := by
  have := search_from l sid 0
  simp only [Nat.add_zero] at this
  have e : ((search l sid).map fun (p : Nat × Server) => (p.1, p.2)) = search l sid := by
    cases search l sid <;> rfl
  unfold Gen.C06.Roster_Search Gen.Rt.enum rosterOf
  rw [← e]
  exact this

/-- **`Roster.searchByKey` as translated (the look-up by `GetID()` that `MakeTreeFromList` uses since round 7; the reduced `ServerIdentity.ID` stands for the identifier derived from the key) is the model's `search`** on a roster without nil entries: it does not panic
and returns the position and the entry of the first server whose `ID` field is the id, `-1, nil` when there is
none (a nil entry before the hit is the panic outcome: the loop reads `e.ID`) -/
theorem c06_gen_Roster_searchByKey_eq (l : List Server) (sid : Nat) :
    Gen.C06.Roster_searchByKey (rosterOf l) sid = some (searchResult (search l sid)) := by
  have := search_from l sid 0
  simp only [Nat.add_zero] at this
  have e : ((search l sid).map fun (p : Nat × Server) => (p.1, p.2)) = search l sid := by
    cases search l sid <;> rfl
  unfold Gen.C06.Roster_searchByKey Gen.Rt.enum rosterOf
  rw [← e]
  exact this

/-- **the "server not in the roster" test of `MakeTreeFromList` as the code has it** (`idx < 0` on the first result of
`ro.searchByKey`): it fires exactly when the model's `search` finds nothing — the model's `Err.unknownServer` branch of
`makeForest` is taken on the same inputs as the code's `didn't find node in roster` return.  (A changed sentinel of
`Roster.Search`, or a test `idx <= 0` that would refuse the roster's first server, breaks this.) -/
theorem c06_gen_MakeTreeFromList_notFound_iff (l : List Server) (sid : Nat) :
    (Gen.C06.Roster_searchByKey (rosterOf l) sid).map (fun r => Gen.C06.MakeTreeFromList_notFound r.1) =
      some (search l sid).isNone := by
  rw [c06_gen_Roster_searchByKey_eq]
  cases search l sid with
  | none => simp [searchResult, Gen.C06.MakeTreeFromList_notFound]
  | some p =>
    obtain ⟨i, e⟩ := p
    simp only [searchResult, Gen.C06.MakeTreeFromList_notFound, Option.map_some, Option.isNone_some]
    congr 1

/-- **`Roster.Get` as translated** (after /repo db213ab; before, the guard was `idx > len(ro.List)` and
`Get(len(ro.List))` was an index panic although the function promises nil on an index error — probe
`notes/probes/onet_roster_get_at_len_probe_test.go.txt`): it never panics; `nil` for an index outside the list, the
entry for an index inside -/
theorem c06_gen_Roster_Get_spec (ro : Gen.C06.Roster) (idx : Int) :
    Gen.C06.Roster_Get ro idx =
      some (if idx < 0 ∨ (ro.List.length : Int) ≤ idx then none else (ro.List[idx.toNat]?).getD none) := by
  unfold Gen.C06.Roster_Get Gen.Rt.idx Gen.Rt.len
  by_cases h1 : idx < 0
  · simp [h1]
  · by_cases h2 : (ro.List.length : Int) ≤ idx
    · have h3 : idx ≥ Int.ofNat ro.List.length := by simpa using h2
      simp [h1, h2, h3]
    · have h3 : ¬ (idx ≥ Int.ofNat ro.List.length) := by simpa using h2
      simp only [h1, h3, decide_false, Bool.or_self, Bool.false_eq_true, if_false, h2, or_self]
      have hlt : idx.toNat < ro.List.length := by omega
      simp [List.getElem?_eq_getElem hlt]

/-- `Get(len(ro.List))` is nil (it was the panic) -/
theorem c06_gen_Roster_Get_at_len : Gen.C06.Roster_Get { List := [some { ID := 7 }] } 1 = some none := by
  rw [c06_gen_Roster_Get_spec]; simp
end C06
