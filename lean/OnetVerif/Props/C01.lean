import OnetVerif.Model.C01
/-! Property C01 — property theorems, negation witnesses, `_partial` variants and non-vacuity
examples only (helper lemmas that need Mathlib go to OnetVerif/Proofs/). -/
namespace C01

end C01
