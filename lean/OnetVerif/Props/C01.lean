import OnetVerif.Model.C01
import OnetVerif.Shapes
/-! Property C01 — protocol messages reach exactly the addressed instance, exactly once.
Statements are for arbitrary schedules (`List Act`): unboundedly many messages, arrival threads,
tree requests/responses, local registrations and flushes, in any interleaving. -/
namespace C01

def pre (m : Nat) (t : Th) : Bool := t.m == m && (t.pc == .lookup || t.pc == .park)
def at_ (p : Pc) (t : Th) : Bool := t.pc == p

/-- the invariant: conservation of messages plus "somebody will still flush what is parked" -/
structure Inv (s : St) : Prop where
  /-- every arrived message is in exactly one place: delivered, parked, or carried by a thread
  that has not parked or delivered it yet -/
  cons : ∀ m, s.arrived.count m = s.delivered.count m + s.refused.count m + s.parked.count m + s.thr.countP (pre m)
  /-- a requested tree has a request in flight or about to leave -/
  reqd : s.tree = .requested → 0 < s.reqs ∨ 0 < s.thr.countP (at_ .send)
  /-- tree present and something parked: a flush is pending or the parking thread will re-check -/
  pres : s.tree = .present → s.parked ≠ [] → 0 < s.flushes ∨ 0 < s.thr.countP (at_ .recheck)
  /-- tree unknown and something parked: its thread is still on the way to request the tree -/
  abst : s.tree = .absent → s.parked ≠ [] →
          0 < s.thr.countP (at_ .recheck) ∨ 0 < s.thr.countP (at_ .chk) ∨ 0 < s.thr.countP (at_ .reg)

theorem inv_init : Inv {} := by
  constructor <;> simp

theorem countP_map_lookup (m : Nat) (l : List Nat) :
    (l.map (fun x => (⟨x, .lookup⟩ : Th))).countP (pre m) = l.count m := by
  induction l with
  | nil => simp
  | cons x xs ih =>
    simp only [List.map_cons, List.countP_cons, ih, List.count_cons, pre]
    by_cases h : x = m <;> simp [h]

theorem countP_map_at (p : Pc) (hp : p ≠ .lookup) (l : List Nat) :
    (l.map (fun x => (⟨x, .lookup⟩ : Th))).countP (at_ p) = 0 := by
  induction l with
  | nil => simp
  | cons x xs ih =>
    simp only [List.map_cons, List.countP_cons, ih, at_]
    cases p <;> simp_all

theorem countP_set' {p : Th → Bool} {l : List Th} {i : Nat} {t t' : Th} (h : l[i]? = some t) :
    (l.set i t').countP p + (if p t then 1 else 0) = l.countP p + (if p t' then 1 else 0) := by
  have hi : i < l.length := by
    rcases Nat.lt_or_ge i l.length with h' | h'
    · exact h'
    · simp [List.getElem?_eq_none h'] at h
  have ht : l[i] = t := by simpa [List.getElem?_eq_getElem hi] using h
  have := List.boole_getElem_le_countP (p := p) hi
  rw [List.countP_set hi, ht] at *
  omega

/-- per-pc count bookkeeping after moving thread `i` from pc `a` to pc `b` -/
theorem move_counts {l : List Th} {i : Nat} {m0 : Nat} {a : Pc} (h : l[i]? = some ⟨m0, a⟩) (b : Pc) :
    let l' := l.set i ⟨m0, b⟩
    (∀ p, l'.countP (at_ p) + (if a = p then 1 else 0) = l.countP (at_ p) + (if b = p then 1 else 0)) ∧
    (∀ m, l'.countP (pre m) + (if pre m ⟨m0, a⟩ then 1 else 0)
            = l.countP (pre m) + (if pre m ⟨m0, b⟩ then 1 else 0)) := by
  refine ⟨fun p => ?_, fun m => countP_set' h⟩
  have := countP_set' (p := at_ p) (t' := ⟨m0, b⟩) h
  simpa [at_] using this

theorem inv_thread (s : St) (i : Nat) (t : Th) (hI : Inv s) (ht : s.thr[i]? = some t)
    (hnd : t.pc ≠ .done) : Inv (stepTh s i t) := by
  obtain ⟨hc, hr, hp, ha⟩ := hI
  obtain ⟨m0, pc0⟩ := t
  simp only at hnd
  cases pc0 with
  | done => exact absurd rfl hnd
  | lookup =>
    by_cases hpr : s.tree = .present
    · obtain ⟨f2, f1⟩ := move_counts ht .done
      have g1 := f2 .send; have g2 := f2 .recheck; have g3 := f2 .chk; have g4 := f2 .reg
      simp at g1 g2 g3 g4
      simp only [stepTh, hpr, if_true]
      cases hb : bad m0
      · simp only [Bool.false_eq_true, if_false]
        refine ⟨fun m => ?_, ?_, ?_, ?_⟩
        · have := hc m; have := f1 m
          by_cases hm : m0 = m <;> simp_all [pre, List.count_append] <;> omega
        all_goals (simp only [g1, g2, g3, g4]; grind)
      · simp only [if_true]
        refine ⟨fun m => ?_, ?_, ?_, ?_⟩
        · have := hc m; have := f1 m
          by_cases hm : m0 = m <;> simp_all [pre, List.count_append] <;> omega
        all_goals (simp only [g1, g2, g3, g4]; grind)
    · obtain ⟨f2, f1⟩ := move_counts ht .park
      have g1 := f2 .send; have g2 := f2 .recheck; have g3 := f2 .chk; have g4 := f2 .reg
      simp at g1 g2 g3 g4
      simp only [stepTh, hpr, if_false]
      refine ⟨fun m => ?_, ?_, ?_, ?_⟩
      · have := hc m; have := f1 m
        by_cases hm : m0 = m <;> simp_all [pre] <;> omega
      all_goals (simp only [g1, g2, g3, g4]; grind)
  | park =>
    obtain ⟨f2, f1⟩ := move_counts ht .recheck
    have g1 := f2 .send; have g2 := f2 .recheck; have g3 := f2 .chk; have g4 := f2 .reg
    simp at g1 g2 g3 g4
    simp only [stepTh]
    refine ⟨fun m => ?_, ?_, ?_, ?_⟩
    · have := hc m; have := f1 m
      by_cases hm : m0 = m <;> simp_all [pre, List.count_append] <;> omega
    all_goals (simp only [g1, g3, g4]; grind)
  | recheck =>
    by_cases hpr : s.tree = .present
    · obtain ⟨f2, f1⟩ := move_counts ht .done
      have g1 := f2 .send; have g2 := f2 .recheck; have g3 := f2 .chk; have g4 := f2 .reg
      simp at g1 g2 g3 g4
      simp only [stepTh, hpr, if_true]
      refine ⟨fun m => ?_, ?_, ?_, ?_⟩
      · have := hc m; have := f1 m; simp_all [pre]
      all_goals (simp only [g1, g3, g4]; grind)
    · obtain ⟨f2, f1⟩ := move_counts ht .chk
      have g1 := f2 .send; have g2 := f2 .recheck; have g3 := f2 .chk; have g4 := f2 .reg
      simp at g1 g2 g3 g4
      simp only [stepTh, hpr, if_false]
      refine ⟨fun m => ?_, ?_, ?_, ?_⟩
      · have := hc m; have := f1 m; simp_all [pre]
      all_goals (simp only [g1, g4]; grind)
  | chk =>
    by_cases hab : s.tree = .absent
    · obtain ⟨f2, f1⟩ := move_counts ht .reg
      have g1 := f2 .send; have g2 := f2 .recheck; have g3 := f2 .chk; have g4 := f2 .reg
      simp at g1 g2 g3 g4
      simp only [stepTh, hab, if_true]
      refine ⟨fun m => ?_, ?_, ?_, ?_⟩
      · have := hc m; have := f1 m; simp_all [pre]
      all_goals (simp only [g1, g2]; grind)
    · obtain ⟨f2, f1⟩ := move_counts ht .done
      have g1 := f2 .send; have g2 := f2 .recheck; have g3 := f2 .chk; have g4 := f2 .reg
      simp at g1 g2 g3 g4
      simp only [stepTh, hab, if_false]
      refine ⟨fun m => ?_, ?_, ?_, ?_⟩
      · have := hc m; have := f1 m; simp_all [pre]
      all_goals (simp only [g1, g2, g4]; grind)
  | reg =>
    obtain ⟨f2, f1⟩ := move_counts ht .send
    have g1 := f2 .send; have g2 := f2 .recheck; have g3 := f2 .chk; have g4 := f2 .reg
    simp at g1 g2 g3 g4
    simp only [stepTh]
    refine ⟨fun m => ?_, ?_, ?_, ?_⟩
    · have := hc m; have := f1 m; simp_all [pre]
    all_goals (simp only [g2, g3]; cases hts : s.tree <;> grind)
  | send =>
    obtain ⟨f2, f1⟩ := move_counts ht .done
    have g1 := f2 .send; have g2 := f2 .recheck; have g3 := f2 .chk; have g4 := f2 .reg
    simp at g1 g2 g3 g4
    simp only [stepTh]
    refine ⟨fun m => ?_, ?_, ?_, ?_⟩
    · have := hc m; have := f1 m; simp_all [pre]
    all_goals (simp only [g2, g3, g4]; cases hts : s.tree <;> grind)

theorem inv_step (s s' : St) (a : Act) (hI : Inv s) (hs : step s a = some s') : Inv s' := by
  cases a with
  | thread i =>
    simp only [step] at hs
    split at hs
    · rename_i t ht
      split at hs
      · simp at hs
      · simp at hs; subst hs; exact inv_thread s i t hI ht ‹_›
    · simp at hs
  | arrive m =>
    simp [step] at hs; subst hs
    obtain ⟨hc, hr, hp, ha⟩ := hI
    refine ⟨fun m' => ?_, ?_, ?_, ?_⟩
    · have := hc m'
      by_cases hm : m = m' <;> simp_all [pre, List.count_append] <;> omega
    all_goals (simp [at_] at *; grind)
  | respond =>
    obtain ⟨hc, hr, hp, ha⟩ := hI
    simp only [step] at hs
    split at hs
    · simp at hs
    · split at hs
      · simp at hs; subst hs
        refine ⟨hc, ?_, ?_, ?_⟩ <;> grind
      · simp at hs; subst hs
        refine ⟨hc, ?_, ?_, ?_⟩ <;> grind
  | localSet =>
    obtain ⟨hc, hr, hp, ha⟩ := hI
    simp [step] at hs; subst hs
    refine ⟨hc, ?_, ?_, ?_⟩ <;> grind
  | localStart =>
    obtain ⟨hc, hr, hp, ha⟩ := hI
    simp [step] at hs; subst hs
    refine ⟨hc, ?_, ?_, ?_⟩ <;> grind
  | expire =>
    obtain ⟨hc, hr, hp, ha⟩ := hI
    simp only [step] at hs
    split at hs
    · rename_i hcond
      simp at hs; subst hs
      obtain ⟨hpres, _, hpk, hfl, hth⟩ := hcond
      refine ⟨hc, ?_, ?_, ?_⟩
      · intro h; simp at h
      · intro h; simp at h
      · intro _ hne; exact absurd hpk hne
    · simp at hs
  | flush =>
    obtain ⟨hc, hr, hp, ha⟩ := hI
    simp only [step] at hs
    split at hs
    · simp at hs
    · simp at hs; subst hs
      have e1 := countP_map_at .send (by decide) s.parked
      have e2 := countP_map_at .recheck (by decide) s.parked
      refine ⟨fun m => ?_, ?_, ?_, ?_⟩
      · have := hc m; have := countP_map_lookup m s.parked
        simp only [List.countP_append, List.count_nil]; omega
      all_goals (simp only [List.countP_append, e1, e2]; grind)

theorem inv_run (as : List Act) (s : St) (h : Inv s) : Inv (run s as) := by
  induction as generalizing s with
  | nil => exact h
  | cons a as ih =>
    simp only [run]
    split
    · exact ih _ (inv_step _ _ _ h ‹_›)
    · exact ih _ h

/-- **conservation** (never duplicated, never dropped): under every schedule, at every moment,
each arrived message is in exactly one place — handed to its instance, parked, or still carried by
its arrival thread. -/
theorem c01_conservation (as : List Act) (m : Nat) :
    let s := run {} as
    s.arrived.count m = s.delivered.count m + s.refused.count m + s.parked.count m + s.thr.countP (pre m) :=
  (inv_run as {} inv_init).cons m

/-- nothing can move any more: no flush pending, no request unanswered, every thread finished -/
def Quiescent (s : St) : Prop :=
  s.flushes = 0 ∧ s.reqs = 0 ∧ ∀ t ∈ s.thr, t.pc = .done

instance (s : St) : Decidable (Quiescent s) := by unfold Quiescent; infer_instance

/-- **exactly once**: for every schedule, once nothing can move, nothing is parked and every
arrived message has been handed over exactly as often as it arrived — whether or not the server
knew the tree before, however arrivals, the request, the response, local registrations and
flushes interleave. -/
theorem c01_quiescent_exactly_once (as : List Act) (hq : Quiescent (run {} as)) :
    (run {} as).parked = [] ∧
    ∀ m, (run {} as).delivered.count m + (run {} as).refused.count m = (run {} as).arrived.count m := by
  have hI := inv_run as {} inv_init
  generalize run {} as = s at *
  obtain ⟨hf, hr, ht⟩ := hq
  have hz : ∀ p, p ≠ Pc.done → s.thr.countP (at_ p) = 0 := by
    intro p hp
    rw [List.countP_eq_zero]
    intro t htm
    have := ht t htm
    simp [at_, this]; exact fun h => hp h.symm
  have hpre : ∀ m, s.thr.countP (pre m) = 0 := by
    intro m
    rw [List.countP_eq_zero]
    intro t htm
    have := ht t htm
    simp [pre, this]
  have hp : s.parked = [] := by
    apply Classical.byContradiction; intro hne
    have h1 := hz .chk (by decide); have h2 := hz .reg (by decide)
    have h3 := hz .send (by decide); have h4 := hz .recheck (by decide)
    cases hts : s.tree with
    | absent => have := hI.abst hts hne; omega
    | requested => have := hI.reqd hts; omega
    | present => have := hI.pres hts hne; omega
  refine ⟨hp, fun m => ?_⟩
  have := hI.cons m
  rw [hp, hpre m] at this
  simp at this; omega

/-- only messages whose token names no node of the tree are refused -/
theorem refused_only_bad_step (s s' : St) (a : Act) (hs : step s a = some s')
    (h : ∀ m ∈ s.refused, bad m = true) : ∀ m ∈ s'.refused, bad m = true := by
  cases a with
  | arrive m => simp [step] at hs; subst hs; exact h
  | respond =>
    simp only [step] at hs
    split at hs
    · simp at hs
    · split at hs <;> (simp at hs; subst hs; exact h)
  | localSet => simp [step] at hs; subst hs; exact h
  | localStart => simp [step] at hs; subst hs; exact h
  | flush =>
    simp only [step] at hs
    split at hs
    · simp at hs
    · simp at hs; subst hs; exact h
  | expire =>
    simp only [step] at hs
    split at hs
    · simp at hs; subst hs; exact h
    · simp at hs
  | thread i =>
    simp only [step] at hs
    split at hs
    · rename_i t _
      split at hs
      · simp at hs
      · simp at hs; subst hs
        obtain ⟨m0, pc0⟩ := t
        cases pc0 <;> simp only [stepTh]
        · split
          · cases hb : bad m0
            · simpa using h
            · simp only [if_true]
              intro m hm
              simp at hm
              rcases hm with hm | hm
              · exact h m hm
              · subst hm; exact hb
          · exact h
        · exact h
        · split <;> exact h
        · split <;> exact h
        · exact h
        · exact h
        · exact h
    · simp at hs

theorem c01_refused_only_bad (as : List Act) : ∀ m ∈ (run {} as).refused, bad m = true := by
  have : ∀ (as : List Act) (s : St), (∀ m ∈ s.refused, bad m = true) → ∀ m ∈ (run s as).refused, bad m = true := by
    intro as
    induction as with
    | nil => intro s h; exact h
    | cons a as ih =>
      intro s h
      simp only [run]
      split
      · exact ih _ (refused_only_bad_step _ _ _ ‹_› h)
      · exact ih _ h
  exact this as {} (by simp)

/-- **exactly once, for every message with a proper token**: at quiescence a message whose token
names a node of the tree was handed over exactly as often as it arrived — also when messages of
other runs that were parked with it are refused with an error. -/
theorem c01_quiescent_good_exactly_once (as : List Act) (hq : Quiescent (run {} as)) (m : Nat)
    (hm : bad m = false) : (run {} as).delivered.count m = (run {} as).arrived.count m := by
  have h := (c01_quiescent_exactly_once as hq).2 m
  have hz : (run {} as).refused.count m = 0 := by
    rw [List.count_eq_zero]
    intro hmem
    have := c01_refused_only_bad as m hmem
    simp [hm] at this
  omega

/-- **no stranding**: whenever something is parked, some action is still enabled that leads to a
flush (a pending flush, an unanswered request, or a thread that has not finished). -/
theorem c01_no_strand (as : List Act) (h : (run {} as).parked ≠ []) : ¬ Quiescent (run {} as) :=
  fun hq => h (c01_quiescent_exactly_once as hq).1

/-! ### a run started on this server (`CreateProtocol` / `StartProtocol`) while messages of the tree are parked -/

/-- one step keeps "whoever lists an instance of the tree holds the tree" -/
theorem insts_tree_step (s s' : St) (a : Act) (h : s.insts ≠ [] → s.tree = .present) (hs : step s a = some s') :
    s'.insts ≠ [] → s'.tree = .present := by
  cases a with
  | arrive m => simp [step] at hs; subst hs; exact h
  | respond =>
    simp only [step] at hs
    split at hs
    · simp at hs
    · split at hs
      · simp at hs; subst hs; intro _; rfl
      · simp at hs; subst hs; exact h
  | localSet => simp [step] at hs; subst hs; intro _; rfl
  | localStart => simp [step] at hs; subst hs; intro _; rfl
  | flush =>
    simp only [step] at hs
    split at hs
    · simp at hs
    · simp at hs; subst hs; exact h
  | expire =>
    simp only [step] at hs
    split at hs
    · simp at hs; subst hs; intro hne; exact absurd rfl hne
    · simp at hs
  | thread i =>
    simp only [step] at hs
    split at hs
    · rename_i t _
      split at hs
      · simp at hs
      · simp at hs; subst hs
        obtain ⟨m0, pc0⟩ := t
        cases pc0 <;> simp only [stepTh]
        · split
          · rename_i hpr
            cases hb : bad m0
            · simp only [Bool.false_eq_true, if_false]; intro _; exact hpr
            · simpa using h
          · exact h
        · exact h
        · split <;> exact h
        · split <;> exact h
        · intro hne
          have := h hne
          simp [this]
        · exact h
        · exact h
    · simp at hs

theorem insts_tree_run (as : List Act) (s : St) (h : s.insts ≠ [] → s.tree = .present) :
    (run s as).insts ≠ [] → (run s as).tree = .present := by
  induction as generalizing s with
  | nil => exact h
  | cons a as ih =>
    simp only [run]
    split
    · exact ih _ (insts_tree_step _ _ _ h ‹_›)
    · exact ih _ h

/-- **a server that lists an instance of a run on the tree holds the tree** — under every schedule, whether the
instance was created by the first message of a peer's run or started on this server while the tree was unknown,
requested from a peer, or known. -/
theorem c01_listed_instance_has_tree (as : List Act) (h : (run {} as).insts ≠ []) : (run {} as).tree = .present :=
  insts_tree_run as {} (by simp) h

/-- **starting a run registers the tree**, whatever the store held for it: the instance is listed, the tree is
stored — also when it was only *requested* — and a flush of the parked messages is spawned; nothing is parked,
handed over or dropped by the start itself. -/
theorem c01_local_start_registers (s : St) :
    ∃ s', step s .localStart = some s' ∧ localTok ∈ s'.insts ∧ s'.tree = .present ∧ s'.flushes = s.flushes + 1 ∧
      s'.parked = s.parked ∧ s'.delivered = s.delivered ∧ s'.arrived = s.arrived ∧ s'.thr = s.thr := by
  refine ⟨_, rfl, ?_, rfl, rfl, rfl, rfl, rfl, rfl⟩
  show localTok ∈ (if s.insts.contains localTok then s.insts else s.insts ++ [localTok])
  by_cases hc : s.insts.contains localTok = true
  · rw [if_pos hc]; simpa using hc
  · rw [if_neg hc]; simp

/-- **a server that runs an instance on the tree answers the tree requests of its peers**: the children of a
run started here hear of the tree from this server only (`handleRequestTree` answers iff the tree is stored);
holds from the start of the run until the tree is released, under every schedule. -/
theorem c01_started_run_answers_tree_requests (as : List Act) (h : localTok ∈ (run {} as).insts) :
    answersTreeRequest (run {} as) = true := by
  have := c01_listed_instance_has_tree as (List.ne_nil_of_mem h)
  simp [answersTreeRequest, this]

/-- **messages parked on a server that runs an instance on their tree do not wait for a peer's answer**: once the
flushes have run and the arrival threads have finished nothing is parked — however many tree requests are still
unanswered (`reqs` is not constrained). -/
theorem c01_started_run_needs_no_answer (as : List Act) (hi : (run {} as).insts ≠ [])
    (hf : (run {} as).flushes = 0) (ht : ∀ t ∈ (run {} as).thr, t.pc = .done) : (run {} as).parked = [] := by
  have hI := inv_run as {} inv_init
  have hpres := c01_listed_instance_has_tree as hi
  generalize run {} as = s at *
  apply Classical.byContradiction; intro hne
  have h4 : s.thr.countP (at_ .recheck) = 0 := by
    rw [List.countP_eq_zero]
    intro t htm
    simp [at_, ht t htm]
  have := hI.pres hpres hne
  omega

/-- non-vacuity: message 1 arrives for an unknown tree, is parked, its thread marks the tree requested and is about
to send the request; a run is started here; the flush hands the message over; the request leaves and stays
unanswered — nothing is parked, the peer's answer is not needed -/
def startWhileRequested : List Act :=
  [.arrive 1, .thread 0, .thread 0, .thread 0, .thread 0, .thread 0, .localStart, .flush, .thread 1, .thread 0]

example : (run {} (startWhileRequested.take 6)).tree = .requested ∧ (run {} (startWhileRequested.take 6)).parked = [1] ∧
    (run {} startWhileRequested).insts = [localTok, 1] ∧ (run {} startWhileRequested).delivered = [1] ∧
    (run {} startWhileRequested).parked = [] ∧ (run {} startWhileRequested).reqs = 1 ∧
    (run {} startWhileRequested).flushes = 0 ∧ (run {} startWhileRequested).thr.all (fun t => t.pc == .done) ∧
    answersTreeRequest (run {} startWhileRequested) = true := by decide

/-- the variant "register the tree of a new local instance only if the store does not know it" (`IsRegistered` is
true for a tree that is only requested): the start leaves the requested entry alone and spawns no flush -/
def stepOnce (s : St) : Act → Option St
  | .localStart =>
      if s.tree = .absent then step s .localStart
      else some { s with insts := (if s.insts.contains localTok then s.insts else s.insts ++ [localTok]) }
  | a => step s a

def runOnce (s : St) : List Act → St
  | [] => s
  | a :: as => match stepOnce s a with
      | some s' => runOnce s' as
      | none => runOnce s as

/-- negation witness for that variant: on the same schedule the server runs an instance on the tree, yet the tree
is not stored (a child's tree request gets no answer) and message 1 stays parked until the peer answers -/
theorem c01_register_once_variant_strands :
    let s := runOnce {} startWhileRequested
    s.insts = [localTok] ∧ s.tree = .requested ∧ answersTreeRequest s = false ∧ s.parked = [1] ∧ s.delivered = [] ∧
      s.flushes = 0 ∧ s.thr.all (fun t => t.pc == .done) := by
  decide

/-! ### the unrepaired code (pinned commit) strands a message

`stepThOld` is the thread step without the re-check.  Schedule: the message's thread looks the
tree up (unknown) — a local registration stores the tree and its flush runs (nothing parked yet) —
the thread parks the message and then finds the tree registered: it is done, nothing can move any
more, and the message stays parked for ever.  Reproduced on the real code before the repair
(`notes/probes/onet_overlay_c01_c02_c11_probe_test.go.txt`) and kept as a corpus schedule. -/
def stepOld (s : St) : Act → Option St
  | .thread i =>
      match s.thr[i]? with
      | some t => if t.pc = .done then none else some (stepThOld s i t)
      | none => none
  | a => step s a

def runOld (s : St) : List Act → St
  | [] => s
  | a :: as => match stepOld s a with
      | some s' => runOld s' as
      | none => runOld s as

/-- the variant with a bounded parking list (`savePendingMsg` keeps at most `cap` messages and drops the oldest:
the seeded change C01r7-B with cap = 100) -/
def stepBounded (cap : Nat) (s : St) : Act → Option St
  | .thread i =>
      match s.thr[i]? with
      | some t =>
        if t.pc = .done then none
        else if t.pc = .park then
          some { s with parked := (if cap ≤ s.parked.length then s.parked.drop 1 else s.parked) ++ [t.m],
                        thr := s.thr.set i { t with pc := .recheck } }
        else some (stepTh s i t)
      | none => none
  | a => step s a

def runBounded (cap : Nat) (s : St) : List Act → St
  | [] => s
  | a :: as => match stepBounded cap s a with
      | some s' => runBounded cap s' as
      | none => runBounded cap s as

/-- three first-contact messages parked before the tree arrives, then the answer and the flush -/
def parkThree : List Act :=
  [.arrive 1, .arrive 2, .arrive 3, .thread 0, .thread 0, .thread 1, .thread 1, .thread 2, .thread 2,
   .thread 0, .thread 0, .thread 0, .thread 0, .thread 1, .thread 1, .thread 2, .thread 2,
   .respond, .flush, .thread 3, .thread 4, .thread 5]

/-- negation witness: with a bound of two parked messages the first one is lost for good — arrived, not handed
over, not parked, no thread, no flush and no request left (with the bound 100 of the seeded change the same
happens with 101 messages: harness class park-many) -/
theorem c01_bounded_parking_variant_loses :
    let s := runBounded 2 {} parkThree
    s.arrived = [1, 2, 3] ∧ s.delivered = [2, 3] ∧ s.parked = [] ∧ s.flushes = 0 ∧ s.reqs = 0 ∧
      s.thr.all (fun t => t.pc == .done) := by
  decide

/-- the same schedule on the model of the code hands over all three -/
example : (run {} parkThree).delivered = [1, 2, 3] ∧ Quiescent (run {} parkThree) := by
  refine ⟨by decide, ?_⟩
  unfold Quiescent
  decide

def strandSchedule : List Act := [.arrive 7, .thread 0, .localSet, .flush, .thread 0, .thread 0]

theorem c01_old_code_strands :
    let s := runOld {} strandSchedule
    s.parked = [7] ∧ s.delivered = [] ∧ s.flushes = 0 ∧ s.reqs = 0 ∧ s.thr.all (fun t => t.pc == .done) := by
  decide

/-- the same schedule on the repaired model delivers the message -/
example : (run {} (strandSchedule ++ [.thread 0, .flush, .thread 1])).delivered = [7] ∧
    (run {} (strandSchedule ++ [.thread 0, .flush, .thread 1])).parked = [] := by decide

/-! ### non-vacuity: a quiescent run with a request/response round -/
example : Quiescent (run {} [.arrive 1, .arrive 2, .thread 0, .thread 1, .thread 0, .thread 0, .thread 0, .thread 0,
      .thread 0, .thread 1, .thread 1, .thread 1, .respond, .flush, .thread 2, .thread 3]) ∧
    (run {} [.arrive 1, .arrive 2, .thread 0, .thread 1, .thread 0, .thread 0, .thread 0, .thread 0,
      .thread 0, .thread 1, .thread 1, .thread 1, .respond, .flush, .thread 2, .thread 3]).delivered = [1, 2] := by
  decide

/-! ### sending side: which instances a send operation addresses -/
namespace Send

/-- **same run**: every envelope a send operation produces carries the sender's run (roster,
tree, protocol, service, round) and is sent to the server hosting the node its token names. -/
theorem c01_send_same_run_right_server (t : Tree) (host : Nat → Nat) (run me : Nat) (p : Pattern) :
    ∀ e ∈ envelopes t host run me p, e.2.run = run ∧ e.1 = host e.2.node := by
  intro e he
  simp only [envelopes, List.mem_map] at he
  obtain ⟨j, _, rfl⟩ := he
  exact ⟨rfl, rfl⟩

/-- **to children**: exactly the nodes whose parent is the sender, each once. -/
theorem c01_send_children_exact (t : Tree) (me j : Nat) :
    (j ∈ dests t me .children ↔ j < t.n ∧ t.parentOf j = some me) ∧ (dests t me .children).Nodup := by
  constructor
  · simp [dests, Tree.children]
  · exact (List.nodup_range).filter _

/-- **to parent**: the parent and nobody else; the root sends nothing. -/
theorem c01_send_parent_exact (t : Tree) (me : Nat) :
    dests t me .parent = (match t.parentOf me with | none => [] | some p => [p]) := rfl

/-- **broadcast**: every node of the tree except the sender, each exactly once. -/
theorem c01_send_bcast_exact (t : Tree) (me j : Nat) :
    (j ∈ dests t me .bcast ↔ j < t.n ∧ j ≠ me) ∧ (dests t me .bcast).Nodup := by
  constructor
  · simp [dests]
  · exact (List.nodup_range).filter _

theorem filter_ne_length (l : List Nat) (me : Nat) (hn : l.Nodup) (hm : me ∈ l) :
    (l.filter (fun j => j != me)).length + 1 = l.length := by
  induction l with
  | nil => simp at hm
  | cons x xs ih =>
    simp only [List.nodup_cons] at hn
    by_cases hx : x = me
    · subst hx
      have : xs.filter (fun j => j != x) = xs := by
        apply List.filter_eq_self.mpr
        intro a ha; simp; intro e; subst e; exact hn.1 ha
      simp [this]
    · have hm' : me ∈ xs := by
        simp at hm
        rcases hm with e | h
        · exact absurd e.symm hx
        · exact h
      have := ih hn.2 hm'
      simp [hx]; omega

theorem c01_send_bcast_count (t : Tree) (me : Nat) (h : me < t.n) :
    (dests t me .bcast).length + 1 = t.n := by
  have := filter_ne_length (List.range t.n) me List.nodup_range (List.mem_range.mpr h)
  simpa [dests] using this

/-- a plain `SendTo` and a `Multicast` address exactly the nodes they were given -/
theorem c01_send_to_exact (t : Tree) (me j : Nat) (js : List Nat) :
    dests t me (.to j) = [j] ∧ dests t me (.multi js) = js := ⟨rfl, rfl⟩

/-- non-vacuity: root 0 with children 1, 2; node 1 with children 3, 4 -/
example : dests ⟨[none, some 0, some 0, some 1, some 1]⟩ 1 .children = [3, 4] ∧
    dests ⟨[none, some 0, some 0, some 1, some 1]⟩ 1 .parent = [0] ∧
    dests ⟨[none, some 0, some 0, some 1, some 1]⟩ 1 .bcast = [0, 2, 3, 4] ∧
    dests ⟨[none, some 0, some 0, some 1, some 1]⟩ 0 .parent = [] := by decide

/-! #### failing calls: who gets the message and what the operation returns (`Send.outcome`, `Send.sendx`) -/

theorem zipIdx_map_fst {α : Type} (l : List α) (k : Nat) : (l.zipIdx k).map (·.1) = l := by
  induction l generalizing k with
  | nil => rfl
  | cons a l ih => simp [List.zipIdx_cons, ih]

theorem filter_length_add {α : Type} (p : α → Bool) (l : List α) :
    (l.filter fun a => !p a).length + (l.filter p).length = l.length := by
  induction l with
  | nil => rfl
  | cons a l ih => cases h : p a <;> simp [List.filter_cons, h] <;> omega

theorem takeWhile_all {α : Type} (p : α → Bool) (l : List α) (h : ∀ a ∈ l, p a = true) : l.takeWhile p = l := by
  induction l with
  | nil => rfl
  | cons a l ih =>
    have ha := h a (by simp)
    simp only [List.takeWhile_cons, ha, if_true]
    rw [ih (fun b hb => h b (by simp [hb]))]

/-- **every addressed node gets exactly one envelope or exactly one error** (`Broadcast`, `Multicast`,
`SendToChildrenInParallel`): the calls that succeed and the calls that fail partition the destination list — the nodes
that get the message are the destinations at the non-failing positions, in order; the number of errors returned is the
number of failing positions; together they are as many as the operation addresses. -/
theorem c01_sendx_all_partition (f : Fault) (ds : List Nat) :
    (outcome .all f ds).1 = ((ds.zipIdx.filter fun p => !f.fails p.2).map (·.1)) ∧
    (outcome .all f ds).2 = (ds.zipIdx.filter fun p => f.fails p.2).length ∧
    (outcome .all f ds).1.length + (outcome .all f ds).2 = ds.length ∧
    (outcome .all f ds).1.Sublist ds := by
  refine ⟨rfl, rfl, ?_, ?_⟩
  · simp only [outcome, okCalls, badCalls, List.length_map]
    have h := filter_length_add (fun p : Nat × Nat => f.fails p.2) ds.zipIdx
    simp only [List.length_zipIdx] at h
    exact h
  · simp only [outcome, okCalls]
    have h1 : ((ds.zipIdx.filter fun p => !f.fails p.2).map (·.1)).Sublist (ds.zipIdx.map (·.1)) :=
      (List.filter_sublist).map _
    rwa [zipIdx_map_fst] at h1

/-- **the sequential operations stop at the first error** (`SendToChildren`; `SendTo`, `SendToParent` with their one
destination): the nodes that get the message are a prefix of the destination list — everything before the first
failing call, nothing after it —, at most one error is returned, and none exactly when every destination got it. -/
theorem c01_sendx_seq_prefix (f : Fault) (ds : List Nat) :
    (outcome .seq f ds).1 <+: ds ∧ (outcome .seq f ds).2 ≤ 1 ∧
    ((outcome .seq f ds).2 = 0 ↔ (outcome .seq f ds).1 = ds) := by
  have hp : ((ds.zipIdx.takeWhile fun p => !f.fails p.2).map (·.1)) <+: ds := by
    have h1 : (ds.zipIdx.takeWhile fun p => !f.fails p.2) <+: ds.zipIdx := List.takeWhile_prefix _
    have h2 := h1.map (·.1)
    rwa [zipIdx_map_fst] at h2
  refine ⟨hp, ?_, ?_⟩
  · simp only [outcome]; split <;> omega
  · simp only [outcome]
    constructor
    · intro h
      split at h
      · rename_i hl; exact hp.eq_of_length hl
      · omega
    · intro h
      rw [h]; simp

/-- **a closing instance sends nothing**: every call fails — no node gets the message; the collecting operations
return one error per destination, the sequential ones one error (none when there is nothing to address: a leaf's
`SendToChildren`, the root's `SendToParent`). -/
theorem c01_sendx_closing (bad : List Nat) (ds : List Nat) :
    (outcome .all ⟨true, bad⟩ ds) = ([], ds.length) ∧
    (outcome .seq ⟨true, bad⟩ ds) = ([], if ds = [] then 0 else 1) := by
  constructor
  · have h := filter_length_add (fun _ : Nat × Nat => true) ds.zipIdx
    simp only [List.length_zipIdx] at h
    have h0 : (ds.zipIdx.filter fun _ : Nat × Nat => false) = [] := by
      apply List.filter_eq_nil_iff.mpr; intro a _; simp
    have h0' : (List.filter (fun a : Nat × Nat => !(fun _ : Nat × Nat => true) a) ds.zipIdx) = [] := by
      apply List.filter_eq_nil_iff.mpr; intro a _; simp
    rw [h0'] at h
    simp [outcome, okCalls, badCalls, Fault.fails]
    simpa using h
  · cases ds with
    | nil => simp [outcome]
    | cons a l => simp [outcome, Fault.fails, List.zipIdx_cons, List.takeWhile_cons]

/-- **without a fault the operation reaches exactly its destinations and returns no error** — the nodes of
`c01_send_children_exact`, `c01_send_parent_exact`, `c01_send_bcast_exact`, `c01_send_to_exact` -/
theorem c01_sendx_no_fault (t : Tree) (me : Nat) (p : Pattern) (par : Bool) :
    sendx t me p par {} = (dests t me p, 0) := by
  have hz : ∀ (l : List (Nat × Nat)), (l.filter fun p => !(({} : Fault).fails p.2)) = l := by
    intro l; apply List.filter_eq_self.mpr; intro a _; simp [Fault.fails]
  have hb : ∀ (l : List (Nat × Nat)), (l.filter fun p => (({} : Fault).fails p.2)) = [] := by
    intro l; apply List.filter_eq_nil_iff.mpr; intro a _; simp [Fault.fails]
  have ht : ∀ (l : List (Nat × Nat)), (l.takeWhile fun p => !(({} : Fault).fails p.2)) = l := by
    intro l; apply takeWhile_all; intro a _; simp [Fault.fails]
  unfold sendx
  cases Pattern.mode p par with
  | all => simp [outcome, okCalls, badCalls, hz, hb, zipIdx_map_fst]
  | seq => simp [outcome, ht, zipIdx_map_fst]

/-- non-vacuity: node 1 of a five-node tree multicasts to 3, nil, 4, nil, 0: three nodes get it, two errors; its
`SendToChildren` with the second call failing reaches the first child only; the variant that goes on after an error
would reach [3, 5] (negation witness for "stops at the first error": the `all` outcome differs) -/
example : sendx ⟨[none, some 0, some 0, some 1, some 1]⟩ 1 (.multi [3, 9, 4, 9, 0]) false { bad := [1, 3] } = ([3, 4, 0], 2) ∧
    sendx ⟨[none, some 0, some 0, some 1, some 1, some 1]⟩ 1 .children false { bad := [1] } = ([3], 1) ∧
    sendx ⟨[none, some 0, some 0, some 1, some 1, some 1]⟩ 1 .children true { bad := [1] } = ([3, 5], 1) ∧
    sendx ⟨[none, some 0, some 0, some 1, some 1]⟩ 0 .bcast false { closing := true } = ([], 4) := by decide

end Send

/-! ### the `transmitMux` region: one instance per token, every message to that instance -/
namespace Inst

def carries (tok m : Nat) (t : Th) : Bool := t.tok == tok && t.m == m && t.pc != .fin
def atCtor (t : Th) : Bool := t.pc == .ctor

structure Inv (s : St) : Prop where
  nodup : s.created.Nodup
  instCreated : ∀ tok ∈ s.inst, tok ∈ s.created
  createdInst : ∀ tok ∈ s.created, tok ∈ s.inst ∨ s.mux = some tok ∨ tok ∈ s.doneToks
  muxCreated : ∀ tok, s.mux = some tok → tok ∈ s.created ∧ tok ∉ s.inst ∧ tok ∉ s.doneToks
  ctorMux : ∀ t ∈ s.thr, t.pc = .ctor → s.mux = some t.tok
  ctorCount : s.thr.countP atCtor = (if s.mux.isSome then 1 else 0)
  handedInst : ∀ p ∈ s.handed, p.1 ∈ s.inst ∨ p.1 ∈ s.doneToks
  doneCreated : ∀ tok ∈ s.doneToks, tok ∈ s.created ∧ tok ∉ s.inst
  droppedDone : ∀ p ∈ s.dropped, p.1 ∈ s.doneToks
  cons : ∀ tok m, s.arrived.count (tok, m)
      = s.handed.count (tok, m) + s.dropped.count (tok, m) + s.thr.countP (carries tok m)

theorem inv_init : Inv {} := by constructor <;> simp

theorem countP_set' {p : Th → Bool} {l : List Th} {i : Nat} {t t' : Th} (h : l[i]? = some t) :
    (l.set i t').countP p + (if p t then 1 else 0) = l.countP p + (if p t' then 1 else 0) := by
  have hi : i < l.length := by
    rcases Nat.lt_or_ge i l.length with h' | h'
    · exact h'
    · simp [List.getElem?_eq_none h'] at h
  have ht : l[i] = t := by simpa [List.getElem?_eq_getElem hi] using h
  have := List.boole_getElem_le_countP (p := p) hi
  rw [List.countP_set hi, ht] at *
  omega

theorem mem_set_cases {l : List Th} {i : Nat} {t' x : Th} (h : x ∈ l.set i t') : x = t' ∨ x ∈ l := by
  rcases List.mem_or_eq_of_mem_set h with h | h
  · exact .inr h
  · exact .inl h

/-- bookkeeping of `count (tok, m)` in `handed ++ [(tok0, m0)]` -/
theorem count_snoc (l : List (Nat × Nat)) (tok0 m0 tk mm : Nat) :
    (l ++ [(tok0, m0)]).count (tk, mm) = l.count (tk, mm) + (if tok0 = tk ∧ m0 = mm then 1 else 0) := by
  by_cases e : tok0 = tk ∧ m0 = mm
  · obtain ⟨e1, e2⟩ := e; subst e1; subst e2; simp [List.count_append]
  · have : ¬ ((tk, mm) = (tok0, m0)) := by
      intro h; apply e; cases h; exact ⟨rfl, rfl⟩
    simp [List.count_append, List.count_singleton, e, this]

/-- bookkeeping of `carries tk mm` when thread `⟨tok0, m0, a⟩` moves to pc `b` -/
theorem carries_move {l : List Th} {i tok0 m0 : Nat} {a : Pc} (h : l[i]? = some ⟨tok0, m0, a⟩) (b : Pc)
    (tk mm : Nat) :
    (l.set i ⟨tok0, m0, b⟩).countP (carries tk mm) + (if tok0 = tk ∧ m0 = mm ∧ a ≠ .fin then 1 else 0)
      = l.countP (carries tk mm) + (if tok0 = tk ∧ m0 = mm ∧ b ≠ .fin then 1 else 0) := by
  have := countP_set' (p := carries tk mm) (t' := ⟨tok0, m0, b⟩) h
  simpa [carries, and_assoc] using this

theorem inv_step (s s' : St) (a : Act) (hI : Inv s) (hs : step s a = some s') : Inv s' := by
  obtain ⟨hn, hic, hci, hmc, hcm, hcc, hhi, hdc, hdd, hc⟩ := hI
  cases a with
  | arrive tok m =>
    simp [step] at hs; subst hs
    refine ⟨hn, hic, hci, hmc, ?_, ?_, hhi, hdc, hdd, ?_⟩
    · intro t ht hp
      simp at ht
      rcases ht with ht | ht
      · exact hcm t ht hp
      · subst ht; simp at hp
    · simpa [List.countP_append, atCtor] using hcc
    · intro tk mm
      have h1 := hc tk mm
      have h2 := count_snoc s.arrived tok m tk mm
      show (s.arrived ++ [(tok, m)]).count (tk, mm) = s.handed.count (tk, mm) + s.dropped.count (tk, mm)
        + (s.thr ++ [(⟨tok, m, .wait⟩ : Th)]).countP (carries tk mm)
      rw [h2, List.countP_append]
      by_cases e : tok = tk ∧ m = mm
      · obtain ⟨e1, e2⟩ := e; subst e1; subst e2; simp [carries]; omega
      · have : carries tk mm ⟨tok, m, .wait⟩ = false := by
          simp only [carries]
          by_cases e1 : tok = tk
          · have : m ≠ mm := fun h => e ⟨e1, h⟩
            simp [e1, this]
          · simp [e1]
        simp [e, this]; omega
  | done tok =>
    simp only [step] at hs
    split at hs
    · rename_i hin
      simp at hs; subst hs
      refine ⟨hn, ?_, ?_, ?_, hcm, hcc, ?_, ?_, ?_, hc⟩
      all_goals (try dsimp only)
      · intro tk h; simp at h; exact hic tk h.1
      · intro tk h
        rcases hci tk h with h' | h' | h'
        · by_cases e : tk = tok
          · right; right; simp [e]
          · left; simp [h', e]
        · right; left; exact h'
        · right; right; simp [h']
      · intro tk h
        obtain ⟨h1, h2, h3⟩ := hmc tk h
        refine ⟨h1, ?_, ?_⟩
        · intro hc'; simp at hc'; exact h2 hc'.1
        · intro hc'; simp at hc'
          rcases hc' with hc' | hc'
          · exact h3 hc'
          · subst hc'; exact h2 hin
      · intro p hp
        rcases hhi p hp with h' | h'
        · by_cases e : p.1 = tok
          · right; simp [e]
          · left; simp [h', e]
        · right; simp [h']
      · intro tk h
        simp at h
        rcases h with h | h
        · obtain ⟨h1, h2⟩ := hdc tk h
          exact ⟨h1, by intro hc'; simp at hc'; exact h2 hc'.1⟩
        · subst h; exact ⟨hic _ hin, by simp⟩
      · intro p hp; simp; left; exact hdd p hp
    · simp at hs
  | thread i =>
    simp only [step] at hs
    split at hs
    · rename_i t ht
      obtain ⟨tok0, m0, pc0⟩ := t
      cases pc0 with
      | fin => simp [stepTh] at hs
      | wait =>
        simp only [stepTh] at hs
        split at hs
        · simp at hs
        · rename_i hmux
          have hmux' : s.mux = none := by
            cases hm : s.mux <;> simp [hm] at hmux ⊢
          split at hs
          · -- late message for a finished instance: dropped
            rename_i hdone
            simp at hs; subst hs
            have hk := countP_set' (p := atCtor) (t' := ⟨tok0, m0, .fin⟩) ht
            refine ⟨hn, hic, hci, hmc, ?_, ?_, hhi, hdc, ?_, ?_⟩
            · intro t ht' hp
              rcases mem_set_cases ht' with e | h
              · subst e; simp at hp
              · exact hcm t h hp
            · simp [atCtor] at hk; simpa [hk] using hcc
            · intro p hp
              simp at hp
              rcases hp with hp | hp
              · exact hdd p hp
              · subst hp; exact hdone
            · intro tk mm
              have h1 := hc tk mm
              have h2 := carries_move ht .fin tk mm
              have h3 := count_snoc s.dropped tok0 m0 tk mm
              show s.arrived.count (tk, mm) = s.handed.count (tk, mm) + (s.dropped ++ [(tok0, m0)]).count (tk, mm)
                + (s.thr.set i ⟨tok0, m0, .fin⟩).countP (carries tk mm)
              rw [h3]
              have hb : ¬ (tok0 = tk ∧ m0 = mm ∧ Pc.fin ≠ Pc.fin) := fun h => h.2.2 rfl
              rw [if_neg hb] at h2
              by_cases e : tok0 = tk ∧ m0 = mm
              · have ha : tok0 = tk ∧ m0 = mm ∧ Pc.wait ≠ Pc.fin := ⟨e.1, e.2, by decide⟩
                rw [if_pos ha] at h2; rw [if_pos e]; omega
              · have ha : ¬ (tok0 = tk ∧ m0 = mm ∧ Pc.wait ≠ Pc.fin) := fun h => e ⟨h.1, h.2.1⟩
                rw [if_neg ha] at h2; rw [if_neg e]; omega
          · rename_i hnd
            split at hs
            · -- the instance exists: hand the message over
              rename_i hin
              simp at hs; subst hs
              have hk := countP_set' (p := atCtor) (t' := ⟨tok0, m0, .fin⟩) ht
              refine ⟨hn, hic, hci, hmc, ?_, ?_, ?_, hdc, hdd, ?_⟩
              · intro t ht' hp
                rcases mem_set_cases ht' with e | h
                · subst e; simp at hp
                · exact hcm t h hp
              · simp [atCtor] at hk; simpa [hk] using hcc
              · intro p hp
                simp at hp
                rcases hp with hp | hp
                · exact hhi p hp
                · subst hp; left; exact hin
              · intro tk mm
                have h1 := hc tk mm
                have h2 := carries_move ht .fin tk mm
                have h3 := count_snoc s.handed tok0 m0 tk mm
                show s.arrived.count (tk, mm) = (s.handed ++ [(tok0, m0)]).count (tk, mm) + s.dropped.count (tk, mm)
                  + (s.thr.set i ⟨tok0, m0, .fin⟩).countP (carries tk mm)
                rw [h3]
                have hb : ¬ (tok0 = tk ∧ m0 = mm ∧ Pc.fin ≠ Pc.fin) := fun h => h.2.2 rfl
                rw [if_neg hb] at h2
                by_cases e : tok0 = tk ∧ m0 = mm
                · have ha : tok0 = tk ∧ m0 = mm ∧ Pc.wait ≠ Pc.fin := ⟨e.1, e.2, by decide⟩
                  rw [if_pos ha] at h2; rw [if_pos e]; omega
                · have ha : ¬ (tok0 = tk ∧ m0 = mm ∧ Pc.wait ≠ Pc.fin) := fun h => e ⟨h.1, h.2.1⟩
                  rw [if_neg ha] at h2; rw [if_neg e]; omega
            · -- no instance: list one and run the constructor with the lock held
              rename_i hnin
              simp at hs; subst hs
              have hnc : tok0 ∉ s.created := by
                intro h
                rcases hci tok0 h with h' | h' | h'
                · exact hnin h'
                · rw [hmux'] at h'; simp at h'
                · exact hnd h'
              have hk := countP_set' (p := atCtor) (t' := ⟨tok0, m0, .ctor⟩) ht
              refine ⟨?_, ?_, ?_, ?_, ?_, ?_, hhi, ?_, hdd, ?_⟩
              · refine List.nodup_append.mpr ⟨hn, by simp, ?_⟩
                intro a ha b hb; simp at hb; subst hb; intro e; subst e; exact hnc ha
              · intro tk h; simp; left; exact hic tk h
              · intro tk h
                simp at h
                rcases h with h | h
                · rcases hci tk h with h' | h' | h'
                  · left; exact h'
                  · rw [hmux'] at h'; simp at h'
                  · right; right; exact h'
                · subst h; right; left; rfl
              · intro tk h; simp at h; subst h; exact ⟨by simp, hnin, hnd⟩
              · intro t ht' hp
                rcases mem_set_cases ht' with e | h
                · subst e; rfl
                · have := hcm t h hp; rw [hmux'] at this; simp at this
              · have h0 : s.thr.countP atCtor = 0 := by rw [hmux'] at hcc; exact hcc
                simp [atCtor] at hk
                show (s.thr.set i ⟨tok0, m0, .ctor⟩).countP atCtor = 1
                rw [hk, h0]
              · intro tk h
                obtain ⟨h1, h2⟩ := hdc tk h
                exact ⟨by simp [h1], h2⟩
              · intro tk mm
                have h1 := hc tk mm
                have h2 := carries_move ht .ctor tk mm
                show s.arrived.count (tk, mm) = s.handed.count (tk, mm) + s.dropped.count (tk, mm)
                  + (s.thr.set i ⟨tok0, m0, .ctor⟩).countP (carries tk mm)
                by_cases e : tok0 = tk ∧ m0 = mm
                · have ha : tok0 = tk ∧ m0 = mm ∧ Pc.wait ≠ Pc.fin := ⟨e.1, e.2, by decide⟩
                  have hb : tok0 = tk ∧ m0 = mm ∧ Pc.ctor ≠ Pc.fin := ⟨e.1, e.2, by decide⟩
                  rw [if_pos ha, if_pos hb] at h2; omega
                · have ha : ¬ (tok0 = tk ∧ m0 = mm ∧ Pc.wait ≠ Pc.fin) := fun h => e ⟨h.1, h.2.1⟩
                  have hb : ¬ (tok0 = tk ∧ m0 = mm ∧ Pc.ctor ≠ Pc.fin) := fun h => e ⟨h.1, h.2.1⟩
                  rw [if_neg ha, if_neg hb] at h2; omega
      | ctor =>
        simp only [stepTh] at hs
        simp at hs; subst hs
        have hm : s.mux = some tok0 := hcm ⟨tok0, m0, .ctor⟩ (List.mem_of_getElem? ht) rfl
        have ⟨hcr, hni, hnd⟩ := hmc tok0 hm
        have hk := countP_set' (p := atCtor) (t' := ⟨tok0, m0, .fin⟩) ht
        have hzero : (s.thr.set i ⟨tok0, m0, .fin⟩).countP atCtor = 0 := by
          rw [hm] at hcc; simp [atCtor] at hk hcc; omega
        refine ⟨hn, ?_, ?_, ?_, ?_, ?_, ?_, ?_, hdd, ?_⟩
        · intro tk h
          simp at h
          rcases h with h | h
          · exact hic tk h
          · subst h; exact hcr
        · intro tk h
          rcases hci tk h with h' | h' | h'
          · left; simp [h']
          · rw [hm] at h'; simp at h'; subst h'; left; simp
          · right; right; exact h'
        · intro tk h; simp at h
        · intro t ht' hp
          exfalso
          have : 0 < (s.thr.set i ⟨tok0, m0, .fin⟩).countP atCtor :=
            List.countP_pos_iff.mpr ⟨t, ht', by simp [atCtor, hp]⟩
          omega
        · simp [hzero]
        · intro p hp
          simp at hp
          rcases hp with hp | hp
          · rcases hhi p hp with h' | h'
            · left; simp [h']
            · right; exact h'
          · subst hp; left; simp
        · intro tk h
          obtain ⟨h1, h2⟩ := hdc tk h
          refine ⟨h1, ?_⟩
          intro hc'; simp at hc'
          rcases hc' with hc' | hc'
          · exact h2 hc'
          · subst hc'; exact hnd h
        · intro tk mm
          have h1 := hc tk mm
          have h2 := carries_move ht .fin tk mm
          have h3 := count_snoc s.handed tok0 m0 tk mm
          show s.arrived.count (tk, mm) = (s.handed ++ [(tok0, m0)]).count (tk, mm) + s.dropped.count (tk, mm)
            + (s.thr.set i ⟨tok0, m0, .fin⟩).countP (carries tk mm)
          rw [h3]
          have hb : ¬ (tok0 = tk ∧ m0 = mm ∧ Pc.fin ≠ Pc.fin) := fun h => h.2.2 rfl
          rw [if_neg hb] at h2
          by_cases e : tok0 = tk ∧ m0 = mm
          · have ha : tok0 = tk ∧ m0 = mm ∧ Pc.ctor ≠ Pc.fin := ⟨e.1, e.2, by decide⟩
            rw [if_pos ha] at h2; rw [if_pos e]; omega
          · have ha : ¬ (tok0 = tk ∧ m0 = mm ∧ Pc.ctor ≠ Pc.fin) := fun h => e ⟨h.1, h.2.1⟩
            rw [if_neg ha] at h2; rw [if_neg e]; omega
    · simp at hs

theorem inv_run (as : List Act) (s : St) (h : Inv s) : Inv (run s as) := by
  induction as generalizing s with
  | nil => exact h
  | cons a as ih =>
    simp only [run]
    split
    · exact ih _ (inv_step _ _ _ h ‹_›)
    · exact ih _ h

/-- **one instance per run and node**: under every schedule of arrivals — any number of messages
for the same not-yet-existing instance, from any number of peers, however long the constructor
takes — the protocol constructor is called at most once per token. -/
theorem c01_one_instance_per_token (as : List Act) : (run {} as).created.Nodup :=
  (inv_run as {} inv_init).nodup

/-- **to that instance and no other**: every hand-over goes to the registered instance of the
message's own token (which, by the previous theorem, is unique). -/
theorem c01_handed_to_its_instance (as : List Act) :
    ∀ p ∈ (run {} as).handed,
      (p.1 ∈ (run {} as).inst ∨ p.1 ∈ (run {} as).doneToks) ∧ p.1 ∈ (run {} as).created := by
  intro p hp
  have hI := inv_run as {} inv_init
  rcases hI.handedInst p hp with h | h
  · exact ⟨.inl h, hI.instCreated _ h⟩
  · exact ⟨.inr h, (hI.doneCreated _ h).1⟩

/-- **a finished instance stays finished and single**: a token that was marked done is no longer
listed, and (with `c01_one_instance_per_token`) its constructor never runs again — whatever
messages for it were waiting for the lock when it finished. -/
theorem c01_finished_not_relisted (as : List Act) :
    ∀ tok ∈ (run {} as).doneToks, tok ∉ (run {} as).inst ∧ (run {} as).created.count tok = 1 := by
  intro tok h
  have hI := inv_run as {} inv_init
  obtain ⟨h1, h2⟩ := hI.doneCreated tok h
  exact ⟨h2, by rw [hI.nodup.count]; simp [h1]⟩

/-- only late messages are dropped inside the region -/
theorem c01_dropped_only_finished (as : List Act) :
    ∀ p ∈ (run {} as).dropped, p.1 ∈ (run {} as).doneToks :=
  (inv_run as {} inv_init).droppedDone

/-- the region is a critical section: at most one thread is inside it -/
theorem c01_region_mutex (as : List Act) : (run {} as).thr.countP atCtor ≤ 1 := by
  have := (inv_run as {} inv_init).ctorCount
  split at this <;> omega

/-- **exactly once through the region**: once every arrival thread has finished, each message was
handed over exactly as often as it arrived. -/
theorem c01_region_exactly_once (as : List Act) (hq : ∀ t ∈ (run {} as).thr, t.pc = .fin) :
    ∀ tok m, (run {} as).handed.count (tok, m) + (run {} as).dropped.count (tok, m)
      = (run {} as).arrived.count (tok, m) := by
  intro tok m
  have hI := inv_run as {} inv_init
  have h0 : (run {} as).thr.countP (carries tok m) = 0 := by
    rw [List.countP_eq_zero]
    intro t ht
    simp [carries, hq t ht]
  have := hI.cons tok m
  omega

/-- non-vacuity: two peers race to create instance 7 while instance 9's constructor runs -/
example : (run {} [.arrive 9 1, .thread 0, .arrive 7 2, .arrive 7 3, .thread 1, .thread 2, .thread 0,
      .thread 1, .thread 2, .thread 1, .thread 2]).created = [9, 7] ∧
    (run {} [.arrive 9 1, .thread 0, .arrive 7 2, .arrive 7 3, .thread 1, .thread 2, .thread 0,
      .thread 1, .thread 2, .thread 1, .thread 2]).handed = [(9, 1), (7, 2), (7, 3)] := by decide

/-- non-vacuity: message 3 for instance 9 waits for the lock (instance 7 is being constructed) while 9
finishes: it is dropped, no second instance 9 -/
example : (run {} [.arrive 9 1, .thread 0, .thread 0, .arrive 7 2, .thread 1, .arrive 9 3, .thread 2,
      .done 9, .thread 1, .thread 2]).created = [9, 7] ∧
    (run {} [.arrive 9 1, .thread 0, .thread 0, .arrive 7 2, .thread 1, .arrive 9 3, .thread 2,
      .done 9, .thread 1, .thread 2]).dropped = [(9, 3)] ∧
    (run {} [.arrive 9 1, .thread 0, .thread 0, .arrive 7 2, .thread 1, .arrive 9 3, .thread 2,
      .done 9, .thread 1, .thread 2]).inst = [7] := by decide

end Inst

/-! ### between `SendToTreeNode` and the destination's dispatcher: routers and connection tables -/
namespace Net

theorem countP_set_gen {α : Type} {p : α → Bool} {l : List α} {i : Nat} {t t' : α} (h : l[i]? = some t) :
    (l.set i t').countP p + (if p t then 1 else 0) = l.countP p + (if p t' then 1 else 0) := by
  have hi : i < l.length := by
    rcases Nat.lt_or_ge i l.length with h' | h'
    · exact h'
    · simp [List.getElem?_eq_none h'] at h
  have ht : l[i] = t := by simpa [List.getElem?_eq_getElem hi] using h
  have := List.boole_getElem_le_countP (p := p) hi
  rw [List.countP_set hi, ht] at *
  omega

theorem countP_eraseIdx_gen {α : Type} {p : α → Bool} {l : List α} {j : Nat} {x : α} (h : l[j]? = some x) :
    (l.eraseIdx j).countP p + (if p x then 1 else 0) = l.countP p := by
  induction l generalizing j with
  | nil => simp at h
  | cons y ys ih =>
    cases j with
    | zero =>
      simp at h; subst h
      simp [List.countP_cons]
    | succ j =>
      simp at h
      have := ih h
      simp only [List.eraseIdx_cons_succ, List.countP_cons]
      omega

/-- the `Send` call `t` still has envelope `(a → b, v)` in its hands -/
def carrying (a b v : Nat) (t : Th) : Bool := t.src == a && t.dst == b && t.v == v && t.pc != .done
/-- envelope `(a → b, v)` in flight -/
def flying (a b v : Nat) (f : Flight) : Bool := f.src == a && f.dst == b && f.v == v

/-- conservation: every `Send(a → b, v)` is in exactly one place — dispatched at `b` with identity `a`,
in flight towards `b`, or still in the hands of its `Send` call -/
def Cons (s : St) : Prop :=
  ∀ a b v, s.sent.count (a, b, v) =
    s.dispatched.count (b, a, v) + s.wire.countP (flying a b v) + s.thr.countP (carrying a b v)

theorem count_snoc3 (l : List (Nat × Nat × Nat)) (x1 x2 x3 y1 y2 y3 : Nat) :
    (l ++ [(x1, x2, x3)]).count (y1, y2, y3) = l.count (y1, y2, y3) + (if x1 = y1 ∧ x2 = y2 ∧ x3 = y3 then 1 else 0) := by
  by_cases e : x1 = y1 ∧ x2 = y2 ∧ x3 = y3
  · obtain ⟨rfl, rfl, rfl⟩ := e; simp [List.count_append]
  · have : ¬ ((y1, y2, y3) = (x1, x2, x3)) := by
      intro h; apply e; cases h; exact ⟨rfl, rfl, rfl⟩
    simp [List.count_append, List.count_singleton, e, this]

theorem carrying_move {l : List Th} {i : Nat} {t : Th} (h : l[i]? = some t) (p' : SPc) (a b v : Nat) :
    (l.set i { t with pc := p' }).countP (carrying a b v)
        + (if t.src = a ∧ t.dst = b ∧ t.v = v ∧ t.pc ≠ .done then 1 else 0)
      = l.countP (carrying a b v) + (if t.src = a ∧ t.dst = b ∧ t.v = v ∧ p' ≠ .done then 1 else 0) := by
  have := countP_set_gen (p := carrying a b v) (t' := { t with pc := p' }) h
  simpa [carrying, and_assoc] using this

theorem cons_thread (s : St) (i : Nat) (t : Th) (hc : Cons s) (ht : s.thr[i]? = some t) (hnd : t.pc ≠ .done) :
    Cons (stepTh s i t) := by
  intro a b v
  have h0 := hc a b v
  obtain ⟨src, dst, vv, pc⟩ := t
  simp only at hnd
  cases pc with
  | done => exact absurd rfl hnd
  | lookup =>
    simp only [stepTh]
    by_cases hself : src = dst
    · subst hself
      simp only [if_true]
      have hm := carrying_move ht .done a b v
      simp only at hm
      show s.sent.count (a, b, v) = (s.dispatched ++ [(src, src, vv)]).count (b, a, v) + s.wire.countP (flying a b v) + _
      rw [count_snoc3]
      by_cases e : src = a ∧ src = b ∧ vv = v
      · obtain ⟨e1, e2, e3⟩ := e
        have e' : src = b ∧ src = a ∧ vv = v := ⟨e2, e1, e3⟩
        have e'' : src = a ∧ src = b ∧ vv = v ∧ SPc.lookup ≠ SPc.done := ⟨e1, e2, e3, by decide⟩
        rw [if_pos e']
        rw [if_pos e''] at hm
        simp at hm
        omega
      · have e' : ¬ (src = b ∧ src = a ∧ vv = v) := fun h => e ⟨h.2.1, h.1, h.2.2⟩
        have e'' : ¬ (src = a ∧ src = b ∧ vv = v ∧ SPc.lookup ≠ SPc.done) := fun h => e ⟨h.1, h.2.1, h.2.2.1⟩
        rw [if_neg e']
        rw [if_neg e''] at hm
        simp at hm
        omega
    · simp only [hself, if_false]
      cases hh : (s.table src dst).head? with
      | none =>
        have hm := carrying_move ht .dial a b v
        simp at hm
        show s.sent.count (a, b, v) = s.dispatched.count (b, a, v) + s.wire.countP (flying a b v)
          + (s.thr.set i ⟨src, dst, vv, .dial⟩).countP (carrying a b v)
        omega
      | some k =>
        have hm := carrying_move ht (.xmit k) a b v
        simp at hm
        show s.sent.count (a, b, v) = s.dispatched.count (b, a, v) + s.wire.countP (flying a b v)
          + (s.thr.set i ⟨src, dst, vv, .xmit k⟩).countP (carrying a b v)
        omega
  | dial =>
    have hm := carrying_move ht (.reg s.nconn) a b v
    simp at hm
    show s.sent.count (a, b, v) = s.dispatched.count (b, a, v) + s.wire.countP (flying a b v) + _
    simp only [stepTh]; omega
  | reg k =>
    have hm := carrying_move ht (.xmit k) a b v
    simp at hm
    show s.sent.count (a, b, v) = s.dispatched.count (b, a, v) + s.wire.countP (flying a b v) + _
    simp only [stepTh]; omega
  | xmit k =>
    have hm := carrying_move ht .done a b v
    simp only at hm
    simp only [stepTh]
    show s.sent.count (a, b, v) = s.dispatched.count (b, a, v) + (s.wire ++ [(⟨k, src, dst, vv⟩ : Flight)]).countP (flying a b v) + _
    rw [List.countP_append]
    by_cases e : src = a ∧ dst = b ∧ vv = v
    · obtain ⟨e1, e2, e3⟩ := e
      subst e1; subst e2; subst e3
      simp [flying] at hm ⊢
      omega
    · have e'' : ¬ (src = a ∧ dst = b ∧ vv = v ∧ SPc.xmit k ≠ SPc.done) := fun h => e ⟨h.1, h.2.1, h.2.2.1⟩
      rw [if_neg e''] at hm
      have hf : flying a b v ⟨k, src, dst, vv⟩ = false := by
        simp only [flying]
        by_cases e1 : src = a
        · by_cases e2 : dst = b
          · have : vv ≠ v := fun h => e ⟨e1, e2, h⟩
            simp [e1, e2, this]
          · simp [e1, e2]
        · simp [e1]
      simp [hf] at hm ⊢
      omega

theorem cons_step (s s' : St) (a : Act) (hc : Cons s) (hs : step s a = some s') : Cons s' := by
  cases a with
  | send src dst v =>
    simp [step] at hs; subst hs
    intro a b w
    have h0 := hc a b w
    show (s.sent ++ [(src, dst, v)]).count (a, b, w) = s.dispatched.count (b, a, w) + s.wire.countP (flying a b w)
      + (s.thr ++ [(⟨src, dst, v, .lookup⟩ : Th)]).countP (carrying a b w)
    rw [count_snoc3, List.countP_append]
    by_cases e : src = a ∧ dst = b ∧ v = w
    · obtain ⟨e1, e2, e3⟩ := e; subst e1; subst e2; subst e3
      simp [carrying]; omega
    · have hcr : carrying a b w ⟨src, dst, v, .lookup⟩ = false := by
        simp only [carrying]
        by_cases e1 : src = a
        · by_cases e2 : dst = b
          · have : v ≠ w := fun h => e ⟨e1, e2, h⟩
            simp [e1, e2, this]
          · simp [e1, e2]
        · simp [e1]
      simp [e, hcr]; omega
  | thread i =>
    simp only [step] at hs
    split at hs
    · rename_i t ht
      split at hs
      · simp at hs
      · simp at hs; subst hs; exact cons_thread s i t hc ht ‹_›
    · simp at hs
  | accept j =>
    simp only [step] at hs
    split at hs
    · simp at hs; subst hs; exact hc
    · simp at hs
  | recv j =>
    simp only [step] at hs
    split at hs
    · rename_i f hf
      split at hs
      · simp at hs; subst hs
        intro a b v
        have h0 := hc a b v
        have he := countP_eraseIdx_gen (p := flying a b v) hf
        show s.sent.count (a, b, v) = (s.dispatched ++ [(f.dst, f.src, f.v)]).count (b, a, v)
          + (s.wire.eraseIdx j).countP (flying a b v) + s.thr.countP (carrying a b v)
        rw [count_snoc3]
        by_cases e : f.dst = b ∧ f.src = a ∧ f.v = v
        · obtain ⟨e1, e2, e3⟩ := e
          have : flying a b v f = true := by simp [flying, e1, e2, e3]
          simp [this] at he
          simp [e1, e2, e3]; omega
        · have : flying a b v f = false := by
            simp only [flying]
            by_cases e1 : f.src = a
            · by_cases e2 : f.dst = b
              · have : f.v ≠ v := fun h => e ⟨e2, e1, h⟩
                simp [e1, e2, this]
              · simp [e1, e2]
            · simp [e1]
          simp [this] at he
          simp [e]; omega
      · simp at hs
    · simp at hs
  | junk src dst =>
    simp only [step] at hs
    split at hs
    · simp at hs
    · split at hs
      · simp at hs; subst hs; exact hc
      · simp at hs
  | recvJunk j =>
    simp only [step] at hs
    split at hs
    · split at hs
      · simp at hs; subst hs; exact hc
      · simp at hs
    · simp at hs

theorem cons_run (as : List Act) (s : St) (h : Cons s) : Cons (run s as) := by
  induction as generalizing s with
  | nil => exact h
  | cons a as ih =>
    simp only [run]
    split
    · exact ih _ (cons_step _ _ _ h ‹_›)
    · exact ih _ h

/-- **conservation on the way between servers**: under every schedule of `Send` calls (any number,
concurrent, to any peers, to the server itself), dials, listener callbacks and receptions, each
envelope handed to `Send(a → b)` is in exactly one place: dispatched at `b` — carrying `a` as the
identity of its sender —, in flight towards `b`, or still in the hands of its `Send` call.  Never
duplicated, never dropped, never at a third server, however many connections the two servers have
with each other. -/
theorem c01_net_conservation (as : List Act) (a b v : Nat) :
    let s := run {} as
    s.sent.count (a, b, v) = s.dispatched.count (b, a, v) + s.wire.countP (flying a b v) + s.thr.countP (carrying a b v) :=
  cons_run as {} (by intro a b v; simp) a b v

/-! nothing gets stuck between two servers: every connection has (or is about to get) both ends -/
structure Live (s : St) : Prop where
  /-- a call that dialled `k` and has not registered it yet: the listener callback is pending or has run -/
  regPending : ∀ t ∈ s.thr, ∀ k, t.pc = .reg k → (k, t.src, t.dst) ∈ s.dialed ∨ k ∈ s.table t.dst t.src
  /-- a call about to write on `k` has `k` in its own table -/
  xmitReg : ∀ t ∈ s.thr, ∀ k, t.pc = .xmit k → k ∈ s.table t.src t.dst
  /-- a table entry has its counterpart at the peer: registered, waiting for the listener callback, or
  dialled by the peer and about to be registered there -/
  tableMate : ∀ a b k, k ∈ s.table a b →
    k ∈ s.table b a ∨ (k, a, b) ∈ s.dialed ∨ ∃ t ∈ s.thr, t.src = b ∧ t.dst = a ∧ t.pc = .reg k
  /-- a pending dial: the dialler has registered the connection or is about to -/
  dialMate : ∀ k a b, (k, a, b) ∈ s.dialed → k ∈ s.table a b ∨ ∃ t ∈ s.thr, t.src = a ∧ t.dst = b ∧ t.pc = .reg k
  /-- a frame in flight — an envelope or a frame its destination cannot decode — will be read: its destination
  has the connection, or will have it -/
  flightMate : ∀ f, f ∈ s.wire ∨ f ∈ s.junk → f.k ∈ s.table f.dst f.src ∨ (f.k, f.src, f.dst) ∈ s.dialed ∨
    ∃ t ∈ s.thr, t.src = f.dst ∧ t.dst = f.src ∧ t.pc = .reg f.k

theorem live_init : Live {} := by
  constructor <;> simp

theorem mem_addConn (tb : Nat → Nat → List Nat) (s p k a b x : Nat) :
    x ∈ addConn tb s p k a b ↔ x ∈ tb a b ∨ (a = s ∧ b = p ∧ x = k) := by
  unfold addConn
  by_cases h : a = s ∧ b = p
  · obtain ⟨rfl, rfl⟩ := h; simp
  · simp only [h, if_false]
    constructor
    · exact fun hx => .inl hx
    · rintro (hx | ⟨e1, e2, _⟩)
      · exact hx
      · exact absurd ⟨e1, e2⟩ h

theorem mem_set_other {l : List Th} {i : Nat} {t t' x : Th} (hx : x ∈ l) (ht : l[i]? = some t) (hne : x ≠ t) :
    x ∈ l.set i t' := by
  obtain ⟨j, hj, rfl⟩ := List.mem_iff_getElem.mp hx
  have hij : i ≠ j := by
    intro e; subst e
    simp [List.getElem?_eq_getElem hj] at ht
    exact hne ht
  have hj' : j < (l.set i t').length := by simpa using hj
  have : (l.set i t')[j] = l[j] := by simp [List.getElem_set, hij]
  rw [← this]; exact List.getElem_mem hj'

theorem mem_set_cases {l : List Th} {i : Nat} {t' x : Th} (h : x ∈ l.set i t') : x = t' ∨ x ∈ l := by
  rcases List.mem_or_eq_of_mem_set h with h | h
  · exact .inr h
  · exact .inl h

theorem mem_eraseIdx_other {α : Type} {l : List α} {j : Nat} {y x : α} (hx : x ∈ l) (hy : l[j]? = some y) (hne : x ≠ y) :
    x ∈ l.eraseIdx j := by
  induction l generalizing j with
  | nil => simp at hx
  | cons z zs ih =>
    cases j with
    | zero =>
      simp at hy; subst hy
      simp at hx
      rcases hx with e | h
      · exact absurd e hne
      · simpa using h
    | succ j =>
      simp at hy
      simp only [List.eraseIdx_cons_succ, List.mem_cons]
      simp at hx
      rcases hx with e | h
      · exact .inl e
      · exact .inr (ih h hy)

theorem mem_of_mem_eraseIdx {α : Type} {l : List α} {j : Nat} {x : α} (hx : x ∈ l.eraseIdx j) : x ∈ l :=
  List.mem_of_mem_eraseIdx hx

/-- a step of a `Send` call that neither leaves nor enters a `reg` pc and changes only the thread list -/
theorem live_thread_plain (s : St) (i : Nat) (t : Th) (p' : SPc) (hL : Live s) (ht : s.thr[i]? = some t)
    (hfrom : ∀ k, t.pc ≠ .reg k) (hto : ∀ k, p' ≠ .reg k)
    (hxm : ∀ k, p' = .xmit k → k ∈ s.table t.src t.dst) :
    Live { s with thr := s.thr.set i { t with pc := p' } } := by
  obtain ⟨h1, h2, h3, h4, h5⟩ := hL
  have keep : ∀ x ∈ s.thr, (∃ k, x.pc = .reg k) → x ∈ s.thr.set i { t with pc := p' } := by
    intro x hx ⟨k, hk⟩
    refine mem_set_other hx ht ?_
    intro e; subst e; exact hfrom k hk
  refine ⟨?_, ?_, ?_, ?_, ?_⟩
  · intro x hx k hk
    rcases mem_set_cases hx with e | hm
    · subst e; exact absurd hk (hto k)
    · exact h1 x hm k hk
  · intro x hx k hk
    rcases mem_set_cases hx with e | hm
    · subst e; exact hxm k hk
    · exact h2 x hm k hk
  · intro a b k hk
    rcases h3 a b k hk with h | h | ⟨x, hx, e1, e2, e3⟩
    · exact .inl h
    · exact .inr (.inl h)
    · exact .inr (.inr ⟨x, keep x hx ⟨k, e3⟩, e1, e2, e3⟩)
  · intro k a b hk
    rcases h4 k a b hk with h | ⟨x, hx, e1, e2, e3⟩
    · exact .inl h
    · exact .inr ⟨x, keep x hx ⟨k, e3⟩, e1, e2, e3⟩
  · intro f hf
    rcases h5 f hf with h | h | ⟨x, hx, e1, e2, e3⟩
    · exact .inl h
    · exact .inr (.inl h)
    · exact .inr (.inr ⟨x, keep x hx ⟨f.k, e3⟩, e1, e2, e3⟩)

theorem live_thread (s : St) (i : Nat) (t : Th) (hL : Live s) (ht : s.thr[i]? = some t) (hnd : t.pc ≠ .done) :
    Live (stepTh s i t) := by
  have htm : t ∈ s.thr := List.mem_of_getElem? ht
  obtain ⟨src, dst, vv, pc⟩ := t
  simp only at hnd
  cases pc with
  | done => exact absurd rfl hnd
  | lookup =>
    simp only [stepTh]
    by_cases hself : src = dst
    · simp only [hself, if_true]
      have := live_thread_plain s i ⟨src, dst, vv, .lookup⟩ .done hL ht (by intro k; simp) (by intro k; simp) (by intro k h; simp at h)
      obtain ⟨h1, h2, h3, h4, h5⟩ := this
      subst hself
      exact ⟨h1, h2, h3, h4, h5⟩
    · simp only [hself, if_false]
      cases hh : (s.table src dst).head? with
      | none =>
        exact live_thread_plain s i ⟨src, dst, vv, .lookup⟩ .dial hL ht (by intro k; simp) (by intro k; simp) (by intro k h; simp at h)
      | some k =>
        refine live_thread_plain s i ⟨src, dst, vv, .lookup⟩ (.xmit k) hL ht (by intro k; simp) (by intro k; simp) ?_
        intro k' e; simp at e; subst e
        exact List.mem_of_mem_head? hh
  | dial =>
    simp only [stepTh]
    obtain ⟨h1, h2, h3, h4, h5⟩ := hL
    have keep : ∀ x ∈ s.thr, (∃ k, x.pc = .reg k) → x ∈ s.thr.set i ⟨src, dst, vv, .reg s.nconn⟩ := by
      intro x hx ⟨k, hk⟩
      refine mem_set_other hx ht ?_
      intro e; subst e; simp at hk
    have me : (⟨src, dst, vv, .reg s.nconn⟩ : Th) ∈ s.thr.set i ⟨src, dst, vv, .reg s.nconn⟩ := by
      have hi : i < s.thr.length := by
        rcases Nat.lt_or_ge i s.thr.length with h' | h'
        · exact h'
        · simp [List.getElem?_eq_none h'] at ht
      exact List.mem_set hi _
    refine ⟨?_, ?_, ?_, ?_, ?_⟩
    · intro x hx k hk
      rcases mem_set_cases hx with e | hm
      · subst e; simp at hk; subst hk; left; simp
      · rcases h1 x hm k hk with h | h
        · left; simp [h]
        · right; exact h
    · intro x hx k hk
      rcases mem_set_cases hx with e | hm
      · subst e; simp at hk
      · exact h2 x hm k hk
    · intro a b k hk
      rcases h3 a b k hk with h | h | ⟨x, hx, e1, e2, e3⟩
      · exact .inl h
      · right; left; simp [h]
      · exact .inr (.inr ⟨x, keep x hx ⟨k, e3⟩, e1, e2, e3⟩)
    · intro k a b hk
      simp at hk
      rcases hk with hk | ⟨rfl, rfl, rfl⟩
      · rcases h4 k a b hk with h | ⟨x, hx, e1, e2, e3⟩
        · exact .inl h
        · exact .inr ⟨x, keep x hx ⟨k, e3⟩, e1, e2, e3⟩
      · exact .inr ⟨_, me, rfl, rfl, rfl⟩
    · intro f hf
      rcases h5 f hf with h | h | ⟨x, hx, e1, e2, e3⟩
      · exact .inl h
      · right; left; simp [h]
      · exact .inr (.inr ⟨x, keep x hx ⟨f.k, e3⟩, e1, e2, e3⟩)
  | reg k =>
    simp only [stepTh]
    obtain ⟨h1, h2, h3, h4, h5⟩ := hL
    have hmine := h1 _ htm k rfl
    simp only at hmine
    -- a witness "thread of src→dst at reg k" may be this very call: the connection is in its table now
    have wit : ∀ x ∈ s.thr, ∀ a b k', x.src = b ∧ x.dst = a ∧ x.pc = .reg k' →
        k' ∈ addConn s.table src dst k b a ∨ x ∈ s.thr.set i ⟨src, dst, vv, .xmit k⟩ := by
      intro x hx a b k' ⟨e1, e2, e3⟩
      by_cases e : x = ⟨src, dst, vv, .reg k⟩
      · subst e; simp at e1 e2 e3
        left; rw [mem_addConn]; right; exact ⟨e1.symm, e2.symm, e3.symm⟩
      · right; exact mem_set_other hx ht e
    refine ⟨?_, ?_, ?_, ?_, ?_⟩
    · intro x hx k' hk
      rcases mem_set_cases hx with e | hm
      · subst e; simp at hk
      · rcases h1 x hm k' hk with h | h
        · exact .inl h
        · right; rw [mem_addConn]; exact .inl h
    · intro x hx k' hk
      rcases mem_set_cases hx with e | hm
      · subst e; simp at hk; subst hk; rw [mem_addConn]; right; exact ⟨rfl, rfl, rfl⟩
      · rw [mem_addConn]; exact .inl (h2 x hm k' hk)
    · intro a b k' hk
      rw [mem_addConn] at hk
      rcases hk with hk | ⟨rfl, rfl, rfl⟩
      · rcases h3 a b k' hk with h | h | ⟨x, hx, e1, e2, e3⟩
        · left; rw [mem_addConn]; exact .inl h
        · exact .inr (.inl h)
        · rcases wit x hx a b k' ⟨e1, e2, e3⟩ with h | h
          · exact .inl h
          · exact .inr (.inr ⟨x, h, e1, e2, e3⟩)
      · rcases hmine with h | h
        · exact .inr (.inl h)
        · left; rw [mem_addConn]; exact .inl h
    · intro k' a b hk
      rcases h4 k' a b hk with h | ⟨x, hx, e1, e2, e3⟩
      · left; rw [mem_addConn]; exact .inl h
      · rcases wit x hx b a k' ⟨e1, e2, e3⟩ with h | h
        · exact .inl h
        · exact .inr ⟨x, h, e1, e2, e3⟩
    · intro f hf
      rcases h5 f hf with h | h | ⟨x, hx, e1, e2, e3⟩
      · left; rw [mem_addConn]; exact .inl h
      · exact .inr (.inl h)
      · rcases wit x hx f.src f.dst f.k ⟨e1, e2, e3⟩ with h | h
        · exact .inl h
        · exact .inr (.inr ⟨x, h, e1, e2, e3⟩)
  | xmit k =>
    simp only [stepTh]
    have hk := hL.xmitReg _ htm k rfl
    simp only at hk
    have hmate := hL.tableMate src dst k hk
    have := live_thread_plain s i ⟨src, dst, vv, .xmit k⟩ .done hL ht (by intro k; simp) (by intro k; simp) (by intro k h; simp at h)
    obtain ⟨h1, h2, h3, h4, h5⟩ := this
    refine ⟨h1, h2, h3, h4, ?_⟩
    intro f hf
    simp at hf
    rcases hf with (hf | rfl) | hf
    · exact h5 f (.inl hf)
    rotate_left
    · exact h5 f (.inr hf)
    · simp only
      rcases hmate with h | h | ⟨x, hx, e1, e2, e3⟩
      · exact .inl h
      · exact .inr (.inl h)
      · refine .inr (.inr ⟨x, ?_, e1, e2, e3⟩)
        refine mem_set_other hx ht ?_
        intro e; subst e; simp at e3

theorem live_step (s s' : St) (a : Act) (hL : Live s) (hs : step s a = some s') : Live s' := by
  cases a with
  | send src dst v =>
    simp [step] at hs; subst hs
    obtain ⟨h1, h2, h3, h4, h5⟩ := hL
    refine ⟨?_, ?_, ?_, ?_, ?_⟩
    · intro x hx k hk
      simp at hx
      rcases hx with hx | rfl
      · exact h1 x hx k hk
      · simp at hk
    · intro x hx k hk
      simp at hx
      rcases hx with hx | rfl
      · exact h2 x hx k hk
      · simp at hk
    · intro a b k hk
      rcases h3 a b k hk with h | h | ⟨x, hx, e⟩
      · exact .inl h
      · exact .inr (.inl h)
      · exact .inr (.inr ⟨x, by simp [hx], e⟩)
    · intro k a b hk
      rcases h4 k a b hk with h | ⟨x, hx, e⟩
      · exact .inl h
      · exact .inr ⟨x, by simp [hx], e⟩
    · intro f hf
      rcases h5 f hf with h | h | ⟨x, hx, e⟩
      · exact .inl h
      · exact .inr (.inl h)
      · exact .inr (.inr ⟨x, by simp [hx], e⟩)
  | thread i =>
    simp only [step] at hs
    split at hs
    · rename_i t ht
      split at hs
      · simp at hs
      · simp at hs; subst hs; exact live_thread s i t hL ht ‹_›
    · simp at hs
  | accept j =>
    simp only [step] at hs
    split at hs
    · rename_i k a b hj
      simp at hs; subst hs
      obtain ⟨h1, h2, h3, h4, h5⟩ := hL
      have hmem : (k, a, b) ∈ s.dialed := List.mem_of_getElem? hj
      -- an entry of `dialed` other than the accepted one stays; the accepted one is now in the acceptor's table
      have dl : ∀ k' a' b', (k', a', b') ∈ s.dialed →
          (k', a', b') ∈ s.dialed.eraseIdx j ∨ k' ∈ addConn s.table b a k b' a' := by
        intro k' a' b' h
        by_cases e : (k', a', b') = (k, a, b)
        · cases e; right; rw [mem_addConn]; right; exact ⟨rfl, rfl, rfl⟩
        · left; exact mem_eraseIdx_other h hj e
      refine ⟨?_, ?_, ?_, ?_, ?_⟩
      · intro x hx k' hk
        rcases h1 x hx k' hk with h | h
        · rcases dl _ _ _ h with h | h
          · exact .inl h
          · exact .inr h
        · right; rw [mem_addConn]; exact .inl h
      · intro x hx k' hk
        rw [mem_addConn]; exact .inl (h2 x hx k' hk)
      · intro a' b' k' hk
        rw [mem_addConn] at hk
        rcases hk with hk | ⟨rfl, rfl, rfl⟩
        · rcases h3 a' b' k' hk with h | h | h
          · left; rw [mem_addConn]; exact .inl h
          · rcases dl _ _ _ h with h | h
            · exact .inr (.inl h)
            · exact .inl h
          · exact .inr (.inr h)
        · rcases h4 k' b' a' hmem with h | h
          · left; rw [mem_addConn]; exact .inl h
          · exact .inr (.inr h)
      · intro k' a' b' hk
        rcases h4 k' a' b' (mem_of_mem_eraseIdx hk) with h | h
        · left; rw [mem_addConn]; exact .inl h
        · exact .inr h
      · intro f hf
        rcases h5 f hf with h | h | h
        · left; rw [mem_addConn]; exact .inl h
        · rcases dl _ _ _ h with h | h
          · exact .inr (.inl h)
          · exact .inl h
        · exact .inr (.inr h)
    · simp at hs
  | recv j =>
    simp only [step] at hs
    split at hs
    · split at hs
      · simp at hs; subst hs
        obtain ⟨h1, h2, h3, h4, h5⟩ := hL
        exact ⟨h1, h2, h3, h4, fun f hf => h5 f (hf.imp mem_of_mem_eraseIdx id)⟩
      · simp at hs
    · simp at hs
  | junk src dst =>
    simp only [step] at hs
    split at hs
    · simp at hs
    · split at hs
      · rename_i k hk
        simp at hs; subst hs
        obtain ⟨h1, h2, h3, h4, h5⟩ := hL
        refine ⟨h1, h2, h3, h4, ?_⟩
        intro f hf
        simp at hf
        rcases hf with hf | hf | rfl
        · exact h5 f (.inl hf)
        · exact h5 f (.inr hf)
        · exact h3 src dst k (List.mem_of_mem_head? hk)
      · simp at hs
  | recvJunk j =>
    simp only [step] at hs
    split at hs
    · split at hs
      · simp at hs; subst hs
        obtain ⟨h1, h2, h3, h4, h5⟩ := hL
        exact ⟨h1, h2, h3, h4, fun f hf => h5 f (hf.imp id mem_of_mem_eraseIdx)⟩
      · simp at hs
    · simp at hs

theorem live_run (as : List Act) (s : St) (h : Live s) : Live (run s as) := by
  induction as generalizing s with
  | nil => exact h
  | cons a as ih =>
    simp only [run]
    split
    · exact ih _ (live_step _ _ _ h ‹_›)
    · exact ih _ h

/-- nothing can move any more: every `Send` call has returned, no listener callback is pending, no
reception is enabled -/
def Quiescent (s : St) : Prop :=
  (∀ t ∈ s.thr, t.pc = .done) ∧ s.dialed = [] ∧ (∀ j, step s (.recv j) = none) ∧ ∀ j, step s (.recvJunk j) = none

/-- **nothing is stuck between two servers**: when no action is enabled any more, no envelope is in
flight — an envelope written on a connection always finds (or will find) the receive goroutine of
its destination, whichever side dialled the connection and in whatever order the two ends registered
it. -/
theorem c01_net_nothing_in_flight_at_quiescence (as : List Act) (hq : Quiescent (run {} as)) :
    (run {} as).wire = [] := by
  have hL := live_run as {} live_init
  generalize run {} as = s at *
  obtain ⟨hd, hdl, hr, _⟩ := hq
  cases hw : s.wire with
  | nil => rfl
  | cons f rest =>
    exfalso
    have hf : f ∈ s.wire := by simp [hw]
    rcases hL.flightMate f (.inl hf) with h | h | ⟨x, hx, _, _, e3⟩
    · have := hr 0
      simp [step, hw, h] at this
    · simp [hdl] at h
    · have := hd x hx
      rw [this] at e3; simp at e3

/-- **exactly once, at the addressed server, with the sender's identity**: once nothing can move,
every envelope handed to `Send(a → b)` has been dispatched at `b` exactly as often as it was sent,
with `a` attached as the sender — for every number of concurrent senders, connections per pair of
servers (racing first sends, simultaneous opens) and self-sends. -/
theorem c01_net_quiescent_exactly_once (as : List Act) (hq : Quiescent (run {} as)) (a b v : Nat) :
    (run {} as).dispatched.count (b, a, v) = (run {} as).sent.count (a, b, v) := by
  have hc := c01_net_conservation as a b v
  have hw := c01_net_nothing_in_flight_at_quiescence as hq
  simp only at hc
  have h0 : (run {} as).thr.countP (carrying a b v) = 0 := by
    rw [List.countP_eq_zero]
    intro t ht
    simp [carrying, hq.1 t ht]
  rw [hw, h0] at hc
  simp at hc; omega

/-- **and nowhere else**: whatever a server's dispatcher is handed was sent to that server, by the
server whose identity is attached (at every moment, not only at quiescence) -/
theorem c01_net_dispatched_was_sent (as : List Act) (srv from_ v : Nat)
    (h : (srv, from_, v) ∈ (run {} as).dispatched) : (from_, srv, v) ∈ (run {} as).sent := by
  have hc := c01_net_conservation as from_ srv v
  simp only at hc
  have : 0 < (run {} as).dispatched.count (srv, from_, v) := List.count_pos_iff.mpr h
  exact List.count_pos_iff.mp (by omega)

theorem table_grows_step (s s' : St) (a : Act) (hs : step s a = some s') (x y : Nat) :
    ∃ l, s'.table x y = s.table x y ++ l := by
  cases a with
  | send src dst v => simp [step] at hs; subst hs; exact ⟨[], by simp⟩
  | thread i =>
    simp only [step] at hs
    split at hs
    · rename_i t _
      split at hs
      · simp at hs
      · simp at hs; subst hs
        obtain ⟨src, dst, vv, pc⟩ := t
        cases pc with
        | lookup =>
          simp only [stepTh]
          split
          · exact ⟨[], by simp⟩
          · split <;> exact ⟨[], by simp⟩
        | dial => exact ⟨[], by simp [stepTh]⟩
        | reg k =>
          simp only [stepTh, addConn]
          by_cases h : x = src ∧ y = dst
          · obtain ⟨rfl, rfl⟩ := h; exact ⟨[k], by simp⟩
          · exact ⟨[], by simp [h]⟩
        | xmit k => exact ⟨[], by simp [stepTh]⟩
        | done => exact ⟨[], by simp [stepTh]⟩
    · simp at hs
  | accept j =>
    simp only [step] at hs
    split at hs
    · rename_i k a b _
      simp at hs; subst hs
      simp only [addConn]
      by_cases h : x = b ∧ y = a
      · obtain ⟨rfl, rfl⟩ := h; exact ⟨[k], by simp⟩
      · exact ⟨[], by simp [h]⟩
    · simp at hs
  | recv j =>
    simp only [step] at hs
    split at hs
    · split at hs
      · simp at hs; subst hs; exact ⟨[], by simp⟩
      · simp at hs
    · simp at hs
  | junk src dst =>
    simp only [step] at hs
    split at hs
    · simp at hs
    · split at hs
      · simp at hs; subst hs; exact ⟨[], by simp⟩
      · simp at hs
  | recvJunk j =>
    simp only [step] at hs
    split at hs
    · split at hs
      · simp at hs; subst hs; exact ⟨[], by simp⟩
      · simp at hs
    · simp at hs

/-- **the first connection stays the first**: once server `x` has a connection with peer `y`, every
later `Send(x → y)` uses that same connection, whatever else is dialled, accepted or registered
afterwards (tables are only appended to; nothing fails, so nothing is removed) -/
theorem c01_net_first_connection_stable (as bs : List Act) (x y k : Nat)
    (h : ((run {} as).table x y).head? = some k) : ((run (run {} as) bs).table x y).head? = some k := by
  generalize run {} as = s at *
  induction bs generalizing s with
  | nil => exact h
  | cons b bs ih =>
    simp only [run]
    split
    · rename_i s' hs
      apply ih
      obtain ⟨l, hl⟩ := table_grows_step s s' b hs x y
      rw [hl]
      cases hst : s.table x y with
      | nil => rw [hst] at h; simp at h
      | cons z zs => rw [hst] at h; simpa using h
    · exact ih s h

/-- non-vacuity: servers 1 and 2 open connections to each other at the same time (two connections, both
tables hold two entries), a third send uses the first one; server 1 also sends to itself; everything
is dispatched once, at the right server, and the run is quiescent -/
def openBoth : List Act :=
  [.send 1 2 10, .send 2 1 20, .thread 0, .thread 1, .thread 0, .thread 1, .thread 0, .thread 1, .thread 0, .thread 1,
   .accept 0, .accept 0, .recv 0, .recv 0, .send 1 2 11, .thread 2, .thread 2, .recv 0, .send 1 1 12, .thread 3]

example : (run {} openBoth).dispatched = [(2, 1, 10), (1, 2, 20), (2, 1, 11), (1, 1, 12)] ∧
    (run {} openBoth).table 1 2 = [0, 1] ∧ (run {} openBoth).table 2 1 = [1, 0] ∧ (run {} openBoth).wire = [] ∧
    (run {} openBoth).dialed = [] ∧ (run {} openBoth).thr.all (fun t => t.pc == .done) := by decide

example : Quiescent (run {} openBoth) := by
  refine ⟨by decide, by decide, fun j => ?_, fun j => ?_⟩
  · have : (run {} openBoth).wire = [] := by decide
    simp [step, this]
  · have : (run {} openBoth).junk = [] := by decide
    simp [step, this]

/-- two concurrent first sends both dial: two connections 1 → 2, later sends use the first -/
example : (run {} [.send 1 2 10, .send 1 2 11, .thread 0, .thread 1, .thread 0, .thread 1, .thread 0, .thread 1,
      .thread 0, .thread 1, .accept 0, .accept 0, .recv 0, .recv 0]).table 1 2 = [0, 1] := by decide

/-! #### frames the destination cannot decode (`handleConn`: "Temporary error, continue") -/

/-- **a frame that cannot be decoded is read and dropped, nothing waits behind it**: at quiescence no such frame is
left unread either — its connection has (or gets) its receive goroutine like every other -/
theorem c01_net_junk_read_at_quiescence (as : List Act) (hq : Quiescent (run {} as)) : (run {} as).junk = [] := by
  have hL := live_run as {} live_init
  generalize run {} as = s at *
  obtain ⟨hd, hdl, _, hr⟩ := hq
  cases hw : s.junk with
  | nil => rfl
  | cons f rest =>
    exfalso
    have hf : f ∈ s.junk := by simp [hw]
    rcases hL.flightMate f (.inr hf) with h | h | ⟨x, hx, _, _, e3⟩
    · have := hr 0
      simp [step, hw, h] at this
    · simp [hdl] at h
    · have := hd x hx
      rw [this] at e3; simp at e3

/-- the state without the undecodable frames -/
def noJunk (s : St) : St := { s with junk := [] }
/-- the two actions that write / read an undecodable frame -/
def isJunk : Act → Bool
  | .junk _ _ => true
  | .recvJunk _ => true
  | _ => false

theorem stepTh_noJunk (s : St) (i : Nat) (t : Th) : stepTh (noJunk s) i t = noJunk (stepTh s i t) := by
  obtain ⟨src, dst, v, pc⟩ := t
  cases pc with
  | lookup =>
    simp only [stepTh, noJunk]
    split
    · rfl
    · split <;> rfl
  | dial => rfl
  | reg k => rfl
  | xmit k => rfl
  | done => rfl

theorem step_noJunk (s : St) (a : Act) (ha : isJunk a = false) : step (noJunk s) a = (step s a).map noJunk := by
  cases a with
  | send src dst v => rfl
  | thread i =>
    simp only [step]
    have : (noJunk s).thr = s.thr := rfl
    rw [this]
    cases s.thr[i]? with
    | none => rfl
    | some t =>
      simp only
      split
      · rfl
      · simp [stepTh_noJunk]
  | accept j =>
    simp only [step]
    have : (noJunk s).dialed = s.dialed := rfl
    rw [this]
    cases s.dialed[j]? with
    | none => rfl
    | some x => obtain ⟨k, a, b⟩ := x; rfl
  | recv j =>
    simp only [step]
    have : (noJunk s).wire = s.wire := rfl
    rw [this]
    cases s.wire[j]? with
    | none => rfl
    | some f =>
      simp only
      have : (noJunk s).table = s.table := rfl
      rw [this]
      split <;> rfl
  | junk src dst => simp [isJunk] at ha
  | recvJunk j => simp [isJunk] at ha

theorem step_junk_only (s s' : St) (a : Act) (ha : isJunk a = true) (hs : step s a = some s') : noJunk s' = noJunk s := by
  cases a with
  | send src dst v => simp [isJunk] at ha
  | thread i => simp [isJunk] at ha
  | accept j => simp [isJunk] at ha
  | recv j => simp [isJunk] at ha
  | junk src dst =>
    simp only [step] at hs
    split at hs
    · simp at hs
    · split at hs
      · simp at hs; subst hs; rfl
      · simp at hs
  | recvJunk j =>
    simp only [step] at hs
    split at hs
    · split at hs
      · simp at hs; subst hs; rfl
      · simp at hs
    · simp at hs

/-- **a well-formed frame the destination cannot decode is harmless**: under every schedule, whatever is written
on whichever connection and read whenever, the connection tables, the envelopes in flight, the `Send` calls, what
has been dispatched where and with which identity — everything but the undecodable frames themselves — are exactly
what they are in the same schedule without those frames.  In particular no connection is dropped and nothing queued
behind such a frame is lost. -/
theorem c01_net_undecodable_frame_harmless (as : List Act) (s : St) :
    noJunk (run s as) = run (noJunk s) (as.filter (fun a => !isJunk a)) := by
  induction as generalizing s with
  | nil => rfl
  | cons a as ih =>
    cases ha : isJunk a
    · simp only [List.filter_cons, ha, Bool.not_false, if_true, run]
      rw [step_noJunk s a ha]
      cases hs : step s a with
      | none => simpa using ih s
      | some s' => simpa using ih s'
    · simp only [List.filter_cons, ha, Bool.not_true, Bool.false_eq_true, if_false, run]
      cases hs : step s a with
      | none => simpa using ih s
      | some s' =>
        simp only
        rw [ih s', step_junk_only s s' a ha hs]

/-- what the dispatchers saw and the connection tables do not depend on the undecodable frames -/
theorem c01_net_undecodable_frame_dispatch (as : List Act) :
    (run {} as).dispatched = (run {} (as.filter (fun a => !isJunk a))).dispatched ∧
    (run {} as).table = (run {} (as.filter (fun a => !isJunk a))).table ∧
    (run {} as).wire = (run {} (as.filter (fun a => !isJunk a))).wire := by
  have h := c01_net_undecodable_frame_harmless as {}
  have e : noJunk ({} : St) = {} := rfl
  rw [e] at h
  refine ⟨?_, ?_, ?_⟩
  · exact (congrArg St.dispatched h : (noJunk (run {} as)).dispatched = _)
  · exact (congrArg St.table h : (noJunk (run {} as)).table = _)
  · exact (congrArg St.wire h : (noJunk (run {} as)).wire = _)

/-- non-vacuity: 10 is in flight from server 1 to server 2, an undecodable frame and then 11 are written behind it on
the same connection; everything is read: 10 and 11 are dispatched at server 2, the connection is still the one both
tables hold, nothing is left -/
def junkBetween : List Act :=
  [.send 1 2 10, .thread 0, .thread 0, .thread 0, .thread 0, .junk 1 2, .send 1 2 11, .thread 1, .thread 1,
   .accept 0, .recv 0, .recvJunk 0, .recv 0]

example : (run {} (junkBetween.take 9)).junk = [⟨0, 1, 2, 0⟩] ∧ (run {} (junkBetween.take 9)).wire = [⟨0, 1, 2, 10⟩, ⟨0, 1, 2, 11⟩] ∧
    (run {} junkBetween).dispatched = [(2, 1, 10), (2, 1, 11)] ∧ (run {} junkBetween).table 1 2 = [0] ∧
    (run {} junkBetween).table 2 1 = [0] ∧ (run {} junkBetween).wire = [] ∧ (run {} junkBetween).junk = [] := by decide

/-! #### the destination's dispatcher and `Overlay.Process` -/

/-- **only protocol messages reach `TransmitMsg`, and every protocol message does**: the kind of the
envelope alone decides; control messages, configuration messages and service messages never enter
the instance path, whatever services are registered -/
theorem c01_route_proto (services : List Nat) (k : Kind) :
    route services k = .transmitMsg ↔ k = .proto := by
  cases k <;> simp [route]
  split <;> simp

/-- a service message is handed to the service manager iff some service registered its type -/
theorem c01_route_service (services : List Nat) (t : Nat) :
    route services (.service t) = (if t ∈ services then .serviceManager t else .noProcessor) := rfl

/-- **unchanged content, unchanged tokens**: what `Overlay.Process` recovers from the wire form
`SendToTreeNode` produced is the payload that was sent, the sender's token, and the sender's token
with only the node replaced by the destination node — given that the codec round-trips (C03). -/
theorem c01_wrap_unwrap (enc : Nat → List Nat) (dec : List Nat → Option Nat) (hcodec : ∀ m, dec (enc m) = some m)
    (run me dstNode msg : Nat) :
    unwrap dec (wrap enc run me dstNode msg) = some ((run, me), (run, dstNode), msg) := by
  simp [unwrap, wrap, hcodec]

/-! #### a send operation over the network: the two models composed -/

theorem count_map_envelopes (l : List Nat) (host : Nat → Nat) (r src srv : Nat) (code : Send.Token → Nat)
    (hcode : ∀ x y, code x = code y → x = y) (j : Nat) :
    (l.map (fun j' => (src, host j', code ⟨r, j'⟩))).count (src, srv, code ⟨r, j⟩)
      = if srv = host j then l.count j else 0 := by
  induction l with
  | nil => simp
  | cons x xs ih =>
    simp only [List.map_cons, List.count_cons, ih]
    by_cases hx : x = j
    · subst hx
      by_cases hs : srv = host x
      · subst hs; simp
      · have : ¬ ((src, host x, code ⟨r, x⟩) = (src, srv, code ⟨r, x⟩)) := by
          intro h; cases h; exact hs rfl
        simp [hs]; exact fun h => absurd h.symm hs
    · have hne : ¬ ((src, host x, code ⟨r, x⟩) = (src, srv, code ⟨r, j⟩)) := by
        intro h
        have h3 : code ⟨r, x⟩ = code ⟨r, j⟩ := (Prod.mk.inj (Prod.mk.inj h).2).2
        have h4 := hcode _ _ h3
        exact hx (Send.Token.mk.inj h4).2
      have hbeq : ((src, host x, code ⟨r, x⟩) == (src, srv, code ⟨r, j⟩)) = false := by
        cases hb : ((src, host x, code ⟨r, x⟩) == (src, srv, code ⟨r, j⟩))
        · rfl
        · exact absurd (by simpa using hb) hne
      have hxj : (x == j) = false := by simp [hx]
      simp [hbeq, hxj]

/-- **from the send operation to the destination servers' dispatchers**: let the `Send` calls of a
network schedule be exactly the envelopes one send operation of node `me` in run `r` produces
(`Send.envelopes`: token with only the node changed, addressed to the node's host; `code` is any
injective naming of tokens as envelope contents).  Once the network is quiescent, the envelope for
node `j` has been dispatched at `host j` exactly as often as the operation addresses `j` — once for
children / parent / broadcast (`c01_send_children_exact`, `…bcast_exact`) — carrying the sender's
server as identity, and at no other server. -/
theorem c01_send_over_net (t : Send.Tree) (host : Nat → Nat) (r me : Nat) (p : Send.Pattern)
    (code : Send.Token → Nat) (hcode : ∀ x y, code x = code y → x = y)
    (as : List Act) (hq : Quiescent (run {} as))
    (hsent : ∀ a b v, (run {} as).sent.count (a, b, v) =
      ((Send.envelopes t host r me p).map (fun e => (host me, e.1, code e.2))).count (a, b, v))
    (srv j : Nat) :
    (run {} as).dispatched.count (srv, host me, code ⟨r, j⟩) = if srv = host j then (Send.dests t me p).count j else 0 := by
  rw [c01_net_quiescent_exactly_once as hq, hsent]
  simp only [Send.envelopes, List.map_map]
  exact count_map_envelopes (Send.dests t me p) host r (host me) srv code hcode j

end Net

/-! ### the code regions the model stands for
Regenerated from /repo's source on every run (`harness/cmd/astfacts` → `OnetVerif/Shapes.lean`): the
calls that matter for synchronisation and data flow, the lock regions and (for decision logic) the
conditions, in source order.  A re-ordering, a dropped call or a changed condition breaks these
obligations even when no sampled input or schedule shows a difference; the check then searches for
a failing input. -/
theorem c01_shape_Overlay_TransmitMsg :
    Shapes.overlay_Overlay_TransmitMsg =
   ["treeStorage.getAndRefresh", "verifPoint:tm.miss", "o.requestTree", "verifPoint:tm.found",
     "transmitMux.Lock", "defer:transmitMux.Unlock", "instancesLock.Lock", "To.ID", "To.ID",
     "o.cleanTreeStorage", "instancesLock.Unlock", "o.TreeNodeFromTree",
     "instancesLock.Lock", "o.cleanTreeStorage", "instancesLock.Unlock",
     "o.newTreeNodeInstanceFromToken", "treeStorage.Set", "o.hasPendingMsg",
     "o.checkPendingMessages", "To.ID", "o.getConfig",
     "serviceManager.newProtocol", "instancesLock.Lock", "o.nodeDelete", "instancesLock.Unlock",
     "instancesLock.Lock", "o.nodeDelete", "instancesLock.Unlock",
     "go{", "defer{", "tni.Token", "ServiceFactory.Name", "}", "pi.Dispatch", "tni.Token",
     "ServiceFactory.Name", "}", "o.RegisterProtocolInstance", "pi.ProcessProtocolMsg"] := rfl

theorem c01_shape_Overlay_requestTree :
    Shapes.overlay_Overlay_requestTree =
   ["o.savePendingMsg", "verifPoint:rt.parked", "treeStorage.Get", "if:(tree!=nil)",
     "o.checkPendingMessages", "return:nil", "verifPoint:rt.recheck-miss", "io.Wrap",
     "if:(err!=nil)", "return:xerrors.Errorf(\"\",err)",
     "if:o.treeStorage.IsRegistered(onetMsg.To.TreeID)", "return:nil",
     "verifPoint:rt.unregistered", "treeStorage.Register", "verifPoint:rt.registered",
     "server.Send", "if:(err!=nil)", "treeStorage.Unregister", "return:xerrors.Errorf(\"\",err)",
     "return:nil"] := rfl

theorem c01_shape_Overlay_checkPendingMessages :
    Shapes.overlay_Overlay_checkPendingMessages =
   ["go{", "verifPoint:cpm.start", "pendingMsgLock.Lock", "ID.Equal", "pendingMsgLock.Unlock",
     "o.TransmitMsg", "verifPoint:cpm.done", "}"] := rfl

theorem c01_shape_Overlay_savePendingMsg :
    Shapes.overlay_Overlay_savePendingMsg =
   ["pendingMsgLock.Lock", "pendingMsgLock.Unlock"] := rfl

theorem c01_shape_Overlay_RegisterTree :
    Shapes.overlay_Overlay_RegisterTree =
   ["treeStorage.Set", "o.checkPendingMessages"] := rfl

theorem c01_shape_Overlay_handleSendTree :
    Shapes.overlay_Overlay_handleSendTree =
   ["if:((rt.TreeMarshal==nil)||rt.TreeMarshal.TreeID.IsNil())", "return:",
     "if:(rt.Roster==nil)", "return:", "if:!o.treeStorage.IsRequested(rt.TreeMarshal.TreeID)",
     "return:", "TreeMarshal.MakeTree", "if:(err!=nil)", "return:", "treeStorage.setIfMissing",
     "if:!stored", "return:", "o.checkPendingMessages"] := rfl

theorem c01_shape_TreeNodeInstance_SendTo :
    Shapes.treenode_TreeNodeInstance_SendTo =
   ["if:(to==nil)", "return:xerrors.New(\"\")", "msgDispatchQueueMutex.Lock", "if:n.closing",
     "msgDispatchQueueMutex.Unlock", "return:xerrors.New(\"\")", "msgDispatchQueueMutex.Unlock",
     "configMut.Lock", "if:!n.sentTo[]", "configMut.Unlock", "overlay.SendToTreeNode", "tx.add",
     "if:(err!=nil)", "return:xerrors.Errorf(\"\",err)", "return:nil"] := rfl

theorem c01_shape_TreeNodeInstance_Broadcast :
    Shapes.treenode_TreeNodeInstance_Broadcast =
   ["n.List", "n.TreeNode", "node.Equal", "n.SendTo"] := rfl

theorem c01_shape_TreeNodeInstance_Multicast :
    Shapes.treenode_TreeNodeInstance_Multicast =
   ["n.SendTo"] := rfl

theorem c01_shape_TreeNodeInstance_SendToParent :
    Shapes.treenode_TreeNodeInstance_SendToParent =
   ["if:n.IsRoot()", "return:nil", "n.Parent", "n.SendTo", "if:(err!=nil)",
     "return:xerrors.Errorf(\"\",err)", "return:nil"] := rfl

theorem c01_shape_TreeNodeInstance_SendToChildren :
    Shapes.treenode_TreeNodeInstance_SendToChildren =
   ["if:n.IsLeaf()", "return:nil", "n.Children", "n.SendTo", "if:(err!=nil)",
     "return:xerrors.Errorf(\"\",err)", "return:nil"] := rfl

theorem c01_shape_TreeNodeInstance_SendToChildrenInParallel :
    Shapes.treenode_TreeNodeInstance_SendToChildrenInParallel =
   ["n.IsLeaf", "n.Children", "node.Name", "wg.Add", "go{", "n.SendTo", "eMut.Lock",
     "eMut.Unlock", "wg.Done", "}", "wg.Wait"] := rfl

theorem c01_shape_Overlay_SendToTreeNode :
    Shapes.overlay_Overlay_SendToTreeNode =
   ["from.ChangeTreeNodeID", "if:(c!=nil)", "tokenTo.ID", "io.Wrap", "if:(err!=nil)",
     "return:0,xerrors.Errorf(\"\",err)", "if:(confMsg!=nil)", "server.Send", "else",
     "server.Send", "if:(err!=nil)", "return:sentLen,err"] := rfl

theorem c01_shape_router_Router_Send :
    Shapes.network_router_Router_Send =
   ["msgTraffic.updateTx", "ServerIdentity.GetID", "e.GetID", "GetID().Equal", "MessageType",
     "r.Dispatch", "Marshal", "e.GetID", "r.connection", "r.connect", "c.Send", "r.connect",
     "c.Send"] := rfl

theorem c01_shape_router_Router_connect :
    Shapes.network_router_Router_connect =
   ["host.Connect", "c.Send", "c.Close", "verifC10Point", "r.registerConnection", "c.Close",
     "verifC10Point", "r.launchHandleRoutine"] := rfl

theorem c01_shape_router_Router_registerConnection :
    Shapes.network_router_Router_registerConnection =
   ["r.Lock", "defer:r.Unlock", "if:r.isClosed", "return:xerrors.Errorf(\"\",ErrClosed)",
     "remote.GetID", "if:okc", "remote.GetID", "remote.GetID", "return:nil"] := rfl

theorem c01_shape_router_Router_connection :
    Shapes.network_router_Router_connection =
   ["r.Lock", "defer:r.Unlock", "if:(len(arr)==0)", "return:nil", "return:arr[]"] := rfl

theorem c01_shape_Overlay_Process :
    Shapes.overlay_Overlay_Process =
   ["MsgType.Equal", "o.handleConfigMessage", "protoIO.getByPacketType", "io.Unwrap",
     "o.handleRequestTree", "o.handleSendTree", "o.handleSendTreeMarshal",
     "o.handleRequestRoster", "o.handleSendRoster", "network.MessageType", "o.TransmitMsg"] := rfl


end C01
