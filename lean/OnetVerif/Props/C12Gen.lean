import OnetVerif.Model.C12
import OnetVerif.Gen.C12
/-! Property C12 — the definitions regenerated from the Go source (`Gen/C12.lean`, written by `harness/cmd/go2lean` on
every check run from `tree.go`): the three wrappers `Roster.GenerateNaryTree`, `GenerateBinaryTree`, `GenerateStar`.
`GenerateNaryTreeWithRoot` (nested loops, `break`) is outside the translated subset; it is a **parameter** of the
translated wrappers (`genWithRoot`, configured in `meta/go2lean.json`), so that what the wrappers add — root `nil`,
`N = 2`, `N = len(ro.List) - 1` — is re-derived from the source.  The theorems hold for every such function and are
then instantiated with the model's `genNaryKeys`.  Nothing imports this file. -/
namespace C12

/-- the wrappers for an arbitrary `GenerateNaryTreeWithRoot`: the first server is the root (`nil`), a binary tree
has `N = 2`, a star has `N = len(ro.List) - 1` -/
theorem c12_gen_wrappers (g : Gen.C12.Roster → Int → Option Nat → Outcome Nodes) (ro : Gen.C12.Roster) (N : Int) :
    Gen.C12.Roster_GenerateNaryTree ro N g = g ro N none ∧
    Gen.C12.Roster_GenerateBinaryTree ro g = g ro 2 none ∧
    Gen.C12.Roster_GenerateStar ro g = g ro (Gen.Rt.len ro.List - 1) none := ⟨rfl, rfl, rfl⟩

/-- a roster of the translation over these keys (no nil entry) -/
def rosterOfKeys (keys : List Nat) : Gen.C12.Roster := { List := keys.map some }

/-- the model's `GenerateNaryTreeWithRoot` as the parameter: the keys of the roster, `N` as a natural number -/
def modelGen (ro : Gen.C12.Roster) (N : Int) (root : Option Nat) : Outcome Nodes :=
  genNaryKeys N.toNat (ro.List.filterMap id) root

private theorem keys_back (keys : List Nat) : (rosterOfKeys keys).List.filterMap id = keys := by
  simp [rosterOfKeys, List.filterMap_map]

/-- **the translated wrappers over the model's generator are the model's `genNaryFirst`, `genBinary`, `genStar`** on a
roster of `n ≥ 1` servers -/
theorem c12_gen_wrappers_model (keys : List Nat) (hne : keys ≠ []) (N : Nat) :
    Gen.C12.Roster_GenerateNaryTree (rosterOfKeys keys) N modelGen = genNaryFirst N keys.length ∧
    Gen.C12.Roster_GenerateBinaryTree (rosterOfKeys keys) modelGen = genBinary keys.length ∧
    Gen.C12.Roster_GenerateStar (rosterOfKeys keys) modelGen = genStar keys.length := by
  have hlen : Gen.Rt.len (rosterOfKeys keys).List = (keys.length : Int) := by simp [Gen.Rt.len, rosterOfKeys]
  refine ⟨?_, ?_, ?_⟩
  · simp [Gen.C12.Roster_GenerateNaryTree, modelGen, keys_back, genNaryKeys, hne, genNaryFirst]
  · simp [Gen.C12.Roster_GenerateBinaryTree, Gen.C12.Roster_GenerateNaryTree, modelGen, keys_back, genNaryKeys, hne,
      genBinary, genNaryFirst]
  · have : Int.toNat ((keys.length : Int) - 1) = keys.length - 1 := by omega
    simp [Gen.C12.Roster_GenerateStar, Gen.C12.Roster_GenerateNaryTree, modelGen, keys_back, genNaryKeys, hne,
      genStar, genNaryFirst, hlen, this]

/-- on the empty roster every wrapper is the index panic of `ro.List[0]` -/
theorem c12_gen_wrappers_empty :
    Gen.C12.Roster_GenerateBinaryTree (rosterOfKeys []) modelGen = .panic ∧
    Gen.C12.Roster_GenerateStar (rosterOfKeys []) modelGen = .panic := by
  constructor <;> rfl

/-! ### `TreeNode.IsRoot`, `TreeNode.IsLeaf`, `Tree.IsNary` on the pointer tree

The translated `TreeNode` keeps `Parent` (a pointer that may be nil: an option) and `Children`.  `Tree.IsNary` calls
itself on every child: the translation takes fuel, one unit per call, and `none` is "out of fuel". -/

private theorem len_zero {α} (l : List α) : (Gen.Rt.len l == 0) = l.isEmpty := by
  cases l with
  | nil => rfl
  | cons a r =>
    have h : ¬ (((r.length : Nat) : Int) + 1 = 0) := by omega
    simp [Gen.Rt.len, h]

/-- `IsRoot`: no parent -/
theorem c12_gen_IsRoot_eq (t : Gen.C12.TreeNode) : Gen.C12.TreeNode_IsRoot t = t.Parent.isNone := rfl

/-- `IsLeaf`: no children -/
theorem c12_gen_IsLeaf_eq (t : Gen.C12.TreeNode) : Gen.C12.TreeNode_IsLeaf t = t.Children.isEmpty := by
  unfold Gen.C12.TreeNode_IsLeaf
  exact len_zero _

/-- the height of a pointer tree (a leaf has height 0), with fuel of its own -/
def heightF : Nat → Gen.C12.TreeNode → Nat
  | 0, _ => 0
  | f + 1, t => (t.Children.map fun c => heightF f c + 1).foldl max 0

/-- what `IsNary` decides, on `f` levels: every node has `N` children or none -/
def naryF (N : Int) : Nat → Gen.C12.TreeNode → Bool
  | 0, _ => true
  | f + 1, t => ((Int.ofNat t.Children.length == N) || t.Children.isEmpty) && t.Children.all (naryF N f)

/-- **`Tree.IsNary` as translated**: with fuel it either runs out (`none`) or decides exactly "every node down to the
level the fuel reaches has `N` children or none" — the loop returns `false` at the first child that is not `N`-ary
and `true` after the last -/
theorem c12_gen_IsNary_eq (t : Outcome Nodes) (N : Int) :
    ∀ (fuel : Nat) (root : Gen.C12.TreeNode) (r : Bool),
      Gen.C12.Tree_IsNary fuel t root N = some r → r = naryF N fuel root := by
  intro fuel
  induction fuel with
  | zero => intro root r h; simp [Gen.C12.Tree_IsNary] at h
  | succ f ih =>
    intro root r h
    unfold Gen.C12.Tree_IsNary at h
    simp only [naryF]
    have hlen : ((Gen.Rt.len root.Children != N) && (Gen.Rt.len root.Children != 0)) =
        !((Int.ofNat root.Children.length == N) || root.Children.isEmpty) := by
      have h0 := len_zero root.Children
      have h1 : (Gen.Rt.len root.Children != N) = !(Int.ofNat root.Children.length == N) := rfl
      have h2 : (Gen.Rt.len root.Children != 0) = !(Gen.Rt.len root.Children == 0) := rfl
      rw [h1, h2, h0, Bool.not_or]
    simp only [] at h
    rw [hlen] at h
    cases hc : ((Int.ofNat root.Children.length == N) || root.Children.isEmpty)
    · rw [hc] at h
      simp only [Bool.not_false, if_true, Option.some.injEq] at h
      simp [← h]
    · rw [hc] at h
      simp only [Bool.not_true, Bool.false_eq_true, if_false, Bool.true_and] at h ⊢
      -- the loop over the children
      have loop : ∀ cs : List Gen.C12.TreeNode,
          (match Gen.Rt.rangeReturn cs (fun c =>
              match Gen.C12.Tree_IsNary f t c N with
              | none => some none
              | some b => if (!b) = true then some (some false) else none) with
            | some x => x
            | none => some true) = some r → r = cs.all (naryF N f) := by
        intro cs
        induction cs with
        | nil => intro h; simp [Gen.Rt.rangeReturn] at h; simp [← h]
        | cons c rest ihc =>
          intro h
          simp only [Gen.Rt.rangeReturn, List.findSome?_cons] at h ihc
          rcases Option.eq_none_or_eq_some (Gen.C12.Tree_IsNary f t c N) with hn | ⟨b, hb⟩
          · simp [hn] at h
          · have := ih c b hb
            cases b
            · simp only [hb, Bool.not_false, if_true, Option.some.injEq] at h
              simp [← h, ← this]
            · simp only [hb, Bool.not_true, Bool.false_eq_true, if_false] at h
              simp only [List.all_cons, ← this, Bool.true_and]
              exact ihc h
      exact loop _ h

/-- fuel beyond the height of the tree is never used up: the call decides (with `c12_gen_IsNary_eq`: it decides
`naryF` on the whole tree) -/
theorem c12_gen_IsNary_total (t : Outcome Nodes) (N : Int) :
    ∀ (fuel : Nat) (root : Gen.C12.TreeNode), heightF fuel root < fuel →
      ∃ r, Gen.C12.Tree_IsNary fuel t root N = some r := by
  intro fuel
  induction fuel with
  | zero => intro root h; simp at h
  | succ f ih =>
    intro root h
    unfold Gen.C12.Tree_IsNary
    by_cases hc : ((Gen.Rt.len root.Children != N) && (Gen.Rt.len root.Children != 0)) = true
    · exact ⟨false, by simp [hc]⟩
    · simp only [hc, Bool.false_eq_true, if_false]
      have hk : ∀ c ∈ root.Children, heightF f c < f := by
        intro c hm
        have hmax : ∀ (l : List Nat) (a x : Nat), x ∈ l → x ≤ l.foldl max a := by
          intro l
          induction l with
          | nil => intro a x hx; simp at hx
          | cons y ys ihl =>
            intro a x hx
            simp only [List.foldl_cons]
            have hmono : ∀ (zs : List Nat) (a b : Nat), a ≤ b → zs.foldl max a ≤ zs.foldl max b := by
              intro zs
              induction zs with
              | nil => intro a b h; simpa using h
              | cons z zs ihz => intro a b h; simp only [List.foldl_cons]; exact ihz _ _ (by omega)
            have hge : ∀ (zs : List Nat) (a : Nat), a ≤ zs.foldl max a := by
              intro zs
              induction zs with
              | nil => intro a; simp
              | cons z zs ihz => intro a; simp only [List.foldl_cons]; exact Nat.le_trans (by omega) (ihz _)
            rcases List.mem_cons.mp hx with rfl | hx
            · exact Nat.le_trans (by omega) (hge ys _)
            · exact ihl _ _ hx
        have : heightF f c + 1 ≤ heightF (f + 1) root := by
          simp only [heightF]
          exact hmax _ 0 _ (List.mem_map.mpr ⟨c, hm, rfl⟩)
        omega
      have loop : ∀ cs : List Gen.C12.TreeNode, (∀ c ∈ cs, heightF f c < f) →
          ∃ r, (match Gen.Rt.rangeReturn cs (fun c =>
              match Gen.C12.Tree_IsNary f t c N with
              | none => some none
              | some b => if (!b) = true then some (some false) else none) with
            | some x => x
            | none => some true) = some r := by
        intro cs
        induction cs with
        | nil => intro _; exact ⟨true, by simp [Gen.Rt.rangeReturn]⟩
        | cons c rest ihc =>
          intro hall
          obtain ⟨b, hb⟩ := ih c (hall c List.mem_cons_self)
          simp only [Gen.Rt.rangeReturn, List.findSome?_cons, hb] at ihc ⊢
          cases b
          · exact ⟨false, by simp⟩
          · simp only [Bool.not_true, Bool.false_eq_true, if_false]
            exact ihc (fun c' hc' => hall c' (List.mem_cons_of_mem _ hc'))
      exact loop _ hk

/-- a binary tree of three nodes is 2-ary and not 3-ary; its root is a root and no leaf (the hypotheses can be met) -/
example : let leaf : Gen.C12.TreeNode := { Parent := none, Children := [] }
    let root : Gen.C12.TreeNode := { Parent := none, Children := [leaf, leaf] }
    Gen.C12.Tree_IsNary 3 .noTree root 2 = some true ∧ Gen.C12.Tree_IsNary 3 .noTree root 3 = some false ∧
    Gen.C12.TreeNode_IsRoot root = true ∧ Gen.C12.TreeNode_IsLeaf root = false ∧ heightF 3 root < 3 := by
  refine ⟨by decide, by decide, rfl, by decide, by decide⟩
end C12
