import OnetVerif.Model.C12
import OnetVerif.Gen.C12
import OnetVerif.Gen.C12Nary
import OnetVerif.Gen.C12Uses
import OnetVerif.Proofs.C12NaryGen
import OnetVerif.Props.C12
import OnetVerif.Props.C12Flat
import OnetVerif.Props.C12BigDec
import OnetVerif.Props.C12BigSrc
/-! Property C12 — the definitions regenerated from the Go source (`Gen/C12.lean`, written by `harness/cmd/go2lean` on
every check run from `tree.go`): the three wrappers `Roster.GenerateNaryTree`, `GenerateBinaryTree`, `GenerateStar`.
`GenerateNaryTreeWithRoot` (nested loops, `break`) is outside the translated subset; it is a **parameter** of the
translated wrappers (`genWithRoot`, configured in `meta/go2lean.json`), so that what the wrappers add — root `nil`,
`N = 2`, `N = len(ro.List) - 1` — is re-derived from the source.  The theorems hold for every such function and are
then instantiated with the model's `genNaryKeys`.  Nothing imports this file. -/
namespace C12

/-- the wrappers for an arbitrary `GenerateNaryTreeWithRoot`: the first server is the root (`nil`), a binary tree
has `N = 2`, a star has `N = len(ro.List) - 1` -/
theorem c12_gen_wrappers (g : Gen.C12.Roster → Int → Option Nat → Outcome Nodes) (ro : Gen.C12.Roster) (N : Int) :
    Gen.C12.Roster_GenerateNaryTree ro N g = g ro N none ∧
    Gen.C12.Roster_GenerateBinaryTree ro g = g ro 2 none ∧
    Gen.C12.Roster_GenerateStar ro g = g ro (Gen.Rt.len ro.List - 1) none := ⟨rfl, rfl, rfl⟩

/-- a roster of the translation over these keys (no nil entry) -/
def rosterOfKeys (keys : List Nat) : Gen.C12.Roster := { List := keys.map some }

/-- the model's `GenerateNaryTreeWithRoot` as the parameter: the keys of the roster, `N` as a natural number -/
def modelGen (ro : Gen.C12.Roster) (N : Int) (root : Option Nat) : Outcome Nodes :=
  genNaryKeys N.toNat (ro.List.filterMap id) root

private theorem keys_back (keys : List Nat) : (rosterOfKeys keys).List.filterMap id = keys := by
  simp [rosterOfKeys, List.filterMap_map]

/-- **the translated wrappers over the model's generator are the model's `genNaryFirst`, `genBinary`, `genStar`** on a
roster of `n ≥ 1` servers -/
theorem c12_gen_wrappers_model (keys : List Nat) (hne : keys ≠ []) (N : Nat) :
    Gen.C12.Roster_GenerateNaryTree (rosterOfKeys keys) N modelGen = genNaryFirst N keys.length ∧
    Gen.C12.Roster_GenerateBinaryTree (rosterOfKeys keys) modelGen = genBinary keys.length ∧
    Gen.C12.Roster_GenerateStar (rosterOfKeys keys) modelGen = genStar keys.length := by
  have hlen : Gen.Rt.len (rosterOfKeys keys).List = (keys.length : Int) := by simp [Gen.Rt.len, rosterOfKeys]
  refine ⟨?_, ?_, ?_⟩
  · simp [Gen.C12.Roster_GenerateNaryTree, modelGen, keys_back, genNaryKeys, hne, genNaryFirst]
  · simp [Gen.C12.Roster_GenerateBinaryTree, Gen.C12.Roster_GenerateNaryTree, modelGen, keys_back, genNaryKeys, hne,
      genBinary, genNaryFirst]
  · have : Int.toNat ((keys.length : Int) - 1) = keys.length - 1 := by omega
    simp [Gen.C12.Roster_GenerateStar, Gen.C12.Roster_GenerateNaryTree, modelGen, keys_back, genNaryKeys, hne,
      genStar, genNaryFirst, hlen, this]

/-- on the empty roster every wrapper is the index panic of `ro.List[0]` -/
theorem c12_gen_wrappers_empty :
    Gen.C12.Roster_GenerateBinaryTree (rosterOfKeys []) modelGen = .panic ∧
    Gen.C12.Roster_GenerateStar (rosterOfKeys []) modelGen = .panic := by
  constructor <;> rfl

/-! ### `TreeNode.IsRoot`, `TreeNode.IsLeaf`, `Tree.IsNary` on the pointer tree

The translated `TreeNode` keeps `Parent` (a pointer that may be nil: an option) and `Children`.  `Tree.IsNary` calls
itself on every child: the translation takes fuel, one unit per call, and `none` is "out of fuel". -/

private theorem len_zero {α} (l : List α) : (Gen.Rt.len l == 0) = l.isEmpty := by
  cases l with
  | nil => rfl
  | cons a r =>
    have h : ¬ (((r.length : Nat) : Int) + 1 = 0) := by omega
    simp [Gen.Rt.len, h]

/-- `IsRoot`: no parent -/
theorem c12_gen_IsRoot_eq (t : Gen.C12.TreeNode) : Gen.C12.TreeNode_IsRoot t = t.Parent.isNone := rfl

/-- `IsLeaf`: no children -/
theorem c12_gen_IsLeaf_eq (t : Gen.C12.TreeNode) : Gen.C12.TreeNode_IsLeaf t = t.Children.isEmpty := by
  unfold Gen.C12.TreeNode_IsLeaf
  exact len_zero _

/-- the height of a pointer tree (a leaf has height 0), with fuel of its own -/
def heightF : Nat → Gen.C12.TreeNode → Nat
  | 0, _ => 0
  | f + 1, t => (t.Children.map fun c => heightF f c + 1).foldl max 0

/-- what `IsNary` decides, on `f` levels: every node has `N` children or none -/
def naryF (N : Int) : Nat → Gen.C12.TreeNode → Bool
  | 0, _ => true
  | f + 1, t => ((Int.ofNat t.Children.length == N) || t.Children.isEmpty) && t.Children.all (naryF N f)

/-- **`Tree.IsNary` as translated**: with fuel it either runs out (`none`) or decides exactly "every node down to the
level the fuel reaches has `N` children or none" — the loop returns `false` at the first child that is not `N`-ary
and `true` after the last -/
theorem c12_gen_IsNary_eq (t : Outcome Nodes) (N : Int) :
    ∀ (fuel : Nat) (root : Gen.C12.TreeNode) (r : Bool),
      Gen.C12.Tree_IsNary fuel t root N = some r → r = naryF N fuel root := by
  intro fuel
  induction fuel with
  | zero => intro root r h; simp [Gen.C12.Tree_IsNary] at h
  | succ f ih =>
    intro root r h
    unfold Gen.C12.Tree_IsNary at h
    simp only [naryF]
    have hlen : ((Gen.Rt.len root.Children != N) && (Gen.Rt.len root.Children != 0)) =
        !((Int.ofNat root.Children.length == N) || root.Children.isEmpty) := by
      have h0 := len_zero root.Children
      have h1 : (Gen.Rt.len root.Children != N) = !(Int.ofNat root.Children.length == N) := rfl
      have h2 : (Gen.Rt.len root.Children != 0) = !(Gen.Rt.len root.Children == 0) := rfl
      rw [h1, h2, h0, Bool.not_or]
    simp only [] at h
    rw [hlen] at h
    cases hc : ((Int.ofNat root.Children.length == N) || root.Children.isEmpty)
    · rw [hc] at h
      simp only [Bool.not_false, if_true, Option.some.injEq] at h
      simp [← h]
    · rw [hc] at h
      simp only [Bool.not_true, Bool.false_eq_true, if_false, Bool.true_and] at h ⊢
      -- the loop over the children
      have loop : ∀ cs : List Gen.C12.TreeNode,
          (match Gen.Rt.rangeReturn cs (fun c =>
              match Gen.C12.Tree_IsNary f t c N with
              | none => some none
              | some b => if (!b) = true then some (some false) else none) with
            | some x => x
            | none => some true) = some r → r = cs.all (naryF N f) := by
        intro cs
        induction cs with
        | nil => intro h; simp [Gen.Rt.rangeReturn] at h; simp [← h]
        | cons c rest ihc =>
          intro h
          simp only [Gen.Rt.rangeReturn, List.findSome?_cons] at h ihc
          rcases Option.eq_none_or_eq_some (Gen.C12.Tree_IsNary f t c N) with hn | ⟨b, hb⟩
          · simp [hn] at h
          · have := ih c b hb
            cases b
            · simp only [hb, Bool.not_false, if_true, Option.some.injEq] at h
              simp [← h, ← this]
            · simp only [hb, Bool.not_true, Bool.false_eq_true, if_false] at h
              simp only [List.all_cons, ← this, Bool.true_and]
              exact ihc h
      exact loop _ h

/-- fuel beyond the height of the tree is never used up: the call decides (with `c12_gen_IsNary_eq`: it decides
`naryF` on the whole tree) -/
theorem c12_gen_IsNary_total (t : Outcome Nodes) (N : Int) :
    ∀ (fuel : Nat) (root : Gen.C12.TreeNode), heightF fuel root < fuel →
      ∃ r, Gen.C12.Tree_IsNary fuel t root N = some r := by
  intro fuel
  induction fuel with
  | zero => intro root h; simp at h
  | succ f ih =>
    intro root h
    unfold Gen.C12.Tree_IsNary
    by_cases hc : ((Gen.Rt.len root.Children != N) && (Gen.Rt.len root.Children != 0)) = true
    · exact ⟨false, by simp [hc]⟩
    · simp only [hc, Bool.false_eq_true, if_false]
      have hk : ∀ c ∈ root.Children, heightF f c < f := by
        intro c hm
        have hmax : ∀ (l : List Nat) (a x : Nat), x ∈ l → x ≤ l.foldl max a := by
          intro l
          induction l with
          | nil => intro a x hx; simp at hx
          | cons y ys ihl =>
            intro a x hx
            simp only [List.foldl_cons]
            have hmono : ∀ (zs : List Nat) (a b : Nat), a ≤ b → zs.foldl max a ≤ zs.foldl max b := by
              intro zs
              induction zs with
              | nil => intro a b h; simpa using h
              | cons z zs ihz => intro a b h; simp only [List.foldl_cons]; exact ihz _ _ (by omega)
            have hge : ∀ (zs : List Nat) (a : Nat), a ≤ zs.foldl max a := by
              intro zs
              induction zs with
              | nil => intro a; simp
              | cons z zs ihz => intro a; simp only [List.foldl_cons]; exact Nat.le_trans (by omega) (ihz _)
            rcases List.mem_cons.mp hx with rfl | hx
            · exact Nat.le_trans (by omega) (hge ys _)
            · exact ihl _ _ hx
        have : heightF f c + 1 ≤ heightF (f + 1) root := by
          simp only [heightF]
          exact hmax _ 0 _ (List.mem_map.mpr ⟨c, hm, rfl⟩)
        omega
      have loop : ∀ cs : List Gen.C12.TreeNode, (∀ c ∈ cs, heightF f c < f) →
          ∃ r, (match Gen.Rt.rangeReturn cs (fun c =>
              match Gen.C12.Tree_IsNary f t c N with
              | none => some none
              | some b => if (!b) = true then some (some false) else none) with
            | some x => x
            | none => some true) = some r := by
        intro cs
        induction cs with
        | nil => intro _; exact ⟨true, by simp [Gen.Rt.rangeReturn]⟩
        | cons c rest ihc =>
          intro hall
          obtain ⟨b, hb⟩ := ih c (hall c List.mem_cons_self)
          simp only [Gen.Rt.rangeReturn, List.findSome?_cons, hb] at ihc ⊢
          cases b
          · exact ⟨false, by simp⟩
          · simp only [Bool.not_true, Bool.false_eq_true, if_false]
            exact ihc (fun c' hc' => hall c' (List.mem_cons_of_mem _ hc'))
      exact loop _ hk

/-- a binary tree of three nodes is 2-ary and not 3-ary; its root is a root and no leaf (the hypotheses can be met) -/
example : let leaf : Gen.C12.TreeNode := { Parent := none, Children := [] }
    let root : Gen.C12.TreeNode := { Parent := none, Children := [leaf, leaf] }
    Gen.C12.Tree_IsNary 3 .noTree root 2 = some true ∧ Gen.C12.Tree_IsNary 3 .noTree root 3 = some false ∧
    Gen.C12.TreeNode_IsRoot root = true ∧ Gen.C12.TreeNode_IsLeaf root = false ∧ heightF 3 root < 3 := by
  refine ⟨by decide, by decide, rfl, by decide, by decide⟩

/-! ### the pointer tree of a tree in creation order, and `Tree.IsNary` on it = the model's flat `isNary` -/

/-- the pointer tree (as far as the translation keeps it: `Parent` nil or not, `Children`) below position `p` of a
parent list, `f` levels deep; a non-root node points to a stub parent (the translated predicates only test it for nil) -/
def toPtr (par : List Nat) : Nat → Nat → Gen.C12.TreeNode
  | 0, p => { Parent := if p = 0 then none else some { Parent := none, Children := [] }, Children := [] }
  | f + 1, p => { Parent := if p = 0 then none else some { Parent := none, Children := [] },
                  Children := (kidsP par p).map (toPtr par f) }

private theorem isEmpty_eq_length_beq {α} (l : List α) : l.isEmpty = (l.length == 0) := by
  cases l <;> rfl

private theorem int_beq (a b : Nat) : ((a : Int) == (b : Int)) = (a == b) := by
  rw [Bool.eq_iff_iff]; simp only [beq_iff_eq]; omega

theorem toPtr_children_length (par : List Nat) (f p : Nat) :
    (toPtr par (f + 1) p).Children.length = par.count p := by
  simp [toPtr, kidsP_length]

/-- `IsRoot` / `IsLeaf` as translated, on the pointer tree of a list: position 0 is the root; a node is a leaf iff
no later node names it as its parent (`arity = 0`) -/
theorem c12_gen_IsRoot_IsLeaf_flat (t : Nodes) (f p : Nat) :
    Gen.C12.TreeNode_IsRoot (toPtr (parentsOf t) (f + 1) p) = (p == 0) ∧
    Gen.C12.TreeNode_IsLeaf (toPtr (parentsOf t) (f + 1) p) = (arity t p == 0) := by
  constructor
  · rw [c12_gen_IsRoot_eq]
    by_cases h : p = 0 <;> simp [toPtr, h]
  · rw [c12_gen_IsLeaf_eq, arity_eq_count, ← kidsP_length]
    simp only [toPtr, List.isEmpty_map]
    exact isEmpty_eq_length_beq _

private theorem naryF_toPtr (par : List Nat) (M : Nat) :
    ∀ (f p : Nat), naryF (Int.ofNat M) f (toPtr par f p) = naryAtP par M f p := by
  intro f
  induction f with
  | zero => intro p; rfl
  | succ f ih =>
    intro p
    have hl := toPtr_children_length par f p
    have h1 : (Int.ofNat (toPtr par (f + 1) p).Children.length == Int.ofNat M) = (par.count p == M) := by
      rw [hl]; exact int_beq _ _
    have h2 : (toPtr par (f + 1) p).Children.isEmpty = (par.count p == 0) := by
      rw [isEmpty_eq_length_beq, hl]
    simp only [naryF, naryAtP, okP, h1, h2]
    congr 1
    simp only [toPtr, List.all_map]
    apply List.all_congr rfl
    intro q
    exact ih q

/-- **the translated `Tree.IsNary` on the pointer tree of a well-formed node list = the model's flat `isNary`**:
for every list in creation order in which every parent precedes its child, with fuel above the number of nodes the
call returns, and it returns `isNary t M` — the recursion from the root reaches every node, the flat predicate looks
at every position.  Falsified by: a recursion that skips a child, stops after the first level, or tests `<= N`. -/
theorem c12_gen_IsNary_flat (t : Nodes) (hne : t ≠ []) (wf : ∀ i m p, 1 ≤ i → t[i]? = some (m, p) → p < i)
    (M fuel : Nat) (hf : t.length ≤ fuel) (x : Outcome Nodes) (r : Bool)
    (h : Gen.C12.Tree_IsNary fuel x (toPtr (parentsOf t) fuel 0) (Int.ofNat M) = some r) :
    r = isNary t M := by
  rw [c12_gen_IsNary_eq x _ fuel _ r h, naryF_toPtr, isNary_eq_allOkP t hne]
  apply naryAtP_root_eq _ _ _ (wfp_of_nodes t wf)
  have : t.length = (parentsOf t).length + 1 := by
    cases t with
    | nil => exact absurd rfl hne
    | cons a r => simp [parentsOf]
  omega


private theorem foldl_max_le (B : Nat) : ∀ (l : List Nat) (a : Nat), a ≤ B → (∀ x ∈ l, x ≤ B) → l.foldl max a ≤ B := by
  intro l
  induction l with
  | nil => intro a ha _; simpa using ha
  | cons y ys ih =>
    intro a ha hall
    simp only [List.foldl_cons]
    exact ih _ (by have := hall y List.mem_cons_self; omega) (fun x hx => hall x (List.mem_cons_of_mem _ hx))

private theorem height_toPtr (par : List Nat) (wf : WFP par) :
    ∀ (f p : Nat), p ≤ par.length → heightF f (toPtr par f p) + p ≤ par.length := by
  intro f
  induction f with
  | zero => intro p hp; simpa [heightF] using hp
  | succ f ih =>
    intro p hp
    simp only [heightF, toPtr, List.map_map]
    have : List.foldl max 0 ((kidsP par p).map ((fun c => heightF f c + 1) ∘ toPtr par f)) ≤ par.length - p := by
      apply foldl_max_le _ _ _ (Nat.zero_le _)
      intro x hx
      obtain ⟨q, hq, rfl⟩ := List.mem_map.mp hx
      obtain ⟨j, hj, hpj, rfl⟩ := mem_kidsP.mp hq
      have := ih (j + 1) (by omega)
      have := wf j hj
      simp only [Function.comp]
      omega
    omega

/-- … and with fuel above the number of nodes the call does return (the height of the pointer tree of a well-formed
list is below the number of its nodes): together with `c12_gen_IsNary_flat`, the translated `IsNary` *is* `isNary` -/
theorem c12_gen_IsNary_flat_total (t : Nodes) (hne : t ≠ []) (wf : ∀ i m p, 1 ≤ i → t[i]? = some (m, p) → p < i)
    (M fuel : Nat) (hf : t.length ≤ fuel) (x : Outcome Nodes) :
    Gen.C12.Tree_IsNary fuel x (toPtr (parentsOf t) fuel 0) (Int.ofNat M) = some (isNary t M) := by
  have hl : t.length = (parentsOf t).length + 1 := by
    cases t with
    | nil => exact absurd rfl hne
    | cons a r => simp [parentsOf]
  have hh := height_toPtr _ (wfp_of_nodes t wf) fuel 0 (Nat.zero_le _)
  obtain ⟨r, hr⟩ := c12_gen_IsNary_total x (Int.ofNat M) fuel (toPtr (parentsOf t) fuel 0) (by omega)
  rw [hr, c12_gen_IsNary_flat t hne wf M fuel hf x r hr]

/-- **for the generated n-ary tree the translated `IsNary(N)`, run on its pointer tree, answers "`N` divides `n − 1`"**
(`c12_nary_isNary_iff` carried over to the code's own recursive predicate) -/
theorem c12_gen_IsNary_generated (N n root fuel : Nat) (hN : 1 ≤ N) (hn : 1 ≤ n) (hr : root < n) (hf : n ≤ fuel)
    (x : Outcome Nodes) :
    Gen.C12.Tree_IsNary fuel x (toPtr (parentsOf (naryClosed N root n)) fuel 0) (Int.ofNat N) =
      some (decide ((n - 1) % N = 0)) := by
  obtain ⟨s1, _, _, s4⟩ := c12_nary_shape N n root hn hr
  have hne : naryClosed N root n ≠ [] := by
    intro h0; rw [h0] at s1; simp at s1; omega
  rw [c12_gen_IsNary_flat_total _ hne s4 N fuel (by omega) x]
  congr 1
  rw [Bool.eq_iff_iff, c12_nary_isNary_iff N n root hN hn]
  simp

/-- non-vacuity: the call does return on the pointer tree of the generated binary tree of 5 and of 6 servers -/
example : Gen.C12.Tree_IsNary 7 .noTree (toPtr (parentsOf (naryClosed 2 1 5)) 7 0) 2 = some true ∧
    Gen.C12.Tree_IsNary 7 .noTree (toPtr (parentsOf (naryClosed 2 1 6)) 7 0) 2 = some false := by
  constructor <;> decide


/-! ### the decisions of `GenerateBigNaryTree` (module `Gen.C12Big`, proofs in `Props/C12BigDec.lean`)

The function as a whole (a `for cond { … }` with `continue` / `break`, slices of pointers) is hand-modelled; every
*decision* it takes is lifted from the source by `"extract"` and the model is shown to take exactly those. -/

/-- **one turn of the host-avoidance / use-all loop of the model is the source's**: under the loop's invariant
(`0 < ilLen = len(used)`, `roIndex < ilLen`) `pickLoop` tests the extracted loop condition, advances by the extracted
`(roIndex + 1) % ilLen`, `continue`s on the extracted `useAll && used[roIndex]` (dropping `notSameHost` on the extracted
`roIndex == roIndexFirst`), `break`s on the second `roIndex == roIndexFirst`.  Falsified by: `ilLen > 0` for `ilLen > 1`,
`||` for `&&`, the `used` test on the old index, a missing `break` (seed C12r2-B), `roIndex + 2`. -/
theorem c12_gen_big_pickLoop_step (c : BigCfg) (used : List Bool) (parentHost first fuel ro ch : Nat) (ns : Bool)
    (hl : used.length = c.ilLen) (hro : ro < c.ilLen) :
    pickLoop c used parentHost first (fuel + 1) ro ch ns =
      (if Gen.C12Big.pickCond used (Gen.C12Big.useAll c.ilLen c.nodes) c.ilLen parentHost ro ch ns = some true then
        let ro' := ((Gen.C12Big.roIndexNext ro c.ilLen).getD 0).toNat
        if Gen.C12Big.pickUsed used (Gen.C12Big.useAll c.ilLen c.nodes) ro' = some true then
          pickLoop c used parentHost first fuel ro' ch (if Gen.C12Big.pickRound ro' first then false else ns)
        else if Gen.C12Big.pickRound2 ro' first then some ro'
        else pickLoop c used parentHost first fuel ro' (c.hosts.getD ro' 0) ns
      else some ro) :=
  bigdec_pickLoop_step c used parentHost first fuel ro ch ns hl hro

/-- **the child-count arithmetic of the model is the source's**: inside the level loop (`totalNodes ≤ nodes`, a level is
never empty) the extracted `(nodes - totalNodes) * (i + 1) / len(levelNodes)` does not panic, is the model's quotient,
and `childCount` is that number capped by the extracted `children > N`.  Falsified by: `i` for `i + 1`, `>=` for `>`
(mutant `C12_big_no_branching_cap`), a rounded-up quotient (seed C12r2-A). -/
theorem c12_gen_big_children (c : BigCfg) (levelNodes : List Int) (i total : Nat) (hL : 0 < levelNodes.length)
    (ht : total ≤ c.nodes) :
    ∃ ch : Nat, Gen.C12Big.children c.nodes total i levelNodes = some (ch : Int) ∧
      ch = (c.nodes - total) * (i + 1) / levelNodes.length ∧
      childCount c levelNodes.length i total = (if Gen.C12Big.childrenCap ch c.N then c.N else ch) :=
  bigdec_children c levelNodes i total hL ht

/-- the remaining conditions: `useAll := ilLen == nodes`, the level loop `totalNodes < nodes` (the test of `bigLoop`),
the child loop `n < children`, the first index `1 % ilLen` -/
theorem c12_gen_big_conditions (c : BigCfg) (total n ch : Nat) :
    Gen.C12Big.useAll c.ilLen c.nodes = c.useAll ∧
    Gen.C12Big.levelCond total c.nodes = decide (total < c.nodes) ∧
    Gen.C12Big.childCond n ch = decide (n < ch) ∧
    (0 < c.ilLen → Gen.C12Big.roIndex0 c.ilLen = some ((1 % c.ilLen : Nat) : Int)) :=
  ⟨bigdec_useAll c, bigdec_levelCond total c.nodes, bigdec_childCond n ch, bigdec_roIndex0 c.ilLen⟩

/-- non-vacuity: on the roster of the known finding (5 servers on two alternating hosts) the loop condition holds at
the first pick below the root (the candidate sits on the parent's host), and the search moves to server 2 -/
example : Gen.C12Big.pickCond [true, false, false, false, false] false 5 0 1 1 true = some false ∧
    Gen.C12Big.pickCond [true, true, false, false, false] false 5 0 2 0 true = some true ∧
    Gen.C12Big.roIndexNext 2 5 = some 3 := by decide

/-! ### `Roster.GenerateNaryTreeWithRoot` itself (round 7)

`Gen/C12Nary.lean` is the translation of the whole function: the counted `for` is `Gen.Rt.loop` over `Gen.Rt.upto 1 len`,
the state are the slices `parents`, `children` (positions of nodes) and the heap of nodes (`C12.Nodes`: `NewTreeNode`
appends a node, `AddChild` names its parent, `SubtreeCount` is the model's `subtreeCount` — the table of
`meta/go2lean.json`, module `Gen.C12Nary`); index and slice panics and the division by zero of `%` are `none`.
Helper lemmas: `Proofs/C12NaryGen.lean`. -/

/-- **the regenerated `GenerateNaryTreeWithRoot` is the model's `genNaryKeys`**, for every roster (by keys, empty
included), every `N` and every root (`nil`, a member, a stranger): same tree, same `nil` answer, and a run-time panic
exactly where the model says `panic` (`ro.List[0]` on the empty roster, `parents[0]` when `N = 0`).  A change of the
loop (the order of the two tests, the index arithmetic, which slice a new node joins, the parent it gets) changes the
generated text and breaks this theorem. -/
theorem c12_gen_WithRoot_eq (keys : List Nat) (N : Nat) (root : Option Nat) :
    (Gen.C12Nary.Roster_GenerateNaryTreeWithRoot (NaryGen.roster keys) (Int.ofNat N)
        (root.map fun k => { Public := k }) []).map (·.1) = NaryGen.ofOutcome (genNaryKeys N keys root) := by
  cases root with
  | none =>
    by_cases hne : keys = []
    · subst hne; rfl
    · simpa [genNaryKeys, hne] using NaryGen.withRoot_nil keys N hne
  | some k => simpa [genNaryKeys] using NaryGen.withRoot_some keys N k

/-- non-vacuity: a binary tree over seven servers rooted at the third, as generated -/
example : (Gen.C12Nary.Roster_GenerateNaryTreeWithRoot (NaryGen.roster [10, 11, 12, 13, 14, 15, 16]) 2 (some { Public := 12 }) []).map (·.1) =
    some (.tree [(2, 0), (3, 0), (4, 0), (5, 1), (6, 1), (0, 2), (1, 2)]) := by decide

/-- the translation panics on `N = 0` with two servers (`parents[0]` of an empty slice), as the code does -/
example : Gen.C12Nary.Roster_GenerateNaryTreeWithRoot (NaryGen.roster [1, 2, 3]) 0 none [] = none := by decide

/-! ### `Tree.UsesList` (round 7): nested loops with `break` (`Gen/C12Uses.lean`) -/
section UsesList
open Gen.C12Uses

/-- **`Tree.UsesList` as regenerated (two nested `range` loops, `break` out of the inner one, `return false` out of the outer)
says: every roster member's id is the id of some node of `t.List()`** (the node list is a parameter) -/
theorem c12_gen_UsesList_spec (t : Tree) (nodesOf : Tree → List TreeNode) :
    Tree_UsesList t nodesOf = t.Roster.List.all fun p => (nodesOf t).any fun n => n.ServerIdentity.ID == p.ID := by
  unfold Tree_UsesList
  simp only []
  have inner : ∀ (p : ServerIdentity) (nodes : List TreeNode) (found : Bool),
      Gen.Rt.loop (ρ := Gen.Rt.Step Bool Unit) nodes found (fun found (n : TreeNode) =>
          if (((n.ServerIdentity).ID) == (p.ID)) then Gen.Rt.Step.brk true else Gen.Rt.Step.next found) =
        Sum.inr (if nodes.any (fun n => n.ServerIdentity.ID == p.ID) then true else found) := by
    intro p nodes
    induction nodes with
    | nil => intro found; rfl
    | cons n r ih =>
      intro found
      by_cases h : (n.ServerIdentity.ID == p.ID) = true
      · simp [Gen.Rt.loop, h]
      · have h' : (n.ServerIdentity.ID == p.ID) = false := by simpa using h
        simp only [Gen.Rt.loop, h', Bool.false_eq_true, if_false, List.any_cons, Bool.false_or]
        exact ih found
  simp only [inner]
  generalize t.Roster.List = ro
  induction ro with
  | nil => rfl
  | cons p r ih =>
    by_cases h : ((nodesOf t).any fun n => n.ServerIdentity.ID == p.ID) = true
    · simp only [Gen.Rt.loop, h, if_true, Bool.not_true, List.all_cons, Bool.true_and]
      simpa using ih
    · simp [Gen.Rt.loop, h]

private theorem getD_lt (l : List Nat) (i : Nat) (h : i < l.length) : l.getD i 0 = l[i] := by
  simp [List.getD_eq_getElem?_getD, h]

/-- on a roster of distinct keys and a tree given by its node list (roster indices in range) that is the model's `usesList` -/
theorem c12_gen_UsesList_model (keys : List Nat) (hnd : keys.Nodup) (t : Nodes) (hin : ∀ x ∈ t, x.1 < keys.length) :
    Tree_UsesList { Roster := { List := keys.map fun k => { ID := k } } }
      (fun _ => t.map fun x => { ServerIdentity := { ID := keys.getD x.1 0 } }) = usesList t keys.length := by
  rw [c12_gen_UsesList_spec]
  unfold usesList
  rw [Bool.eq_iff_iff]
  simp only [List.all_eq_true, List.any_eq_true, List.mem_map, List.mem_range, beq_iff_eq]
  constructor
  · intro h m hm
    obtain ⟨n, ⟨x, hx, rfl⟩, hn⟩ := h { ID := keys[m] } ⟨keys[m], List.getElem_mem hm, rfl⟩
    refine ⟨x, hx, ?_⟩
    have hx1 := hin x hx
    simp only [getD_lt _ _ hx1] at hn
    exact (List.getElem?_inj hx1 hnd (j := m)).mp (by simp [hx1, hm, hn])
  · rintro h p ⟨k, hk, rfl⟩
    obtain ⟨m, hm, rfl⟩ := List.mem_iff_getElem.mp hk
    obtain ⟨x, hx, hxm⟩ := h m hm
    refine ⟨_, ⟨x, hx, rfl⟩, ?_⟩
    subst hxm
    simp [List.getElem?_eq_getElem hm]

end UsesList


/-- **the model's host-avoidance / use-all loop is the loop of the source's decisions, for every number of turns**:
`pickLoopSrc` (Props/C12BigDec.lean) is the Go loop written with the extracted conditions and arithmetic only;
`pickLoop` equals it under the invariant `roIndex < ilLen = len(used)` (kept by `(roIndex + 1) % ilLen`), and so does
`pick` — the server of the next child — started as the source starts the loop.  With it `c12_big_terminates`,
`c12_big_use_all`, `c12_big_wellformed` are statements about a loop every decision of which is regenerated. -/
theorem c12_gen_big_pickLoop_eq (c : BigCfg) (used : List Bool) (parentHost first : Nat) (hl : used.length = c.ilLen)
    (fuel ro ch : Nat) (ns : Bool) (hro : ro < c.ilLen) :
    pickLoop c used parentHost first fuel ro ch ns = pickLoopSrc c used parentHost first fuel ro ch ns :=
  bigdec_pickLoop_eq c used parentHost first hl fuel ro ch ns hro

theorem c12_gen_big_pick_eq (c : BigCfg) (st : BigSt) (parentHost : Nat) (hl : st.used.length = c.ilLen)
    (hro : st.roIndex < c.ilLen) :
    pick c st parentHost =
      pickLoopSrc c st.used parentHost st.roIndex (2 * c.ilLen + 3) st.roIndex (c.hosts.getD st.roIndex 0) true :=
  bigdec_pick_eq c st parentHost hl hro

/-- non-vacuity (the known finding's roster, 5 servers on two alternating hosts, N 3, 4 nodes): the source's loop picks
server 1 for the first child of the root, as the model does -/
example : pickLoopSrc ⟨3, 4, [0, 1, 0, 1, 0]⟩ [true, false, false, false, false] 0 1 13 1 1 true = some 1 ∧
    pick ⟨3, 4, [0, 1, 0, 1, 0]⟩ ⟨[true, false, false, false, false], 1, 1⟩ 0 = some 1 := by decide


/-- **the guard of `NewRosterWithRoot`, lifted from the source, is the model's "no roster"**: with `rootIndex` the
result of `Search` (−1: not found) the extracted `rootIndex < 0` holds exactly when `withRootKeys` is `none`
(`c12_withroot_tree`: exactly when the root is no member).  Falsified by the seeded change C12r7-A (the guard replaced
by `rootIndex > 0` around the exchange: a stranger gets the roster in its old order). -/
theorem c12_gen_withRoot_guard (keys : List Nat) (k : Nat) :
    Gen.C12Big.withRoot_guard (searchInt keys k) = (withRootKeys keys k).isNone :=
  bigdec_withRoot_guard keys k

example : Gen.C12Big.withRoot_guard (searchInt [5, 6, 7] 9) = true ∧ Gen.C12Big.withRoot_guard (searchInt [5, 6, 7] 7) = false := by
  decide


/-- **the hand model of `GenerateBigNaryTree` is the loop nest of the source's decisions**: `genBigSrc`
(Props/C12BigSrc.lean) is the function written with the extracted `Gen.C12Big.*` only — the empty-roster panic, `useAll`,
`1 % ilLen`, the level loop `totalNodes < nodes`, `children` with its cap, the child loop `n < children`, the pick loop —
and `genBig` equals it for every branching factor, every host layout and every `nodes ≥ 1` (induction through the three
loops; invariants `len(used) = ilLen`, `roIndex < ilLen`, `totalNodes ≤ nodes`, a level is never empty).  Every theorem
about the big generator (`c12_big_wellformed`, `c12_big_terminates`, `c12_big_use_all`, the two negation witnesses) is
thereby a theorem about a function all of whose decisions are regenerated from `tree.go` on every run; what stays by
hand is the nesting and the four bookkeeping statements, pinned by the `+full` shape. -/
theorem c12_gen_big_eq_src (c : BigCfg) (hnodes : 1 ≤ c.nodes) : genBig c = genBigSrc c :=
  genBig_eq_src c hnodes

/-- non-vacuity: on the known finding's input (3 servers on one host, N 2, 7 nodes) the source's loop nest returns the
tree with the repeated servers -/
example : genBigSrc ⟨2, 7, [0, 0, 0]⟩ = .tree [[(0, 0)], [(1, 0), (2, 0)], [(0, 0), (1, 0), (2, 1), (0, 1)]] := by
  decide

end C12
