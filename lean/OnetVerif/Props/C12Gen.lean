import OnetVerif.Model.C12
import OnetVerif.Gen.C12
/-! Property C12 — the definitions regenerated from the Go source (`Gen/C12.lean`, written by `harness/cmd/go2lean` on
every check run from `tree.go`): the three wrappers `Roster.GenerateNaryTree`, `GenerateBinaryTree`, `GenerateStar`.
`GenerateNaryTreeWithRoot` (nested loops, `break`) is outside the translated subset; it is a **parameter** of the
translated wrappers (`genWithRoot`, configured in `meta/go2lean.json`), so that what the wrappers add — root `nil`,
`N = 2`, `N = len(ro.List) - 1` — is re-derived from the source.  The theorems hold for every such function and are
then instantiated with the model's `genNaryKeys`.  Nothing imports this file. -/
namespace C12

/-- the wrappers for an arbitrary `GenerateNaryTreeWithRoot`: the first server is the root (`nil`), a binary tree
has `N = 2`, a star has `N = len(ro.List) - 1` -/
theorem c12_gen_wrappers (g : Gen.C12.Roster → Int → Option Nat → Outcome Nodes) (ro : Gen.C12.Roster) (N : Int) :
    Gen.C12.Roster_GenerateNaryTree ro N g = g ro N none ∧
    Gen.C12.Roster_GenerateBinaryTree ro g = g ro 2 none ∧
    Gen.C12.Roster_GenerateStar ro g = g ro (Gen.Rt.len ro.List - 1) none := ⟨rfl, rfl, rfl⟩

/-- a roster of the translation over these keys (no nil entry) -/
def rosterOfKeys (keys : List Nat) : Gen.C12.Roster := { List := keys.map some }

/-- the model's `GenerateNaryTreeWithRoot` as the parameter: the keys of the roster, `N` as a natural number -/
def modelGen (ro : Gen.C12.Roster) (N : Int) (root : Option Nat) : Outcome Nodes :=
  genNaryKeys N.toNat (ro.List.filterMap id) root

private theorem keys_back (keys : List Nat) : (rosterOfKeys keys).List.filterMap id = keys := by
  simp [rosterOfKeys, List.filterMap_map]

/-- **the translated wrappers over the model's generator are the model's `genNaryFirst`, `genBinary`, `genStar`** on a
roster of `n ≥ 1` servers -/
theorem c12_gen_wrappers_model (keys : List Nat) (hne : keys ≠ []) (N : Nat) :
    Gen.C12.Roster_GenerateNaryTree (rosterOfKeys keys) N modelGen = genNaryFirst N keys.length ∧
    Gen.C12.Roster_GenerateBinaryTree (rosterOfKeys keys) modelGen = genBinary keys.length ∧
    Gen.C12.Roster_GenerateStar (rosterOfKeys keys) modelGen = genStar keys.length := by
  have hlen : Gen.Rt.len (rosterOfKeys keys).List = (keys.length : Int) := by simp [Gen.Rt.len, rosterOfKeys]
  refine ⟨?_, ?_, ?_⟩
  · simp [Gen.C12.Roster_GenerateNaryTree, modelGen, keys_back, genNaryKeys, hne, genNaryFirst]
  · simp [Gen.C12.Roster_GenerateBinaryTree, Gen.C12.Roster_GenerateNaryTree, modelGen, keys_back, genNaryKeys, hne,
      genBinary, genNaryFirst]
  · have : Int.toNat ((keys.length : Int) - 1) = keys.length - 1 := by omega
    simp [Gen.C12.Roster_GenerateStar, Gen.C12.Roster_GenerateNaryTree, modelGen, keys_back, genNaryKeys, hne,
      genStar, genNaryFirst, hlen, this]

/-- on the empty roster every wrapper is the index panic of `ro.List[0]` -/
theorem c12_gen_wrappers_empty :
    Gen.C12.Roster_GenerateBinaryTree (rosterOfKeys []) modelGen = .panic ∧
    Gen.C12.Roster_GenerateStar (rosterOfKeys []) modelGen = .panic := by
  constructor <;> rfl
end C12
