import OnetVerif.Model.C17Table
import OnetVerif.Gen.C17
/-! Property C17 — the definitions regenerated from the Go source (`Gen/C17.lean`, written by `harness/cmd/go2lean`
on every check run from `network/router.go`): the field `peers` of `validPeers` (a Go map from `PeerSetID` to
`peerSet`, itself a map from `ServerIdentityID` to `struct{}`) and `validPeers.isValid`.  `vpOf` reads the
translated table as the model's `VP` (`none` = nil map = nobody restricted yet; a peer set is the list of its
keys).  `ServerIdentity.GetID` is the model's `Ident.getID` (configured callee: the id of the *key*).  Nothing
imports this file. -/
set_option linter.unusedSimpArgs false
namespace C17

/-- a translated peer set read as the model's list of ids -/
def setOf (s : Gen.Rt.Map PeerId Unit) : List PeerId := (s.getD []).map (·.1)

/-- the translated table read as the model's: the entries a `range` visits (each set id once) -/
def vpOf (g : Gen.C17.validPeers) : VP := g.peers.map fun l => (Gen.Rt.Map.entries l).map fun e => (e.1, setOf e.2)

private theorem find_isSome (s : Gen.Rt.Map PeerId Unit) (k : PeerId) :
    (Gen.Rt.Map.find s k).isSome = (setOf s).contains k := by
  unfold Gen.Rt.Map.find setOf
  induction s.getD [] with
  | nil => rfl
  | cons p rest ih =>
    obtain ⟨k', u⟩ := p
    by_cases h : k = k'
    · subst h; simp [List.lookup]
    · have : (k == k') = false := by simp [h]
      simp [List.lookup, this, ih, h]

/-- **`validPeers.isValid` as translated is the model's `VP.isValid`**: everybody while the table is the nil map,
afterwards exactly the peers whose key's id is a member of one of the sets — the loop over the sets returns
`true` at the first set that has the id and `false` after the last one, so the order in which a Go map is
walked does not matter. -/
theorem c17_gen_isValid_eq (g : Gen.C17.validPeers) (p : Ident) :
    Gen.C17.validPeers_isValid g p = (vpOf g).isValid p := by
  obtain ⟨peers⟩ := g
  cases peers with
  | none => rfl
  | some l =>
    simp only [Gen.C17.validPeers_isValid, Gen.Rt.Map.isNil, Option.isNone_some, Bool.false_eq_true, if_false,
      VP.isValid, vpOf, Option.map_some, Gen.Rt.Map.vals, Option.getD_some, Gen.Rt.rangeReturn, find_isSome]
    induction Gen.Rt.Map.entries l with
    | nil => rfl
    | cons e rest ih =>
      simp only [List.map_cons, List.findSome?_cons, List.any_cons]
      cases h : (setOf e.2).contains p.getID
      · simpa [h] using ih
      · simp [h]
end C17
