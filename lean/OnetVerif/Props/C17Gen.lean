import OnetVerif.Model.C17Table
import OnetVerif.Gen.C17
/-! Property C17 — the definitions regenerated from the Go source (`Gen/C17.lean`, written by `harness/cmd/go2lean`
on every check run from `network/router.go`): the field `peers` of `validPeers` (a Go map from `PeerSetID` to
`peerSet`, itself a map from `ServerIdentityID` to `struct{}`) and `validPeers.isValid`.  `vpOf` reads the
translated table as the model's `VP` (`none` = nil map = nobody restricted yet; a peer set is the list of its
keys).  `ServerIdentity.GetID` is the model's `Ident.getID` (configured callee: the id of the *key*).  Nothing
imports this file. -/
set_option linter.unusedSimpArgs false
namespace C17

/-- a translated peer set read as the model's list of ids -/
def setOf (s : Gen.Rt.Map PeerId Unit) : List PeerId := (s.getD []).map (·.1)

/-- the translated table read as the model's: the entries a `range` visits (each set id once) -/
def vpOf (g : Gen.C17.validPeers) : VP := g.peers.map fun l => (Gen.Rt.Map.entries l).map fun e => (e.1, setOf e.2)

private theorem find_isSome (s : Gen.Rt.Map PeerId Unit) (k : PeerId) :
    (Gen.Rt.Map.find s k).isSome = (setOf s).contains k := by
  unfold Gen.Rt.Map.find setOf
  induction s.getD [] with
  | nil => rfl
  | cons p rest ih =>
    obtain ⟨k', u⟩ := p
    by_cases h : k = k'
    · subst h; simp [List.lookup]
    · have : (k == k') = false := by simp [h]
      simp [List.lookup, this, ih, h]

/-- **`validPeers.isValid` as translated is the model's `VP.isValid`**: everybody while the table is the nil map,
afterwards exactly the peers whose key's id is a member of one of the sets — the loop over the sets returns
`true` at the first set that has the id and `false` after the last one, so the order in which a Go map is
walked does not matter. -/
theorem c17_gen_isValid_eq (g : Gen.C17.validPeers) (p : Ident) :
    Gen.C17.validPeers_isValid g p = (vpOf g).isValid p := by
  obtain ⟨peers⟩ := g
  cases peers with
  | none => rfl
  | some l =>
    simp only [Gen.C17.validPeers_isValid, Gen.Rt.Map.isNil, Option.isNone_some, Bool.false_eq_true, if_false,
      VP.isValid, vpOf, Option.map_some, Gen.Rt.Map.vals, Option.getD_some, Gen.Rt.rangeReturn, find_isSome]
    induction Gen.Rt.Map.entries l with
    | nil => rfl
    | cons e rest ih =>
      simp only [List.map_cons, List.findSome?_cons, List.any_cons]
      cases h : (setOf e.2).contains p.getID
      · simpa [h] using ih
      · simp [h]

/-! ### `validPeers.set` -/

/-- the translated table read entry by entry (an earlier entry hides a later one with the same set id, as `lookup` and
`Map.find` both see it) -/
def rawOf (m : Gen.Rt.Map SetId (Gen.Rt.Map PeerId Unit)) : VP := m.map fun l => l.map fun e => (e.1, setOf e.2)

private theorem fold_put (peers : List Ident) (acc : List (PeerId × Unit)) :
    List.foldl (fun (m : Gen.Rt.Map PeerId Unit) (p : Ident) => Gen.Rt.Map.put m p.getID ()) (some acc) peers =
      some ((peers.reverse.map fun p => (p.getID, ())) ++ acc) := by
  induction peers generalizing acc with
  | nil => rfl
  | cons p rest ih =>
    have step : Gen.Rt.Map.put (some acc) p.getID () = some ((p.getID, ()) :: acc) := rfl
    simp only [List.foldl_cons, step, ih, List.reverse_cons, List.map_append, List.map_cons, List.map_nil,
      List.append_assoc, List.singleton_append]

private theorem lookup_map_snd (l : List (SetId × Gen.Rt.Map PeerId Unit)) (j : SetId) :
    (l.map fun e => (e.1, setOf e.2)).lookup j = (l.lookup j).map setOf := by
  induction l with
  | nil => rfl
  | cons e rest ih =>
    obtain ⟨k, v⟩ := e
    by_cases h : j == k <;> simp [List.lookup, h, ih]

private theorem lookup_filter_ne (l : List (SetId × List PeerId)) (id j : SetId) (h : (j == id) = false) :
    (l.filter fun e => e.1 != id).lookup j = l.lookup j := by
  induction l with
  | nil => rfl
  | cons e rest ih =>
    obtain ⟨k, v⟩ := e
    by_cases hk : (k != id) = true
    · simp only [List.filter_cons, hk, if_true, List.lookup]
      cases hjk : (j == k) <;> simp [ih]
    · have hk' : (k == id) = true := by simpa using hk
      have hjk : (j == k) = false := by
        cases hjk : (j == k)
        · rfl
        · have := beq_iff_eq.mp hjk; have := beq_iff_eq.mp hk'; subst_vars; simp at h
      simp [List.filter_cons, hk, List.lookup, hjk, ih]

/-- **`validPeers.set` as translated is the model's `VP.set`, as an update of a map from set ids to sets of peer
ids**: the call never panics (a nil table is made first); afterwards the set id finds a peer set whose members are
exactly the ids **of the keys** of the given identities (`GetID`, not the wire-supplied field), and every other set id
finds what it found before — entry by entry what `lookup` finds in `VP.set (rawOf …) id peers`. -/
theorem c17_gen_set_eq (g : Gen.C17.validPeers) (id : SetId) (peers : List Ident) :
    ∃ g', Gen.C17.validPeers_set g id peers = some g' ∧
      (∀ j, (j == id) = false →
        ((rawOf g'.peers).getD []).lookup j = ((VP.set (rawOf g.peers) id peers).getD []).lookup j) ∧
      ∃ s, ((rawOf g'.peers).getD []).lookup id = some s ∧
        ((VP.set (rawOf g.peers) id peers).getD []).lookup id = some (peers.map Ident.getID) ∧
        ∀ x, s.contains x = (peers.map Ident.getID).contains x := by
  obtain ⟨tbl⟩ := g
  have hfold := fold_put peers []
  simp only [List.append_nil] at hfold
  -- the table the entry is written into: the old one, or a fresh empty one
  have key : ∀ l : List (SetId × Gen.Rt.Map PeerId Unit), (tbl = some l ∨ (tbl = none ∧ l = [])) →
      ∃ g', Gen.C17.validPeers_set ⟨tbl⟩ id peers = some g' ∧
        g'.peers = some ((id, some (peers.reverse.map fun p => (p.getID, ()))) :: l) := by
    intro l hl
    rcases hl with h | ⟨h, hl⟩
    · subst h
      exact ⟨_, by simp [Gen.C17.validPeers_set, Gen.Rt.Map.isNil, Gen.Rt.Map.insert?, hfold], rfl⟩
    · subst h; subst hl
      exact ⟨_, by simp [Gen.C17.validPeers_set, Gen.Rt.Map.isNil, Gen.Rt.Map.insert?, hfold], rfl⟩
  obtain ⟨l, hl⟩ : ∃ l, tbl = some l ∨ (tbl = none ∧ l = []) := by
    cases tbl with
    | none => exact ⟨[], Or.inr ⟨rfl, rfl⟩⟩
    | some l => exact ⟨l, Or.inl rfl⟩
  obtain ⟨g', hg, hp⟩ := key l hl
  have hraw : (rawOf tbl).getD [] = l.map fun e => (e.1, setOf e.2) := by
    rcases hl with h | ⟨h, hl⟩ <;> subst_vars <;> simp [rawOf]
  refine ⟨g', hg, ?_, ?_⟩
  · intro j hj
    have hraw' : (Option.map (fun l => List.map (fun e => (e.fst, setOf e.snd)) l) tbl).getD [] =
        l.map fun e => (e.1, setOf e.2) := hraw
    simp only [hp, rawOf, Option.map_some, Option.getD_some, List.map_cons, VP.set, hraw', List.lookup, hj]
    rw [lookup_filter_ne _ _ _ hj]
  · refine ⟨setOf (some (peers.reverse.map fun p => (p.getID, ()))), ?_, ?_, ?_⟩
    · simp [hp, rawOf, List.lookup]
    · simp [VP.set, List.lookup]
    · intro x
      simp [setOf, List.map_reverse, Function.comp]
/-! ### `validPeers.get` (round 7)

The function returns the members of a set by ranging over a Go map (`peerList = append(peerList, peer)`): the order of
the result is unspecified.  The translation (`"map_order_canonical"`) walks the keys in the one order of
`Gen.Rt.Map.keys`; the theorem therefore speaks about the result as a *set without repetitions*.  `"nil_slices"`:
the nil slice (returned while the table is the nil map) is `none`, distinguishable from the empty slice. -/

private theorem entriesAux_keys (l : List (PeerId × Unit)) (seen : List PeerId) :
    ((Gen.Rt.Map.entriesAux l seen).map (·.1)).Nodup ∧
    ∀ x, x ∈ (Gen.Rt.Map.entriesAux l seen).map (·.1) ↔ (x ∈ l.map (·.1) ∧ x ∉ seen) := by
  induction l generalizing seen with
  | nil => simp [Gen.Rt.Map.entriesAux]
  | cons e r ih =>
    obtain ⟨k, u⟩ := e
    by_cases hk : seen.contains k = true
    · have hk' : k ∈ seen := by simpa using hk
      simp only [Gen.Rt.Map.entriesAux, hk, if_true]
      refine ⟨(ih seen).1, fun x => ?_⟩
      rw [(ih seen).2 x]
      constructor
      · rintro ⟨h1, h2⟩; exact ⟨by simp [h1], h2⟩
      · rintro ⟨h1, h2⟩
        simp only [List.map_cons, List.mem_cons] at h1
        rcases h1 with h1 | h1
        · subst h1; exact absurd hk' h2
        · exact ⟨h1, h2⟩
    · have hk' : k ∉ seen := by simpa using hk
      have hk2 : seen.contains k = false := by simpa using hk
      simp only [Gen.Rt.Map.entriesAux, hk2, Bool.false_eq_true, if_false, List.map_cons]
      have ih' := ih (k :: seen)
      refine ⟨?_, fun x => ?_⟩
      · refine List.nodup_cons.mpr ⟨?_, ih'.1⟩
        intro hmem
        have := (ih'.2 k).mp hmem
        exact this.2 (by simp)
      · simp only [List.mem_cons, ih'.2 x]
        constructor
        · rintro (h | ⟨h1, h2⟩)
          · subst h; exact ⟨Or.inl rfl, hk'⟩
          · exact ⟨Or.inr h1, fun hs => h2 (Or.inr hs)⟩
        · rintro ⟨h1 | h1, h2⟩
          · exact Or.inl h1
          · by_cases hx : x = k
            · exact Or.inl hx
            · exact Or.inr ⟨h1, fun hs => by rcases hs with hs | hs; exact hx hs; exact h2 hs⟩

/-- **`validPeers.get` as translated**: the nil slice exactly while the table is the nil map (as `VP.get`); otherwise a
list **without repetitions** whose members are exactly the members of the set the model's `VP.get` returns for that set
id (the empty list for an id never set) — the result of the Go function up to the order in which the map is walked. -/
theorem c17_gen_get_eq (g : Gen.C17.validPeers) (id : SetId) :
    ((Gen.C17.validPeers_get g id).isNone = (VP.get (rawOf g.peers) id).isNone) ∧
    ∀ r, Gen.C17.validPeers_get g id = some r →
      r.Nodup ∧ ∀ x, x ∈ r ↔ x ∈ (VP.get (rawOf g.peers) id).getD [] := by
  obtain ⟨tbl⟩ := g
  cases tbl with
  | none => exact ⟨rfl, fun r h => by simp [Gen.C17.validPeers_get, Gen.Rt.Map.isNil] at h⟩
  | some l =>
    have hloop : ∀ (ks acc : List PeerId),
        Gen.Rt.loop (ρ := Option (List PeerId)) ks acc (fun peerList (peer : PeerId) => Gen.Rt.Step.next (peerList ++ [peer])) =
          Sum.inr (acc ++ ks) := by
      intro ks
      induction ks with
      | nil => intro acc; simp [Gen.Rt.loop]
      | cons k r ih => intro acc; simp [Gen.Rt.loop, ih]
    have hget : Gen.C17.validPeers_get ⟨some l⟩ id =
        some (Gen.Rt.Map.keys (Gen.Rt.Map.get (some l) id none)) := by
      simp only [Gen.C17.validPeers_get, Gen.Rt.Map.isNil, Option.isNone_some, Bool.false_eq_true, if_false, hloop,
        List.nil_append]
    refine ⟨by simp [hget, VP.get, rawOf], fun r hr => ?_⟩
    rw [hget] at hr
    cases hr
    have hS : Gen.Rt.Map.get (some l) id none = (l.lookup id).getD none := by
      simp [Gen.Rt.Map.get, Gen.Rt.Map.find]
    have hM : (VP.get (rawOf (some l)) id).getD [] = setOf ((l.lookup id).getD none) := by
      simp only [VP.get, rawOf, Option.map_some, Option.getD_some, lookup_map_snd]
      cases List.lookup id l <;> rfl
    rw [hS, hM]
    have hk := entriesAux_keys (((l.lookup id).getD none).getD []) []
    refine ⟨by simpa [Gen.Rt.Map.keys, Gen.Rt.Map.entries] using hk.1, fun x => ?_⟩
    have hx := hk.2 x
    simp only [List.not_mem_nil, not_false_eq_true, and_true] at hx
    simpa [Gen.Rt.Map.keys, Gen.Rt.Map.entries, setOf] using hx

end C17
