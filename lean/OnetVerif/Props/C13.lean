import OnetVerif.Model.C13
import OnetVerif.Shapes
/-! Property C13 — identifiers are deterministic and distinguish what they identify.

Every identifier is `hash (pre-image)`; the model (`Model/C13.lean`) gives each pre-image byte for
byte.  Determinism is by construction: each identifier is a *function* of the listed fields (Lean
functions have no hidden state — that the Go code has none either is what the correspondence run
checks).  The theorems here are about distinctness: the pre-image functions are injective (tokens,
names, keys), or injective exactly up to a characterised class (rosters, trees) with concrete
collisions inside that class.  Distinct identifiers then follow from collision-freeness of the hash
on the two pre-images involved, which is an explicit hypothesis of every `…_ids_distinct`. -/
namespace C13

/-! ### hex and UUID text forms are injective -/

private theorem hexNib_inj {a b : Nat} (ha : a < 16) (hb : b < 16) (h : hexNib a = hexNib b) : a = b := by
  unfold hexNib at h
  split at h <;> split at h <;> omega

theorem hexAscii_length (l : Bytes) : (hexAscii l).length = 2 * l.length := by
  induction l with
  | nil => rfl
  | cons b r ih => simp [hexAscii, ih]; omega

theorem hexAscii_injective {a b : Bytes} (ha : IsBytes a) (hb : IsBytes b)
    (h : hexAscii a = hexAscii b) : a = b := by
  induction a generalizing b with
  | nil =>
    cases b with
    | nil => rfl
    | cons y ys => simp [hexAscii] at h
  | cons x xs ih =>
    cases b with
    | nil => simp [hexAscii] at h
    | cons y ys =>
      simp only [hexAscii, List.cons.injEq] at h
      have hx : x < 256 := ha x (by simp)
      have hy : y < 256 := hb y (by simp)
      have h1 := hexNib_inj (by omega) (by omega) h.1
      have h2 := hexNib_inj (Nat.mod_lt _ (by omega)) (Nat.mod_lt _ (by omega)) h.2.1
      have hxy : x = y := by omega
      have := ih (fun z hz => ha z (by simp [hz])) (fun z hz => hb z (by simp [hz])) h.2.2
      rw [hxy, this]

private theorem hexNib_ne_dash (n : Nat) : hexNib n ≠ 45 := by
  unfold hexNib; split <;> omega

private theorem hexAscii_no_dash (l : Bytes) : ∀ c ∈ hexAscii l, c ≠ 45 := by
  induction l with
  | nil => simp [hexAscii]
  | cons b r ih =>
    intro c hc
    simp only [hexAscii, List.mem_cons] at hc
    rcases hc with hc | hc | hc
    · rw [hc]; exact hexNib_ne_dash _
    · rw [hc]; exact hexNib_ne_dash _
    · exact ih c hc

private theorem filter_sub_no_dash (h s : Bytes) (hs : ∀ c ∈ s, c ∈ h) (hh : ∀ c ∈ h, c ≠ 45) :
    s.filter (fun c => c != 45) = s :=
  List.filter_eq_self.mpr fun c hc => by simpa using hh c (hs c hc)

/-- removing the dashes from the text form gives back the 32 hex digits -/
private theorem uuidStr_undash (u : Bytes) : (uuidStr u).filter (fun c => c != 45) = hexAscii u := by
  have hh := hexAscii_no_dash u
  have t : ∀ n, ((hexAscii u).take n).filter (fun c => c != 45) = (hexAscii u).take n := fun n =>
    filter_sub_no_dash _ _ (fun c hc => List.mem_of_mem_take hc) hh
  have d : ∀ n, ((hexAscii u).drop n).filter (fun c => c != 45) = (hexAscii u).drop n := fun n =>
    filter_sub_no_dash _ _ (fun c hc => List.mem_of_mem_drop hc) hh
  have td : ∀ n m, (((hexAscii u).drop n).take m).filter (fun c => c != 45) = ((hexAscii u).drop n).take m :=
    fun n m => filter_sub_no_dash _ _ (fun c hc => List.mem_of_mem_drop (List.mem_of_mem_take hc)) hh
  simp only [uuidStr, List.filter_append, t, d, td]
  simp only [List.filter_cons, List.filter_nil, bne_self_eq_false, Bool.false_eq_true, if_false,
    List.append_nil]
  have e1 : ∀ (l : Bytes) (a b : Nat), (l.drop a).take b ++ l.drop (a + b) = l.drop a := by
    intro l a b
    rw [← List.drop_drop]; exact List.take_append_drop b (l.drop a)
  rw [show (20 : Nat) = 16 + 4 from rfl, e1, show (16 : Nat) = 12 + 4 from rfl, e1,
    show (12 : Nat) = 8 + 4 from rfl, e1, List.take_append_drop]

/-- the 36-character text form of a UUID determines its bytes -/
theorem uuidStr_injective {u v : Bytes} (hu : IsBytes u) (hv : IsBytes v)
    (h : uuidStr u = uuidStr v) : u = v := by
  have := congrArg (List.filter (fun c => c != 45)) h
  rw [uuidStr_undash, uuidStr_undash] at this
  exact hexAscii_injective hu hv this

theorem uuidStr_length {u : Bytes} (h : u.length = 16) : (uuidStr u).length = 36 := by
  have := hexAscii_length u
  simp only [uuidStr, List.length_append, List.length_take, List.length_drop, List.length_cons,
    List.length_nil, this, h]
  omega

/-! ### tokens -/

/-- **the token pre-image is injective**: a concatenation of a fixed prefix and six fields of
fixed length, each an injective text form.  Tokens that differ in any field — roster, tree,
protocol, service, round or node — have different pre-images. -/
theorem c13_token_preimage_injective (t₁ t₂ : Token) (h₁ : t₁.WF) (h₂ : t₂.WF)
    (h : tokenPre t₁ = tokenPre t₂) : t₁ = t₂ := by
  obtain ⟨a1, a2, a3, a4, a5, a6⟩ := h₁
  obtain ⟨b1, b2, b3, b4, b5, b6⟩ := h₂
  unfold tokenPre at h
  have h := List.append_cancel_left h
  have l := fun {u v : Bytes} (hu : IsUuid u) (hv : IsUuid v) =>
    (uuidStr_length hu.1).trans (uuidStr_length hv.1).symm
  obtain ⟨e1, h⟩ := List.append_inj h (l a1 b1)
  obtain ⟨e5, h⟩ := List.append_inj h (l a5 b5)
  obtain ⟨e4, h⟩ := List.append_inj h (l a4 b4)
  obtain ⟨e3, h⟩ := List.append_inj h (l a3 b3)
  obtain ⟨e2, e6⟩ := List.append_inj h (l a2 b2)
  cases t₁; cases t₂
  simp only [Token.mk.injEq]
  exact ⟨uuidStr_injective a1.2 b1.2 e1, uuidStr_injective a2.2 b2.2 e2, uuidStr_injective a3.2 b3.2 e3,
    uuidStr_injective a4.2 b4.2 e4, uuidStr_injective a5.2 b5.2 e5, uuidStr_injective a6.2 b6.2 e6⟩

/-- tokens that differ (in whichever field) get different identifiers, as long as the hash does
not collide on their two pre-images -/
theorem c13_token_ids_distinct (H : HashFns) (t₁ t₂ : Token) (h₁ : t₁.WF) (h₂ : t₂.WF) (hne : t₁ ≠ t₂)
    (hcf : uuid5 H (tokenPre t₁) = uuid5 H (tokenPre t₂) → tokenPre t₁ = tokenPre t₂) :
    tokenId H t₁ ≠ tokenId H t₂ :=
  fun h => hne (c13_token_preimage_injective t₁ t₂ h₁ h₂ (hcf h))

/-- non-vacuity: two well-formed tokens that differ in the round only -/
example : ∃ t₁ t₂ : Token, t₁.WF ∧ t₂.WF ∧ t₁ ≠ t₂ ∧ t₁.roster = t₂.roster ∧ t₁.node = t₂.node := by
  let z : Bytes := List.replicate 16 0
  let o : Bytes := List.replicate 16 255
  have hz : IsUuid z := ⟨rfl, by intro b hb; simp [z] at hb; omega⟩
  have ho : IsUuid o := ⟨rfl, by intro b hb; simp [o] at hb; omega⟩
  exact ⟨⟨z, z, z, z, z, z⟩, ⟨z, z, z, z, o, z⟩, ⟨hz, hz, hz, hz, hz, hz⟩, ⟨hz, hz, hz, hz, ho, hz⟩,
    by decide, rfl, rfl⟩

/-! ### names and keys -/

/-- **protocol names, service names, server keys and node keys** are each recovered from the
pre-image of their identifier (fixed prefix, then the name or the hex of the key). -/
theorem c13_name_preimage_injective :
    (∀ n₁ n₂ : Bytes, protoPre n₁ = protoPre n₂ → n₁ = n₂) ∧
    (∀ n₁ n₂ : Bytes, servicePre n₁ = servicePre n₂ → n₁ = n₂) ∧
    (∀ k₁ k₂ : Bytes, IsBytes k₁ → IsBytes k₂ → serverPre k₁ = serverPre k₂ → k₁ = k₂) ∧
    (∀ k₁ k₂ : Bytes, IsBytes k₁ → IsBytes k₂ → nodePre k₁ = nodePre k₂ → k₁ = k₂) :=
  ⟨fun _ _ h => List.append_cancel_left h, fun _ _ h => h,
   fun _ _ h₁ h₂ h => hexAscii_injective h₁ h₂ (List.append_cancel_left h),
   fun _ _ h₁ h₂ h => hexAscii_injective h₁ h₂ h⟩

theorem c13_name_ids_distinct (H : HashFns) (n₁ n₂ : Bytes) (hne : n₁ ≠ n₂) :
    ((uuid3 H (protoPre n₁) = uuid3 H (protoPre n₂) → protoPre n₁ = protoPre n₂) → protoId H n₁ ≠ protoId H n₂) ∧
    ((uuid5 H (servicePre n₁) = uuid5 H (servicePre n₂) → servicePre n₁ = servicePre n₂) → serviceId H n₁ ≠ serviceId H n₂) :=
  ⟨fun hcf h => hne (c13_name_preimage_injective.1 _ _ (hcf h)),
   fun hcf h => hne (c13_name_preimage_injective.2.1 _ _ (hcf h))⟩

theorem c13_key_ids_distinct (H : HashFns) (k₁ k₂ : Bytes) (h₁ : IsBytes k₁) (h₂ : IsBytes k₂) (hne : k₁ ≠ k₂) :
    ((uuid5 H (serverPre k₁) = uuid5 H (serverPre k₂) → serverPre k₁ = serverPre k₂) → serverId H k₁ ≠ serverId H k₂) ∧
    ((uuid5 H (nodePre k₁) = uuid5 H (nodePre k₂) → nodePre k₁ = nodePre k₂) → nodeId H k₁ ≠ nodeId H k₂) :=
  ⟨fun hcf h => hne (c13_name_preimage_injective.2.2.1 _ _ h₁ h₂ (hcf h)),
   fun hcf h => hne (c13_name_preimage_injective.2.2.2 _ _ h₁ h₂ (hcf h))⟩

/-! ### rosters -/

/-- a concatenation of strings is determined piece by piece once the lengths of the pieces are known -/
theorem flatten_injective_of_lengths {k₁ k₂ : List Bytes} (hl : k₁.map List.length = k₂.map List.length)
    (h : k₁.flatten = k₂.flatten) : k₁ = k₂ := by
  induction k₁ generalizing k₂ with
  | nil =>
    cases k₂ with
    | nil => rfl
    | cons _ _ => simp at hl
  | cons x xs ih =>
    cases k₂ with
    | nil => simp at hl
    | cons y ys =>
      simp only [List.map_cons, List.cons.injEq] at hl
      simp only [List.flatten_cons] at h
      obtain ⟨e, h⟩ := List.append_inj h hl.1
      rw [e, ih hl.2 h]

/-- the same for pieces of one common positive length: their number is determined too -/
theorem flatten_injective_uniform {L : Nat} (hL : 0 < L) {k₁ k₂ : List Bytes}
    (h₁ : ∀ k ∈ k₁, k.length = L) (h₂ : ∀ k ∈ k₂, k.length = L)
    (h : k₁.flatten = k₂.flatten) : k₁ = k₂ := by
  induction k₁ generalizing k₂ with
  | nil =>
    cases k₂ with
    | nil => rfl
    | cons y ys =>
      have := h₂ y (by simp)
      have hy := congrArg List.length h
      simp only [List.flatten_nil, List.flatten_cons, List.length_nil, List.length_append] at hy
      omega
  | cons x xs ih =>
    cases k₂ with
    | nil =>
      have := h₁ x (by simp)
      have hy := congrArg List.length h
      simp only [List.flatten_nil, List.flatten_cons, List.length_nil, List.length_append] at hy
      omega
    | cons y ys =>
      simp only [List.flatten_cons] at h
      obtain ⟨e, h⟩ := List.append_inj h ((h₁ x (by simp)).trans (h₂ y (by simp)).symm)
      rw [e, ih (fun k hk => h₁ k (by simp [hk])) (fun k hk => h₂ k (by simp [hk])) h]

/-- the key sequence and the number of service keys per position give the members back -/
theorem members_of_keys {r₁ r₂ : List Member} (hs : r₁.map (·.svcs.length) = r₂.map (·.svcs.length))
    (h : rosterKeys r₁ = rosterKeys r₂) : r₁ = r₂ := by
  induction r₁ generalizing r₂ with
  | nil =>
    cases r₂ with
    | nil => rfl
    | cons _ _ => simp at hs
  | cons m ms ih =>
    cases r₂ with
    | nil => simp at hs
    | cons m' ms' =>
      simp only [List.map_cons, List.cons.injEq] at hs
      simp only [rosterKeys, memberKeys, List.cons_append, List.cons.injEq] at h
      obtain ⟨e, h'⟩ := List.append_inj h.2 hs.1
      cases m; cases m'
      simp only at h e
      rw [h.1, e, ih hs.2 h']

/-- the full statement asked for: the ordered member list (server keys with their per-service
keys, all keys of one length, pairwise distinct) is determined by the roster pre-image -/
def C13_roster_full : Prop :=
  ∀ (L : Nat) (r₁ r₂ : List Member), 0 < L →
    (∀ k ∈ rosterKeys r₁, k.length = L) → (∀ k ∈ rosterKeys r₂, k.length = L) →
    (rosterKeys r₁).Nodup → (rosterKeys r₂).Nodup →
    rosterPre r₁ = rosterPre r₂ → r₁ = r₂

/-- **it is false on the code as it is**: the roster made of one server `A` with a service key `B`
and the roster of the two servers `A, B` have the same pre-image (nothing separates members or
marks service keys).  Replayed against `NewRoster` by the harness (`witness-roster`). -/
theorem c13_roster_collision : ¬ C13_roster_full := by
  intro h
  have := h 1 [⟨[7], [[9]]⟩] [⟨[7], []⟩, ⟨[9], []⟩] (by decide) (by decide) (by decide) (by decide) (by decide)
    (by decide)
  exact absurd this (by decide)

/-- **what does hold**: rosters whose keys have position-wise the same lengths and that give the
same number of service keys to each position are determined by the pre-image (server keys, their
order, and every service key). -/
theorem c13_roster_preimage_injective_partial (r₁ r₂ : List Member)
    (hl : (rosterKeys r₁).map List.length = (rosterKeys r₂).map List.length)
    (hs : r₁.map (·.svcs.length) = r₂.map (·.svcs.length))
    (h : rosterPre r₁ = rosterPre r₂) : r₁ = r₂ :=
  members_of_keys hs (flatten_injective_of_lengths hl h)

/-- **exactly which rosters collide** when all keys have one length (e.g. Ed25519): those with the
same sequence of keys, however it is cut into members and service keys. -/
theorem c13_roster_collision_iff (L : Nat) (hL : 0 < L) (r₁ r₂ : List Member)
    (h₁ : ∀ k ∈ rosterKeys r₁, k.length = L) (h₂ : ∀ k ∈ rosterKeys r₂, k.length = L) :
    rosterPre r₁ = rosterPre r₂ ↔ rosterKeys r₁ = rosterKeys r₂ :=
  ⟨flatten_injective_uniform hL h₁ h₂, fun h => by unfold rosterPre; rw [h]⟩

theorem c13_roster_ids_distinct (H : HashFns) (r₁ r₂ : List Member)
    (hl : (rosterKeys r₁).map List.length = (rosterKeys r₂).map List.length)
    (hs : r₁.map (·.svcs.length) = r₂.map (·.svcs.length)) (hne : r₁ ≠ r₂)
    (hcf : rosterIdOfPre H (rosterPre r₁) = rosterIdOfPre H (rosterPre r₂) → rosterPre r₁ = rosterPre r₂) :
    rosterId H r₁ ≠ rosterId H r₂ :=
  fun h => hne (c13_roster_preimage_injective_partial r₁ r₂ hl hs (hcf h))

/-- non-vacuity: two different rosters of the same layout (two servers, the first with a service key) -/
example : ∃ r₁ r₂ : List Member, r₁ ≠ r₂ ∧
    (rosterKeys r₁).map List.length = (rosterKeys r₂).map List.length ∧
    r₁.map (·.svcs.length) = r₂.map (·.svcs.length) :=
  ⟨[⟨[1, 2], [[3, 4]]⟩, ⟨[5, 6], []⟩], [⟨[5, 6], [[3, 4]]⟩, ⟨[1, 2], []⟩], by decide, by decide, by decide⟩

/-! ### trees -/

/-- all keys of a forest, in depth-first pre-order -/
def keysOf (f : Forest) : List Bytes := (pre f).map (·.1)

/-- the full statement asked for: trees over keys of one length, pairwise distinct (and, to make
the negation as strong as possible, none starting with the marker byte), that differ in shape or in
the placement of members have different depth-first pre-images -/
def C13_tree_full : Prop :=
  ∀ (L : Nat) (f g : Forest), 0 < L → KeysLen L f → KeysLen L g → (keysOf f).Nodup → (keysOf g).Nodup →
    NoMarkHead f → NoMarkHead g → dfs f = dfs g → f = g

/-- `r(a(b,c))` -/
def wT1 : Forest := .node [10] (.node [11] (.node [12] .nil (.node [13] .nil .nil)) .nil) .nil
/-- `r(a(b),c)` -/
def wT2 : Forest := .node [10] (.node [11] (.node [12] .nil .nil) (.node [13] .nil .nil)) .nil

/-- **the depth-first serialisation with leaf markers does not determine the shape**: `r(a(b,c))`
and `r(a(b),c)` over the same four servers have the same pre-image.  Replayed against `NewTree`
by the harness (`witness-tree`). -/
theorem c13_tree_dfs_not_injective : wT1 ≠ wT2 ∧ dfs wT1 = dfs wT2 ∧ keysOf wT1 = keysOf wT2 := by decide

theorem c13_tree_full_fails : ¬ C13_tree_full := by
  intro h
  exact absurd (h 1 wT1 wT2 (by decide) (by simp [KeysLen, wT1]) (by simp [KeysLen, wT2]) (by decide) (by decide)
    (by simp [NoMarkHead, wT1]) (by simp [NoMarkHead, wT2]) (by decide)) (by decide)

/-- `r(a, b(c))` with a key `b = x‖1` -/
def wS1 : Forest := .node [10, 10] (.node [11, 11] .nil (.node [7, 1] (.node [13, 13] .nil .nil) .nil)) .nil
/-- `r(a(b'), c)` with the key `b' = 1‖x` -/
def wS2 : Forest := .node [10, 10] (.node [11, 11] (.node [1, 7] .nil .nil) (.node [13, 13] .nil .nil)) .nil

/-- **a key that starts with the marker byte shifts the reading frame**: two trees hosting
*different sets of servers* (`x‖1` in one, `1‖x` in the other) have the same pre-image.  Replayed
with genuine Ed25519 points by the harness (`witness-tree-shift`). -/
theorem c13_tree_marker_shift_collision : dfs wS1 = dfs wS2 ∧ keysOf wS1 ≠ keysOf wS2 := by decide

private theorem leafMark_shape {c c' : Forest} (h : shape c = shape c') : leafMark c = leafMark c' := by
  cases c <;> cases c' <;> simp_all [shape, leafMark, Forest.isNil]

private theorem dfs_length_shape {L : Nat} {f g : Forest} (hf : KeysLen L f) (hg : KeysLen L g)
    (hs : shape f = shape g) : (dfs f).length = (dfs g).length := by
  induction f generalizing g with
  | nil => cases g with
    | nil => rfl
    | node _ _ _ => simp [shape] at hs
  | node k c s ihc ihs =>
    cases g with
    | nil => simp [shape] at hs
    | node k' c' s' =>
      simp only [shape, Forest.node.injEq, true_and] at hs
      obtain ⟨hk, hc, hs1⟩ := hf
      obtain ⟨hk', hc', hs1'⟩ := hg
      simp only [dfs, List.length_append, ihc hc hc' hs.1, ihs hs1 hs1' hs.2, leafMark_shape hs.1, hk, hk']

/-- **same shape ⇒ the placement of members decides**: two trees (forests) of the same shape over
keys of one length have the same pre-image only if every node hosts the same key. -/
theorem c13_tree_preimage_injective_partial (L : Nat) (f g : Forest) (hf : KeysLen L f) (hg : KeysLen L g)
    (hs : shape f = shape g) (h : dfs f = dfs g) : f = g := by
  induction f generalizing g with
  | nil => cases g with
    | nil => rfl
    | node _ _ _ => simp [shape] at hs
  | node k c s ihc ihs =>
    cases g with
    | nil => simp [shape] at hs
    | node k' c' s' =>
      simp only [shape, Forest.node.injEq, true_and] at hs
      obtain ⟨hk, hc, hs1⟩ := hf
      obtain ⟨hk', hc', hs1'⟩ := hg
      simp only [dfs] at h
      obtain ⟨ek, h⟩ := List.append_inj h (hk.trans hk'.symm)
      rw [leafMark_shape hs.1] at h
      have h := List.append_cancel_left h
      obtain ⟨ec, es⟩ := List.append_inj h (dfs_length_shape hc hc' hs.1)
      rw [ek, ihc c' hc hc' hs.1 ec, ihs s' hs1 hs1' hs.2 es]

/-- the pre-order (key, is-leaf) sequence written out the way `dfs` does -/
def encPre : List (Bytes × Bool) → Bytes
  | [] => []
  | (k, leaf) :: r => k ++ ((if leaf then [1] else []) ++ encPre r)

private theorem encPre_append (a b : List (Bytes × Bool)) : encPre (a ++ b) = encPre a ++ encPre b := by
  induction a with
  | nil => rfl
  | cons x xs ih => obtain ⟨k, l⟩ := x; simp [encPre, ih]

/-- `dfs` sees of a tree only its pre-order (key, is-leaf) sequence -/
theorem dfs_eq_encPre (f : Forest) : dfs f = encPre (pre f) := by
  induction f with
  | nil => rfl
  | node k c s ihc ihs => simp only [dfs, pre, encPre, leafMark, encPre_append, ihc, ihs]

private def GoodSeq (L : Nat) (l : List (Bytes × Bool)) : Prop :=
  ∀ p ∈ l, p.1.length = L ∧ p.1.head? ≠ some 1

private theorem pre_good {L : Nat} {f : Forest} (hk : KeysLen L f) (hm : NoMarkHead f) : GoodSeq L (pre f) := by
  induction f with
  | nil => intro p hp; simp [pre] at hp
  | node k c s ihc ihs =>
    intro p hp
    simp only [pre, List.mem_cons, List.mem_append] at hp
    rcases hp with hp | hp | hp
    · rw [hp]; exact ⟨hk.1, hm.1⟩
    · exact ihc hk.2.1 hm.2.1 p hp
    · exact ihs hk.2.2 hm.2.2 p hp

private theorem encPre_injective {L : Nat} (hL : 0 < L) {a b : List (Bytes × Bool)}
    (ha : GoodSeq L a) (hb : GoodSeq L b) (h : encPre a = encPre b) : a = b := by
  -- a key of positive length that does not start with 1 cannot be mistaken for a marker
  have nohead : ∀ {l : List (Bytes × Bool)} {rest : Bytes}, GoodSeq L l → encPre l = 1 :: rest → False := by
    intro l rest hl he
    cases l with
    | nil => simp [encPre] at he
    | cons p ps =>
      obtain ⟨k, lf⟩ := p
      have := hl (k, lf) (by simp)
      cases k with
      | nil => simp at this; omega
      | cons x xs =>
        simp only [encPre, List.cons_append, List.cons.injEq] at he
        simp [he.1] at this
  induction a generalizing b with
  | nil =>
    cases b with
    | nil => rfl
    | cons p ps =>
      obtain ⟨k, lf⟩ := p
      have hk : k.length = L := (hb (k, lf) (by simp)).1
      have hh := congrArg List.length h
      simp only [encPre, List.length_nil, List.length_append] at hh
      omega
  | cons p ps ih =>
    cases b with
    | nil =>
      obtain ⟨k, lf⟩ := p
      have hk : k.length = L := (ha (k, lf) (by simp)).1
      have hh := congrArg List.length h
      simp only [encPre, List.length_nil, List.length_append] at hh
      omega
    | cons q qs =>
      obtain ⟨k, lf⟩ := p
      obtain ⟨k', lf'⟩ := q
      have hps : GoodSeq L ps := fun x hx => ha x (by simp [hx])
      have hqs : GoodSeq L qs := fun x hx => hb x (by simp [hx])
      simp only [encPre] at h
      obtain ⟨ek, h⟩ := List.append_inj h (((ha (k, lf) (by simp)).1).trans ((hb (k', lf') (by simp)).1).symm)
      cases lf <;> cases lf'
      · simp at h; rw [ek, ih hps hqs h]
      · simp at h; exact (nohead hps h).elim
      · simp at h; exact (nohead hqs h.symm).elim
      · simp at h; rw [ek, ih hps hqs h]

/-- **exactly which trees collide** (keys of one length, none starting with the marker byte): those
with the same keys in depth-first order and the same leaves — whatever hangs below what.  So trees
hosting different servers, or the same servers placed in another depth-first order, never share a
pre-image; trees that differ only in *which inner node* a subtree hangs under may. -/
theorem c13_tree_collision_iff (L : Nat) (hL : 0 < L) (f g : Forest)
    (hf : KeysLen L f) (hg : KeysLen L g) (mf : NoMarkHead f) (mg : NoMarkHead g) :
    dfs f = dfs g ↔ pre f = pre g := by
  constructor
  · intro h
    rw [dfs_eq_encPre, dfs_eq_encPre] at h
    exact encPre_injective hL (pre_good hf mf) (pre_good hg mg) h
  · intro h; rw [dfs_eq_encPre, dfs_eq_encPre, h]

/-- different servers, or another depth-first placement ⇒ different pre-image -/
theorem c13_tree_members_matter_partial (L : Nat) (hL : 0 < L) (f g : Forest)
    (hf : KeysLen L f) (hg : KeysLen L g) (mf : NoMarkHead f) (mg : NoMarkHead g)
    (hne : keysOf f ≠ keysOf g) : dfs f ≠ dfs g := by
  intro h
  exact hne (by unfold keysOf; rw [(c13_tree_collision_iff L hL f g hf hg mf mg).mp h])

/-- the outer pre-image (`…tree/` + roster id + hex of the digest) determines roster id and digest -/
theorem c13_tree_outer_injective (r₁ r₂ d₁ d₂ : Bytes) (hr₁ : IsUuid r₁) (hr₂ : IsUuid r₂)
    (hd₁ : IsBytes d₁) (hd₂ : IsBytes d₂) (h : treeOuterPre r₁ d₁ = treeOuterPre r₂ d₂) : r₁ = r₂ ∧ d₁ = d₂ := by
  unfold treeOuterPre at h
  have h := List.append_cancel_left h
  obtain ⟨e1, e2⟩ := List.append_inj h ((uuidStr_length hr₁.1).trans (uuidStr_length hr₂.1).symm)
  exact ⟨uuidStr_injective hr₁.2 hr₂.2 e1, hexAscii_injective hd₁ hd₂ e2⟩

/-- trees of one shape over the same roster that place some member differently get different
identifiers; so do trees over rosters with different identifiers — provided neither SHA-256 (on the
two depth-first pre-images) nor the UUID hash (on the two outer pre-images) collides -/
theorem c13_tree_ids_distinct (H : HashFns) (L : Nat) (r₁ r₂ : Bytes) (f g : Forest)
    (hr₁ : IsUuid r₁) (hr₂ : IsUuid r₂) (hf : KeysLen L f) (hg : KeysLen L g) (hs : shape f = shape g)
    (hne : r₁ ≠ r₂ ∨ f ≠ g)
    (hbytes : IsBytes (H.sha256 (dfs f)) ∧ IsBytes (H.sha256 (dfs g)))
    (hcf256 : H.sha256 (dfs f) = H.sha256 (dfs g) → dfs f = dfs g)
    (hcf : uuid5 H (treeOuterPre r₁ (H.sha256 (dfs f))) = uuid5 H (treeOuterPre r₂ (H.sha256 (dfs g))) →
      treeOuterPre r₁ (H.sha256 (dfs f)) = treeOuterPre r₂ (H.sha256 (dfs g))) :
    treeId H r₁ f ≠ treeId H r₂ g := by
  intro h
  obtain ⟨er, ed⟩ := c13_tree_outer_injective r₁ r₂ _ _ hr₁ hr₂ hbytes.1 hbytes.2 (hcf h)
  rcases hne with hne | hne
  · exact hne er
  · exact hne (c13_tree_preimage_injective_partial L f g hf hg hs (hcf256 ed))

/-- **determinism, and its price**: the identifiers are functions of the key sequences alone — the
roster id of the keys in order, the tree id of the roster id and the depth-first (key, is-leaf)
sequence.  Nothing else of a roster or tree (addresses, node ids, roster positions, how keys are
grouped into members, which inner node is whose parent) can influence them, whatever the hash. -/
theorem c13_ids_functions_of_key_sequences (H : HashFns) :
    (∀ r₁ r₂ : List Member, rosterKeys r₁ = rosterKeys r₂ → rosterId H r₁ = rosterId H r₂) ∧
    (∀ (rid : Bytes) (f g : Forest), pre f = pre g → treeId H rid f = treeId H rid g) :=
  ⟨fun r₁ r₂ h => by unfold rosterId rosterPre; rw [h],
   fun rid f g h => by unfold treeId; rw [dfs_eq_encPre, dfs_eq_encPre, h]⟩

/-- non-vacuity: two trees of the same shape with two members swapped -/
example : ∃ f g : Forest, KeysLen 1 f ∧ KeysLen 1 g ∧ shape f = shape g ∧ f ≠ g ∧ NoMarkHead f ∧ NoMarkHead g :=
  ⟨.node [10] (.node [11] .nil (.node [12] .nil .nil)) .nil,
   .node [10] (.node [12] .nil (.node [11] .nil .nil)) .nil,
   by simp [KeysLen], by simp [KeysLen], by decide, by decide, by simp [NoMarkHead], by simp [NoMarkHead]⟩

/-! ### a roster through its TOML form (`Roster.Toml` / `RosterToml.Roster`): the id travels, the service keys do not -/

private theorem rosterKeys_toml (ro : List Member) : rosterKeys (tomlRound ro) = ro.map (·.key) := by
  induction ro with
  | nil => rfl
  | cons m r ih =>
    have : tomlRound (m :: r) = { m with svcs := [] } :: tomlRound r := rfl
    rw [this]
    simp only [rosterKeys, memberKeys, List.map_cons, List.cons_append, List.nil_append]
    rw [ih]

private theorem rosterKeys_length (ro : List Member) :
    (rosterKeys ro).length = ro.length + (ro.map (·.svcs.length)).sum := by
  induction ro with
  | nil => rfl
  | cons m r ih => simp only [rosterKeys, memberKeys, List.length_append, List.length_cons, ih, List.map_cons, List.sum_cons]; omega

private theorem sum_zero_all : ∀ (ro : List Member), (ro.map (·.svcs.length)).sum = 0 → ∀ m ∈ ro, m.svcs = [] := by
  intro ro
  induction ro with
  | nil => intro _ m hm; cases hm
  | cons a r ih =>
    intro h m hm
    simp only [List.map_cons, List.sum_cons] at h
    rcases List.mem_cons.mp hm with rfl | hm
    · exact List.eq_nil_of_length_eq_zero (by omega)
    · exact ih (by omega) m hm

private theorem key_mem_rosterKeys : ∀ (ro : List Member) (m : Member), m ∈ ro → m.key ∈ rosterKeys ro := by
  intro ro
  induction ro with
  | nil => intro m hm; cases hm
  | cons a r ih =>
    intro m hm
    simp only [rosterKeys, memberKeys, List.cons_append, List.mem_cons, List.mem_append]
    rcases List.mem_cons.mp hm with rfl | hm
    · exact Or.inl rfl
    · exact Or.inr (Or.inr (ih m hm))

/-- a roster without service keys comes back as it was -/
theorem c13_toml_plain_faithful (ro : List Member) (h : ∀ m ∈ ro, m.svcs = []) : tomlRound ro = ro := by
  induction ro with
  | nil => rfl
  | cons m r ih =>
    have hm := h m List.mem_cons_self
    have : tomlRound (m :: r) = { m with svcs := [] } :: tomlRound r := rfl
    rw [this, ih (fun x hx => h x (List.mem_cons_of_mem _ hx))]
    congr 1
    cases m; simp_all

/-- **exactly when the id a roster carries through its TOML form still is the id of the list that comes back**
(keys of one positive length, e.g. Ed25519 and bn256 keys of one suite): the hashed pre-image of the rebuilt list equals
the original's iff no member carries a service key.  The code keeps the `ID` field and rebuilds every identity from
address and server key only, so for every roster with a service key the object that comes back has an id that is not
`GetID()` of its list — known finding `roster-toml-id-not-of-list`.  Falsified (made true for all rosters) by a TOML
form that carries the service identities; falsified the other way by a rebuild that reorders or drops members. -/
theorem c13_toml_id_of_list_iff (L : Nat) (hL : 0 < L) (ro : List Member) (hk : ∀ k ∈ rosterKeys ro, k.length = L) :
    rosterPre (tomlRound ro) = rosterPre ro ↔ ∀ m ∈ ro, m.svcs = [] := by
  constructor
  · intro h
    have hk' : ∀ k ∈ rosterKeys (tomlRound ro), k.length = L := by
      intro k hm
      rw [rosterKeys_toml] at hm
      obtain ⟨m, hm', rfl⟩ := List.mem_map.mp hm
      exact hk _ (key_mem_rosterKeys ro m hm')
    have hkeys := (c13_roster_collision_iff L hL _ _ hk' hk).mp h
    have hlen := congrArg List.length hkeys
    rw [rosterKeys_toml, rosterKeys_length, List.length_map] at hlen
    exact sum_zero_all ro (by omega)
  · intro h
    rw [c13_toml_plain_faithful ro h]

/-- the full statement "the id that comes back is the id of the list that comes back" -/
def C13_toml_full : Prop := ∀ ro : List Member, rosterPre (tomlRound ro) = rosterPre ro

/-- … is false on the code: the witness of the known finding, `[A{svc:B}, C]` -/
theorem c13_toml_full_fails : ¬ C13_toml_full := by
  intro h
  have := h [{ key := [1], svcs := [[2]] }, { key := [3], svcs := [] }]
  revert this
  decide

/-- what does come back: every member's server key in order, no service key (whatever the roster) -/
theorem c13_toml_server_keys (ro : List Member) :
    rosterKeys (tomlRound ro) = ro.map (·.key) ∧ (tomlRound ro).length = ro.length ∧ ∀ m ∈ tomlRound ro, m.svcs = [] := by
  refine ⟨rosterKeys_toml ro, by simp [tomlRound], ?_⟩
  intro m hm
  obtain ⟨x, _, rfl⟩ := List.mem_map.mp hm
  rfl

/-! ### a class of trees on which the identifier is fully faithful: full N-ary trees -/

/-- every inner node has exactly `N` children (perfect binary trees, full N-ary trees, …) -/
def FullN (N : Nat) : Forest → Prop
  | .nil => True
  | .node _ c s => (c.isNil = true ∨ c.len = N) ∧ FullN N c ∧ FullN N s

/-- reading a forest of `cnt` full N-ary trees back from its pre-order (key, is-leaf) sequence -/
def decodeN (N : Nat) : (fuel cnt : Nat) → List (Bytes × Bool) → Option (Forest × List (Bytes × Bool))
  | _, 0, l => some (.nil, l)
  | 0, _ + 1, _ => none
  | _ + 1, _ + 1, [] => none
  | fuel + 1, cnt + 1, (k, leaf) :: l =>
    match decodeN N fuel (if leaf then 0 else N) l with
    | none => none
    | some (c, l1) =>
      match decodeN N fuel cnt l1 with
      | none => none
      | some (s, l2) => some (.node k c s, l2)

private theorem decodeN_pre (N : Nat) : ∀ (f : Forest) (fuel : Nat) (rest : List (Bytes × Bool)),
    FullN N f → f.size ≤ fuel → decodeN N fuel f.len (pre f ++ rest) = some (f, rest) := by
  intro f
  induction f with
  | nil => intro fuel rest _ _; cases fuel <;> simp [decodeN, Forest.len, pre]
  | node k c s ihc ihs =>
    intro fuel rest hf hsz
    obtain ⟨hc, fc, fs⟩ := hf
    simp only [Forest.size] at hsz
    cases fuel with
    | zero => omega
    | succ fuel' =>
      have hcnt : (if c.isNil then 0 else N) = c.len := by
        rcases hc with h | h
        · cases c with
          | nil => simp [Forest.isNil, Forest.len]
          | node _ _ _ => simp [Forest.isNil] at h
        · cases c with
          | nil => simp [Forest.isNil, Forest.len]
          | node _ _ _ => simp [Forest.isNil, h]
      simp only [Forest.len, pre, List.cons_append, List.append_assoc]
      rw [show 1 + s.len = s.len + 1 from Nat.add_comm _ _]
      simp only [decodeN, hcnt]
      rw [ihc fuel' (pre s ++ rest) fc (by omega)]
      simp only
      rw [ihs fuel' rest fs (by omega)]

/-- **on full N-ary trees the depth-first (key, is-leaf) sequence — hence, with keys of one length
not starting with the marker byte, the hashed pre-image — determines the whole tree**: shape and
placement of every member.  The known collisions need an inner node with fewer children than another. -/
theorem c13_tree_full_nary_injective (N : Nat) (f g : Forest) (hf : FullN N f) (hg : FullN N g)
    (hl : f.len = g.len) (h : pre f = pre g) : f = g := by
  have a := decodeN_pre N f (f.size + g.size) [] hf (by omega)
  have b := decodeN_pre N g (f.size + g.size) [] hg (by omega)
  rw [hl, h, b] at a
  simp only [Option.some.injEq, Prod.mk.injEq, and_true] at a
  exact a.symm

theorem c13_tree_full_nary_preimage_injective (N L : Nat) (hL : 0 < L) (f g : Forest) (hf : FullN N f) (hg : FullN N g)
    (hl : f.len = g.len) (kf : KeysLen L f) (kg : KeysLen L g) (mf : NoMarkHead f) (mg : NoMarkHead g)
    (h : dfs f = dfs g) : f = g :=
  c13_tree_full_nary_injective N f g hf hg hl ((c13_tree_collision_iff L hL f g kf kg mf mg).mp h)

/-- non-vacuity: the two perfect binary trees on three nodes with the children swapped are full 2-ary
and differ; the colliding witnesses are not both full N-ary for any N -/
example : FullN 2 (.node [10] (.node [11] .nil (.node [12] .nil .nil)) .nil) ∧
    FullN 2 (.node [10] (.node [12] .nil (.node [11] .nil .nil)) .nil) ∧ ¬ (∃ N, FullN N wT1 ∧ FullN N wT2) := by
  refine ⟨by simp [FullN, Forest.isNil, Forest.len], by simp [FullN, Forest.isNil, Forest.len], ?_⟩
  intro ⟨N, h1, h2⟩
  simp [FullN, wT1, wT2, Forest.isNil, Forest.len] at h1 h2
  omega

/-! ### rosters derived from rosters (`Concat`, `NewRosterWithRoot`) -/

private theorem concat_prefix : ∀ (ms ro : List Member), ∃ ext, concatMembers ro ms = ro ++ ext := by
  intro ms
  induction ms with
  | nil => intro ro; exact ⟨[], by simp [concatMembers]⟩
  | cons m rest ih =>
    intro ro
    simp only [concatMembers]
    split
    · exact ih ro
    · obtain ⟨ext, h⟩ := ih (ro ++ [m])
      exact ⟨m :: ext, by rw [h]; simp⟩

private theorem concat_grows : ∀ (ms ro : List Member),
    (∃ m ∈ ms, ro.any (fun x => x.key == m.key) = false) → ro.length < (concatMembers ro ms).length := by
  intro ms
  induction ms with
  | nil => intro ro ⟨m, hm, _⟩; simp at hm
  | cons m' rest ih =>
    intro ro ⟨m, hm, hnew⟩
    simp only [concatMembers]
    split
    · next hany =>
      apply ih ro
      simp only [List.mem_cons] at hm
      rcases hm with e | hmem
      · subst e; rw [hany] at hnew; simp at hnew
      · exact ⟨m, hmem, hnew⟩
    · obtain ⟨ext, h⟩ := concat_prefix rest (ro ++ [m'])
      rw [h]; simp

private theorem rosterKeys_append (a b : List Member) : rosterKeys (a ++ b) = rosterKeys a ++ rosterKeys b := by
  induction a with
  | nil => rfl
  | cons m ms ih => simp [rosterKeys, ih]

private theorem rosterKeys_length_ge (a : List Member) : a.length ≤ (rosterKeys a).length := by
  induction a with
  | nil => simp [rosterKeys]
  | cons m ms ih => simp [rosterKeys, memberKeys]; omega

/-- **`Concat` gives the roster of the extended list** — the old members in their order, then the
new ones — **and with it a new identifier as soon as one identity is new**: the result is identified
like any roster made by `NewRoster` (by definition of the model: `rosterId` of the list), its key
sequence properly extends the receiver's, hence (keys of one length, no hash collision on the two
pre-images) its id differs from the receiver's. -/
theorem c13_concat_new_member_new_id (H : HashFns) (L : Nat) (hL : 0 < L) (ro ms : List Member)
    (hk : ∀ k ∈ rosterKeys (concatMembers ro ms), k.length = L)
    (hnew : ∃ m ∈ ms, ro.any (fun x => x.key == m.key) = false)
    (hcf : rosterIdOfPre H (rosterPre (concatMembers ro ms)) = rosterIdOfPre H (rosterPre ro) →
      rosterPre (concatMembers ro ms) = rosterPre ro) :
    (∃ ext, ext ≠ [] ∧ concatMembers ro ms = ro ++ ext) ∧ rosterId H (concatMembers ro ms) ≠ rosterId H ro := by
  obtain ⟨ext, hext⟩ := concat_prefix ms ro
  have hgrow := concat_grows ms ro hnew
  have hne : ext ≠ [] := by
    intro e; rw [hext, e] at hgrow; simp at hgrow
  refine ⟨⟨ext, hne, hext⟩, ?_⟩
  intro hid
  have hpre := hcf hid
  have hk' : ∀ k ∈ rosterKeys ro, k.length = L := by
    intro k hkm
    apply hk k
    rw [hext, rosterKeys_append]
    exact List.mem_append_left _ hkm
  have hkeys := (c13_roster_collision_iff L hL _ _ hk hk').mp hpre
  have hlen := congrArg List.length hkeys
  rw [hext, rosterKeys_append, List.length_append] at hlen
  have : 0 < (rosterKeys ext).length := by
    have := rosterKeys_length_ge ext
    have : 0 < ext.length := List.length_pos_iff.mpr hne
    omega
  omega

/-- `NewRosterWithRoot` keeps the members and puts the root's identity first -/
theorem c13_with_root_first (ro : List Member) (p : Nat) (r : List Member) (h : withRoot ro p = some r) :
    r.length = ro.length ∧ ∃ m, ro[p]? = some m ∧ (r[0]?.map (·.key)) = some m.key := by
  unfold withRoot at h
  split at h
  · next rt first hp h0 =>
    simp only [Option.some.injEq] at h
    subst h
    refine ⟨by simp, rt, hp, ?_⟩
    have hidx : ro.findIdx (fun x => x.key == rt.key) < ro.length := by
      apply List.findIdx_lt_length_of_exists
      exact ⟨rt, List.mem_of_getElem? hp, by simp⟩
    have hkey : (ro.getD (ro.findIdx fun x => x.key == rt.key) rt).key = rt.key := by
      rw [List.getD_eq_getElem?_getD, List.getElem?_eq_getElem hidx]
      have := List.findIdx_getElem (p := fun x => x.key == rt.key) (xs := ro) (w := hidx)
      simpa using this
    have h0lt : 0 < ro.length := by
      cases ro with
      | nil => simp at h0
      | cons _ _ => simp
    by_cases hz : ro.findIdx (fun x => x.key == rt.key) = 0
    · rw [hz] at hkey ⊢
      simp only [List.set_set]
      rw [List.getElem?_set_self (by simpa using h0lt)]
      -- position 0 holds `first`, which is the entry found: its key is the root's
      have : first = ro.getD 0 rt := by
        rw [List.getD_eq_getElem?_getD, h0]; rfl
      rw [List.getD_eq_getElem?_getD] at hkey
      simp [this, hkey]
    · rw [List.getElem?_set_ne (by omega), List.getElem?_set_self (by simpa using h0lt)]
      rw [List.getD_eq_getElem?_getD] at hkey
      simp [hkey]
  · simp at h

/-! ### the text forms of keys of other suites (server and node identifiers of every suite) -/

theorem decAscii_lt (n : Nat) (h : n < 10) : decAscii n = [48 + n] := by
  rw [decAscii]; simp [h]

theorem decAscii_ge (n : Nat) (h : ¬ n < 10) : decAscii n = decAscii (n / 10) ++ [48 + n % 10] := by
  rw [decAscii]; simp [h]

/-- decimal digits are the ASCII codes `0`…`9` (in particular no comma, no bracket) -/
theorem decAscii_digits (n : Nat) : ∀ c ∈ decAscii n, 48 ≤ c ∧ c ≤ 57 := by
  induction n using Nat.strongRecOn with
  | _ n ih =>
    by_cases h : n < 10
    · rw [decAscii_lt n h]; intro c hc; simp at hc; omega
    · rw [decAscii_ge n h]
      intro c hc
      simp only [List.mem_append, List.mem_singleton] at hc
      rcases hc with hc | hc
      · exact ih (n / 10) (by omega) c hc
      · have := Nat.mod_lt n (show 10 > 0 by omega); omega

/-- value of a string of decimal digits -/
def decVal (l : Bytes) : Nat := l.foldl (fun acc c => acc * 10 + (c - 48)) 0

private theorem decVal_append (l : Bytes) (c : Nat) : decVal (l ++ [c]) = decVal l * 10 + (c - 48) := by
  simp [decVal, List.foldl_append]

theorem decVal_decAscii (n : Nat) : decVal (decAscii n) = n := by
  induction n using Nat.strongRecOn with
  | _ n ih =>
    by_cases h : n < 10
    · rw [decAscii_lt n h]; simp [decVal]
    · rw [decAscii_ge n h, decVal_append, ih (n / 10) (by omega)]
      omega

/-- the decimal text form determines the number -/
theorem decAscii_injective {a b : Nat} (h : decAscii a = decAscii b) : a = b := by
  have := congrArg decVal h
  rwa [decVal_decAscii, decVal_decAscii] at this

/-- two strings `digits , rest` that are equal have the same digits and the same rest -/
private theorem split_at_comma : ∀ (a b r s : Bytes), (∀ c ∈ a, c ≠ 44) → (∀ c ∈ b, c ≠ 44) →
    a ++ (44 :: r) = b ++ (44 :: s) → a = b ∧ r = s := by
  intro a
  induction a with
  | nil =>
    intro b r s _ hb h
    cases b with
    | nil => simp at h; exact ⟨rfl, h⟩
    | cons y ys =>
      simp only [List.nil_append, List.cons_append, List.cons.injEq] at h
      exact absurd h.1.symm (hb y (by simp))
  | cons x xs ih =>
    intro b r s ha hb h
    cases b with
    | nil =>
      simp only [List.nil_append, List.cons_append, List.cons.injEq] at h
      exact absurd h.1 (ha x (by simp))
    | cons y ys =>
      simp only [List.cons_append, List.cons.injEq] at h
      obtain ⟨e1, e2⟩ := ih ys r s (fun c hc => ha c (by simp [hc])) (fun c hc => hb c (by simp [hc])) h.2
      exact ⟨by rw [h.1, e1], e2⟩

private theorem beNat_aux (l : Bytes) : ∀ acc, l.foldl (fun acc x => acc * 256 + x) acc = acc * 256 ^ l.length + beNat l := by
  induction l with
  | nil => intro acc; simp [beNat]
  | cons x xs ih =>
    intro acc
    simp only [List.foldl_cons, List.length_cons, beNat]
    rw [ih (acc * 256 + x), ih (0 * 256 + x)]
    simp only [Nat.zero_mul, Nat.zero_add, Nat.pow_succ]
    rw [Nat.add_mul, Nat.mul_assoc, Nat.mul_comm 256, Nat.add_assoc]

theorem beNat_cons (x : Nat) (xs : Bytes) : beNat (x :: xs) = x * 256 ^ xs.length + beNat xs := by
  have := beNat_aux xs (0 * 256 + x)
  simp only [Nat.zero_mul, Nat.zero_add] at this
  simpa [beNat] using this

theorem beNat_lt (l : Bytes) (h : IsBytes l) : beNat l < 256 ^ l.length := by
  induction l with
  | nil => simp [beNat]
  | cons x xs ih =>
    rw [beNat_cons, List.length_cons, Nat.pow_succ]
    have hx : x < 256 := h x (by simp)
    have := ih (fun z hz => h z (by simp [hz]))
    have h2 : x * 256 ^ xs.length ≤ 255 * 256 ^ xs.length := Nat.mul_le_mul_right _ (by omega)
    omega

/-- the big-endian value determines a byte string of known length -/
theorem beNat_injective : ∀ (a b : Bytes), a.length = b.length → IsBytes a → IsBytes b → beNat a = beNat b → a = b := by
  intro a
  induction a with
  | nil => intro b hl _ _ _; cases b with
    | nil => rfl
    | cons _ _ => simp at hl
  | cons x xs ih =>
    intro b hl ha hb h
    cases b with
    | nil => simp at hl
    | cons y ys =>
      simp only [List.length_cons, Nat.add_right_cancel_iff] at hl
      rw [beNat_cons, beNat_cons, hl] at h
      have hx := beNat_lt xs (fun z hz => ha z (by simp [hz]))
      have hy := beNat_lt ys (fun z hz => hb z (by simp [hz]))
      rw [hl] at hx
      have hP : 0 < 256 ^ ys.length := Nat.pow_pos (by omega)
      have e1 : x = y := by
        have d1 : (x * 256 ^ ys.length + beNat xs) / 256 ^ ys.length = x := by
          rw [Nat.mul_comm, Nat.mul_add_div hP, Nat.div_eq_of_lt hx, Nat.add_zero]
        have d2 : (y * 256 ^ ys.length + beNat ys) / 256 ^ ys.length = y := by
          rw [Nat.mul_comm, Nat.mul_add_div hP, Nat.div_eq_of_lt hy, Nat.add_zero]
        rw [← d1, ← d2, h]
      subst e1
      have e2 : beNat xs = beNat ys := by omega
      rw [ih ys hl (fun z hz => ha z (by simp [hz])) (fun z hz => hb z (by simp [hz])) e2]

/-- **`Public.String()` determines the key, for every modelled suite** (Ed25519: hex of the
encoding; P256: `(X,Y)` in decimal; bn256.G1: `bn256.G1(hex X,hex Y)`): two keys (byte strings in
the suite's layout) with the same text form are the same key. -/
theorem c13_keytext_injective (kind : KeyKind) (k₁ k₂ t : Bytes) (h₁ : IsBytes k₁) (h₂ : IsBytes k₂)
    (e₁ : keyText kind k₁ = some t) (e₂ : keyText kind k₂ = some t) : k₁ = k₂ := by
  cases kind with
  | ed25519 =>
    simp only [keyText, Option.some.injEq] at e₁ e₂
    exact hexAscii_injective h₁ h₂ (e₁.trans e₂.symm)
  | other => simp [keyText] at e₁
  | bn256g1 =>
    simp only [keyText] at e₁ e₂
    split at e₁
    · next l1 =>
      split at e₂
      · next l2 =>
        simp only [Option.some.injEq] at e₁ e₂
        have h := List.append_cancel_left (e₁.trans e₂.symm)
        have len : (hexAscii (k₁.take 32)).length = (hexAscii (k₂.take 32)).length := by
          rw [hexAscii_length, hexAscii_length, List.length_take, List.length_take, l1, l2]
        obtain ⟨a, b⟩ := List.append_inj h len
        have b' := List.append_cancel_right (List.append_cancel_left b)
        have t1 := hexAscii_injective (fun z hz => h₁ z (List.mem_of_mem_take hz)) (fun z hz => h₂ z (List.mem_of_mem_take hz)) a
        have t2 := hexAscii_injective (fun z hz => h₁ z (List.mem_of_mem_drop hz)) (fun z hz => h₂ z (List.mem_of_mem_drop hz)) b'
        rw [← List.take_append_drop 32 k₁, ← List.take_append_drop 32 k₂, t1, t2]
      · simp at e₂
    · simp at e₁
  | p256 =>
    simp only [keyText] at e₁ e₂
    split at e₁
    · next l1 =>
      split at e₂
      · next l2 =>
        simp only [Option.some.injEq] at e₁ e₂
        have h := List.append_cancel_left (e₁.trans e₂.symm)
        have nocomma : ∀ n, ∀ c ∈ decAscii n, c ≠ 44 := fun n c hc => by
          have := decAscii_digits n c hc; omega
        have hsplit := split_at_comma _ _ _ _ (nocomma _) (nocomma _) (by simpa [ascii, -List.drop_one] using h)
        obtain ⟨a, b⟩ := hsplit
        have b' := List.append_cancel_right b
        have x := decAscii_injective a
        have y := decAscii_injective b'
        have lx : ((k₁.drop 1).take 32).length = ((k₂.drop 1).take 32).length := by
          simp only [List.length_take, List.length_drop, l1.1, l2.1]
        have ly : (k₁.drop 33).length = (k₂.drop 33).length := by
          simp only [List.length_drop, l1.1, l2.1]
        have bx := beNat_injective _ _ lx
          (fun z hz => h₁ z (List.mem_of_mem_drop (List.mem_of_mem_take hz)))
          (fun z hz => h₂ z (List.mem_of_mem_drop (List.mem_of_mem_take hz))) x
        have by' := beNat_injective _ _ ly
          (fun z hz => h₁ z (List.mem_of_mem_drop hz)) (fun z hz => h₂ z (List.mem_of_mem_drop hz)) y
        -- put the three parts together: the head byte 4, X, Y
        have dec : ∀ k : Bytes, k.length = 65 → k.head? = some 4 → k = 4 :: ((k.drop 1).take 32 ++ k.drop 33) := by
          intro k hl hh
          cases k with
          | nil => simp at hl
          | cons z zs =>
            simp only [List.head?_cons, Option.some.injEq] at hh
            subst hh
            simp only [List.drop_succ_cons, List.drop_zero, List.cons.injEq, true_and]
            exact (List.take_append_drop 32 zs).symm
        rw [dec k₁ l1.1 l1.2, dec k₂ l2.1 l2.2, bx, by']
      · simp at e₂
    · simp at e₁

/-- so server and node identifiers separate the keys of every modelled suite (hypothesis: the UUID
hash does not collide on the two pre-images) -/
theorem c13_suite_key_ids_distinct (H : HashFns) (kind : KeyKind) (k₁ k₂ t₁ t₂ : Bytes) (h₁ : IsBytes k₁) (h₂ : IsBytes k₂)
    (e₁ : keyText kind k₁ = some t₁) (e₂ : keyText kind k₂ = some t₂) (hne : k₁ ≠ k₂) :
    ((uuid5 H (serverPreStr t₁) = uuid5 H (serverPreStr t₂) → serverPreStr t₁ = serverPreStr t₂) →
      serverIdStr H t₁ ≠ serverIdStr H t₂) ∧
    ((uuid5 H (nodePreStr t₁) = uuid5 H (nodePreStr t₂) → nodePreStr t₁ = nodePreStr t₂) →
      nodeIdStr H t₁ ≠ nodeIdStr H t₂) := by
  constructor
  · intro hcf h
    have : t₁ = t₂ := List.append_cancel_left (hcf h)
    subst this
    exact hne (c13_keytext_injective kind k₁ k₂ t₁ h₁ h₂ e₁ e₂)
  · intro hcf h
    have : t₁ = t₂ := hcf h
    subst this
    exact hne (c13_keytext_injective kind k₁ k₂ t₁ h₁ h₂ e₁ e₂)

/-! ### rotations of a roster -/

private theorem rosterKeys_head (l : List Member) : (rosterKeys l).head? = l.head?.map (·.key) := by
  cases l with
  | nil => rfl
  | cons m r => simp [rosterKeys, memberKeys]

/-- **a rotated roster is another roster**: the members of a roster in another cyclic order (what
`Roster.IsRotation` recognises) have another pre-image — for pairwise distinct server keys of one
length; the order of the list is part of what a roster id identifies. -/
theorem c13_rotation_new_preimage (L : Nat) (hL : 0 < L) (ro : List Member) (k : Nat) (hne : ro ≠ [])
    (hk : k % ro.length ≠ 0) (hlen : ∀ key ∈ rosterKeys ro, key.length = L)
    (hd : (ro.map (·.key)).Nodup) : rosterPre (rotl k ro) ≠ rosterPre ro := by
  intro h
  have hlt : k % ro.length < ro.length := Nat.mod_lt _ (List.length_pos_iff.mpr hne)
  have hlen' : ∀ key ∈ rosterKeys (rotl k ro), key.length = L := by
    intro key hkey
    apply hlen
    unfold rotl at hkey
    rw [rosterKeys_append, List.mem_append] at hkey
    have hsplit : rosterKeys ro = rosterKeys (ro.take (k % ro.length)) ++ rosterKeys (ro.drop (k % ro.length)) := by
      rw [← rosterKeys_append, List.take_append_drop]
    rw [hsplit, List.mem_append]
    exact hkey.symm
  have hkeys := (c13_roster_collision_iff L hL _ _ hlen' hlen).mp h
  have hhead := congrArg List.head? hkeys
  rw [rosterKeys_head, rosterKeys_head] at hhead
  unfold rotl at hhead
  have hdrop : (ro.drop (k % ro.length)).head? = ro[k % ro.length]? := List.head?_drop
  have h0 : ro.head? = some (ro[0]'(List.length_pos_iff.mpr hne)) := by
    rw [List.head?_eq_getElem?, List.getElem?_eq_getElem (List.length_pos_iff.mpr hne)]
  rw [List.head?_append, hdrop, List.getElem?_eq_getElem hlt, h0] at hhead
  simp only [Option.some_or, Option.map_some, Option.some.injEq] at hhead
  have h1 : (ro.map (·.key))[k % ro.length]'(by simpa using hlt) = (ro.map (·.key))[0]'(by simpa using List.length_pos_iff.mpr hne) := by
    simpa using hhead
  have := (List.getElem_inj hd).mp h1
  exact hk this

theorem c13_rotation_new_id (H : HashFns) (L : Nat) (hL : 0 < L) (ro : List Member) (k : Nat) (hne : ro ≠ [])
    (hk : k % ro.length ≠ 0) (hlen : ∀ key ∈ rosterKeys ro, key.length = L) (hd : (ro.map (·.key)).Nodup)
    (hcf : rosterIdOfPre H (rosterPre (rotl k ro)) = rosterIdOfPre H (rosterPre ro) → rosterPre (rotl k ro) = rosterPre ro) :
    rosterId H (rotl k ro) ≠ rosterId H ro :=
  fun h => c13_rotation_new_preimage L hL ro k hne hk hlen hd (hcf h)

/-! ### the methods of the identifier types -/

/-- `Equal` is equality of the sixteen bytes, `IsNil` equality with the nil UUID -/
theorem c13_id_equal_iff (a b : Bytes) : (idEqual a b = true ↔ a = b) ∧ (idIsNil a = true ↔ a = nilUuid) := by
  simp [idEqual, idIsNil]

/-! ### registries: the identifier of a service or protocol is a function of its name alone -/

/-- every entry of a service factory carries the hash of its own name -/
def RegOK (H : HashFns) (reg : List SvcEntry) : Prop := ∀ e ∈ reg, e.id = serviceId H e.name

/-- what can be done to a service factory -/
inductive SvcOp where
  | reg (name : Bytes) (suite : Option String)
  | unreg (name : Bytes)

def svcStep (H : HashFns) (reg : List SvcEntry) : SvcOp → List SvcEntry
  | .reg n s => ((svcRegister H reg n s).1).getD reg
  | .unreg n => (svcUnregister reg n).getD reg

private theorem svcStep_ok (H : HashFns) (reg : List SvcEntry) (op : SvcOp) (h : RegOK H reg) : RegOK H (svcStep H reg op) := by
  cases op with
  | reg n su =>
    simp only [svcStep, svcRegister]
    split
    · intro e he
      simp only [Option.getD_some, List.mem_append, List.mem_singleton] at he
      rcases he with he | he
      · exact h e he
      · subst he; rfl
    · simpa using h
  | unreg n =>
    simp only [svcStep, svcUnregister]
    split
    · intro e he
      exact h e (List.mem_of_mem_eraseIdx (by simpa using he))
    · simpa using h

/-- **the id a service gets at registration is the hash of its name** — after any history of
registrations (with whatever suites) and unregistrations, and whatever suite this registration
names: the suite is stored with the entry, it is no part of the identifier.  In particular the
same name registered with and without a suite, before and after an unregistration, on this factory
or another, gets the same identifier. -/
theorem c13_service_id_function_of_name (H : HashFns) (ops : List SvcOp) :
    RegOK H (ops.foldl (svcStep H) []) ∧
    ∀ name suite reg' id, svcRegister H (ops.foldl (svcStep H) []) name suite = (some reg', id) → id = serviceId H name := by
  constructor
  · have : ∀ (ops : List SvcOp) (reg : List SvcEntry), RegOK H reg → RegOK H (ops.foldl (svcStep H) reg) := by
      intro ops
      induction ops with
      | nil => intro reg h; exact h
      | cons op rest ih => intro reg h; exact ih _ (svcStep_ok H reg op h)
    exact this ops [] (fun e he => by simp at he)
  · intro name suite reg' id h
    simp only [svcRegister] at h
    split at h
    · simp only [Prod.mk.injEq] at h; exact h.2.symm
    · simp at h

/-- two registrations of one name give one identifier, whatever the two factories hold and whatever
the two suites are -/
theorem c13_service_id_independent_of_suite (H : HashFns) (reg₁ reg₂ r₁ r₂ : List SvcEntry) (name id₁ id₂ : Bytes)
    (s₁ s₂ : Option String) (h₁ : svcRegister H reg₁ name s₁ = (some r₁, id₁))
    (h₂ : svcRegister H reg₂ name s₂ = (some r₂, id₂)) : id₁ = id₂ := by
  simp only [svcRegister] at h₁ h₂
  split at h₁ <;> split at h₂ <;> simp_all

/-- **name → id → name**: in a factory whose entries carry the hashes of their names, and on whose
names the hash does not collide, `ServiceID` and `Name` are inverse to each other on every
registered service -/
theorem c13_service_name_roundtrip (H : HashFns) (reg : List SvcEntry) (hok : RegOK H reg)
    (hcf : ∀ e ∈ reg, ∀ e' ∈ reg, e.id = e'.id → e.name = e'.name) (e : SvcEntry) (he : e ∈ reg) :
    svcLookupId reg e.name = e.id ∧ svcLookupName reg e.id = e.name := by
  constructor
  · unfold svcLookupId
    cases hf : reg.find? (fun x => x.name == e.name) with
    | none =>
      have := List.find?_eq_none.mp hf e he
      simp at this
    | some x =>
      have hx := List.find?_some hf
      have hm := List.mem_of_find?_eq_some hf
      simp only [beq_iff_eq] at hx
      simp only
      rw [hok x hm, hok e he, hx]
  · unfold svcLookupName
    cases hf : reg.find? (fun x => idEqual e.id x.id) with
    | none =>
      have := List.find?_eq_none.mp hf e he
      simp [idEqual] at this
    | some x =>
      have hx := List.find?_some hf
      have hm := List.mem_of_find?_eq_some hf
      simp only [idEqual, beq_iff_eq] at hx
      exact (hcf e he x hm hx).symm

/-- the same for the protocol table, in whatever order the table is walked (the code ranges over a
map): a registered name is found again from its identifier as long as the hash does not collide on
the registered names -/
theorem c13_proto_name_roundtrip (H : HashFns) (reg : List Bytes)
    (hcf : ∀ a ∈ reg, ∀ b ∈ reg, protoId H a = protoId H b → a = b) (n : Bytes) (hn : n ∈ reg) :
    protoIdToName H reg (protoId H n) = some n ∧ (protoRegister H reg n).1 = none := by
  constructor
  · unfold protoIdToName
    cases hf : reg.find? (fun x => idEqual (protoId H n) (protoId H x)) with
    | none =>
      have := List.find?_eq_none.mp hf n hn
      simp [idEqual] at this
    | some x =>
      have hx := List.find?_some hf
      have hm := List.mem_of_find?_eq_some hf
      simp only [idEqual, beq_iff_eq] at hx
      rw [hcf n hn x hm hx]
  · simp [protoRegister, hn]

/-- a fresh name is registered under `ProtocolNameToID` of itself -/
theorem c13_proto_register_id (H : HashFns) (reg reg' : List Bytes) (n id : Bytes)
    (h : protoRegister H reg n = (some reg', id)) : id = protoId H n ∧ n ∈ reg' := by
  simp only [protoRegister] at h
  split at h
  · simp at h
  · simp only [Prod.mk.injEq, Option.some.injEq] at h
    exact ⟨h.2.symm, by rw [← h.1]; simp⟩

/-! ### peer-set identifiers -/

/-- the pre-image `serviceID ‖ data` determines both parts (the service id has a fixed length) -/
theorem c13_peerset_preimage_injective (s₁ s₂ d₁ d₂ : Bytes) (h₁ : s₁.length = 16) (h₂ : s₂.length = 16)
    (h : peerSetPre s₁ d₁ = peerSetPre s₂ d₂) : s₁ = s₂ ∧ d₁ = d₂ :=
  List.append_inj h (h₁.trans h₂.symm)

theorem c13_peerset_ids_distinct (H : HashFns) (s₁ s₂ d₁ d₂ : Bytes) (h₁ : s₁.length = 16) (h₂ : s₂.length = 16)
    (hne : s₁ ≠ s₂ ∨ d₁ ≠ d₂)
    (hcf : peerSetId H s₁ d₁ = peerSetId H s₂ d₂ → peerSetPre s₁ d₁ = peerSetPre s₂ d₂) :
    peerSetId H s₁ d₁ ≠ peerSetId H s₂ d₂ := by
  intro h
  obtain ⟨a, b⟩ := c13_peerset_preimage_injective s₁ s₂ d₁ d₂ h₁ h₂ (hcf h)
  rcases hne with hne | hne
  · exact hne a
  · exact hne b

/-! ### determinism, for every kind of identifier -/

/-- **every identifier is a function of its pre-image, and the pre-image a function of the value
identified** — for any hash functions: equal values (tokens, names, keys, member lists, roster id
and forest, service id and data) have equal identifiers.  Nothing else — object identity, address,
process, the time or order of construction, registration history — is an argument of these
functions; that the Go code has no further input either is what the correspondence run (rebuilt
copies, re-used objects, second process) checks. -/
theorem c13_ids_are_functions_of_preimages (H : HashFns) :
    (∀ t₁ t₂ : Token, tokenPre t₁ = tokenPre t₂ → tokenId H t₁ = tokenId H t₂) ∧
    (∀ n₁ n₂ : Bytes, protoPre n₁ = protoPre n₂ → protoId H n₁ = protoId H n₂) ∧
    (∀ n₁ n₂ : Bytes, servicePre n₁ = servicePre n₂ → serviceId H n₁ = serviceId H n₂) ∧
    (∀ k₁ k₂ : Bytes, serverPre k₁ = serverPre k₂ → serverId H k₁ = serverId H k₂) ∧
    (∀ k₁ k₂ : Bytes, nodePre k₁ = nodePre k₂ → nodeId H k₁ = nodeId H k₂) ∧
    (∀ r₁ r₂ : List Member, rosterPre r₁ = rosterPre r₂ → rosterId H r₁ = rosterId H r₂) ∧
    (∀ (rid : Bytes) (f g : Forest), dfs f = dfs g → treeId H rid f = treeId H rid g) ∧
    (∀ s₁ s₂ d₁ d₂ : Bytes, peerSetPre s₁ d₁ = peerSetPre s₂ d₂ → peerSetId H s₁ d₁ = peerSetId H s₂ d₂) := by
  refine ⟨?_, ?_, ?_, ?_, ?_, ?_, ?_, ?_⟩
  · intro a b h; unfold tokenId; rw [h]
  · intro a b h; unfold protoId; rw [h]
  · intro a b h; unfold serviceId; rw [h]
  · intro a b h; unfold serverId; rw [h]
  · intro a b h; unfold nodeId; rw [h]
  · intro a b h; unfold rosterId; rw [h]
  · intro rid f g h; unfold treeId; rw [h]
  · intro a b c d h; unfold peerSetId; rw [h]

/-! ### the code regions the model stands for
Regenerated from /repo's source on every run (`harness/cmd/astfacts` → `OnetVerif/Shapes.lean`): the
calls that matter for synchronisation and data flow, the lock regions and (for decision logic) the
conditions, in source order.  A re-ordering, a dropped call or a changed condition breaks these
obligations even when no sampled input or schedule shows a difference; the check then searches for
a failing input. -/
theorem c13_shape_NewTree :
    Shapes.tree_NewTree =
   ["sha256.New", "assign:h:=sha256.New()", "Public.MarshalTo",
     "assign:_,err:=tn.ServerIdentity.Public.MarshalTo(h)", "if:(err!=nil)", "if:tn.IsLeaf()",
     "h.Write", "assign:_,err=h.Write(conv{1})", "if:(err!=nil)", "root.Visit", "ID.String",
     "h.Sum", "hex.EncodeToString",
     "assign:url:=(((network.NamespaceURL+\"\")+roster.ID.String())+hex.EncodeToString(h.Sum(nil)))",
     "uuid.NewSHA1", "TreeID",
     "assign:t:=&Tree{Roster:roster,Root:root,ID:TreeID(uuid.NewSHA1(uuid.NameSpaceURL,conv(url)))}",
     "t.computeSubtreeAggregate", "return:t"] := rfl

theorem c13_shape_NewTreeNode :
    Shapes.tree_NewTreeNode =
   ["Public.String", "uuid.NewSHA1", "TreeNodeID",
     "assign:tn:=&TreeNode{ServerIdentity:ni,RosterIndex:entityIdx,Parent:nil,Children:make(conv,0),ID:TreeNodeID(uuid.NewSHA1(uuid.NameSpaceURL,conv(ni.Public.String())))}",
     "return:tn"] := rfl

theorem c13_shape_Token_ID :
    Shapes.messages_Token_ID =
   ["RosterID.String", "RoundID.String", "ServiceID.String", "ProtoID.String", "TreeID.String",
     "TreeNodeID.String",
     "assign:url:=(((((((network.NamespaceURL+\"\")+t.RosterID.String())+t.RoundID.String())+t.ServiceID.String())+t.ProtoID.String())+t.TreeID.String())+t.TreeNodeID.String())",
     "return:TokenID(uuid.NewSHA1(uuid.NameSpaceURL,conv(url)))"] := rfl

theorem c13_shape_Token_Clone :
    Shapes.messages_Token_Clone =
   ["assign:t2:=*t", "return:&t2"] := rfl

theorem c13_shape_Token_ChangeTreeNodeID :
    Shapes.messages_Token_ChangeTreeNodeID =
   ["assign:tOther:=*t", "assign:tOther.TreeNodeID=newid", "return:&tOther"] := rfl

theorem c13_shape_Roster_GetID :
    Shapes.tree_Roster_GetID =
   ["sha256.New", "assign:h:=sha256.New()", "range:_,id:=ro.List{", "Public.MarshalTo",
     "assign:_,err:=id.Public.MarshalTo(h)", "if:(err!=nil)",
     "return:RosterID{},xerrors.Errorf(\"\",err)", "range:_,srvid:=id.ServiceIdentities{",
     "Public.MarshalTo", "assign:_,err=srvid.Public.MarshalTo(h)", "if:(err!=nil)",
     "return:RosterID{},xerrors.Errorf(\"\",err)", "}", "}",
     "return:RosterID(uuid.NewSHA1(uuid.NameSpaceURL,conv(hex.EncodeToString(h.Sum(nil))))),nil"] := rfl

theorem c13_shape_Roster_Concat :
    Shapes.tree_Roster_Concat =
   ["NewRoster", "assign:tmpRoster:=NewRoster(ro.List)", "range:_,si:=sis{", "si.GetID",
     "tmpRoster.searchByKey", "assign:i,_:=tmpRoster.searchByKey(si.GetID())", "if:(i<0)",
     "assign:tmpRoster.List=append(tmpRoster.List,si)", "}", "return:NewRoster(tmpRoster.List)"] := rfl

theorem c13_shape_Roster_NewRosterWithRoot :
    Shapes.tree_Roster_NewRosterWithRoot =
   ["assign:list:=make(conv,len(ro.List))", "copy", "root.GetID", "ro.searchByKey",
     "assign:rootIndex,_:=ro.searchByKey(root.GetID())", "if:(rootIndex<0)", "return:nil",
     "assign:list[0],list[rootIndex]=list[rootIndex],list[0]", "return:NewRoster(list)"] := rfl

theorem c13_shape_Roster_RandomSubset :
    Shapes.tree_Roster_RandomSubset =
   ["if:(n>len(ro.List))", "assign:n=len(ro.List)", "assign:out:=make(conv,1,(n+1))",
     "assign:out[0]=root", "securePermute", "assign:perm:=securePermute(len(ro.List))",
     "range:_,p:=perm{", "if:!ro.List[].ID.Equal(root.ID)", "assign:out=append(out,ro.List[p])",
     "if:(len(out)==(n+1))", "break", "}", "return:NewRoster(out)"] := rfl

theorem c13_shape_serviceFactory_Register :
    Shapes.service_serviceFactory_Register =
   ["if:!s.ServiceID().Equal(NilServiceID)", "return:NilServiceID,xerrors.Errorf(\"\",name)",
     "uuid.NewSHA1", "ServiceID",
     "assign:id:=ServiceID(uuid.NewSHA1(uuid.NameSpaceURL,conv(name)))", "mutex.Lock",
     "defer:mutex.Unlock",
     "assign:s.constructors=append(s.constructors,serviceEntry{constructor:fn,serviceID:id,name:name,suite:suite})",
     "return:id,nil"] := rfl

theorem c13_shape_serviceFactory_Unregister :
    Shapes.service_serviceFactory_Unregister =
   ["mutex.Lock", "defer:mutex.Unlock", "assign:index:=-1", "range:i,c:=s.constructors{",
     "if:(c.name==name)", "assign:index=i", "break", "}", "if:(index<0)",
     "return:xerrors.New((\"\"+name))",
     "assign:s.constructors=append(s.constructors[:index],s.constructors[(index+1):])",
     "return:nil"] := rfl

theorem c13_shape_serviceFactory_ServiceID :
    Shapes.service_serviceFactory_ServiceID =
   ["mutex.RLock", "defer:mutex.RUnlock", "range:_,c:=s.constructors{", "if:(name==c.name)",
     "return:c.serviceID", "}", "return:NilServiceID"] := rfl

theorem c13_shape_serviceFactory_Name :
    Shapes.service_serviceFactory_Name =
   ["mutex.RLock", "defer:mutex.RUnlock", "range:_,c:=s.constructors{",
     "if:id.Equal(c.serviceID)", "return:c.name", "}", "return:\"\""] := rfl

theorem c13_shape_RegisterNewService :
    Shapes.service_RegisterNewService =
   ["ServiceFactory.Register"] := rfl

theorem c13_shape_RegisterNewServiceWithSuite :
    Shapes.service_RegisterNewServiceWithSuite =
   ["ServiceFactory.Register"] := rfl

theorem c13_shape_ProtocolNameToID :
    Shapes.protocol_ProtocolNameToID =
   ["assign:url:=((network.NamespaceURL+\"\")+name)",
     "return:ProtocolID(uuid.NewMD5(uuid.NameSpaceURL,conv(url)))"] := rfl

theorem c13_shape_protocolStorage_Register :
    Shapes.protocol_protocolStorage_Register =
   ["ps.Lock", "defer:ps.Unlock", "ProtocolNameToID", "assign:id:=ProtocolNameToID(name)",
     "assign:_,exists:=ps.instantiators[name]", "if:exists",
     "return:ProtocolID(uuid.Nil),xerrors.Errorf(\"\",name)",
     "assign:ps.instantiators[name]=protocol", "return:id,nil"] := rfl

theorem c13_shape_protocolStorage_ProtocolIDToName :
    Shapes.protocol_protocolStorage_ProtocolIDToName =
   ["ps.Lock", "defer:ps.Unlock", "range:n,:=ps.instantiators{",
     "if:id.Equal(ProtocolNameToID(n))", "return:n", "}", "return:\"\""] := rfl

theorem c13_shape_GlobalProtocolRegister :
    Shapes.protocol_GlobalProtocolRegister =
   ["protocols.Lock", "protocols.Unlock", "protocols.Unlock", "protocols.Register"] := rfl

theorem c13_shape_router_NewPeerSetID :
    Shapes.network_router_NewPeerSetID =
   ["copy", "return:p"] := rfl

theorem c13_shape_struct_NewServerIdentity :
    Shapes.network_struct_NewServerIdentity =
   ["si.GetID"] := rfl

theorem c13_shape_TreeNode_Visit :
    Shapes.tree_TreeNode_Visit =
   ["fn", "range:_,c:=t.Children{", "c.Visit", "}"] := rfl

theorem c13_shape_Roster_IsRotation :
    Shapes.tree_Roster_IsRotation =
   ["if:(target==nil)", "return:false", "assign:n:=len(ro.List)", "if:(n<2)", "return:false",
     "if:(n!=len(target.List))", "return:false", "range:_,sid:=target.List{",
     "if:sid.Equal(ro.List[0])", "break", "assign:offset++", "}",
     "if:((offset==0)||(offset>=n))", "return:false", "range:i,sid:=ro.List{",
     "if:!sid.Equal(target.List[((i+offset)%n)])", "return:false", "}", "return:true"] := rfl

theorem c13_shape_Roster_Equal :
    Shapes.tree_Roster_Equal =
   ["ro.GetID", "other.GetID", "roID.Equal"] := rfl

theorem c13_shape_NewRoster_full :
    Shapes.tree_NewRoster_full =
   ["if:((len(ids)<1)||(ids[0].Public==nil))", "return:nil", "sha256.New",
     "assign:h:=sha256.New()", "range:_,id:=ids{", "Public.MarshalTo",
     "assign:_,err:=id.Public.MarshalTo(h)", "if:(err!=nil)",
     "range:_,srvid:=id.ServiceIdentities{", "Public.MarshalTo",
     "assign:_,err=srvid.Public.MarshalTo(h)", "if:(err!=nil)", "}", "}", "h.Sum",
     "hex.EncodeToString", "uuid.NewSHA1", "RosterID",
     "assign:r:=&Roster{ID:RosterID(uuid.NewSHA1(uuid.NameSpaceURL,conv(hex.EncodeToString(h.Sum(nil)))))}",
     "assign:r.List=append(r.List,ids)", "if:(len(ids)!=0)", "range:_,e:=ids{",
     "if:(e.Public==nil)", "continue", "if:(agg==nil)", "Public.Clone",
     "assign:agg=e.Public.Clone()", "else", "agg.Add", "assign:agg=agg.Add(agg,e.Public)", "}",
     "assign:r.Aggregate=agg", "return:r"] := rfl

theorem c13_shape_Context_NewPeerSetID_full :
    Shapes.context_Context_NewPeerSetID_full =
   ["sha256.New", "assign:h:=sha256.New()", "h.Write", "h.Write",
     "return:network.NewPeerSetID(h.Sum(nil))"] := rfl

theorem c13_shape_struct_ServerIdentity_GetID_full :
    Shapes.network_struct_ServerIdentity_GetID_full =
   ["if:(si.Public==nil)", "return:ServerIdentityID(uuid.Nil)", "Public.String",
     "assign:url:=((NamespaceURL+\"\")+si.Public.String())",
     "return:ServerIdentityID(uuid.NewSHA1(uuid.NameSpaceURL,conv(url)))"] := rfl


end C13
