import OnetVerif.Model.C13
/-! Property C13 — property theorems, negation witnesses, `_partial` variants and non-vacuity
examples only (helper lemmas that need Mathlib go to OnetVerif/Proofs/). -/
namespace C13

end C13
