import OnetVerif.Model.C19Core
import OnetVerif.Model.C19Files
import OnetVerif.Gen.C19
/-! Property C19 — the definitions regenerated from the Go source (`Gen/C19.lean`, written by `harness/cmd/go2lean`
on every check run from `simul/monitor/stats.go`) equal the hand-written model (`Model/C19Core.lean`).
`Gen.C19.Value` is the Go struct field by field (`n` is a Go `int`); `Value.ofGen` reads it as the model's `Value`.
Nothing imports this file. -/
set_option linter.unusedSimpArgs false
namespace C19
variable {α : Type} [Num α]

/-- the translated struct read as the model's (`name` has no counterpart: the model keys values by name) -/
def Value.ofGen (t : Gen.C19.Value α) : Value α :=
  { n := t.n.toNat, min := t.min, max := t.max, sum := t.sum, oldM := t.oldM, newM := t.newM,
    oldS := t.oldS, newS := t.newS, dev := t.dev, store := t.store }

/-- `Value.Store` as translated appends to the store, like the model's `put` -/
theorem c19_gen_Value_Store_eq (t : Gen.C19.Value α) (x : α) :
    Value.ofGen (Gen.C19.Value_Store t x) = (Value.ofGen t).put x := rfl

/-- two folds over the same list whose states stay related -/
theorem foldl_sim {σ τ β : Type} (f : σ → β → σ) (h : τ → β → τ) (R : σ → τ → Prop)
    (hstep : ∀ s t x, R s t → R (f s x) (h t x)) : ∀ (xs : List β) (s : σ) (t : τ), R s t →
      R (xs.foldl f s) (xs.foldl h t) := by
  intro xs
  induction xs with
  | nil => intro s t r; exact r
  | cons x xs ih => intro s t r; exact ih _ _ (hstep s t x r)

/-- **`Value.Collect` as translated computes the model's `collect`**: the reset, then for every stored value one
`step` (minimum, maximum, count, running mean and variance, deviation, sum) in the order of the source; the Go
counter `n` (an `int`, translated without wrap-around) stays non-negative, so it reads as the model's natural
number throughout. -/
theorem c19_gen_Value_Collect_eq (t : Gen.C19.Value α) :
    Value.ofGen (Gen.C19.Value_Collect t) = (Value.ofGen t).collect := by
  unfold Gen.C19.Value_Collect Value.collect
  refine (foldl_sim _ Value.step (fun g m => Value.ofGen g = m ∧ 0 ≤ g.n) ?_ _ _ _ ?_).1
  · rintro g m x ⟨rfl, hn⟩
    obtain ⟨k, hk⟩ := Int.eq_ofNat_of_zero_le hn
    obtain ⟨name, mn, mx, sm, n, oM, nM, oS, nS, dv, st⟩ := g
    simp only at hk
    subst hk
    have e1 : ∀ j : Nat, ((j : Int) + 1 == 1) = (j == 0) := by
      intro j; cases j <;> simp
      omega
    have e2 : ∀ j : Nat, ((j : Int) == 0) = (j == 0) := by intro j; cases j <;> simp; omega
    have e3 : ∀ j : Nat, ¬ ((j : Int) + 1 < 0) := by intro j; omega
    have e4 : ∀ j : Nat, ¬ ((j : Int) + 1 - 1 < 0) := by intro j; omega
    have e5 : ∀ j : Nat, Int.toNat ((j : Int) + 1) = j + 1 := by intro j; omega
    have e6 : ∀ j : Nat, Int.toNat ((j : Int) + 1 - 1) = j := by intro j; omega
    have e7 : ∀ j : Nat, (0 : Int) ≤ (j : Int) + 1 := by intro j; omega
    have e8 : ∀ j : Nat, ((j : Int) + 1 = 0) = False := by intro j; simp; omega
    have e9 : ∀ j : Nat, ((j : Int) + 1 + 1 = 1) = False := by intro j; simp; omega
    have e10 : ∀ j : Nat, ¬ ((j : Int) + 1 + 1 < 0) := by intro j; omega
    have e11 : ∀ j : Nat, ¬ ((j : Int) + 1 + 1 - 1 < 0) := by intro j; omega
    have e12 : ∀ j : Nat, Int.toNat ((j : Int) + 1 + 1) = j + 1 + 1 := by intro j; omega
    have e13 : ∀ j : Nat, Int.toNat ((j : Int) + 1 + 1 - 1) = j + 1 := by intro j; omega
    have e14 : ∀ j : Nat, (0 : Int) ≤ (j : Int) + 1 + 1 := by intro j; omega
    cases h1 : Num.lt x mn <;> cases h2 : Num.lt mx x <;> cases k <;>
      simp [Value.ofGen, Value.step, zero, h1, h2, e1, e2, e3, e4, e5, e6, e7, e8, e9, e10, e11, e12, e13, e14]
  · exact ⟨rfl, Int.le_refl 0⟩

/-- the translated rule read as the model's -/
def Rule.ofGen (r : Gen.C19.bucketRule α) : Rule := { low := r.low, high := r.high }

/-- **`bucketRule.Match` as translated is the model's `Rule.matches`**: lower bound inclusive, upper bound exclusive -/
theorem c19_gen_bucketRule_Match_eq (r : Gen.C19.bucketRule α) (i : Int) :
    Gen.C19.bucketRule_Match r i = (Rule.ofGen r).matches i := by
  rw [Bool.eq_iff_iff]
  simp only [Gen.C19.bucketRule_Match, Rule.matches, Rule.ofGen, Bool.and_eq_true, decide_eq_true_iff, ge_iff_le]
  exact ⟨fun h => ⟨decide_eq_true h.1, decide_eq_true h.2⟩, fun h => ⟨of_decide_eq_true h.1, of_decide_eq_true h.2⟩⟩

/-- **`bucketRules.Match` as translated is the model's `rulesMatch`**: a negative host index matches nothing, any
other index matches when one of the rules does (the loop returns at the first rule that matches) -/
theorem c19_gen_bucketRules_Match_eq (rr : List (Gen.C19.bucketRule α)) (h : Int) :
    Gen.C19.bucketRules_Match rr h = rulesMatch (rr.map Rule.ofGen) h := by
  unfold Gen.C19.bucketRules_Match rulesMatch
  by_cases hn : h < 0
  · simp [hn]
  · simp only [hn, decide_false, Bool.false_eq_true, if_false]
    induction rr with
    | nil => simp [Gen.Rt.rangeReturn]
    | cons r rest ih =>
      simp only [Gen.Rt.rangeReturn, List.findSome?_cons, List.map_cons, List.any_cons, c19_gen_bucketRule_Match_eq] at ih ⊢
      cases hm : (Rule.ofGen r).matches h
      · simpa using ih
      · simp

/-- the zero `Value` of the translation (`new(Value)`, `var t Value`) -/
def genZero : Gen.C19.Value α :=
  { name := [], min := Num.ofNat 0, max := Num.ofNat 0, sum := Num.ofNat 0, n := 0, oldM := Num.ofNat 0,
    newM := Num.ofNat 0, oldS := Num.ofNat 0, newS := Num.ofNat 0, dev := Num.ofNat 0, store := [] }

private theorem avg_fold (name : List Nat) (xs : List (Gen.C19.Value α)) (t : Gen.C19.Value α)
    (h : ∀ s ∈ xs, s.name = name) :
    Gen.Rt.foldReturn xs t (fun t s =>
      if (s.name != name) then Sum.inl (some (genZero : Gen.C19.Value α))
      else Sum.inr { t with store := t.store ++ s.store }) =
    Sum.inr { t with store := t.store ++ xs.flatMap (·.store) } := by
  induction xs generalizing t with
  | nil => simp [Gen.Rt.foldReturn]
  | cons x rest ih =>
    have hx : x.name = name := h x List.mem_cons_self
    have hne : (x.name != name) = false := by simp [hx]
    simp only [Gen.Rt.foldReturn, hne, Bool.false_eq_true, if_false]
    rw [ih _ (fun s hs => h s (List.mem_cons_of_mem _ hs))]
    simp [List.flatMap_cons, List.append_assoc]

/-- **`AverageValue` as translated computes the model's `averageValue`** on values of one name (what `AverageStats`
hands it: the values found under one key): it does not panic, and the result carries the stores of all arguments
joined in argument order and zero everywhere else (nothing is computed before the next `Collect`) -/
theorem c19_gen_AverageValue_eq (st : List (Gen.C19.Value α))
    (h : ∀ s ∈ st, ∀ s' ∈ st, s.name = s'.name) :
    (Gen.C19.AverageValue st).map Value.ofGen = some (averageValue (st.map Value.ofGen)) := by
  cases st with
  | nil => simp [Gen.C19.AverageValue, Gen.Rt.len, averageValue, Value.ofGen, Value.new, zero]
  | cons a rest =>
    have hlen : ¬ (Gen.Rt.len (a :: rest) < 1) := by simp [Gen.Rt.len]; omega
    have hall : ∀ s ∈ a :: rest, s.name = a.name := fun s hs => h s hs a List.mem_cons_self
    have hf := avg_fold a.name (a :: rest) (genZero : Gen.C19.Value α) hall
    unfold genZero at hf
    simp only [Gen.C19.AverageValue, hlen, decide_false, Bool.false_eq_true, if_false, Gen.Rt.idx, Int.toNat_zero,
      List.getElem?_cons_zero, Int.lt_irrefl, hf]
    simp [averageValue, Value.ofGen, Value.new, zero, List.flatMap_cons, List.map_cons, List.flatMap_map]

/-- arguments of different names: the zero value (after the log line), whatever was joined before -/
theorem c19_gen_AverageValue_mismatch (a b : Gen.C19.Value α) (hn : a.name ≠ b.name) :
    Gen.C19.AverageValue [a, b] = some genZero := by
  have h1 : (a.name != a.name) = false := by simp
  have h2 : (b.name != a.name) = true := by simp; exact fun e => hn e.symm
  simp [Gen.C19.AverageValue, Gen.Rt.len, Gen.Rt.idx, Gen.Rt.foldReturn, h1, h2, genZero]
/-! ### the write-out side (round 7): file names, header fields, value fields -/

/-- `generateResultFileName` as translated is the model's `resultFileNameB` (which the driver's file names are made
with): the global result set's file carries no index, every other file its bucket index -/
theorem c19_gen_generateResultFileName_eq (name : List Nat) (index : Int) :
    Gen.C19.generateResultFileName (α := α) name index = resultFileNameB name index := by
  unfold Gen.C19.generateResultFileName resultFileNameB
  by_cases h : index = 0 <;> simp [h]

/-- `Value.HeaderFields` as translated: the name with the five suffixes, in the order `_min _max _avg _sum _dev` -/
theorem c19_gen_Value_HeaderFields_eq (t : Gen.C19.Value α) :
    Gen.C19.Value_HeaderFields t = headerFields t.name := by
  simp [Gen.C19.Value_HeaderFields, headerFields, strBytes]

/-- `Value.Values` as translated formats, in the same order, the five numbers the model's `Value.values` lists
(`Min Max Avg Sum Dev` read the fields `min max newM sum dev`): column i of the values line is the statistic the
header's column i names -/
theorem c19_gen_Value_Values_eq (t : Gen.C19.Value α) (fmtF : α → List Nat) :
    Gen.C19.Value_Values t fmtF = (Value.ofGen t).values.map fmtF := by
  simp [Gen.C19.Value_Values, Gen.C19.Value_Min, Gen.C19.Value_Max, Gen.C19.Value_Avg, Gen.C19.Value_Sum,
    Gen.C19.Value_Dev, Value.values, Value.ofGen]

theorem splitColon_ne_nil : ∀ bs : List Nat, splitColon bs ≠ []
  | [] => by simp [splitColon]
  | c :: r => by
    have ih := splitColon_ne_nil r
    unfold splitColon
    cases h : splitColon r with
    | nil => exact absurd h ih
    | cons a t => by_cases hc : c = 58 <;> simp [hc]

/-- **`getStartStop` as translated** (the flag variable `simRange` read as a parameter, `strconv.Atoi` as the pair
it returns) never panics — `strings.Split` returns at least one field — and computes the model's `getStartStop`,
the function `Model/C19Files.lean`'s `runTests` (and with it `c19_runtests_files`, `c19_runtests_header_once`)
decides with which runs are executed. -/
theorem c19_gen_getStartStop_eq (rcs : Int) (simRange : List Nat) :
    Gen.C19.getStartStop (α := α) rcs simRange = some (getStartStop simRange rcs) := by
  unfold Gen.C19.getStartStop getStartStop
  cases h : splitColon simRange with
  | nil => exact absurd h (splitColon_ne_nil _)
  | cons f0 rest =>
    simp only [Gen.Rt.idx, Gen.Rt.len]
    cases h0 : (atoiPair f0).2 with
    | true => simp [h0]
    | false =>
      cases rest with
      | nil => simp [h0]
      | cons f1 t =>
        cases h1 : (atoiPair f1).2 with
        | true =>
          have hl : (1 : Int) < (t.length : Int) + 1 + 1 := by omega
          simp [h0, h1, hl]
        | false =>
          have hl : (1 : Int) < (t.length : Int) + 1 + 1 := by omega
          simp [h0, h1, hl]

end C19
