import OnetVerif.Model.C03
import OnetVerif.Shapes
/-! Property C03 — wire integrity: values, framing and order survive any segmentation.
Property theorems (`c03_…`), the lemmas they need, and non-vacuity examples. -/
namespace C03

/-! ### header arithmetic -/

/-- **the length header round-trips** for every length a `uint32` can hold -/
theorem c03_be32_roundtrip (n : Nat) (h : n < 2^32) : unbe32 (be32 n) = n := by
  simp only [be32, unbe32]; omega

theorem be32_length (n : Nat) : (be32 n).length = 4 := by simp [be32]

theorem encFrame_length (b : List Nat) : (encFrame b).length = 4 + b.length := by
  simp [encFrame, be32_length]

/-! ### one `Read`, and the read-until-full loop, against the concatenation of the segments -/

theorem read_spec (c : Segs) (n : Nat) (hn : 1 ≤ n) :
    (c.flatten = [] → read c n = none) ∧
    (c.flatten ≠ [] → ∃ bs c', read c n = some (bs, c') ∧ 1 ≤ bs.length ∧ bs.length ≤ n ∧
        bs ++ c'.flatten = c.flatten) := by
  induction c with
  | nil => simp [read]
  | cons s rest ih =>
    by_cases hs : s = []
    · subst hs
      simpa [read] using ih
    · have hpos : 1 ≤ s.length := by
        cases s with
        | nil => exact absurd rfl hs
        | cons a t => simp
      have hemp : s.isEmpty = false := by simpa using hs
      constructor
      · intro h; simp [hs] at h
      · intro _
        by_cases hle : s.length ≤ n
        · exact ⟨s, rest, by simp [read, hemp, hle], hpos, hle, by simp⟩
        · refine ⟨s.take n, s.drop n :: rest, by simp [read, hemp, hle], ?_, ?_, ?_⟩
          · simp; omega
          · simp; omega
          · simp [← List.append_assoc]

theorem readExact_zero (fuel : Nat) (c : Segs) (acc : List Nat) :
    readExact fuel c 0 acc = (some acc, c) := by
  cases fuel <;> rfl

/-- the loop returns exactly the first `n` bytes in flight and leaves the rest, whatever the
segmentation; it reports EOF iff fewer than `n` bytes were in flight. -/
theorem readExact_spec (fuel : Nat) (c : Segs) (n : Nat) (acc : List Nat) (hf : n ≤ fuel) :
    (n ≤ c.flatten.length → ∃ c', readExact fuel c n acc = (some (acc ++ c.flatten.take n), c') ∧
        c'.flatten = c.flatten.drop n) ∧
    (c.flatten.length < n → (readExact fuel c n acc).1 = none) := by
  induction fuel generalizing c n acc with
  | zero =>
    have : n = 0 := by omega
    subst this
    exact ⟨fun _ => ⟨c, by simp [readExact_zero]⟩, fun h => by omega⟩
  | succ fuel ih =>
    cases n with
    | zero => exact ⟨fun _ => ⟨c, by simp [readExact_zero]⟩, fun h => by omega⟩
    | succ n =>
      have hr := read_spec c (n + 1) (by omega)
      by_cases he : c.flatten = []
      · have h0 := hr.1 he
        constructor
        · intro h; simp [he] at h
        · intro _; simp [readExact, h0]
      · obtain ⟨bs, c', hread, h1, h2, h3⟩ := hr.2 he
        have hlen : c.flatten.length = bs.length + c'.flatten.length := by
          rw [← h3]; simp
        have hstep : readExact (fuel + 1) c (n + 1) acc =
            readExact fuel c' (n + 1 - bs.length) (acc ++ bs) := by
          simp [readExact, hread]
        have ih' := ih c' (n + 1 - bs.length) (acc ++ bs) (by omega)
        rw [hstep]
        constructor
        · intro h
          obtain ⟨c'', e1, e2⟩ := ih'.1 (by omega)
          refine ⟨c'', ?_, ?_⟩
          · rw [e1, ← h3, List.take_append]
            have : List.take (n + 1) bs = bs := List.take_of_length_le (by omega)
            simp [this, List.append_assoc]
          · rw [e2, ← h3, List.drop_append]
            have : List.drop (n + 1) bs = [] := List.drop_of_length_le (by omega)
            simp [this]
        · intro h
          exact ih'.2 (by omega)

theorem readExact_nil (c : Segs) (n : Nat) :
    (n ≤ c.flatten.length → ∃ c', readExact n c n [] = (some (c.flatten.take n), c') ∧
        c'.flatten = c.flatten.drop n) ∧
    (c.flatten.length < n → ∃ c', readExact n c n [] = (none, c')) := by
  have h := readExact_spec n c n [] (Nat.le_refl n)
  constructor
  · intro hl
    obtain ⟨c', e, f⟩ := h.1 hl
    exact ⟨c', by simpa using e, f⟩
  · intro hl
    have := h.2 hl
    exact ⟨(readExact n c n []).2, by rw [← this]⟩

/-- `receiveRawProd` as a function of the bytes in flight alone: the answer, and the bytes left
when the loop may go on -/
def frameSpec (max : Nat) (bs : List Nat) : Except RecvErr (List Nat) × List Nat :=
  if bs.length < 4 then (.error .eof, [])
  else if unbe32 (bs.take 4) > max then (.error .tooBig, bs.drop 4)
  else if (bs.drop 4).length < unbe32 (bs.take 4) then (.error .eof, [])
  else (.ok ((bs.drop 4).take (unbe32 (bs.take 4))), (bs.drop 4).drop (unbe32 (bs.take 4)))

/-- `recvFrame` under any segmentation computes `frameSpec` of the concatenation -/
theorem recvFrame_spec (max : Nat) (c : Segs) :
    (recvFrame max c).1 = (frameSpec max c.flatten).1 ∧
    (∀ b, (recvFrame max c).1 = .ok b → (recvFrame max c).2.flatten = (frameSpec max c.flatten).2) := by
  have s1 := readExact_nil c 4
  unfold frameSpec
  by_cases hl : c.flatten.length < 4
  · obtain ⟨c1, e1⟩ := s1.2 hl
    rw [if_pos hl]
    simp only [recvFrame, e1]
    simp
  · obtain ⟨c1, e1, f1⟩ := s1.1 (by omega)
    rw [if_neg hl]
    by_cases hbig : unbe32 (c.flatten.take 4) > max
    · rw [if_pos hbig]
      simp only [recvFrame, e1, if_pos hbig]
      simp
    · rw [if_neg hbig]
      have s2 := readExact_nil c1 (unbe32 (c.flatten.take 4))
      by_cases hl2 : c1.flatten.length < unbe32 (c.flatten.take 4)
      · obtain ⟨c2, e2⟩ := s2.2 hl2
        have hl2' : (c.flatten.drop 4).length < unbe32 (c.flatten.take 4) := by rw [← f1]; exact hl2
        rw [if_pos hl2']
        simp only [recvFrame, e1, if_neg hbig, e2]
        simp
      · obtain ⟨c2, e2, f2⟩ := s2.1 (by omega)
        have hl2' : ¬ (c.flatten.drop 4).length < unbe32 (c.flatten.take 4) := by rw [← f1]; exact hl2
        rw [if_neg hl2']
        simp only [recvFrame, e1, if_neg hbig, e2]
        exact ⟨by rw [f1], fun b _ => by rw [f2, f1]⟩

theorem recvFrame_pair (max : Nat) (c : Segs) : ∃ r c', recvFrame max c = (r, c') := ⟨_, _, rfl⟩

/-- frame-level errors are EOF or too-big, nothing else -/
theorem recvFrame_err (max : Nat) (c : Segs) (e : RecvErr) (h : (recvFrame max c).1 = .error e) :
    e = .eof ∨ e = .tooBig := by
  rw [(recvFrame_spec max c).1] at h
  unfold frameSpec at h
  split at h
  · left; simpa using h.symm
  · split at h
    · right; simpa using h.symm
    · split at h
      · left; simpa using h.symm
      · simp at h

/-- a complete frame at the head of the stream is received intact and exactly consumed -/
theorem recvFrame_enc (max : Nat) (b tail : List Nat) (c : Segs)
    (hb : b.length ≤ max) (h32 : b.length < 2^32) (hc : c.flatten = encFrame b ++ tail) :
    ∃ c', recvFrame max c = (.ok b, c') ∧ c'.flatten = tail := by
  have t4 : (encFrame b ++ tail).take 4 = be32 b.length := by simp [encFrame, be32]
  have d4 : (encFrame b ++ tail).drop 4 = b ++ tail := by simp [encFrame, be32]
  have hs : frameSpec max (encFrame b ++ tail) = (.ok b, tail) := by
    unfold frameSpec
    rw [if_neg (by rw [List.length_append, encFrame_length]; omega), t4, d4, c03_be32_roundtrip _ h32, if_neg (by omega),
      if_neg (by simp)]
    simp
  obtain ⟨r, c', hr⟩ := recvFrame_pair max c
  have sp := recvFrame_spec max c
  rw [hr, hc, hs] at sp
  simp only at sp
  refine ⟨c', by rw [hr, sp.1], sp.2 b sp.1⟩

/-- fewer than four bytes in flight: EOF while reading the header -/
theorem recvFrame_short_header (max : Nat) (c : Segs) (h : c.flatten.length < 4) :
    (recvFrame max c).1 = .error .eof := by
  rw [(recvFrame_spec max c).1]; unfold frameSpec; rw [if_pos h]

/-- a header above the limit: refused before a single body byte is read -/
theorem recvFrame_oversize (max n : Nat) (junk : List Nat) (c : Segs)
    (hn : max < n) (h32 : n < 2^32) (hc : c.flatten = be32 n ++ junk) :
    (recvFrame max c).1 = .error .tooBig := by
  have t4 : (be32 n ++ junk).take 4 = be32 n := by simp [be32]
  rw [(recvFrame_spec max c).1, hc]
  unfold frameSpec
  rw [if_neg (by simp [be32_length]), t4, c03_be32_roundtrip _ h32, if_pos (by omega)]

/-- a frame cut anywhere (in the header or in the body): EOF, nothing is delivered from it -/
theorem recvFrame_truncated (max : Nat) (b : List Nat) (k : Nat) (c : Segs)
    (hb : b.length ≤ max) (h32 : b.length < 2^32) (hk : k < (encFrame b).length)
    (hc : c.flatten = (encFrame b).take k) :
    (recvFrame max c).1 = .error .eof := by
  have hk' : k < 4 + b.length := by rw [encFrame_length] at hk; exact hk
  have hlen : ((encFrame b).take k).length = k := by simp [encFrame_length]; omega
  by_cases h4 : k < 4
  · exact recvFrame_short_header max c (by rw [hc, hlen]; exact h4)
  · have t4 : ((encFrame b).take k).take 4 = be32 b.length := by
      rw [List.take_take, Nat.min_eq_left (by omega)]; simp [encFrame, be32]
    rw [(recvFrame_spec max c).1, hc]
    unfold frameSpec
    rw [if_neg (by rw [hlen]; exact h4), t4, c03_be32_roundtrip _ h32, if_neg (by omega),
      if_pos (by simp [hlen]; omega)]

/-- whatever `recvFrame` accepts was preceded by its 4-byte header: progress of the loop -/
theorem recvFrame_progress (max : Nat) (c c' : Segs) (b : List Nat)
    (h : recvFrame max c = (.ok b, c')) : inflight c' + 4 ≤ inflight c := by
  have sp := recvFrame_spec max c
  rw [h] at sp
  have h2 := sp.2 b rfl
  have h1 := sp.1
  simp only at h1 h2
  unfold frameSpec at h1 h2
  split at h1
  · simp at h1
  · split at h1
    · simp at h1
    · split at h1
      · simp at h1
      · rename_i g1 g2 g3
        rw [if_neg g1, if_neg g2, if_neg g3] at h2
        simp only [inflight, h2, List.length_drop]
        omega

/-! ### all segmentations: only the concatenation matters -/

/-- two segmentations of the same bytes give `recvFrame` the same answer and, when the loop can go
on, the same bytes left -/
theorem recvFrame_segmentation (max : Nat) (c d : Segs) (h : c.flatten = d.flatten) :
    (recvFrame max c).1 = (recvFrame max d).1 ∧
    (∀ b, (recvFrame max c).1 = .ok b → (recvFrame max c).2.flatten = (recvFrame max d).2.flatten) := by
  have sc := recvFrame_spec max c
  have sd := recvFrame_spec max d
  refine ⟨by rw [sc.1, sd.1, h], fun b hb => ?_⟩
  rw [sc.2 b hb, sd.2 b (by rw [sd.1, ← h, ← sc.1]; exact hb), h]

theorem classify_not_closed {V : Type} (cd : Codec V) (b : List Nat) :
    (classify cd b).isClosed = false := by
  unfold classify unmarshal
  split
  · rfl
  · split
    · split <;> rfl
    · rfl

/-- one turn of the loop when `receiveRaw` failed -/
theorem recvLoop_err {V : Type} (cd : Codec V) (max fuel : Nat) (c c' : Segs) (e : RecvErr)
    (h : recvFrame max c = (.error e, c')) :
    recvLoop cd max (fuel + 1) c = [.closed e] := by
  have he := recvFrame_err max c e (by rw [h])
  rcases he with rfl | rfl <;> simp [recvLoop, receive, h, react, sentinelOf, fatal, Event.isClosed]

/-- one turn of the loop when a frame came in -/
theorem recvLoop_ok {V : Type} (cd : Codec V) (max fuel : Nat) (c c' : Segs) (b : List Nat)
    (h : recvFrame max c = (.ok b, c')) :
    recvLoop cd max (fuel + 1) c = classify cd b :: recvLoop cd max fuel c' := by
  have hnc := classify_not_closed cd b
  simp only [classify] at hnc
  simp [recvLoop, receive, h, hnc, classify]

/-- **segmentation is irrelevant**: the whole behaviour of the receive loop — what is delivered,
what is refused, in which order, how the connection ends — is a function of the bytes sent, not of
how the transport cut them. Holds for every stream, well-formed or not. -/
theorem c03_segmentation_irrelevant {V : Type} (cd : Codec V) (max fuel : Nat) (c d : Segs)
    (h : c.flatten = d.flatten) : recvLoop cd max fuel c = recvLoop cd max fuel d := by
  induction fuel generalizing c d with
  | zero => rfl
  | succ fuel ih =>
    have hs := recvFrame_segmentation max c d h
    obtain ⟨rc, c', hc⟩ := recvFrame_pair max c
    obtain ⟨rd, d', hd⟩ := recvFrame_pair max d
    rw [hc, hd] at hs
    have h1 : rc = rd := hs.1
    subst h1
    cases rc with
    | error e => rw [recvLoop_err cd max fuel c c' e hc, recvLoop_err cd max fuel d d' e hd]
    | ok b =>
      rw [recvLoop_ok cd max fuel c c' b hc, recvLoop_ok cd max fuel d d' b hd,
        ih c' d' (hs.2 b rfl)]

/-! ### the loop on a stream of well-formed frames followed by something that ends it -/

/-- `tail` makes the next `receiveRaw` fail with `e`, however it is segmented -/
def EndsWith (max : Nat) (tail : List Nat) (e : RecvErr) : Prop :=
  ∀ c : Segs, c.flatten = tail → (recvFrame max c).1 = .error e

theorem endsWith_nil (max : Nat) : EndsWith max [] .eof :=
  fun c hc => recvFrame_short_header max c (by rw [hc]; simp)

theorem endsWith_oversize (max n : Nat) (junk : List Nat) (hn : max < n) (h32 : n < 2^32) :
    EndsWith max (be32 n ++ junk) .tooBig :=
  fun c hc => recvFrame_oversize max n junk c hn h32 hc

theorem endsWith_truncated (max : Nat) (b : List Nat) (k : Nat) (hb : b.length ≤ max)
    (h32 : b.length < 2^32) (hk : k < (encFrame b).length) :
    EndsWith max ((encFrame b).take k) .eof :=
  fun c hc => recvFrame_truncated max b k c hb h32 hk hc

theorem wire_cons (b : List Nat) (l : List (List Nat)) : wire (b :: l) = encFrame b ++ wire l := by
  simp [wire]

theorem wire_append (l₁ l₂ : List (List Nat)) : wire (l₁ ++ l₂) = wire l₁ ++ wire l₂ := by
  simp [wire]

/-- the receive loop on `frames` (each within the limit) followed by a tail that ends the
connection with `e`: every frame is classified on its own, in order, then the connection closes. -/
theorem recvLoop_frames {V : Type} (cd : Codec V) (max : Nat) (hmax : max < 2^32)
    (frames : List (List Nat)) (tail : List Nat) (e : RecvErr)
    (hf : ∀ f ∈ frames, f.length ≤ max) (ht : EndsWith max tail e)
    (hfatal : fatal (sentinelOf e) = true)
    (fuel : Nat) (hfuel : frames.length + 1 ≤ fuel) (c : Segs)
    (hc : c.flatten = wire frames ++ tail) :
    recvLoop cd max fuel c = frames.map (classify cd) ++ [.closed e] := by
  induction frames generalizing c fuel with
  | nil =>
    cases fuel with
    | zero => omega
    | succ fuel =>
      have h1 := ht c (by simpa [wire] using hc)
      obtain ⟨r, c', hr⟩ := recvFrame_pair max c
      rw [hr] at h1
      simp only at h1
      subst h1
      rw [recvLoop_err cd max fuel c c' e hr]
      rfl
  | cons b rest ih =>
    cases fuel with
    | zero => omega
    | succ fuel =>
      have hb : b.length ≤ max := hf b (by simp)
      obtain ⟨c', e1, f1⟩ := recvFrame_enc max b (wire rest ++ tail) c hb (by omega)
        (by rw [hc, wire_cons, List.append_assoc])
      rw [recvLoop_ok cd max fuel c c' b e1,
        ih (fun f h => hf f (by simp [h])) fuel (by simp at hfuel; omega) c' f1]
      rfl

theorem wire_length_ge (frames : List (List Nat)) : 4 * frames.length ≤ (wire frames).length := by
  induction frames with
  | nil => simp [wire]
  | cons b l ih => rw [wire_cons]; simp [encFrame_length]; omega

/-- the default fuel of `recvAll` is enough for any number of frames -/
theorem recvAll_frames {V : Type} (cd : Codec V) (max : Nat) (hmax : max < 2^32)
    (frames : List (List Nat)) (tail : List Nat) (e : RecvErr)
    (hf : ∀ f ∈ frames, f.length ≤ max) (ht : EndsWith max tail e)
    (hfatal : fatal (sentinelOf e) = true) (c : Segs)
    (hc : c.flatten = wire frames ++ tail) :
    recvAll cd max c = frames.map (classify cd) ++ [.closed e] := by
  have := wire_length_ge frames
  exact recvLoop_frames cd max hmax frames tail e hf ht hfatal _
    (by simp only [inflight, hc, List.length_append]; omega) c hc

/-! ### the property theorems -/

/-- **framing round trip under every segmentation**: for every limit, every list of frames within
the limit and every way the transport may cut the byte stream, `receiveRaw` yields exactly those
frames, in order, then EOF. -/
theorem c03_frame_roundtrip (max : Nat) (hmax : max < 2^32) (frames : List (List Nat))
    (hf : ∀ f ∈ frames, f.length ≤ max) (c : Segs) (hc : c.flatten = wire frames)
    (fuel : Nat) (hfuel : frames.length + 1 ≤ fuel) :
    recvFrames max fuel c = (frames, some .eof) := by
  induction frames generalizing c fuel with
  | nil =>
    cases fuel with
    | zero => omega
    | succ fuel =>
      have h1 := recvFrame_short_header max c (by rw [hc]; simp [wire])
      simp only [recvFrames]
      cases hr : recvFrame max c with
      | mk r c' => rw [hr] at h1; simp only at h1; subst h1; rfl
  | cons b rest ih =>
    cases fuel with
    | zero => omega
    | succ fuel =>
      obtain ⟨c', e1, f1⟩ := recvFrame_enc max b (wire rest) c (hf b (by simp))
        (by have := hf b (by simp); omega) (by rw [hc, wire_cons])
      simp only [recvFrames, e1]
      rw [ih (fun f h => hf f (by simp [h])) c' f1 fuel (by simp at hfuel; omega)]

/-- **envelope round trip** under the codec hypothesis: what `Marshal` produces, `Unmarshal` turns
back into the same value (same type, since the type id is part of the buffer). -/
theorem c03_marshal_roundtrip {V : Type} (cd : Codec V) (hcd : cd.Sound) (v : V) (b : List Nat)
    (h : marshal cd v = some b) : unmarshal cd b = .ok v := by
  unfold marshal at h
  by_cases hs : cd.sendable v = true
  · simp [hs] at h
    subst h
    have hl := hcd.ty_len v hs
    have t16 : (cd.tyOf v ++ cd.enc v).take 16 = cd.tyOf v := by
      rw [List.take_append_of_le_length (by omega)]; exact List.take_of_length_le (by omega)
    have d16 : (cd.tyOf v ++ cd.enc v).drop 16 = cd.enc v := by
      rw [List.drop_append_of_le_length (by omega)]
      simp [List.drop_of_length_le (show (cd.tyOf v).length ≤ 16 by omega)]
    unfold unmarshal
    rw [if_neg (by simp; omega), t16, d16, hcd.ty_reg v hs, hcd.roundtrip v hs]
    simp
  · simp [hs] at h

/-- what `Send` writes for a value -/
def bufOf {V : Type} (cd : Codec V) (v : V) : List Nat := cd.tyOf v ++ cd.enc v

theorem marshal_bufOf {V : Type} (cd : Codec V) (v : V) (hs : cd.sendable v = true) :
    marshal cd v = some (bufOf cd v) := by simp [marshal, hs, bufOf]

/-- **values arrive equal, in order, without loss or duplication (TCP)**: for every sequence of
sendable values whose buffers respect the receiver's limit and every segmentation of what the
sender wrote, the receiving router dispatches exactly those values in sending order, then sees the
peer's close. -/
theorem c03_value_delivery {V : Type} (cd : Codec V) (hcd : cd.Sound) (max : Nat) (hmax : max < 2^32)
    (vs : List V) (hv : ∀ v ∈ vs, cd.sendable v = true ∧ (bufOf cd v).length ≤ max)
    (c : Segs) (hc : c.flatten = wire (vs.map (bufOf cd))) :
    recvAll cd max c = vs.map .deliver ++ [.closed .eof] := by
  rw [recvAll_frames cd max hmax (vs.map (bufOf cd)) [] .eof
    (by intro f hf'; obtain ⟨v, hv', rfl⟩ := List.mem_map.mp hf'; exact (hv v hv').2)
    (endsWith_nil max) rfl c (by simpa using hc)]
  congr 1
  rw [List.map_map]
  apply List.map_congr_left
  intro v hv'
  simp only [Function.comp, classify]
  rw [c03_marshal_roundtrip cd hcd v (bufOf cd v) (marshal_bufOf cd v (hv v hv').1)]
  rfl

/-- **the same on the in-memory transport** (whole buffers, no limit) -/
theorem c03_value_delivery_local {V : Type} (cd : Codec V) (hcd : cd.Sound)
    (vs : List V) (hv : ∀ v ∈ vs, cd.sendable v = true) :
    localLoop cd (vs.map (bufOf cd)) = vs.map .deliver ++ [.closed .closed] := by
  unfold localLoop
  congr 1
  rw [List.map_map]
  apply List.map_congr_left
  intro v hv'
  simp only [Function.comp, classify]
  rw [c03_marshal_roundtrip cd hcd v (bufOf cd v) (marshal_bufOf cd v (hv v hv'))]
  rfl

/-- the in-memory queues under every schedule of senders, the forwarding goroutine and the
receiver: received ++ still queued = sent, always (FIFO, nothing lost, nothing duplicated). -/
theorem c03_local_fifo (cap : Nat) (s : LQ) (sched : List LAct) :
    (lrun cap s sched).1.got ++ (lrun cap s sched).1.out ++ (lrun cap s sched).1.inc
      = s.got ++ s.out ++ s.inc ++ (lrun cap s sched).2 := by
  induction sched generalizing s with
  | nil => simp [lrun]
  | cons a l ih =>
    simp only [lrun]
    cases hst : lstep cap s a with
    | none => simpa using ih s
    | some s' =>
      simp only []
      rw [ih s']
      cases a with
      | send b =>
        simp only [lstep] at hst
        split at hst
        · cases hst; simp
        · simp at hst
      | move =>
        simp only [lstep] at hst
        split at hst
        · simp at hst
        · rename_i b rest heq
          split at hst
          · cases hst; simp [heq]
          · simp at hst
      | recv =>
        simp only [lstep] at hst
        split at hst
        · simp at hst
        · rename_i b rest heq
          cases hst; simp [heq]

/-- **garbage is total**: `Unmarshal` answers every byte string with a value or an error… -/
theorem c03_garbage_unmarshal {V : Type} (cd : Codec V) (buf : List Nat) :
    (∃ v, unmarshal cd buf = .ok v) ∨
    (∃ e, unmarshal cd buf = .error e ∧ (e = .short ∨ e = .unknownType ∨ e = .decode) ∧
      fatal (sentinelOf e) = false) := by
  unfold unmarshal
  split
  · exact .inr ⟨_, rfl, by simp, rfl⟩
  · split
    · split
      · exact .inl ⟨_, rfl⟩
      · exact .inr ⟨_, rfl, by simp, rfl⟩
    · exact .inr ⟨_, rfl, by simp, rfl⟩

/-- … **and so is the receive loop**: on *every* byte stream under *every* segmentation the loop
terminates (the default fuel is never exhausted) with exactly one close — by EOF or by the
too-big rule — after finitely many deliveries/refusals; there is no other outcome (no crash state
exists in the model: every error of `Receive` is classified by `react`). -/
theorem c03_garbage_total {V : Type} (cd : Codec V) (max : Nat) (c : Segs) :
    ∃ evs e, recvAll cd max c = evs ++ [.closed e] ∧ (e = .eof ∨ e = .tooBig) ∧
      ∀ x ∈ evs, x.isClosed = false := by
  unfold recvAll
  suffices H : ∀ fuel c, inflight c < fuel →
      ∃ evs e, recvLoop cd max fuel c = evs ++ [.closed e] ∧ (e = .eof ∨ e = .tooBig) ∧
        ∀ x ∈ evs, x.isClosed = false from H _ c (by omega)
  intro fuel
  induction fuel with
  | zero => intro c h; omega
  | succ fuel ih =>
    intro c hlt
    obtain ⟨r, c', hr⟩ := recvFrame_pair max c
    cases r with
    | error e =>
      exact ⟨[], e, by rw [recvLoop_err cd max fuel c c' e hr]; rfl,
        recvFrame_err max c e (by rw [hr]), by simp⟩
    | ok b =>
      have hp := recvFrame_progress max c c' b hr
      obtain ⟨evs, e, h1, h2, h3⟩ := ih c' (by omega)
      refine ⟨classify cd b :: evs, e, by rw [recvLoop_ok cd max fuel c c' b hr, h1]; rfl, h2, ?_⟩
      intro x hx
      rcases List.mem_cons.mp hx with rfl | hx
      · exact classify_not_closed cd b
      · exact h3 x hx

/-- **a refused frame is isolated**: a frame the receiver cannot use (too short for a type id,
unknown type, undecodable body) costs exactly that frame — everything before and after it is
received intact, in order, under every segmentation. -/
theorem c03_refused_frame_isolated {V : Type} (cd : Codec V) (max : Nat) (hmax : max < 2^32)
    (pre post : List (List Nat)) (bad : List Nat) (e : RecvErr)
    (hbad : unmarshal cd bad = .error e)
    (hf : ∀ f ∈ pre ++ bad :: post, f.length ≤ max)
    (c : Segs) (hc : c.flatten = wire (pre ++ bad :: post)) :
    recvAll cd max c =
      pre.map (classify cd) ++ .refused e :: post.map (classify cd) ++ [.closed .eof] := by
  rw [recvAll_frames cd max hmax (pre ++ bad :: post) [] .eof hf (endsWith_nil max) rfl c
    (by simpa using hc)]
  have : classify cd bad = .refused e := by
    rcases c03_garbage_unmarshal cd bad with ⟨v, hv⟩ | ⟨e', he', _, hnf⟩
    · rw [hv] at hbad; cases hbad
    · rw [he'] at hbad; cases hbad
      simp [classify, he', react, hnf]
  simp [this]

/-- **an over-limit frame closes the connection** (the repaired behaviour): everything sent before
it is delivered/classified intact, the connection is closed at the oversize header, and *nothing
after the header is ever interpreted* — the events do not depend on the bytes that follow. -/
theorem c03_oversize_closes {V : Type} (cd : Codec V) (max : Nat) (hmax : max < 2^32)
    (frames : List (List Nat)) (n : Nat) (junk : List Nat)
    (hf : ∀ f ∈ frames, f.length ≤ max) (hn : max < n) (h32 : n < 2^32)
    (c : Segs) (hc : c.flatten = wire frames ++ (be32 n ++ junk)) :
    recvAll cd max c = frames.map (classify cd) ++ [.closed .tooBig] :=
  recvAll_frames cd max hmax frames (be32 n ++ junk) .tooBig hf
    (endsWith_oversize max n junk hn h32) rfl c hc

/-- a connection cut in the middle of a frame: the complete frames before the cut are received,
the partial one is dropped, the connection ends with EOF -/
theorem c03_truncated_stream {V : Type} (cd : Codec V) (max : Nat) (hmax : max < 2^32)
    (frames : List (List Nat)) (b : List Nat) (k : Nat)
    (hf : ∀ f ∈ frames, f.length ≤ max) (hb : b.length ≤ max) (hk : k < (encFrame b).length)
    (c : Segs) (hc : c.flatten = wire frames ++ (encFrame b).take k) :
    recvAll cd max c = frames.map (classify cd) ++ [.closed .eof] :=
  recvAll_frames cd max hmax frames _ .eof hf
    (endsWith_truncated max b k hb (by omega) hk) rfl c hc

/-- **a peer that stalls inside or between frames** for longer than the read deadline: the
complete frames before the stall are received, the connection is closed by the time-out, and
nothing the peer writes afterwards is interpreted (the events do not mention it) -/
theorem c03_stall_closes {V : Type} (cd : Codec V) (max : Nat) (hmax : max < 2^32)
    (frames : List (List Nat)) (b : List Nat) (k : Nat)
    (hf : ∀ f ∈ frames, f.length ≤ max) (hb : b.length ≤ max) (hk : k < (encFrame b).length)
    (c : Segs) (hc : c.flatten = wire frames ++ (encFrame b).take k) :
    stalled (recvAll cd max c) = frames.map (classify cd) ++ [.closed .timeout] := by
  rw [c03_truncated_stream cd max hmax frames b k hf hb hk c hc]
  unfold stalled
  rw [List.map_append]
  congr 1
  rw [List.map_congr_left (g := id)]
  · simp
  · intro e he
    obtain ⟨f, _, rfl⟩ := List.mem_map.mp he
    have := classify_not_closed cd f
    cases hcl : classify cd f with
    | deliver v => rfl
    | refused e => rfl
    | closed e => rw [hcl] at this; simp [Event.isClosed] at this

/-- **a connection reset inside or between frames**: the complete frames before the reset are
received, the connection is closed by the unknown network error, nothing else is interpreted -/
theorem c03_reset_closes {V : Type} (cd : Codec V) (max : Nat) (hmax : max < 2^32)
    (frames : List (List Nat)) (b : List Nat) (k : Nat)
    (hf : ∀ f ∈ frames, f.length ≤ max) (hb : b.length ≤ max) (hk : k < (encFrame b).length)
    (c : Segs) (hc : c.flatten = wire frames ++ (encFrame b).take k) :
    wasReset (recvAll cd max c) = frames.map (classify cd) ++ [.closed .unknownNet] := by
  rw [c03_truncated_stream cd max hmax frames b k hf hb hk c hc]
  unfold wasReset
  rw [List.map_append]
  congr 1
  rw [List.map_congr_left (g := id)]
  · simp
  · intro e he
    obtain ⟨f, _, rfl⟩ := List.mem_map.mp he
    have := classify_not_closed cd f
    cases hcl : classify cd f with
    | deliver v => rfl
    | refused e => rfl
    | closed e => rw [hcl] at this; simp [Event.isClosed] at this

/-- the codec the driver runs is sound whenever no sendable buffer is in the refusal table -/
theorem tableCodec_sound (reg bad : List (List Nat)) (unenc : List (List Nat) := [])
    (h : ∀ v, (Drv.tableCodec reg bad unenc).sendable v = true → bad.contains v = false) :
    (Drv.tableCodec reg bad unenc).Sound := by
  constructor
  · intro v hv
    simp only [Drv.tableCodec, Bool.and_eq_true, decide_eq_true_eq] at hv
    simp [Drv.tableCodec]; omega
  · intro v hv
    simp only [Drv.tableCodec, Bool.and_eq_true, decide_eq_true_eq] at hv
    exact hv.1.2
  · intro v hv
    have := h v hv
    simp only [Drv.tableCodec, List.take_append_drop, this]
    simp

/-! ### non-vacuity: concrete streams that meet the hypotheses -/

private def tyA : List Nat := List.replicate 16 7
private def tyB : List Nat := List.replicate 16 9
private def cdx : Codec (List Nat) := Drv.tableCodec [tyA] [tyA ++ [0xff]]
private def m1 : List Nat := tyA ++ [1, 2, 3]
private def m2 : List Nat := tyA
private def mU : List Nat := tyB ++ [5]
private def mD : List Nat := tyA ++ [0xff]

/-- two valid messages, one of unknown type, one undecodable, one too short, in 1-byte and odd
segments: delivered / refused one by one, then EOF -/
example : recvAll cdx 64 (Drv.cut (wire [m1, mU, m2, mD, [1, 2], m1]) [1, 1, 1, 1, 1, 3, 20, 2, 5]) =
    [.deliver m1, .refused .unknownType, .deliver m2, .refused .decode, .refused .short, .deliver m1,
     .closed .eof] := by rfl

/-- an over-limit header followed by a body that itself looks like frames: closed, nothing of the
body is parsed -/
example : recvAll cdx 20 (Drv.cut (wire [m1] ++ (be32 21 ++ wire [m1, m1])) [3, 9]) =
    [.deliver m1, .closed .tooBig] := by rfl

private def cdg : Codec (List Nat) := Drv.tableCodec [tyA] []
private theorem cdg_sound : cdg.Sound := tableCodec_sound _ _ [] (by intro v _; rfl)

/-- the hypotheses of `c03_value_delivery` are satisfiable: a sound codec, two sendable values -/
example (c : Segs) (hc : c.flatten = wire ([m1, m2].map (bufOf cdg))) :
    recvAll cdg 64 c = [.deliver m1, .deliver m2, .closed .eof] :=
  c03_value_delivery cdg cdg_sound 64 (by omega) [m1, m2] (by decide) c hc

/-- … and of `c03_refused_frame_isolated` / `c03_oversize_closes` -/
example (c : Segs) (hc : c.flatten = wire ([m1] ++ mU :: [m2])) :
    recvAll cdx 64 c = [.deliver m1, .refused .unknownType, .deliver m2, .closed .eof] :=
  c03_refused_frame_isolated cdx 64 (by omega) [m1] [m2] mU .unknownType (by rfl) (by decide) c hc

example (junk : List Nat) (c : Segs) (hc : c.flatten = wire [m1] ++ (be32 65 ++ junk)) :
    recvAll cdx 64 c = [.deliver m1, .closed .tooBig] :=
  c03_oversize_closes cdx 64 (by omega) [m1] 65 junk (by decide) (by omega) (by omega) c hc

/-- the in-memory queues with capacity 1: a blocked send is skipped, order is kept -/
example : (lrun 1 {} [.send [1], .send [2], .move, .send [3], .recv, .move, .recv]).1.got = [[1], [3]] := by
  decide


/-! ### the sending side -/

theorem writeHeader_spec (hdr : List Nat) (o : List WAct) :
    ∃ k, (writeHeader hdr o).1.flatten = hdr.take k ∧
      ((writeHeader hdr o).2.1 = true → (writeHeader hdr o).1.flatten = hdr) := by
  cases o with
  | nil => exact ⟨hdr.length, by simp [writeHeader], by simp [writeHeader]⟩
  | cons a o =>
    cases a with
    | acc k => exact ⟨hdr.length, by simp [writeHeader], by simp [writeHeader]⟩
    | fail k => exact ⟨k, by simp [writeHeader], by simp [writeHeader]⟩

theorem writeBody_spec (fuel : Nat) (rest : List Nat) (o : List WAct) (hf : rest.length ≤ fuel) :
    ∃ k, (writeBody fuel rest o).1.flatten = rest.take k ∧
      ((writeBody fuel rest o).2.1 = true → (writeBody fuel rest o).1.flatten = rest) := by
  induction fuel generalizing rest o with
  | zero =>
    have : rest = [] := List.eq_nil_of_length_eq_zero (by omega)
    subst this
    exact ⟨0, by simp [writeBody], by simp [writeBody]⟩
  | succ fuel ih =>
    by_cases he : rest = []
    · subst he
      exact ⟨0, by simp [writeBody], by simp [writeBody]⟩
    · have hemp : rest.isEmpty = false := by simpa using he
      cases o with
      | nil => exact ⟨rest.length, by simp [writeBody, hemp], by simp [writeBody, hemp]⟩
      | cons a o =>
        cases a with
        | fail k => exact ⟨k, by simp [writeBody, hemp], by simp [writeBody, hemp]⟩
        | acc k =>
          have hpos : 1 ≤ rest.length := by
            cases rest with
            | nil => exact absurd rfl he
            | cons a t => simp
          obtain ⟨j, h1, h2⟩ := ih (rest.drop (max k 1)) o (by simp; omega)
          refine ⟨max k 1 + j, ?_, ?_⟩
          · simp only [writeBody, hemp, Bool.false_eq_true, if_false, List.flatten_cons, h1]
            rw [← List.take_add]
          · intro hok
            simp only [writeBody, hemp, Bool.false_eq_true, if_false] at hok ⊢
            simp only [List.flatten_cons, h2 hok, List.take_append_drop]

theorem sendRaw_hdr_fail (b : List Nat) (o : List WAct)
    (h : (writeHeader (be32 b.length) o).2.1 = false) : sendRaw b o = writeHeader (be32 b.length) o := by
  unfold sendRaw; simp [h]

theorem sendRaw_hdr_ok (b : List Nat) (o : List WAct)
    (h : (writeHeader (be32 b.length) o).2.1 = true) :
    sendRaw b o = ((writeHeader (be32 b.length) o).1 ++ (writeBody b.length b (writeHeader (be32 b.length) o).2.2).1,
      (writeBody b.length b (writeHeader (be32 b.length) o).2.2).2.1,
      (writeBody b.length b (writeHeader (be32 b.length) o).2.2).2.2) := by
  unfold sendRaw; simp [h]

/-- what `sendRaw` leaves on the wire is a prefix of the frame — the whole frame when it reports
success -/
theorem sendRaw_spec (b : List Nat) (o : List WAct) :
    ∃ k, (sendRaw b o).1.flatten = (encFrame b).take k ∧
      ((sendRaw b o).2.1 = true → (sendRaw b o).1.flatten = encFrame b) := by
  obtain ⟨k, h1, h2⟩ := writeHeader_spec (be32 b.length) o
  by_cases hh : (writeHeader (be32 b.length) o).2.1 = true
  · rw [sendRaw_hdr_ok b o hh]
    obtain ⟨j, b1, b2⟩ := writeBody_spec b.length b (writeHeader (be32 b.length) o).2.2 (Nat.le_refl _)
    refine ⟨4 + j, ?_, ?_⟩
    · rw [List.flatten_append, h2 hh, b1, encFrame, List.take_append, be32_length]
      simp [List.take_of_length_le, be32_length]
    · intro hok
      rw [List.flatten_append, h2 hh, b2 hok, encFrame]
  · have hf : (writeHeader (be32 b.length) o).2.1 = false := by simpa using hh
    rw [sendRaw_hdr_fail b o hf]
    refine ⟨min k 4, ?_, fun h => absurd h hh⟩
    rw [h1, encFrame, List.take_append, be32_length]
    have : min k 4 - 4 = 0 := by omega
    rw [this, List.take_zero, List.append_nil]
    by_cases hk : k ≤ 4
    · rw [Nat.min_eq_left hk]
    · rw [Nat.min_eq_right (by omega), List.take_of_length_le (by simp [be32_length]; omega),
        List.take_of_length_le (by simp [be32_length])]
theorem sendAll_closed (c : SConn) (hc : c.closed = true) (bufs : List (List Nat)) :
    c.sendAll bufs = (c, List.replicate bufs.length false) := by
  induction bufs with
  | nil => rfl
  | cons b l ih =>
    have h1 : c.send b = (c, false) := by simp [SConn.send, hc]
    simp only [SConn.sendAll, h1, ih, List.length_cons, List.replicate_succ]

/-- **a sender that keeps calling `Send`**, whatever the transport does to its writes: the results
are successes up to some call `j` and failures from there on; the wire carries exactly the frames
reported written, in order, and — when a write failed — a prefix of the one frame that failed and
nothing after it (the connection is closed). -/
theorem sendAll_spec (bufs : List (List Nat)) (c : SConn) (pre : List (List Nat))
    (hc : c.closed = false) (hout : c.out.flatten = wire pre) :
    ∃ j, j ≤ bufs.length ∧
      (c.sendAll bufs).2 = List.replicate j true ++ List.replicate (bufs.length - j) false ∧
      ((j = bufs.length ∧ (c.sendAll bufs).1.closed = false ∧
          (c.sendAll bufs).1.out.flatten = wire (pre ++ bufs)) ∨
       (j < bufs.length ∧ (c.sendAll bufs).1.closed = true ∧ ∃ b k, bufs[j]? = some b ∧
          (c.sendAll bufs).1.out.flatten = wire (pre ++ bufs.take j) ++ (encFrame b).take k)) := by
  induction bufs generalizing c pre with
  | nil => exact ⟨0, by simp, by simp [SConn.sendAll], .inl ⟨rfl, by simpa [SConn.sendAll] using hc, by simpa [SConn.sendAll] using hout⟩⟩
  | cons b l ih =>
    obtain ⟨k, s1, s2⟩ := sendRaw_spec b c.oracle
    have hsend : c.send b = (SConn.mk (!(sendRaw b c.oracle).2.1) (c.out ++ (sendRaw b c.oracle).1)
        (sendRaw b c.oracle).2.2, (sendRaw b c.oracle).2.1) := by simp [SConn.send, hc]
    by_cases hok : (sendRaw b c.oracle).2.1 = true
    · -- this frame went out completely
      have hout' : (c.send b).1.out.flatten = wire (pre ++ [b]) := by
        rw [hsend]; simp only [List.flatten_append, hout, s2 hok, wire_append]; simp [wire]
      have hc' : (c.send b).1.closed = false := by rw [hsend]; simp [hok]
      obtain ⟨j, hj, hres, hcase⟩ := ih (c.send b).1 (pre ++ [b]) hc' hout'
      refine ⟨j + 1, by simp; omega, ?_, ?_⟩
      · simp only [SConn.sendAll, hres, List.length_cons]
        rw [show (c.send b).2 = true from by rw [hsend]; exact hok]
        simp [List.replicate_succ]
      · rcases hcase with ⟨e1, e2, e3⟩ | ⟨e1, e2, b', k', e3, e4⟩
        · exact .inl ⟨by simp [e1], by simpa [SConn.sendAll] using e2, by simpa [SConn.sendAll, List.append_assoc] using e3⟩
        · exact .inr ⟨by simp; omega, by simpa [SConn.sendAll] using e2, b', k', by simpa using e3,
            by simpa [SConn.sendAll, List.append_assoc] using e4⟩
    · -- the write failed: closed, every later call refused
      have hf : (sendRaw b c.oracle).2.1 = false := by simpa using hok
      have hc' : (c.send b).1.closed = true := by rw [hsend]; simp [hf]
      refine ⟨0, by simp, ?_, .inr ⟨by simp, ?_, b, k, by simp, ?_⟩⟩
      · simp only [SConn.sendAll, sendAll_closed _ hc' l]
        rw [show (c.send b).2 = false from by rw [hsend]; exact hf]
        simp [List.replicate_succ]
      · simp only [SConn.sendAll, sendAll_closed _ hc' l]; exact hc'
      · simp only [SConn.sendAll, sendAll_closed _ hc' l]
        rw [hsend]; simp [hout, s1]

/-- a transport that never fails a write (it may still take the bytes in pieces of any size) -/
def NoFail (o : List WAct) : Prop := ∀ a ∈ o, ∃ k, a = WAct.acc k

theorem writeHeader_noFail (hdr : List Nat) (o : List WAct) (h : NoFail o) :
    (writeHeader hdr o).2.1 = true ∧ NoFail (writeHeader hdr o).2.2 := by
  cases o with
  | nil => exact ⟨rfl, h⟩
  | cons a o =>
    obtain ⟨k, rfl⟩ := h a (by simp)
    exact ⟨rfl, fun x hx => h x (by simp [writeHeader] at hx; simp [hx])⟩

theorem writeBody_noFail (fuel : Nat) (rest : List Nat) (o : List WAct) (hf : rest.length ≤ fuel)
    (h : NoFail o) : (writeBody fuel rest o).2.1 = true ∧ NoFail (writeBody fuel rest o).2.2 := by
  induction fuel generalizing rest o with
  | zero =>
    have : rest = [] := List.eq_nil_of_length_eq_zero (by omega)
    subst this
    exact ⟨rfl, h⟩
  | succ fuel ih =>
    by_cases he : rest = []
    · subst he; exact ⟨rfl, h⟩
    · have hemp : rest.isEmpty = false := by simpa using he
      have hpos : 1 ≤ rest.length := by
        cases rest with
        | nil => exact absurd rfl he
        | cons a t => simp
      cases o with
      | nil => exact ⟨by simp [writeBody, hemp], by simp [writeBody, hemp, NoFail]⟩
      | cons a o =>
        obtain ⟨k, rfl⟩ := h a (by simp)
        have := ih (rest.drop (max k 1)) o (by simp; omega) (fun x hx => h x (by simp [hx]))
        simpa [writeBody, hemp] using this

theorem sendRaw_noFail (b : List Nat) (o : List WAct) (h : NoFail o) :
    (sendRaw b o).2.1 = true ∧ NoFail (sendRaw b o).2.2 := by
  have hh := writeHeader_noFail (be32 b.length) o h
  rw [sendRaw_hdr_ok b o hh.1]
  exact writeBody_noFail b.length b _ (Nat.le_refl _) hh.2

theorem sendAll_noFail (bufs : List (List Nat)) (c : SConn) (hc : c.closed = false)
    (h : NoFail c.oracle) : (c.sendAll bufs).2 = List.replicate bufs.length true := by
  induction bufs generalizing c with
  | nil => rfl
  | cons b l ih =>
    have hs := sendRaw_noFail b c.oracle h
    have hsend : c.send b = (SConn.mk (!(sendRaw b c.oracle).2.1) (c.out ++ (sendRaw b c.oracle).1)
        (sendRaw b c.oracle).2.2, (sendRaw b c.oracle).2.1) := by simp [SConn.send, hc]
    simp only [SConn.sendAll, List.length_cons, List.replicate_succ]
    rw [ih (c.send b).1 (by rw [hsend]; simp [hs.1]) (by rw [hsend]; exact hs.2)]
    rw [hsend]; simp [hs.1]

theorem replicate_true_eq (j n : Nat) (hj : j ≤ n)
    (h : List.replicate n true = List.replicate j true ++ List.replicate (n - j) false) : j = n := by
  have hl : (List.replicate n true).all id = true := by simp
  rw [h] at hl
  simp at hl
  omega

/-- **send, then receive, is the identity on sequences of messages** — over every way the transport
takes the sender's writes (partial writes of any sizes, header cut anywhere) and every way it hands
the bytes to the receiver's reads: every `Send` reports success and `receiveRaw` yields exactly the
buffers sent, in order, then EOF. -/
theorem c03_send_recv_identity (max : Nat) (hmax : max < 2^32) (bufs : List (List Nat))
    (hb : ∀ f ∈ bufs, f.length ≤ max) (o : List WAct) (ho : NoFail o)
    (c : Segs) (hc : c.flatten = (({ oracle := o } : SConn).sendAll bufs).1.out.flatten)
    (fuel : Nat) (hfuel : bufs.length + 1 ≤ fuel) :
    (({ oracle := o } : SConn).sendAll bufs).2 = List.replicate bufs.length true ∧
    recvFrames max fuel c = (bufs, some .eof) := by
  have hall := sendAll_noFail bufs { oracle := o } rfl ho
  refine ⟨hall, ?_⟩
  obtain ⟨j, hj, hres, hcase⟩ := sendAll_spec bufs { oracle := o } [] rfl (by simp [wire])
  rw [hall] at hres
  have hjn := replicate_true_eq j bufs.length hj hres
  rcases hcase with ⟨_, _, e3⟩ | ⟨e1, _⟩
  · exact c03_frame_roundtrip max hmax bufs hb c (by rw [hc, e3]; simp) fuel hfuel
  · omega

/-- the same at the level of values: marshalled, written in whatever pieces, read in whatever
pieces, unmarshalled, dispatched — equal values, in order, once -/
theorem c03_send_recv_values {V : Type} (cd : Codec V) (hcd : cd.Sound) (max : Nat) (hmax : max < 2^32)
    (vs : List V) (hv : ∀ v ∈ vs, cd.sendable v = true ∧ (bufOf cd v).length ≤ max)
    (o : List WAct) (ho : NoFail o) (c : Segs)
    (hc : c.flatten = (({ oracle := o } : SConn).sendAll (vs.map (bufOf cd))).1.out.flatten) :
    recvAll cd max c = vs.map .deliver ++ [.closed .eof] := by
  obtain ⟨j, hj, hres, hcase⟩ := sendAll_spec (vs.map (bufOf cd)) { oracle := o } [] rfl (by simp [wire])
  rw [sendAll_noFail _ { oracle := o } rfl ho] at hres
  have hjn := replicate_true_eq j _ hj hres
  rcases hcase with ⟨_, _, e3⟩ | ⟨e1, _⟩
  · exact c03_value_delivery cd hcd max hmax vs hv c (by rw [hc, e3]; simp)
  · omega

/-- **a failed write is contained**: whatever the transport does (partial writes, failures at any
byte), a sender that goes on calling `Send` gets successes up to some call `j` and errors from
there on, and the receiver — under every segmentation — is handed exactly the `j` frames reported
written, in order (plus, at most, the one frame whose write failed, when the failure came after
its last byte), then EOF.  No frame reported written is lost, nothing is mis-parsed. -/
theorem c03_send_failure_contained {V : Type} (cd : Codec V) (max : Nat) (hmax : max < 2^32)
    (bufs : List (List Nat)) (hb : ∀ f ∈ bufs, f.length ≤ max) (o : List WAct) (c : Segs)
    (hc : c.flatten = (({ oracle := o } : SConn).sendAll bufs).1.out.flatten) :
    ∃ j, j ≤ bufs.length ∧
      (({ oracle := o } : SConn).sendAll bufs).2 =
        List.replicate j true ++ List.replicate (bufs.length - j) false ∧
      (recvAll cd max c = (bufs.take j).map (classify cd) ++ [.closed .eof] ∨
       recvAll cd max c = (bufs.take (j + 1)).map (classify cd) ++ [.closed .eof]) := by
  obtain ⟨j, hj, hres, hcase⟩ := sendAll_spec bufs { oracle := o } [] rfl (by simp [wire])
  refine ⟨j, hj, hres, ?_⟩
  rcases hcase with ⟨e1, _, e3⟩ | ⟨e1, _, b, k, e3, e4⟩
  · left
    rw [e1, List.take_length]
    exact recvAll_frames cd max hmax bufs [] .eof hb (endsWith_nil max) rfl c (by rw [hc, e3]; simp)
  · have hbm : b ∈ bufs := List.mem_of_getElem? e3
    have htake : ∀ f ∈ bufs.take j, f.length ≤ max := fun f hf => hb f (List.mem_of_mem_take hf)
    by_cases hk : k < (encFrame b).length
    · left
      exact c03_truncated_stream cd max hmax (bufs.take j) b k htake (hb b hbm) hk c
        (by rw [hc, e4]; simp)
    · right
      have hfull : (encFrame b).take k = encFrame b := List.take_of_length_le (by omega)
      have hsucc : bufs.take (j + 1) = bufs.take j ++ [b] := by
        rw [List.take_add_one, e3]; rfl
      rw [hsucc]
      exact recvAll_frames cd max hmax (bufs.take j ++ [b]) [] .eof
        (by intro f hf; rcases List.mem_append.mp hf with h | h
            · exact htake f h
            · simp at h; subst h; exact hb _ hbm)
        (endsWith_nil max) rfl c (by rw [hc, e4, hfull, wire_append]; simp [wire])


/-! ### concurrent senders: `sendMutex` -/

theorem setThr_same (s : CS) (i : Nat) (t : Thr) : s.setThr i t i = t := by simp [CS.setThr]
theorem setThr_other (s : CS) (i j : Nat) (t : Thr) (h : j ≠ i) : s.setThr i t j = s.thr j := by
  simp [CS.setThr, h]

/-- what holds in every reachable state of the senders of one connection -/
def CInv (q : Nat → List (List Nat)) (s : CS) : Prop :=
  (∀ i, ((s.log.filter (fun e => e.1 == i)).map (·.2)) ++ (s.thr i).todo = q i) ∧
  ((s.locked = none ∧ (∀ i, (s.thr i).cur = none) ∧ s.wire = wire (s.log.map (·.2))) ∨
   (∃ h r pre b, s.locked = some h ∧ (∀ j, j ≠ h → (s.thr j).cur = none) ∧ (s.thr h).cur = some r ∧
      s.log = pre ++ [(h, b)] ∧
      ∃ n, s.wire = wire (pre.map (·.2)) ++ (encFrame b).take n ∧ r = (encFrame b).drop n))

theorem cinv_init (q : Nat → List (List Nat)) : CInv q (cinit q) :=
  ⟨fun i => by simp [cinit], .inl ⟨rfl, fun i => rfl, by simp [cinit, wire]⟩⟩

theorem cstep_inv (q : Nat → List (List Nat)) (s s' : CS) (i k : Nat) (hinv : CInv q s)
    (hs : cstep true s i k = some s') : CInv q s' := by
  obtain ⟨hord, hst⟩ := hinv
  unfold cstep at hs
  rcases hst with ⟨hl, hcur, hw⟩ | ⟨h, r, pre, b, hl, hoth, hh, hlog, n, hw, hr⟩
  · -- nobody inside Send
    rw [hcur i] at hs
    simp only at hs
    cases htodo : (s.thr i).todo with
    | nil => rw [htodo] at hs; simp at hs
    | cons b rest =>
      rw [htodo] at hs
      simp only [hl, Option.isSome_none, Bool.and_false, Bool.false_eq_true, if_false, Option.some.injEq] at hs
      subst hs
      refine ⟨fun j => ?_, .inr ⟨i, encFrame b, s.log, b, rfl, fun j hj => ?_, ?_, rfl, ?_⟩⟩
      · by_cases hj : j = i
        · subst hj
          have := hord j
          rw [htodo] at this
          simp only [setThr_same, List.filter_append, List.map_append]
          simpa [List.append_assoc] using this
        · have := hord j
          simp only [setThr_other _ _ _ _ hj, List.filter_append, List.map_append]
          have hne : (i == j) = false := by simpa using fun h => hj h.symm
          simpa [hne] using this
      · simp only [setThr_other _ _ _ _ hj]; exact hcur j
      · simp [setThr_same]
      · exact ⟨0, by simp [hw], by simp⟩
  · -- thread h is inside Send
    by_cases hi : i = h
    · subst hi
      rw [hh] at hs
      simp only at hs
      by_cases hre : r.isEmpty = true
      · -- releases the mutex
        simp only [hre, if_true, Option.some.injEq] at hs
        subst hs
        have hr' : r = [] := by simpa using hre
        refine ⟨fun j => ?_, .inl ⟨rfl, fun j => ?_, ?_⟩⟩
        · by_cases hj : j = i
          · subst hj; simpa [setThr_same] using hord j
          · simpa [setThr_other _ _ _ _ hj] using hord j
        · by_cases hj : j = i
          · subst hj; simp [setThr_same]
          · simp only [setThr_other _ _ _ _ hj]; exact hoth j hj
        · have hn : (encFrame b).length ≤ n := by
            rw [hr'] at hr
            have := congrArg List.length hr
            simp at this; omega
          rw [hw, hlog, List.map_append, wire_append, List.take_of_length_le hn]; simp [wire]
      · -- writes a piece
        simp only [hre, Bool.false_eq_true, if_false, Option.some.injEq] at hs
        subst hs
        refine ⟨fun j => ?_, .inr ⟨i, r.drop (max k 1), pre, b, hl, fun j hj => ?_, ?_, hlog,
          n + max k 1, ?_, ?_⟩⟩
        · by_cases hj : j = i
          · subst hj; simpa [setThr_same] using hord j
          · simpa [setThr_other _ _ _ _ hj] using hord j
        · simp only [setThr_other _ _ _ _ hj]; exact hoth j hj
        · simp [setThr_same]
        · simp only [hw, hr, List.append_assoc, List.take_add]
        · simp only [hr, List.drop_drop]
    · -- another thread: it can only be waiting for the mutex
      rw [hoth i hi] at hs
      simp only at hs
      cases htodo : (s.thr i).todo with
      | nil => rw [htodo] at hs; simp at hs
      | cons b' rest => rw [htodo] at hs; simp [hl] at hs

theorem crun_inv (q : Nat → List (List Nat)) (sched : List (Nat × Nat)) (s : CS) (hinv : CInv q s) :
    CInv q (crun true s sched) := by
  induction sched generalizing s with
  | nil => exact hinv
  | cons a l ih =>
    obtain ⟨i, k⟩ := a
    simp only [crun]
    cases hs : cstep true s i k with
    | none => exact ih s hinv
    | some s' => exact ih s' (cstep_inv q s s' i k hinv hs)

theorem log_mem_queue (q : Nat → List (List Nat)) (s : CS) (hinv : CInv q s) (i : Nat) (b : List Nat)
    (h : (i, b) ∈ s.log) : b ∈ q i := by
  rw [← hinv.1 i]
  apply List.mem_append_left
  exact List.mem_map.mpr ⟨(i, b), List.mem_filter.mpr ⟨h, by simp⟩, rfl⟩

/-- **concurrent senders on one connection cannot interleave frames** (`sendMutex`): under every
schedule of any number of threads calling `Send`, with their writes cut into pieces of any sizes,
whenever nobody is inside `Send` the wire is the concatenation of whole frames in the order the
mutex was taken — so the receiver, under every segmentation, gets exactly those buffers — and the
buffers of each thread appear in that thread's own order, none lost, none twice. -/
theorem c03_mutex_no_interleave (q : Nat → List (List Nat)) (sched : List (Nat × Nat))
    (max : Nat) (hmax : max < 2^32) (hq : ∀ i, ∀ b ∈ q i, b.length ≤ max)
    (hl : (crun true (cinit q) sched).locked = none)
    (c : Segs) (hc : c.flatten = (crun true (cinit q) sched).wire)
    (fuel : Nat) (hfuel : (crun true (cinit q) sched).log.length + 1 ≤ fuel) :
    recvFrames max fuel c = ((crun true (cinit q) sched).log.map (·.2), some .eof) ∧
    ∀ i, (((crun true (cinit q) sched).log.filter (fun e => e.1 == i)).map (·.2)) ++
        ((crun true (cinit q) sched).thr i).todo = q i := by
  have hinv := crun_inv q sched (cinit q) (cinv_init q)
  refine ⟨?_, hinv.1⟩
  rcases hinv.2 with ⟨_, _, hw⟩ | ⟨h, _, _, _, hl', _⟩
  · apply c03_frame_roundtrip max hmax _ _ c (by rw [hc, hw]) fuel (by simpa using hfuel)
    intro f hf
    obtain ⟨⟨i, b⟩, hm, rfl⟩ := List.mem_map.mp hf
    exact hq i b (log_mem_queue q _ hinv i b hm)
  · rw [hl] at hl'; cases hl'

/-- while a thread is inside `Send`, the wire is whole frames followed by a prefix of *its* frame -/
theorem c03_mutex_partial_is_holders (q : Nat → List (List Nat)) (sched : List (Nat × Nat)) (h : Nat)
    (hl : (crun true (cinit q) sched).locked = some h) :
    ∃ pre b k, (crun true (cinit q) sched).log = pre ++ [(h, b)] ∧
      (crun true (cinit q) sched).wire = wire (pre.map (·.2)) ++ (encFrame b).take k := by
  have hinv := crun_inv q sched (cinit q) (cinv_init q)
  rcases hinv.2 with ⟨hl', _, _⟩ | ⟨h', r, pre, b, hl', _, _, hlog, n, hw, _⟩
  · rw [hl] at hl'; cases hl'
  · rw [hl] at hl'; cases hl'
    exact ⟨pre, b, n, hlog, hw⟩

/-- **nothing is stuck at quiescence**: when no thread can take a step, nobody holds the mutex,
every thread has sent all its buffers, and the wire holds them all as whole frames -/
theorem c03_mutex_quiescent (q : Nat → List (List Nat)) (s : CS) (hinv : CInv q s)
    (hq : ∀ i k, cstep true s i k = none) :
    s.locked = none ∧ (∀ i, (s.thr i).todo = [] ∧ (s.thr i).cur = none) ∧
    s.wire = wire (s.log.map (·.2)) ∧
    ∀ i, (s.log.filter (fun e => e.1 == i)).map (·.2) = q i := by
  rcases hinv.2 with ⟨hl, hcur, hw⟩ | ⟨h, r, _, _, _, _, hh, _⟩
  · have htodo : ∀ i, (s.thr i).todo = [] := by
      intro i
      have := hq i 0
      unfold cstep at this
      rw [hcur i] at this
      cases ht : (s.thr i).todo with
      | nil => rfl
      | cons b rest => rw [ht] at this; simp [hl] at this
    refine ⟨hl, fun i => ⟨htodo i, hcur i⟩, hw, fun i => ?_⟩
    have := hinv.1 i
    rw [htodo i, List.append_nil] at this
    exact this
  · have := hq h 0
    unfold cstep at this
    rw [hh] at this
    by_cases hr : r.isEmpty = true <;> simp [hr] at this

/-- without the mutex two senders do interleave: the headers of two one-byte messages go out back
to back and the receiver reads garbage (a frame nobody sent, then a "length" above the limit) -/
theorem c03_no_mutex_interleaves :
    ∃ (q : Nat → List (List Nat)) (sched : List (Nat × Nat)),
      (crun false (cinit q) sched).locked = none ∧
      recvFrames 64 4 [(crun false (cinit q) sched).wire] = ([[0]], some .tooBig) :=
  ⟨fun i => if i = 0 then [[1]] else if i = 1 then [[2]] else [],
   [(0, 0), (1, 0), (0, 4), (1, 4), (0, 1), (1, 1), (0, 0), (1, 0)], by decide⟩

/-! ### non-vacuity and counter-examples for the sending side -/

/-- a transport that takes the header in two pieces and the body one, two, then all bytes at a
time: every `Send` succeeds (the hypotheses of `c03_send_recv_identity` are satisfiable) -/
example : NoFail [.acc 1, .acc 1, .acc 2, .acc 9] := by
  intro a ha; simp at ha; rcases ha with rfl | rfl | rfl | rfl <;> exact ⟨_, rfl⟩

example : (({ oracle := [.acc 1, .acc 1, .acc 2, .acc 9] } : SConn).sendAll [[7, 8, 9, 10], [5]]).1.out =
    [[0], [0, 0, 4], [7], [8, 9], [10], [0, 0, 0, 1], [5]] := by decide

/-- a write that fails inside the second frame: the connection is closed, the third `Send` is
refused, and the receiver gets the first frame and EOF -/
example : (({ oracle := [.acc 4, .acc 1, .acc 4, .fail 2] } : SConn).sendAll [[1], [2, 3, 4, 5, 6, 7, 8, 9, 10], [11]]).2 =
    [true, false, false] := by decide

/-- **before the fix** (the connection stayed usable after a failed write): the third `Send`
reports success, its frame is swallowed as the rest of the unfinished body, and the receiver never
sees it — `Send` returned nil for a message that is lost. -/
theorem c03_partial_write_reuse_loses :
    ∃ (bufs : List (List Nat)) (o : List WAct),
      (({ oracle := o } : SConn).sendAllNoClose bufs).2 = [true, false, true] ∧
      recvFrames 64 10 (({ oracle := o } : SConn).sendAllNoClose bufs).1.out = ([[1]], some .eof) :=
  ⟨[[1], [2, 3, 4, 5, 6, 7, 8, 9, 10], [11]], [.acc 4, .acc 1, .acc 4, .fail 2], by decide⟩

/-- two threads, two buffers each: thread 1 waits while thread 0 is inside `Send`, and is itself
inside `Send` (three header bytes out) when the schedule ends -/
example : (crun true (cinit fun i => if i < 2 then [[i], [i, i]] else [])
      [(0, 0), (1, 0), (0, 2), (0, 9), (1, 1), (0, 0), (1, 0), (1, 3), (0, 0)]).wire =
    wire [[0]] ++ [0, 0, 0] := by decide


/-! ### interface-typed fields -/

/-- a tagged value is instantiated by the generator registered for its tag — whatever the suite of
the connection, even none -/
theorem iface_tagged (gs : Gens) (ctor : Option Grp) (id bytes : List Nat) (g' : Grp)
    (hid : id.length = 8) (hb : bytes ≠ []) (hg : gs.get id = some g') :
    decIface gs ctor (encIface gs (some id) bytes) = some (g', bytes) := by
  have hpos : 0 < bytes.length := List.length_pos_iff.mpr hb
  simp only [encIface, hg, Option.isSome_some, if_true]
  unfold decIface
  rw [if_pos (by simp; omega), List.take_append_of_le_length (by omega), List.take_of_length_le (by omega), hg]
  simp [hid]

/-- an untagged value (no `MarshalID`, or no generator for it) is instantiated by the constructor
table of the connection's suite -/
theorem iface_untagged (gs : Gens) (ctor : Option Grp) (mid : Option (List Nat)) (bytes : List Nat)
    (hm : ∀ id, mid = some id → gs.get id = none)
    (hp : 8 < bytes.length → gs.get (bytes.take 8) = none) :
    decIface gs ctor (encIface gs mid bytes) = ctor.map (·, bytes) := by
  have he : encIface gs mid bytes = bytes := by
    cases mid with
    | none => rfl
    | some id => simp [encIface, hm id rfl]
  rw [he]
  unfold decIface
  by_cases h8 : 8 < bytes.length
  · rw [if_pos h8, hp h8]
  · rw [if_neg h8]

/-- the bytes of an untagged value are not mistaken for a tag (eight given bytes out of 2^64; the
generator of the harness checks it for every value it builds) -/
def NoTagPrefix (gs : Gens) (bytes : List Nat) : Prop := 8 < bytes.length → gs.get (bytes.take 8) = none

theorem marshalID_length (g : Grp) (id : List Nat) (h : g.marshalID = some id) : id.length = 8 := by
  cases g <;> simp [Grp.marshalID] at h <;> subst h <;> rfl

/-- the types `init()` registers a generator for come back under their own tag -/
def Grp.selfTagged (g : Grp) : Bool :=
  match g.marshalID with
  | some id => onetGens.get id == some g
  | none => false

/-- **tagged points and scalars round-trip on every connection**: a value of Ed25519 or of
bn256 G1/G2/GT (points, and the bn256 scalars) is instantiated as its own dynamic type from its own
bytes whatever suite the receiving connection has — even none. -/
theorem c03_iface_tagged_any_suite (g : Grp) (hg : g.selfTagged = true) (suite : Option SuiteId)
    (k : Kind) (bytes : List Nat) (hb : bytes ≠ []) :
    ifaceSame onetGens suite k g bytes = true := by
  unfold Grp.selfTagged at hg
  cases hm : g.marshalID with
  | none => rw [hm] at hg; cases hg
  | some id =>
    rw [hm] at hg
    have hget : onetGens.get id = some g := by simpa using hg
    unfold ifaceSame
    rw [hm, iface_tagged onetGens _ id bytes g (marshalID_length g id hm) hb hget]
    simp

example : [Grp.edP, .edS, .g1P, .g2P, .gtP, .bnS].all Grp.selfTagged = true := by decide

/-- **untagged points (the nist groups P256 and Residue512) round-trip exactly on a connection of
their own suite**: `DefaultConstructors` is a function of the suite it is given — of the
connection at hand, not of whatever suite the process used first. -/
theorem c03_iface_untagged_own_suite (g : Grp) (hg : g.marshalID = none) (suite : Option SuiteId)
    (k : Kind) (bytes : List Nat) (hp : NoTagPrefix onetGens bytes) :
    ifaceSame onetGens suite k g bytes = true ↔ ∃ s, suite = some s ∧ s.make k = g := by
  unfold ifaceSame
  rw [hg, iface_untagged onetGens _ none bytes (by intro id h; cases h) hp]
  cases suite with
  | none => simp [defaultConstructors]
  | some s => simp [defaultConstructors]

/-- every registered suite decodes the points and scalars it makes itself — except the `mod.Int`
scalars of the nist suites (next theorem) -/
theorem c03_iface_own_suite (s : SuiteId) (k : Kind) (bytes : List Nat) (hb : bytes ≠ [])
    (hp : NoTagPrefix onetGens bytes) (hn : s.make k ≠ .p256S ∧ s.make k ≠ .resS) :
    ifaceSame onetGens (some s) k (s.make k) bytes = true := by
  by_cases ht : (s.make k).selfTagged = true
  · exact c03_iface_tagged_any_suite _ ht _ _ _ hb
  · have hm : (s.make k).marshalID = none := by
      cases s <;> cases k <;> simp_all [SuiteId.make, Grp.marshalID] <;> revert ht <;> decide
    exact (c03_iface_untagged_own_suite _ hm _ _ _ hp).mpr ⟨s, rfl, rfl⟩

/-- what the full statement would be: every registered suite decodes its own points and scalars -/
def C03_iface_full : Prop :=
  ∀ (s : SuiteId) (k : Kind) (bytes : List Nat), bytes ≠ [] → NoTagPrefix onetGens bytes →
    ifaceSame onetGens (some s) k (s.make k) bytes = true

/-- **it is false on the code** (known finding): the scalars of P256 and Residue512 are `mod.Int`s,
whose tag `"mod.int "` does not name the modulus; `init()` registered the bn256 scalar under that
tag, so such a scalar is instantiated as a bn256 scalar on every connection — it arrives as an
error (value out of range / wrong size) or as a scalar of another group. -/
theorem c03_iface_modint_clash (g : Grp) (hg : g = .p256S ∨ g = .resS) (suite : Option SuiteId)
    (k : Kind) (bytes : List Nat) (hb : bytes ≠ []) :
    ifaceSame onetGens suite k g bytes = false := by
  have hget : onetGens.get [109, 111, 100, 46, 105, 110, 116, 32] = some .bnS := by decide
  unfold ifaceSame
  rcases hg with rfl | rfl
  · rw [show Grp.p256S.marshalID = some [109, 111, 100, 46, 105, 110, 116, 32] from rfl,
      iface_tagged onetGens _ _ bytes .bnS rfl hb hget]
    simp
  · rw [show Grp.resS.marshalID = some [109, 111, 100, 46, 105, 110, 116, 32] from rfl,
      iface_tagged onetGens _ _ bytes .bnS rfl hb hget]
    simp

theorem c03_iface_full_fails : ¬ C03_iface_full := by
  intro h
  have h1 := h .p256 .scalar [1] (by simp) (by intro h8; simp at h8)
  rw [show SuiteId.p256.make .scalar = .p256S from rfl,
    c03_iface_modint_clash .p256S (.inl rfl) (some .p256) .scalar [1] (by simp)] at h1
  cases h1


/-! ### the type registry -/

theorem typeIdOf_length (t : GoType) : (typeIdOf t).length = 16 := Sha1.uuid5_length _ _

theorem registry_get_put_same (r : Registry) (id : List Nat) (t : GoType) : (r.put id t).get id = some t := by
  simp [Registry.get, Registry.put]

theorem registry_get_put_other (r : Registry) (id id' : List Nat) (t : GoType) (h : id' ≠ id) :
    (r.put id t).get id' = r.get id' := by
  have : (id == id') = false := by simpa using fun e => h e.symm
  simp [Registry.get, Registry.put, this]

theorem registerAll_cons (r : Registry) (u : GoType) (ts : List GoType) :
    registerAll r (u :: ts) = registerAll (r.put (typeIdOf u) u) ts := by
  simp [registerAll, registerMessage]

/-- **the last registration under an id wins**, for every history of `RegisterMessage` calls: what
`registry.get` answers for the id of `t` is the last registered type with that id. -/
theorem c03_registry_last_wins (r : Registry) (ts : List GoType) (t : GoType) :
    (registerAll r ts).get (typeIdOf t) =
      match ts.reverse.find? (fun u => typeIdOf u == typeIdOf t) with
      | some u => some u
      | none => r.get (typeIdOf t) := by
  induction ts generalizing r with
  | nil => rfl
  | cons u ts ih =>
    rw [registerAll_cons, ih, List.reverse_cons, List.find?_append]
    cases hf : ts.reverse.find? (fun u => typeIdOf u == typeIdOf t) with
    | some w => rfl
    | none =>
      by_cases h : typeIdOf u = typeIdOf t
      · simp [h, registry_get_put_same]
      · have : (typeIdOf u == typeIdOf t) = false := by simpa using h
        simp [this, registry_get_put_other _ _ _ _ (fun e => h e.symm)]

/-- **a registered type whose id no other registered type shares is found under its id** — whatever
else was registered before or after it. -/
theorem c03_registry_faithful (r : Registry) (ts : List GoType) (t : GoType) (ht : t ∈ ts)
    (huniq : ∀ u ∈ ts, typeIdOf u = typeIdOf t → u = t) :
    (registerAll r ts).get (typeIdOf t) = some t := by
  rw [c03_registry_last_wins]
  cases hf : ts.reverse.find? (fun u => typeIdOf u == typeIdOf t) with
  | some u =>
    have hm := List.mem_of_find?_eq_some hf
    have hp := List.find?_some hf
    simp only [beq_iff_eq] at hp
    simp [huniq u (by simpa using hm) hp]
  | none =>
    have := List.find?_eq_none.mp hf t (by simpa using ht)
    simp at this

/-- collision resistance of the hash, as a hypothesis: equal ids come from equal names -/
def HashInj : Prop := ∀ a b : GoType, typeIdOf a = typeIdOf b → a.name = b.name

/-- … so, the hash being collision-free, it is enough that no other registered type has the same
**name** (`reflect.Type.String()`) -/
theorem c03_registry_faithful_names (hinj : HashInj) (r : Registry) (ts : List GoType) (t : GoType)
    (ht : t ∈ ts) (huniq : ∀ u ∈ ts, u.name = t.name → u = t) :
    (registerAll r ts).get (typeIdOf t) = some t :=
  c03_registry_faithful r ts t ht fun u hu e => huniq u hu (hinj u t e)

/-- the full statement one would like: every registered type is found under its own id -/
def C03_registry_full : Prop :=
  ∀ (ts : List GoType) (t : GoType), t ∈ ts → (registerAll [] ts).get (typeIdOf t) = some t

/-- **it is false on the code** (known finding): two distinct Go types with the same
`reflect.Type.String()` — same package *name* in two paths, or two types declared inside functions —
get the same id; the later registration replaces the earlier one, and a value of the first type is
unmarshalled into the second. -/
theorem c03_type_name_clash : ¬ C03_registry_full := by
  intro h
  have := h [⟨[72], 0⟩, ⟨[72], 1⟩] ⟨[72], 0⟩ (by simp)
  have e : typeIdOf ⟨[72], 0⟩ = typeIdOf ⟨[72], 1⟩ := rfl
  rw [show registerAll [] [⟨[72], 0⟩, ⟨[72], 1⟩] = (registerAll [] [⟨[72], 0⟩]).put (typeIdOf ⟨[72], 1⟩) ⟨[72], 1⟩ from rfl,
    e, registry_get_put_same] at this
  cases this

/-- the codec over a registry satisfies the hypothesis of the delivery theorems as soon as every
sendable value's type is found under its own id -/
theorem c03_codecOf_sound {V : Type} (r : Registry) (tc : TCodec V) (htc : tc.Sound)
    (hf : ∀ v, (codecOf r tc).sendable v = true → r.get (typeIdOf (tc.typeOf v)) = some (tc.typeOf v)) :
    (codecOf r tc).Sound := by
  constructor
  · intro v _; exact typeIdOf_length _
  · intro v hv
    simp only [codecOf, Bool.and_eq_true] at hv
    exact hv.1
  · intro v hv
    have h1 := hf v hv
    simp only [codecOf, Bool.and_eq_true] at hv
    simp only [codecOf, h1]
    exact htc.roundtrip v hv.2

/-- **a value of a registered type arrives as an equal value of the same type**: for every history
of registrations in which no other type shares its id, `Unmarshal (Marshal v) = v` -/
theorem c03_registered_value_roundtrip {V : Type} (tc : TCodec V) (htc : tc.Sound) (r : Registry)
    (ts : List GoType) (v : V) (ht : tc.typeOf v ∈ ts)
    (huniq : ∀ u ∈ ts, typeIdOf u = typeIdOf (tc.typeOf v) → u = tc.typeOf v)
    (henc : tc.encodable v = true) :
    ∃ b, marshal (codecOf (registerAll r ts) tc) v = some b ∧
      unmarshal (codecOf (registerAll r ts) tc) b = .ok v := by
  have hget := c03_registry_faithful r ts (tc.typeOf v) ht huniq
  have hs : (codecOf (registerAll r ts) tc).sendable v = true := by simp [codecOf, hget, henc]
  refine ⟨_, marshal_bufOf _ v hs, ?_⟩
  have hl := typeIdOf_length (tc.typeOf v)
  unfold unmarshal bufOf
  have t16 : ((codecOf (registerAll r ts) tc).tyOf v ++ (codecOf (registerAll r ts) tc).enc v).take 16 =
      typeIdOf (tc.typeOf v) := by
    simp only [codecOf]
    rw [List.take_append_of_le_length (by omega)]; exact List.take_of_length_le (by omega)
  have d16 : ((codecOf (registerAll r ts) tc).tyOf v ++ (codecOf (registerAll r ts) tc).enc v).drop 16 =
      tc.enc v := by
    simp only [codecOf]
    rw [List.drop_append_of_le_length (by omega)]
    simp [List.drop_of_length_le (show (typeIdOf (tc.typeOf v)).length ≤ 16 by omega)]
  rw [if_neg (by simp [codecOf]; omega), t16, d16]
  simp [codecOf, hget, htc.roundtrip v henc]


/-! ### the envelope -/

theorem classifyEnv_erase {V : Type} (cd : Codec V) (remote : Nat) (procs : List (List Nat)) (b : List Nat) :
    (classifyEnv cd remote procs b).erase = classify cd b := by
  unfold classifyEnv classify react
  cases unmarshal cd b with
  | ok v => simp only []; split <;> rfl
  | error e => simp only []; split <;> rfl

theorem classifyEnv_not_closed {V : Type} (cd : Codec V) (remote : Nat) (procs : List (List Nat)) (b : List Nat) :
    (classifyEnv cd remote procs b).isClosed = false := by
  have h := classify_not_closed cd b
  rw [← classifyEnv_erase cd remote procs b] at h
  cases hc : classifyEnv cd remote procs b <;> simp [hc, EnvEvent.erase, Event.isClosed, EnvEvent.isClosed] at h ⊢

/-- the loop with the envelope in view is the loop of the delivery theorems: forgetting the
envelope fields gives exactly its events (so every theorem about `recvLoop` speaks about it) -/
theorem recvEnvLoop_erase {V : Type} (cd : Codec V) (max remote : Nat) (procs : List (List Nat))
    (fuel : Nat) (c : Segs) :
    (recvEnvLoop cd max remote procs fuel c).map EnvEvent.erase = recvLoop cd max fuel c := by
  induction fuel generalizing c with
  | zero => rfl
  | succ fuel ih =>
    obtain ⟨r, c', hr⟩ := recvFrame_pair max c
    cases r with
    | error e =>
      rw [recvLoop_err cd max fuel c c' e hr]
      rcases recvFrame_err max c e (by rw [hr]) with rfl | rfl <;>
        simp [recvEnvLoop, hr, sentinelOf, fatal, EnvEvent.erase]
    | ok b =>
      rw [recvLoop_ok cd max fuel c c' b hr]
      simp only [recvEnvLoop, hr, classifyEnv_not_closed, Bool.false_eq_true, if_false, List.map_cons,
        classifyEnv_erase, ih c']

/-- **what a processor is handed**: for every sequence of sendable values within the limit, under
every segmentation, the receive loop dispatches one envelope per value, in order — `Msg` the value
sent, `MsgType` the id of its type (so the dispatcher picks the processor registered for *that*
type), `ServerIdentity` the peer of the connection, `Size` the length of the marshalled buffer —
to the processor registered for the type, or drops it with "no processor" when there is none. -/
theorem c03_envelope_fields {V : Type} (cd : Codec V) (hcd : cd.Sound) (max remote : Nat) (hmax : max < 2^32)
    (procs : List (List Nat)) (vs : List V)
    (hv : ∀ v ∈ vs, cd.sendable v = true ∧ (bufOf cd v).length ≤ max)
    (fuel : Nat) (hfuel : vs.length + 1 ≤ fuel) (c : Segs) (hc : c.flatten = wire (vs.map (bufOf cd))) :
    recvEnvLoop cd max remote procs fuel c =
      vs.map (fun v =>
        let env : Envelope V := { sender := remote, msgType := cd.tyOf v, msg := v, size := (bufOf cd v).length }
        if procs.contains (cd.tyOf v) then EnvEvent.processed env else EnvEvent.noProcessor env)
      ++ [.closed .eof] := by
  induction vs generalizing c fuel with
  | nil =>
    cases fuel with
    | zero => omega
    | succ fuel =>
      have h1 := recvFrame_short_header max c (by rw [hc]; simp [wire])
      obtain ⟨r, c', hr⟩ := recvFrame_pair max c
      rw [hr] at h1
      simp only at h1
      subst h1
      simp [recvEnvLoop, hr, sentinelOf, fatal]
  | cons v rest ih =>
    cases fuel with
    | zero => omega
    | succ fuel =>
      have hvv := hv v (by simp)
      obtain ⟨c', e1, f1⟩ := recvFrame_enc max (bufOf cd v) (wire (rest.map (bufOf cd))) c hvv.2 (by omega)
        (by rw [hc, List.map_cons, wire_cons])
      have hun : unmarshal cd (bufOf cd v) = .ok v :=
        c03_marshal_roundtrip cd hcd v (bufOf cd v) (marshal_bufOf cd v hvv.1)
      have hl := hcd.ty_len v hvv.1
      have t16 : (bufOf cd v).take 16 = cd.tyOf v := by
        unfold bufOf
        rw [List.take_append_of_le_length (by omega)]; exact List.take_of_length_le (by omega)
      have hcl : classifyEnv cd remote procs (bufOf cd v) =
          (if procs.contains (cd.tyOf v) then
            EnvEvent.processed { sender := remote, msgType := cd.tyOf v, msg := v, size := (bufOf cd v).length }
           else EnvEvent.noProcessor { sender := remote, msgType := cd.tyOf v, msg := v, size := (bufOf cd v).length }) := by
        simp only [classifyEnv, hun, t16]
      have hnc := classifyEnv_not_closed cd remote procs (bufOf cd v)
      simp only [recvEnvLoop, e1, hnc, Bool.false_eq_true, if_false, List.map_cons, List.cons_append]
      rw [ih (fun w hw => hv w (by simp [hw])) fuel (by simp at hfuel; omega) c' f1, hcl]

/-- **sending to oneself** (`Router.Send` with the router's own identity): no wire at all — every
value whose type is registered, encodable and has a processor is dispatched at once, in order, as
the very value sent, with the id of its type and the router's own identity; `Send` reports success. -/
theorem c03_self_send {V : Type} (r : Registry) (tc : TCodec V) (self : Nat) (procs : List (List Nat))
    (vs : List V)
    (hv : ∀ v ∈ vs, (codecOf r tc).sendable v = true ∧ procs.contains (typeIdOf (tc.typeOf v)) = true) :
    selfSend r tc self procs vs =
      (vs.map fun v => { sender := self, msgType := typeIdOf (tc.typeOf v), msg := v, size := 0 }, true) := by
  induction vs with
  | nil => rfl
  | cons v rest ih =>
    have hvv := hv v (by simp)
    have hreg : (r.get (typeIdOf (tc.typeOf v))).isSome = true := by
      have := hvv.1; simp only [codecOf, Bool.and_eq_true] at this; exact this.1
    have hmt : messageType r (tc.typeOf v) = typeIdOf (tc.typeOf v) := by simp [messageType, hreg]
    simp only [selfSend, hmt, hvv.2, hvv.1, if_true, List.map_cons]
    rw [ih (fun w hw => hv w (by simp [hw]))]

/-- a value of an unregistered type sent to oneself is refused before anything is dispatched (the
envelope would carry `ErrorType`, for which nobody registers a processor) -/
theorem c03_self_send_unregistered {V : Type} (r : Registry) (tc : TCodec V) (self : Nat)
    (procs : List (List Nat)) (v : V) (l : List V)
    (hreg : r.get (typeIdOf (tc.typeOf v)) = none) (hp : procs.contains errorType = false) :
    selfSend r tc self procs (v :: l) = ([], false) := by
  have hmt : messageType r (tc.typeOf v) = errorType := by simp [messageType, hreg]
  simp only [selfSend, hmt, hp, Bool.false_eq_true, if_false]

/-! ### the in-memory transport: refused buffers, close, quiescence -/

theorem localEnvLoop_erase {V : Type} (cd : Codec V) (remote : Nat) (procs : List (List Nat))
    (q : List (List Nat)) : (localEnvLoop cd remote procs q).map EnvEvent.erase = localLoop cd q := by
  unfold localEnvLoop localLoop
  rw [List.map_append, List.map_map]
  congr 1
  exact List.map_congr_left fun b _ => classifyEnv_erase cd remote procs b

/-- **a refused buffer is isolated on the in-memory transport too**: whatever is put into the queue
(too short for a type id, unknown type, undecodable body), the loop refuses exactly that buffer and
hands on every other one, in order, until the connection is closed -/
theorem c03_local_refused_isolated {V : Type} (cd : Codec V) (pre post : List (List Nat)) (bad : List Nat)
    (e : RecvErr) (hbad : unmarshal cd bad = .error e) :
    localLoop cd (pre ++ bad :: post) =
      pre.map (classify cd) ++ .refused e :: post.map (classify cd) ++ [.closed .closed] := by
  have : classify cd bad = .refused e := by
    rcases c03_garbage_unmarshal cd bad with ⟨v, hv⟩ | ⟨e', he', _, hnf⟩
    · rw [hv] at hbad; cases hbad
    · rw [he'] at hbad; cases hbad
      simp [classify, he', react, hnf]
  simp [localLoop, this]

/-- **closing an in-memory connection loses at most a suffix**: under every schedule, what was
received plus what can still be received after the close is a prefix of what was sent — the buffers
still in the first queue are gone, nothing else, and nothing is reordered or duplicated -/
theorem c03_local_close_prefix (cap : Nat) (s : LQ) (sched : List LAct) :
    (lclose (lrun cap s sched).1).got ++ (lclose (lrun cap s sched).1).out ++ (lrun cap s sched).1.inc =
      s.got ++ s.out ++ s.inc ++ (lrun cap s sched).2 := by
  simpa [lclose] using c03_local_fifo cap s sched

/-- **nothing is stuck in the in-memory queues at quiescence**: when neither the forwarding
goroutine nor the receiver can take a step, both queues are empty — everything sent was received -/
theorem c03_local_quiescent (cap : Nat) (hcap : 0 < cap) (s : LQ)
    (hm : lstep cap s .move = none) (hr : lstep cap s .recv = none) : s.inc = [] ∧ s.out = [] := by
  have hout : s.out = [] := by
    cases ho : s.out with
    | nil => rfl
    | cons b rest => simp [lstep, ho] at hr
  refine ⟨?_, hout⟩
  cases hi : s.inc with
  | nil => rfl
  | cons b rest => simp [lstep, hi, hout, hcap] at hm

/-! ### layer 2: the wire format of the protobuf library (`Model/C03Wire.lean`)

For the schema language of `Model/C03Wire.lean` the codec round trip is a theorem, not a hypothesis:
`decode ts (encMsg 1 ts vs) = some vs` for every schema and every value inside the lossless range. -/
namespace Wire

theorem uvarintF_ne_nil (f n : Nat) : uvarintF f n ≠ [] := by
  cases f with
  | zero => simp [uvarintF]
  | succ f => simp only [uvarintF]; split <;> simp

theorem uvarint_ne_nil (n : Nat) : uvarint n ≠ [] := uvarintF_ne_nil 9 n

theorem uvarint_length_pos (n : Nat) : 1 ≤ (uvarint n).length := by
  have := uvarint_ne_nil n
  cases h : uvarint n with
  | nil => exact absurd h this
  | cons a l => simp

/-- `binary.Uvarint` inverts `binary.PutUvarint` for every `uint64`, whatever follows in the buffer:
`i` bytes are behind us, `f` continuation bytes may still come -/
theorem getUvarintAux_uvarintF (f : Nat) : ∀ (n i acc : Nat) (rest : List Nat), i + f = 9 → n < 2 ^ (64 - 7 * i) →
    getUvarintAux i acc (uvarintF f n ++ rest) = some (acc + n * 2 ^ (7 * i), rest) := by
  induction f with
  | zero =>
    intro n i acc rest hi hn
    have : i = 9 := by omega
    subst this
    simp at hn
    have h128 : n < 128 := by omega
    have h1 : ¬ 1 < n := by omega
    simp [uvarintF, getUvarintAux, h128, h1]
  | succ f ih =>
    intro n i acc rest hi hn
    have hcases : i = 0 ∨ i = 1 ∨ i = 2 ∨ i = 3 ∨ i = 4 ∨ i = 5 ∨ i = 6 ∨ i = 7 ∨ i = 8 := by omega
    by_cases h : n < 128
    · rcases hcases with rfl | rfl | rfl | rfl | rfl | rfl | rfl | rfl | rfl <;>
        simp [uvarintF, getUvarintAux, h]
    · rcases hcases with rfl | rfl | rfl | rfl | rfl | rfl | rfl | rfl | rfl
      all_goals
        (simp only [uvarintF, h, if_false, List.cons_append, getUvarintAux]
         rw [if_neg (by omega), if_neg (by omega)]
         rw [ih (n / 128) _ _ rest (by omega) (by simp at hn ⊢; omega)]
         simp; omega)

theorem getUvarint_uvarint (n : Nat) (rest : List Nat) (h : n < 2 ^ 64) :
    getUvarint (uvarint n ++ rest) = some (n, rest) := by
  have := getUvarintAux_uvarintF 9 n 0 0 rest (by omega) (by simpa using h)
  simpa [getUvarint, uvarint] using this

theorem zigzag_lt (v : Int) (h1 : -2 ^ 63 ≤ v) (h2 : v < 2 ^ 63) : zigzag v < 2 ^ 64 := by
  unfold zigzag; split <;> omega

/-- the library's zig-zag decoder inverts its encoder on `-2^62 ≤ v < 2^62` -/
theorem unzigzag_zigzag (v : Int) (h1 : -2 ^ 62 ≤ v) (h2 : v < 2 ^ 62) : unzigzag (zigzag v) = v := by
  unfold zigzag unzigzag toI64
  by_cases h : 0 ≤ v
  · simp only [h, if_true]
    have e : ((2 * v).toNat : Int) = 2 * v := Int.toNat_of_nonneg (by omega)
    have hlt : (2 * v).toNat < 2 ^ 63 := by omega
    have hm : (2 * v).toNat % 2 = 0 := by omega
    simp only [hlt, if_true, hm]
    omega
  · simp only [h, if_false]
    have e : ((-2 * v - 1).toNat : Int) = -2 * v - 1 := Int.toNat_of_nonneg (by omega)
    have hlt : (-2 * v - 1).toNat < 2 ^ 63 := by omega
    have hm : (-2 * v - 1).toNat % 2 = 1 := by omega
    simp only [hlt, if_true, hm]
    omega

theorem wrapI32_id (v : Int) (h1 : -2 ^ 31 ≤ v) (h2 : v < 2 ^ 31) : wrapI32 v = v := by
  unfold wrapI32; omega

theorem le64_length (x : Nat) : (le64 x).length = 8 := by simp [le64]

theorem unle_le64 (x : Nat) (h : x < 2 ^ 64) : unle (le64 x) = x := by
  simp only [le64, unle, List.foldr]; omega

/-! ### `decoder.value` on what the encoder wrote -/

theorem parseRaw_varint (n : Nat) (rest : List Nat) (h : n < 2 ^ 64) :
    parseRaw 0 (uvarint n ++ rest) = some (n, [], rest) := by
  simp [parseRaw, getUvarint_uvarint n rest h]

theorem parseRaw_fixed64 (x : Nat) (rest : List Nat) (h : x < 2 ^ 64) :
    parseRaw 1 (le64 x ++ rest) = some (x, [], rest) := by
  have hl := le64_length x
  simp only [parseRaw]
  rw [if_neg (by omega), if_neg (by omega), if_pos trivial, if_neg (by simp [hl])]
  rw [List.take_append_of_le_length (by omega), List.take_of_length_le (by omega),
    List.drop_append_of_le_length (by omega), List.drop_of_length_le (by omega), unle_le64 x h]
  simp

theorem parseRaw_delim (body rest : List Nat) (h : body.length < 2 ^ 64) :
    parseRaw 2 (uvarint body.length ++ body ++ rest) = some (body.length, body, rest) := by
  simp only [parseRaw]
  rw [if_neg (by omega), if_neg (by omega), if_neg (by omega), if_pos trivial, List.append_assoc,
    getUvarint_uvarint _ _ h]
  simp


/-- a type whose values are exactly one wire entry: what a pointer may point to and a slice may hold -/
def Ty.single : Ty → Bool
  | .rep _ | .opt _ => false
  /- a byte array is a direct field of a struct: the library has no slices of arrays (the encoder
  panics on two-dimensional arrays other than `[][]byte`), pointers to arrays are not generated -/
  | .arr _ => false
  | _ => true

mutual
/-- the values of the schema language that the library encodes and decodes without loss: integers
inside their width (and inside the zig-zag decoder's range), lengths that fit a `uint64`, pointers
and slices of single-entry types -/
def wf : Ty → Val → Bool
  | .i32, .int i => decide (-2 ^ 31 ≤ i ∧ i < 2 ^ 31)
  | .i64, .int i => decide (-2 ^ 62 ≤ i ∧ i < 2 ^ 62)
  | .u32, .nat n => decide (n < 2 ^ 32)
  | .u64, .nat n => decide (n < 2 ^ 64)
  | .bool, .bool _ => true
  | .f64, .f64 x => decide (x < 2 ^ 64)
  | .bytes, .bytes b => decide (b.length < 2 ^ 64)
  | .arr n, .bytes b => decide (b.length = n ∧ n < 2 ^ 64)
  | .msg ts, .msg vs => wfs ts vs && decide ((encMsg 1 ts vs).length < 2 ^ 64) && decide (ts.length < 2 ^ 60)
  | .rep t, .rep l => t.single && wfAll t l && (!t.packed || decide ((encPackedAll t l).length < 2 ^ 64))
  | .opt t, .opt none => t.single
  | .opt t, .opt (some v) => t.single && wf t v
  | _, _ => false
termination_by structural _ v => v
def wfs : List Ty → List Val → Bool
  | [], [] => true
  | t :: ts, v :: vs => wf t v && wfs ts vs
  | _, _ => false
termination_by structural _ vs => vs
def wfAll (t : Ty) : List Val → Bool
  | [] => true
  | v :: l => wf t v && wfAll t l
termination_by structural l => l
end

theorem zeros_length (ts : List Ty) : (zeros ts).length = ts.length := by
  induction ts with
  | nil => rfl
  | cons t ts ih => simp [zeros, ih]

theorem decMsg_nil (fuel : Nat) (ts : List Ty) (cur : List Val) (fi : Nat) :
    decMsg fuel ts cur fi [] = some cur := by
  cases fuel <;> simp [decMsg]

/-- one turn of the decoder's loop on an entry for field `k` -/
theorem decMsg_step (fuel : Nat) (ts : List Ty) (cur : List Val) (fi k wt x : Nat) (vb buf r1 rest : List Nat)
    (nv : Val) (t : Ty) (old : Val)
    (hbuf : buf ≠ []) (hkey : getUvarint buf = some ((k + 1) * 8 + wt, r1)) (hwt : wt < 8)
    (hraw : parseRaw wt r1 = some (x, vb, rest)) (hfi : fi ≤ k) (hk : k < ts.length)
    (ht : ts[k]? = some t) (hold : cur[k]? = some old)
    (hput : putValue (fun ts' b => decMsg fuel ts' (zeros ts') 0 b) t old wt x vb = some nv) :
    decMsg (fuel + 1) ts cur fi buf = decMsg fuel ts (cur.set k nv) k rest := by
  have hemp : buf.isEmpty = false := by simpa using hbuf
  have h1 : ((k + 1) * 8 + wt) % 8 = wt := by omega
  have h2 : ((k + 1) * 8 + wt) / 8 = k + 1 := by omega
  have hfi' : max fi (min (k + 1 - 1) ts.length) = k := by
    have : min (k + 1 - 1) ts.length = k := by omega
    omega
  have hget : ts.getD k .bool = t := by simp [List.getD, ht]
  have hgo : cur.getD k (.bool false) = old := by simp [List.getD, hold]
  simp only [decMsg, hemp, Bool.false_eq_true, if_false, hkey, h1, h2, Nat.add_one_ne_zero, hfi', hraw,
    hk, true_and, if_true, hget, hgo, hput]


/-- one element of a packed slice: what the encoder writes, the decoder reads back -/
theorem packed_elem (t : Ty) (v : Val) (hp : t.packed = true) (hw : wf t v = true) (R : List Nat) :
    encPacked t v ≠ [] ∧
    ∃ x, parseRaw t.packedWt (encPacked t v ++ R) = some (x, [], R) ∧
      putScalar t t.packedWt x [] = some v := by
  match t, v, hp, hw with
  | .i32, .int i, _, hw =>
    simp [wf] at hw
    refine ⟨uvarint_ne_nil _, zigzag i, ?_, ?_⟩
    · simpa [encPacked, Ty.packedWt] using parseRaw_varint (zigzag i) R (zigzag_lt i (by omega) (by omega))
    · simp [putScalar, Ty.packedWt, decodeSigned, unzigzag_zigzag i (by omega) (by omega), wrapI32_id i hw.1 hw.2]
  | .i64, .int i, _, hw =>
    simp [wf] at hw
    refine ⟨uvarint_ne_nil _, zigzag i, ?_, ?_⟩
    · simpa [encPacked, Ty.packedWt] using parseRaw_varint (zigzag i) R (zigzag_lt i (by omega) (by omega))
    · simp [putScalar, Ty.packedWt, decodeSigned, unzigzag_zigzag i hw.1 hw.2]
  | .u32, .nat n, _, hw =>
    simp [wf] at hw
    refine ⟨uvarint_ne_nil _, n, ?_, ?_⟩
    · simpa [encPacked, Ty.packedWt] using parseRaw_varint n R (by omega)
    · simp [putScalar, Ty.packedWt, decodeUnsigned]; omega
  | .u64, .nat n, _, hw =>
    simp [wf] at hw
    refine ⟨uvarint_ne_nil _, n, ?_, ?_⟩
    · simpa [encPacked, Ty.packedWt] using parseRaw_varint n R hw
    · simp [putScalar, Ty.packedWt, decodeUnsigned]
  | .bool, .bool b, _, _ =>
    refine ⟨uvarint_ne_nil _, (if b then 1 else 0), ?_, ?_⟩
    · simpa [encPacked, Ty.packedWt] using parseRaw_varint (if b then 1 else 0) R (by split <;> omega)
    · cases b <;> simp [putScalar, Ty.packedWt]
  | .f64, .f64 x, _, hw =>
    simp [wf] at hw
    refine ⟨by simp [encPacked, le64], x, ?_, ?_⟩
    · simpa [encPacked, Ty.packedWt] using parseRaw_fixed64 x R hw
    · simp [putScalar, Ty.packedWt]

theorem decPacked_rt (t : Ty) (hp : t.packed = true) (l : List Val) (hw : wfAll t l = true)
    (fuel : Nat) (hf : (encPackedAll t l).length ≤ fuel) :
    decPacked t fuel (encPackedAll t l) = some l := by
  induction l generalizing fuel with
  | nil => cases fuel <;> simp [encPackedAll, decPacked]
  | cons v l ih =>
    simp only [wfAll, Bool.and_eq_true] at hw
    obtain ⟨hne, x, hraw, hput⟩ := packed_elem t v hp hw.1 (encPackedAll t l)
    have hpos : 1 ≤ (encPacked t v).length := by
      cases h : encPacked t v with
      | nil => exact absurd h hne
      | cons a b => simp
    simp only [encPackedAll, List.length_append] at hf ⊢
    cases fuel with
    | zero => omega
    | succ fuel =>
      have hemp : (encPacked t v ++ encPackedAll t l).isEmpty = false := by
        simp [hne]
      simp only [decPacked, hemp, Bool.false_eq_true, if_false, hraw, hput, ih hw.2 fuel (by omega)]
      rfl


/-- a value of a single-entry type as one wire entry: key ‖ payload; the decoder's raw parse gives
back `(x, vb)`, from which `putvalue` rebuilds the value (for an embedded message, given enough
fuel for its body); a length-delimited entry ignores `x` -/
def EntryRT (t : Ty) (v : Val) : Prop :=
  ∀ key, key % 8 = 0 → key + 8 ≤ 2 ^ 64 →
    ∃ wt x vb P, wt < 8 ∧ encField key t v = uvarint (key + wt) ++ P ∧
      (∀ R, parseRaw wt (P ++ R) = some (x, vb, R)) ∧ vb.length ≤ P.length ∧
      (∀ fuel old, vb.length < fuel →
        putValue (fun ts' b => decMsg fuel ts' (zeros ts') 0 b) t old wt x vb = some v) ∧
      (t.packed = false → wt = 2 ∧ ∀ fuel old x', vb.length < fuel →
        putValue (fun ts' b => decMsg fuel ts' (zeros ts') 0 b) t old 2 x' vb = some v)

/-- a field of any type inside the decoder's loop: the entries the encoder wrote for field `k`
(none, one, or one per element) take the struct from "field `k` still zero" to "field `k` = v" -/
def FieldRT (t : Ty) (v : Val) : Prop :=
  ∀ (tsAll : List Ty) (cur : List Val) (k fi fuel : Nat) (R : List Nat),
    tsAll[k]? = some t → cur.length = tsAll.length → cur[k]? = some (zero t) → fi ≤ k → k < 2 ^ 60 →
    (encField ((k + 1) * 8) t v ++ R).length < fuel →
    ∃ fuel2 fi2, fi2 ≤ k ∧ fi ≤ fi2 ∧ R.length < fuel2 ∧
      decMsg fuel tsAll cur fi (encField ((k + 1) * 8) t v ++ R) = decMsg fuel2 tsAll (cur.set k v) fi2 R

theorem set_same (cur : List Val) (k : Nat) (v : Val) (h : cur[k]? = some v) : cur.set k v = cur := by
  apply List.ext_getElem?
  intro i
  by_cases hi : i = k
  · subst hi
    have hh := List.getElem?_eq_some_iff.mp h
    simp [hh.1, hh.2]
  · simp [List.getElem?_set, Ne.symm hi]

/-- the loop on the one entry the encoder wrote for a value `v` of a single-entry type `t`, when
field `k` has type `T` and `putvalue` at `T` turns `t`'s result into `nv` -/
theorem entry_step (t : Ty) (v : Val) (he : EntryRT t v)
    (tsAll : List Ty) (cur : List Val) (k fi fuel : Nat) (R : List Nat) (T : Ty) (old nv : Val)
    (hT : tsAll[k]? = some T) (hold : cur[k]? = some old) (hfi : fi ≤ k) (hk : k < 2 ^ 60)
    (hf : (encField ((k + 1) * 8) t v ++ R).length < fuel)
    (hput : ∀ f wt x vb, vb.length < f →
      (∀ old', putValue (fun ts' b => decMsg f ts' (zeros ts') 0 b) t old' wt x vb = some v) →
      (t.packed = false → wt = 2 ∧ ∀ old' x', putValue (fun ts' b => decMsg f ts' (zeros ts') 0 b) t old' 2 x' vb = some v) →
      putValue (fun ts' b => decMsg f ts' (zeros ts') 0 b) T old wt x vb = some nv) :
    ∃ f, fuel = f + 1 ∧ R.length < f ∧
      decMsg fuel tsAll cur fi (encField ((k + 1) * 8) t v ++ R) = decMsg f tsAll (cur.set k nv) k R := by
  obtain ⟨wt, x, vb, P, hwt, henc, hraw, hvb, hp1, hp2⟩ := he ((k + 1) * 8) (by omega) (by omega)
  have hkl : k < tsAll.length := (List.getElem?_eq_some_iff.mp hT).1
  have hu := uvarint_length_pos ((k + 1) * 8 + wt)
  rw [henc] at hf ⊢
  simp only [List.length_append] at hf
  cases fuel with
  | zero => omega
  | succ f =>
    refine ⟨f, rfl, by omega, ?_⟩
    have hkey : getUvarint (uvarint ((k + 1) * 8 + wt) ++ P ++ R) = some ((k + 1) * 8 + wt, P ++ R) := by
      rw [List.append_assoc]; exact getUvarint_uvarint _ _ (by omega)
    have hvbf : vb.length < f := by omega
    exact decMsg_step f tsAll cur fi k wt x vb _ (P ++ R) R nv T old
      (by simp [uvarint_ne_nil]) hkey hwt (hraw R) hfi hkl hT hold
      (hput f wt x vb hvbf (fun old' => hp1 f old' hvbf)
        (fun hnp => ⟨(hp2 hnp).1, fun old' x' => (hp2 hnp).2 f old' x' hvbf⟩))

/-- a field of a single-entry type -/
theorem field_of_entry (t : Ty) (v : Val) (he : EntryRT t v) : FieldRT t v := by
  intro tsAll cur k fi fuel R ht _ hz hfi hk hf
  obtain ⟨f, _, hR, hstep⟩ := entry_step t v he tsAll cur k fi fuel R t (zero t) v ht hz hfi hk hf
    (fun f wt x vb _ h _ => h (zero t))
  exact ⟨f, k, Nat.le_refl k, hfi, hR, hstep⟩

theorem putValue_opt (sub : List Ty → List Nat → Option (List Val)) (t : Ty) (old : Val) (wt x : Nat) (vb : List Nat) :
    putValue sub (.opt t) old wt x vb =
      (putValue sub t (pointee t old) wt x vb).map fun y => .opt (some y) := by
  rw [putValue]

/-- a pointer field: nothing on the wire for nil, the pointee's entry otherwise -/
theorem field_opt_none (t : Ty) : FieldRT (.opt t) (.opt none) := by
  intro tsAll cur k fi fuel R _ _ hz hfi _ hf
  refine ⟨fuel, fi, hfi, Nat.le_refl fi, by simpa [encField] using hf, ?_⟩
  have : zero (.opt t) = .opt none := by simp [zero]
  rw [this] at hz
  simp [encField, set_same cur k _ hz]

theorem field_opt_some (t : Ty) (v : Val) (he : EntryRT t v) : FieldRT (.opt t) (.opt (some v)) := by
  intro tsAll cur k fi fuel R ht _ hz hfi hk hf
  have hz' : cur[k]? = some (.opt none) := by simpa [zero] using hz
  have henc : encField ((k + 1) * 8) (.opt t) (.opt (some v)) = encField ((k + 1) * 8) t v := by
    simp [encField]
  rw [henc] at hf ⊢
  obtain ⟨f, _, hR, hstep⟩ := entry_step t v he tsAll cur k fi fuel R (.opt t) (.opt none) (.opt (some v))
    ht hz' hfi hk hf
    (fun f wt x vb _ h _ => by rw [putValue_opt]; simp [h (pointee t (.opt none))])
  exact ⟨f, k, Nat.le_refl k, hfi, hR, hstep⟩


theorem lenDelim_eq (key : Nat) (body : List Nat) :
    lenDelim key body = uvarint (key + 2) ++ (uvarint body.length ++ body) := by
  simp [lenDelim]

theorem putValue_rep (sub : List Ty → List Nat → Option (List Val)) (t : Ty) (old : Val) (wt x : Nat) (vb : List Nat) :
    putValue sub (.rep t) old wt x vb =
      if wt ≠ 2 then none else
      if t.packed then (decPacked t vb.length vb).map fun xs => .rep (elems old ++ xs)
      else (putValue sub t (zero t) 2 0 vb).map fun y => .rep (elems old ++ [y]) := by
  rw [putValue]

/-- a slice of numbers: one length-delimited entry with all elements packed -/
theorem field_rep_packed (t : Ty) (l : List Val) (hp : t.packed = true) (hw : wfAll t l = true)
    (hlen : (encPackedAll t l).length < 2 ^ 64) : FieldRT (.rep t) (.rep l) := by
  intro tsAll cur k fi fuel R ht _ hz hfi hk hf
  have hz' : cur[k]? = some (.rep []) := by simpa [zero] using hz
  have hkl : k < tsAll.length := (List.getElem?_eq_some_iff.mp ht).1
  have henc : encField ((k + 1) * 8) (.rep t) (.rep l) =
      uvarint ((k + 1) * 8 + 2) ++ (uvarint (encPackedAll t l).length ++ encPackedAll t l) := by
    simp [encField, hp, lenDelim]
  rw [henc] at hf ⊢
  have hu := uvarint_length_pos ((k + 1) * 8 + 2)
  simp only [List.length_append] at hf
  cases fuel with
  | zero => omega
  | succ f =>
    refine ⟨f, k, Nat.le_refl k, hfi, by omega, ?_⟩
    have hkey : getUvarint (uvarint ((k + 1) * 8 + 2) ++ (uvarint (encPackedAll t l).length ++ encPackedAll t l) ++ R) =
        some ((k + 1) * 8 + 2, uvarint (encPackedAll t l).length ++ encPackedAll t l ++ R) := by
      rw [List.append_assoc]; exact getUvarint_uvarint _ _ (by omega)
    exact decMsg_step f tsAll cur fi k 2 _ (encPackedAll t l) _ _ R (.rep l) (.rep t) (.rep [])
      (by simp [uvarint_ne_nil]) hkey (by omega) (parseRaw_delim _ R hlen) hfi hkl ht hz'
      (by rw [putValue_rep]; simp [hp, decPacked_rt t hp l hw _ (Nat.le_refl _), elems])

/-- a slice of byte strings or messages: one entry per element, each appended to what is there -/
theorem rep_unpacked_loop (t : Ty) (hnp : t.packed = false) (l : List Val) (he : ∀ v ∈ l, EntryRT t v)
    (tsAll : List Ty) (k : Nat) (ht : tsAll[k]? = some (.rep t)) (hk : k < 2 ^ 60) :
    ∀ (acc : List Val) (cur : List Val) (fi fuel : Nat) (R : List Nat),
      cur[k]? = some (.rep acc) → fi ≤ k → (encRep ((k + 1) * 8) t l ++ R).length < fuel →
      ∃ fuel2 fi2, fi2 ≤ k ∧ fi ≤ fi2 ∧ R.length < fuel2 ∧
        decMsg fuel tsAll cur fi (encRep ((k + 1) * 8) t l ++ R) =
          decMsg fuel2 tsAll (cur.set k (.rep (acc ++ l))) fi2 R := by
  induction l with
  | nil =>
    intro acc cur fi fuel R hc hfi hf
    exact ⟨fuel, fi, hfi, Nat.le_refl fi, by simpa [encRep] using hf, by simp [encRep, set_same cur k _ hc]⟩
  | cons v l ih =>
    intro acc cur fi fuel R hc hfi hf
    simp only [encRep, List.append_assoc] at hf ⊢
    obtain ⟨f, _, hR, hstep⟩ := entry_step t v (he v (by simp)) tsAll cur k fi fuel (encRep ((k + 1) * 8) t l ++ R)
      (.rep t) (.rep acc) (.rep (acc ++ [v])) ht hc hfi hk hf
      (fun f wt x vb _ _ h2 => by
        obtain ⟨hwt, hp⟩ := h2 hnp
        rw [putValue_rep, hwt]
        simp [hnp, hp (zero t) 0, elems])
    rw [hstep]
    have hc' : (cur.set k (.rep (acc ++ [v])))[k]? = some (.rep (acc ++ [v])) := by
      have hlt : k < cur.length := (List.getElem?_eq_some_iff.mp hc).1
      simp [hlt]
    obtain ⟨f2, fi2, h1, h2, h3, h4⟩ := ih (fun w hw => he w (by simp [hw])) (acc ++ [v]) _ k f R hc' (Nat.le_refl k) hR
    refine ⟨f2, fi2, h1, by omega, h3, ?_⟩
    rw [h4]
    simp [List.set_set, List.append_assoc]

theorem field_rep_unpacked (t : Ty) (hnp : t.packed = false) (l : List Val) (he : ∀ v ∈ l, EntryRT t v) :
    FieldRT (.rep t) (.rep l) := by
  intro tsAll cur k fi fuel R ht _ hz hfi hk hf
  have hz' : cur[k]? = some (.rep []) := by simpa [zero] using hz
  have henc : encField ((k + 1) * 8) (.rep t) (.rep l) = encRep ((k + 1) * 8) t l := by
    simp [encField, hnp]
  rw [henc] at hf ⊢
  simpa using rep_unpacked_loop t hnp l he tsAll k ht hk [] cur fi fuel R hz' hfi hf


/-- the scalar types and byte strings as one wire entry -/
theorem entry_scalar (t : Ty) (v : Val) (hw : wf t v = true)
    (ht : t.packed = true ∨ t = .bytes ∨ ∃ n, t = .arr n) : EntryRT t v := by
  intro key hk8 hk64
  match t, v, hw, ht with
  | .i32, .int i, hw, _ =>
    simp [wf] at hw
    refine ⟨0, zigzag i, [], uvarint (zigzag i), by omega, by simp [encField], fun R => ?_, by simp, ?_, by simp [Ty.packed]⟩
    · exact parseRaw_varint _ R (zigzag_lt i (by omega) (by omega))
    · intro fuel old _
      rw [putValue]
      simp [putScalar, decodeSigned, unzigzag_zigzag i (by omega) (by omega), wrapI32_id i hw.1 hw.2]
  | .i64, .int i, hw, _ =>
    simp [wf] at hw
    refine ⟨0, zigzag i, [], uvarint (zigzag i), by omega, by simp [encField], fun R => ?_, by simp, ?_, by simp [Ty.packed]⟩
    · exact parseRaw_varint _ R (zigzag_lt i (by omega) (by omega))
    · intro fuel old _
      rw [putValue]
      simp [putScalar, decodeSigned, unzigzag_zigzag i hw.1 hw.2]
  | .u32, .nat n, hw, _ =>
    simp [wf] at hw
    refine ⟨0, n, [], uvarint n, by omega, by simp [encField], fun R => parseRaw_varint n R (by omega), by simp, ?_, by simp [Ty.packed]⟩
    intro fuel old _
    rw [putValue]
    simp [putScalar, decodeUnsigned]; omega
  | .u64, .nat n, hw, _ =>
    simp [wf] at hw
    refine ⟨0, n, [], uvarint n, by omega, by simp [encField], fun R => parseRaw_varint n R hw, by simp, ?_, by simp [Ty.packed]⟩
    intro fuel old _
    rw [putValue]
    simp [putScalar, decodeUnsigned]
  | .bool, .bool b, _, _ =>
    refine ⟨0, (if b then 1 else 0), [], uvarint (if b then 1 else 0), by omega, by simp [encField],
      fun R => parseRaw_varint _ R (by split <;> omega), by simp, ?_, by simp [Ty.packed]⟩
    intro fuel old _
    rw [putValue]
    cases b <;> simp [putScalar]
  | .f64, .f64 x, hw, _ =>
    simp [wf] at hw
    refine ⟨1, x, [], le64 x, by omega, by simp [encField], fun R => parseRaw_fixed64 x R hw, by simp, ?_, by simp [Ty.packed]⟩
    intro fuel old _
    rw [putValue]
    simp [putScalar]
  | .bytes, .bytes b, hw, _ =>
    simp [wf] at hw
    refine ⟨2, b.length, b, uvarint b.length ++ b, by omega, by simp [encField, lenDelim], fun R => ?_, by simp, ?_, ?_⟩
    · exact parseRaw_delim b R hw
    · intro fuel old _
      rw [putValue]
      simp [putScalar]
    · intro _
      refine ⟨rfl, fun fuel old x' _ => ?_⟩
      rw [putValue]
      simp [putScalar]
  | .arr n, .bytes b, hw, _ =>
    simp [wf] at hw
    refine ⟨2, b.length, b, uvarint b.length ++ b, by omega, by simp [encField, lenDelim], fun R => ?_, by simp, ?_, ?_⟩
    · exact parseRaw_delim b R (by omega)
    · intro fuel old _
      rw [putValue]
      simp [putScalar, hw.1]
    · intro _
      refine ⟨rfl, fun fuel old x' _ => ?_⟩
      rw [putValue]
      simp [putScalar, hw.1]

/-- field by field: the values of a message schema, pairwise -/
def AllFieldRT : List Ty → List Val → Prop
  | t :: ts, v :: vs => FieldRT t v ∧ AllFieldRT ts vs
  | _, _ => True

theorem zeros_drop (ts : List Ty) (k : Nat) : (zeros ts).drop k = zeros (ts.drop k) := by
  induction ts generalizing k with
  | nil => simp [zeros]
  | cons t ts ih =>
    cases k with
    | zero => rfl
    | succ k => simp [zeros, ih]

/-- the decoder's loop over the fields `k, k+1, …` of a message: from a struct whose fields `k…`
are still zero to the struct holding the values -/
theorem fields_loop (tsAll : List Ty) (hlen : tsAll.length < 2 ^ 60) :
    ∀ (ts : List Ty) (vs : List Val) (k : Nat) (cur : List Val) (fi fuel : Nat),
      tsAll.drop k = ts → wfs ts vs = true → AllFieldRT ts vs → cur.length = tsAll.length →
      cur.drop k = zeros ts → fi ≤ k → (encMsg (k + 1) ts vs).length < fuel →
      decMsg fuel tsAll cur fi (encMsg (k + 1) ts vs) = some (cur.take k ++ vs) := by
  intro ts
  induction ts with
  | nil =>
    intro vs k cur fi fuel hd hw _ hcl hz _ _
    cases vs with
    | nil =>
      have hk : tsAll.length ≤ k := by
        have := congrArg List.length hd; simp at this; omega
      simp [encMsg, decMsg_nil, List.take_of_length_le (by omega : cur.length ≤ k)]
    | cons v vs => simp [wfs] at hw
  | cons t ts ih =>
    intro vs k cur fi fuel hd hw hall hcl hz hfi hf
    cases vs with
    | nil => simp [wfs] at hw
    | cons v vs =>
      simp only [wfs, Bool.and_eq_true] at hw
      have hkl : k < tsAll.length := by
        have := congrArg List.length hd; simp at this; omega
      have htk : tsAll[k]? = some t := by
        have : (tsAll.drop k)[0]? = some t := by rw [hd]; rfl
        simpa using this
      have hzk : cur[k]? = some (zero t) := by
        have : (cur.drop k)[0]? = some (zero t) := by rw [hz]; rfl
        simpa using this
      simp only [encMsg] at hf ⊢
      obtain ⟨f2, fi2, h1, _, h3, h4⟩ := hall.1 tsAll cur k fi fuel (encMsg (k + 1 + 1) ts vs) htk hcl hzk hfi (by omega) hf
      rw [h4]
      have hd' : tsAll.drop (k + 1) = ts := by
        rw [← List.drop_drop, hd]; rfl
      have hz' : (cur.set k v).drop (k + 1) = zeros ts := by
        rw [List.drop_set_of_lt (by omega), ← List.drop_drop, hz]; rfl
      rw [ih vs (k + 1) (cur.set k v) fi2 f2 hd' hw.2 hall.2 (by simpa using hcl) hz' (by omega) h3]
      have hlt : k < cur.length := by omega
      congr 1
      rw [List.take_add_one]
      simp [hlt, List.take_set_of_le]


/-- an embedded message as one length-delimited entry, given that its fields round-trip -/
theorem entry_msg (ts : List Ty) (vs : List Val) (hw : wf (.msg ts) (.msg vs) = true)
    (hall : AllFieldRT ts vs) : EntryRT (.msg ts) (.msg vs) := by
  simp only [wf, Bool.and_eq_true, decide_eq_true_eq] at hw
  obtain ⟨⟨hwfs, hlen⟩, htl⟩ := hw
  have hsub : ∀ fuel, (encMsg 1 ts vs).length < fuel →
      decMsg fuel ts (zeros ts) 0 (encMsg 1 ts vs) = some vs := by
    intro fuel hf
    have := fields_loop ts htl ts vs 0 (zeros ts) 0 fuel (by simp) hwfs hall (zeros_length ts) (by simp)
      (Nat.le_refl 0) (by simpa using hf)
    simpa using this
  intro key _ _
  refine ⟨2, (encMsg 1 ts vs).length, encMsg 1 ts vs, uvarint (encMsg 1 ts vs).length ++ encMsg 1 ts vs,
    by omega, by simp [encField, lenDelim], fun R => parseRaw_delim _ R hlen, by simp, ?_, ?_⟩
  · intro fuel old hf
    rw [putValue]
    simp [hsub fuel hf]
  · intro _
    refine ⟨rfl, fun fuel old x' hf => ?_⟩
    rw [putValue]
    simp [hsub fuel hf]

/-- what the recursion over values carries: single-entry types give an entry, every type a field -/
def Good (v : Val) : Prop :=
  (∀ t, wf t v = true → t.single = true → EntryRT t v) ∧ (∀ t, wf t v = true → FieldRT t v)

theorem allField_of_good : ∀ (ts : List Ty) (vs : List Val), (∀ v ∈ vs, Good v) → wfs ts vs = true → AllFieldRT ts vs
  | [], _, _, _ => by simp [AllFieldRT]
  | _ :: _, [], _, _ => by simp [AllFieldRT]
  | t :: ts, v :: vs, hg, hw => by
    simp only [wfs, Bool.and_eq_true] at hw
    exact ⟨(hg v (by simp)).2 t hw.1, allField_of_good ts vs (fun w hw' => hg w (by simp [hw'])) hw.2⟩

theorem wfAll_mem (t : Ty) (l : List Val) (h : wfAll t l = true) : ∀ v ∈ l, wf t v = true := by
  induction l with
  | nil => simp
  | cons a l ih =>
    simp only [wfAll, Bool.and_eq_true] at h
    intro v hv
    rcases List.mem_cons.mp hv with rfl | hv
    · exact h.1
    · exact ih h.2 v hv

theorem good_scalar (v : Val) (hs : ∀ t, wf t v = true → t.packed = true ∨ t = .bytes ∨ ∃ n, t = .arr n) : Good v :=
  ⟨fun t hw _ => entry_scalar t v hw (hs t hw),
   fun t hw => field_of_entry t v (entry_scalar t v hw (hs t hw))⟩

mutual
theorem good : (v : Val) → Good v
  | .int i => good_scalar _ (by intro t hw; cases t <;> simp_all [wf, Ty.packed])
  | .nat n => good_scalar _ (by intro t hw; cases t <;> simp_all [wf, Ty.packed])
  | .bool b => good_scalar _ (by intro t hw; cases t <;> simp_all [wf, Ty.packed])
  | .f64 x => good_scalar _ (by intro t hw; cases t <;> simp_all [wf, Ty.packed])
  | .bytes b => good_scalar _ (by intro t hw; cases t <;> simp_all [wf, Ty.packed])
  | .msg vs => by
    have hg := goods vs
    have he : ∀ t, wf t (.msg vs) = true → EntryRT t (.msg vs) := by
      intro t hw
      cases t <;> first | (simp [wf] at hw; done) | skip
      rename_i ts
      have hw' : wf (.msg ts) (.msg vs) = true := by simpa [wf] using hw
      have hwfs : wfs ts vs = true := by
        simp only [wf, Bool.and_eq_true] at hw'; exact hw'.1.1
      exact entry_msg ts vs hw' (allField_of_good ts vs hg hwfs)
    exact ⟨fun t hw _ => he t hw, fun t hw => field_of_entry t _ (he t hw)⟩
  | .rep l => by
    have hg := goods l
    refine ⟨fun t hw hs => ?_, fun t hw => ?_⟩
    · cases t <;> simp_all [wf, Ty.single]
    · cases t <;> first | (simp [wf] at hw; done) | skip
      rename_i t'
      simp only [wf, Bool.and_eq_true, Bool.or_eq_true, Bool.not_eq_true', decide_eq_true_eq] at hw
      obtain ⟨⟨hs, hall⟩, hpk⟩ := hw
      by_cases hp : t'.packed = true
      · exact field_rep_packed t' l hp hall (hpk.elim (fun h => by simp [hp] at h) id)
      · have hnp : t'.packed = false := by simpa using hp
        exact field_rep_unpacked t' hnp l fun e he => (hg e he).1 t' (wfAll_mem t' l hall e he) hs
  | .opt none => by
    refine ⟨fun t hw hs => ?_, fun t hw => ?_⟩
    · cases t <;> simp_all [wf, Ty.single]
    · cases t <;> first | (simp [wf] at hw; done) | skip
      exact field_opt_none _
  | .opt (some v) => by
    have hg := good v
    refine ⟨fun t hw hs => ?_, fun t hw => ?_⟩
    · cases t <;> simp_all [wf, Ty.single]
    · cases t <;> first | (simp [wf] at hw; done) | skip
      rename_i t'
      simp only [wf, Bool.and_eq_true] at hw
      exact field_opt_some t' v (hg.1 t' hw.2 hw.1)
theorem goods : (l : List Val) → ∀ v ∈ l, Good v
  | [] => by simp
  | v :: l => fun w hw =>
    (List.mem_cons.mp hw).elim (fun h => h ▸ good v) (goods l w)
end


/-- **layer 2: the wire codec round-trips.** For every message schema of the language (integers of
both widths and signs, booleans, float64, byte strings, byte arrays of fixed length, nested messages
to any depth, packed and unpacked repeated fields, optional pointers) and every value of it inside the lossless range, what
`protobuf.Encode` writes, `protobuf.Decode` reads back as the same value. -/
theorem c03_wire_roundtrip (ts : List Ty) (vs : List Val) (hw : wf (.msg ts) (.msg vs) = true) :
    decode ts (encMsg 1 ts vs) = some vs := by
  have hw' := hw
  simp only [wf, Bool.and_eq_true, decide_eq_true_eq] at hw'
  obtain ⟨⟨hwfs, _⟩, htl⟩ := hw'
  have hall := allField_of_good ts vs (goods vs) hwfs
  have := fields_loop ts htl ts vs 0 (zeros ts) 0 ((encMsg 1 ts vs).length + 1) (by simp) hwfs hall
    (zeros_length ts) (by simp) (Nat.le_refl 0) (by simp)
  simpa [decode] using this



end Wire

/-- the typed codec of layer 2: a message is a Go type and the values of its fields; the schema of
each Go type is a table; `Encode`/`Decode` are the wire model -/
def wireTCodec (schema : GoType → List Wire.Ty) : TCodec (GoType × List Wire.Val) where
  typeOf v := v.1
  encodable v := Wire.wf (.msg (schema v.1)) (.msg v.2)
  enc v := Wire.encMsg 1 (schema v.1) v.2
  dec t b := (Wire.decode (schema t) b).map fun vs => (t, vs)

/-- for messages of the schema language the codec hypothesis is a theorem -/
theorem wireTCodec_sound (schema : GoType → List Wire.Ty) : (wireTCodec schema).Sound := by
  constructor
  intro v hv
  simp only [wireTCodec] at hv ⊢
  rw [Wire.c03_wire_roundtrip (schema v.1) v.2 hv]
  rfl

/-- **values arrive equal, in order, once — without a codec hypothesis** for every message type of
the schema language: registered under an id no other registered type shares, marshalled by the wire
model of `protobuf.Encode`, written in whatever pieces the transport takes, read in whatever
segments it hands out, unmarshalled by the wire model of `protobuf.Decode`, dispatched. -/
theorem c03_wire_value_delivery (schema : GoType → List Wire.Ty) (r : Registry)
    (hf : ∀ v, (codecOf r (wireTCodec schema)).sendable v = true → r.get (typeIdOf v.1) = some v.1)
    (max : Nat) (hmax : max < 2 ^ 32) (vs : List (GoType × List Wire.Val))
    (hv : ∀ v ∈ vs, (codecOf r (wireTCodec schema)).sendable v = true ∧
      (bufOf (codecOf r (wireTCodec schema)) v).length ≤ max)
    (o : List WAct) (ho : NoFail o) (c : Segs)
    (hc : c.flatten = (({ oracle := o } : SConn).sendAll (vs.map (bufOf (codecOf r (wireTCodec schema))))).1.out.flatten) :
    recvAll (codecOf r (wireTCodec schema)) max c = vs.map .deliver ++ [.closed .eof] :=
  c03_send_recv_values _ (c03_codecOf_sound r _ (wireTCodec_sound schema) hf) max hmax vs hv o ho c hc

/-- non-vacuity: a nested message with every kind of field, inside the lossless range -/
example : Wire.wf (.msg [.i32, .bytes, .rep .i64, .opt (.msg [.u64, .bool]), .rep (.msg [.bytes]), .f64, .rep .bytes])
    (.msg [.int (-5), .bytes [104, 105], .rep [.int 1, .int (-2 ^ 62)], .opt (some (.msg [.nat 7, .bool true])),
      .rep [.msg [.bytes []], .msg [.bytes [1]]], .f64 4607182418800017408, .rep [.bytes [9], .bytes []]]) = true := by
  decide

/-- the bound on signed integers is the library's, and it is tight: `2^62` comes back as `-2^62`
(the zig-zag decoder shifts arithmetically) -/
example : (Wire.decode [.i64] (Wire.encMsg 1 [.i64] [.int (2 ^ 62)])).map (Wire.Val.sames · [.int (-2 ^ 62)]) = some true := by
  decide

/-- round 5 — byte arrays of fixed length (`[16]byte`: the tree, roster, token and server ids of onet's
own messages) are part of the schema language: a struct with ids, also inside a nested and a repeated
message, is inside the theorem … -/
example : Wire.wf (.msg [.arr 4, .i64, .msg [.arr 2, .bytes], .rep (.msg [.arr 2, .bytes])])
    (.msg [.bytes [1, 2, 3, 4], .int 5, .msg [.bytes [0, 0], .bytes [7]],
      .rep [.msg [.bytes [9, 9], .bytes []], .msg [.bytes [0, 1], .bytes [1]]]]) = true := by
  decide

/-- … and the decoder insists on the length: a byte string of another length is refused for an array -/
example : Wire.decode [.arr 4] (Wire.encMsg 1 [.bytes] [.bytes [1, 2, 3]]) = none ∧
    (Wire.decode [.arr 3] (Wire.encMsg 1 [.bytes] [.bytes [1, 2, 3]])).map (Wire.Val.sames · [.bytes [1, 2, 3]]) = some true := by
  decide

/-! ### round 5: the receive loop refines a parser of the byte stream; causality -/

/-- **the specification of the receive loop: a parser of the byte stream.**  No segments, no reads:
take a header, test it against the limit, take the body, classify it, go on with the rest. -/
def specLoop {V : Type} (cd : Codec V) (max : Nat) : Nat → List Nat → List (Event V)
  | 0, _ => []
  | fuel + 1, bs =>
    match frameSpec max bs with
    | (.error e, _) => [.closed e]
    | (.ok b, rest) => classify cd b :: specLoop cd max fuel rest

/-- **refinement**: `handleConn` over `receiveRawProd` over `conn.Read`, fed by *any* list of segments,
computes the byte-stream parser on their concatenation — for every stream, well-formed or not. -/
theorem c03_loop_refines_parser {V : Type} (cd : Codec V) (max fuel : Nat) (c : Segs) :
    recvLoop cd max fuel c = specLoop cd max fuel c.flatten := by
  induction fuel generalizing c with
  | zero => rfl
  | succ fuel ih =>
    obtain ⟨r, c', hr⟩ := recvFrame_pair max c
    have hs := recvFrame_spec max c
    rw [hr] at hs
    cases r with
    | error e =>
      rw [recvLoop_err cd max fuel c c' e hr]
      have h1 : (frameSpec max c.flatten).1 = .error e := hs.1.symm
      unfold specLoop
      split
      · rename_i e' x heq
        rw [heq] at h1
        cases h1; rfl
      · rename_i b rest heq
        rw [heq] at h1
        cases h1
    | ok b =>
      rw [recvLoop_ok cd max fuel c c' b hr]
      have h1 : (frameSpec max c.flatten).1 = .ok b := hs.1.symm
      have h2 := hs.2 b rfl
      unfold specLoop
      split
      · rename_i e' x heq
        rw [heq] at h1
        cases h1
      · rename_i b' rest heq
        rw [heq] at h1 h2
        cases h1
        simp only at h2
        rw [ih c', h2]

/-- what a cut of the stream does to the next frame: the cut stream's frame is EOF, or it is the
uncut stream's answer with the correspondingly cut rest -/
theorem frameSpec_take (max : Nat) (bs : List Nat) (k : Nat) :
    (frameSpec max (bs.take k)).1 = .error .eof ∨
    ((frameSpec max (bs.take k)).1 = (frameSpec max bs).1 ∧
      ∀ b, (frameSpec max bs).1 = .ok b →
        (frameSpec max (bs.take k)).2 = (frameSpec max bs).2.take (k - 4 - b.length)) := by
  unfold frameSpec
  by_cases h1 : (bs.take k).length < 4
  · left; rw [if_pos h1]
  · have hk : 4 ≤ k := by rw [List.length_take] at h1; omega
    have hl : 4 ≤ bs.length := by rw [List.length_take] at h1; omega
    have ht : (bs.take k).take 4 = bs.take 4 := by
      rw [List.take_take]; congr 1; omega
    have hd : (bs.take k).drop 4 = (bs.drop 4).take (k - 4) := by rw [List.drop_take]
    rw [if_neg h1, if_neg (by omega : ¬ bs.length < 4), ht, hd]
    by_cases h2 : unbe32 (bs.take 4) > max
    · right; rw [if_pos h2, if_pos h2]
      exact ⟨rfl, fun b hb => by cases hb⟩
    · rw [if_neg h2, if_neg h2]
      by_cases h3 : ((bs.drop 4).take (k - 4)).length < unbe32 (bs.take 4)
      · left; rw [if_pos h3]
      · right
        have h3' : ¬ (bs.drop 4).length < unbe32 (bs.take 4) := by
          rw [List.length_take] at h3; omega
        have hn : unbe32 (bs.take 4) ≤ k - 4 := by rw [List.length_take] at h3; omega
        rw [if_neg h3, if_neg h3']
        refine ⟨?_, ?_⟩
        · simp only [List.take_take]
          congr 2; omega
        · intro b hb
          simp only at hb
          cases hb
          simp only [List.drop_take, List.length_take]
          congr 1
          omega

/-- **causality (prefix monotonicity), for every byte stream**: cut a stream anywhere — inside a
header, inside a body, between frames, in the middle of garbage — and what the loop does up to its
final close is a prefix of what it does on the uncut stream.  Nothing that arrives later changes,
reorders or withdraws what was already delivered or refused. -/
theorem specLoop_take {V : Type} (cd : Codec V) (max fuel : Nat) (bs : List Nat) (k : Nat) :
    (specLoop cd max fuel (bs.take k)).dropLast <+: specLoop cd max fuel bs := by
  induction fuel generalizing bs k with
  | zero => simp [specLoop]
  | succ fuel ih =>
    rcases frameSpec_take max bs k with h | ⟨h1, h2⟩
    · have : specLoop cd max (fuel + 1) (bs.take k) = [.closed .eof] := by
        unfold specLoop
        split
        · rename_i e x heq; rw [heq] at h; cases h; rfl
        · rename_i b rest heq; rw [heq] at h; cases h
      rw [this]; simp
    · obtain ⟨r, rest, hr⟩ : ∃ r rest, frameSpec max bs = (r, rest) := ⟨_, _, rfl⟩
      obtain ⟨r', rest', hr'⟩ : ∃ r rest, frameSpec max (bs.take k) = (r, rest) := ⟨_, _, rfl⟩
      rw [hr, hr'] at h1
      simp only at h1
      subst h1
      cases r' with
      | error e =>
        have e1 : specLoop cd max (fuel + 1) (bs.take k) = [.closed e] := by
          unfold specLoop; rw [hr']
        rw [e1]; simp
      | ok b =>
        have e1 : specLoop cd max (fuel + 1) (bs.take k) = classify cd b :: specLoop cd max fuel rest' := by
          conv => lhs; unfold specLoop
          rw [hr']
        have e2 : specLoop cd max (fuel + 1) bs = classify cd b :: specLoop cd max fuel rest := by
          conv => lhs; unfold specLoop
          rw [hr]
        have hrest : rest' = rest.take (k - 4 - b.length) := by
          have := h2 b (by rw [hr])
          rw [hr, hr'] at this
          exact this
        rw [e1, e2, hrest]
        have := ih rest (k - 4 - b.length)
        cases hl : specLoop cd max fuel (rest.take (k - 4 - b.length)) with
        | nil => simp
        | cons x l =>
          rw [hl] at this
          rw [List.dropLast_cons_of_ne_nil (by simp)]
          exact List.cons_prefix_cons.mpr ⟨rfl, this⟩

theorem c03_prefix_monotone {V : Type} (cd : Codec V) (max fuel : Nat) (c d : Segs) (k : Nat)
    (h : d.flatten = c.flatten.take k) :
    (recvLoop cd max fuel d).dropLast <+: recvLoop cd max fuel c := by
  rw [c03_loop_refines_parser, c03_loop_refines_parser, h]
  exact specLoop_take cd max fuel c.flatten k

theorem frameSpec_progress (max : Nat) (bs : List Nat) (b rest : List Nat)
    (h : frameSpec max bs = (.ok b, rest)) : rest.length + 4 ≤ bs.length := by
  unfold frameSpec at h
  split at h
  · cases h
  · split at h
    · cases h
    · split at h
      · cases h
      · rename_i h1 _ _
        cases h
        simp only [List.length_drop]
        omega

/-- more fuel than bytes in flight changes nothing (every turn that goes on consumes a header) -/
theorem specLoop_fuel {V : Type} (cd : Codec V) (max fuel m : Nat) (bs : List Nat) (h : bs.length < fuel) :
    specLoop cd max (fuel + m) bs = specLoop cd max fuel bs := by
  induction fuel generalizing bs with
  | zero => omega
  | succ fuel ih =>
    have e : fuel + 1 + m = (fuel + m) + 1 := by omega
    rw [e]
    unfold specLoop
    obtain ⟨r, rest, hr⟩ : ∃ r rest, frameSpec max bs = (r, rest) := ⟨_, _, rfl⟩
    rw [hr]
    cases r with
    | error e => rfl
    | ok b =>
      have := frameSpec_progress max bs b rest hr
      simp only
      rw [ih rest (by omega)]

/-- the values handed to the dispatcher, in order -/
def delivered {V : Type} : List (Event V) → List V
  | [] => []
  | .deliver v :: l => v :: delivered l
  | _ :: l => delivered l

theorem delivered_prefix {V : Type} (l₁ l₂ : List (Event V)) (h : l₁ <+: l₂) : delivered l₁ <+: delivered l₂ := by
  induction l₁ generalizing l₂ with
  | nil => simp [delivered]
  | cons x l₁ ih =>
    cases l₂ with
    | nil => simp at h
    | cons y l₂ =>
      obtain ⟨rfl, h'⟩ := List.cons_prefix_cons.mp h
      cases x with
      | deliver v => simp only [delivered]; exact List.cons_prefix_cons.mpr ⟨rfl, ih l₂ h'⟩
      | refused e => simp only [delivered]; exact ih l₂ h'
      | closed e => simp only [delivered]; exact ih l₂ h'

theorem delivered_append_closed {V : Type} (l : List (Event V)) (e : RecvErr) :
    delivered (l ++ [.closed e]) = delivered l := by
  induction l with
  | nil => simp [delivered]
  | cons x l ih => cases x <;> simp [delivered, ih]

/-- **a connection cut anywhere** (the peer closes, crashes, is disconnected — after any number of bytes
of any stream): the loop with its default fuel does, up to its final close, a prefix of what it does on
the uncut stream, and the values dispatched are a prefix of the values dispatched from the uncut stream:
in sending order, none twice, none invented. -/
theorem c03_cut_anywhere {V : Type} (cd : Codec V) (max : Nat) (c d : Segs) (k : Nat)
    (h : d.flatten = c.flatten.take k) :
    (recvAll cd max d).dropLast <+: recvAll cd max c ∧
    delivered (recvAll cd max d) <+: delivered (recvAll cd max c) := by
  have hlen : inflight d ≤ inflight c := by
    unfold inflight; rw [h, List.length_take]; omega
  have e1 : recvAll cd max c = specLoop cd max (inflight c + 1) c.flatten := by
    unfold recvAll; rw [c03_loop_refines_parser]
  have e2 : recvAll cd max d = specLoop cd max (inflight c + 1) (c.flatten.take k) := by
    unfold recvAll
    rw [c03_loop_refines_parser, h]
    have : inflight c + 1 = (inflight d + 1) + (inflight c - inflight d) := by omega
    have hl : (c.flatten.take k).length = inflight d := by unfold inflight; rw [h]
    rw [this, specLoop_fuel cd max (inflight d + 1) _ _ (by omega)]
  have hp : (recvAll cd max d).dropLast <+: recvAll cd max c := by
    rw [e1, e2]; exact specLoop_take cd max _ _ k
  refine ⟨hp, ?_⟩
  obtain ⟨evs, e, hd, _, _⟩ := c03_garbage_total cd max d
  have : delivered (recvAll cd max d) = delivered (recvAll cd max d).dropLast := by
    rw [hd, delivered_append_closed]; simp
  rw [this]
  exact delivered_prefix _ _ hp

/-- the theorem is about streams that are *not* well-formed too: garbage, cut inside the garbage -/
example : recvAll (Drv.tableCodec [] []) 100 [[0, 0, 0, 2, 7, 7, 0, 0, 0, 1, 9, 0, 0]] =
    [.refused .short, .refused .short, .closed .eof] ∧
    recvAll (Drv.tableCodec [] []) 100 [[0, 0, 0, 2, 7, 7, 0, 0], [0]] = [.refused .short, .closed .eof] := by
  constructor <;> rfl

/-! ### round 7: the local and the wire path of `Router.Send`; field numbers of the protobuf library -/

/-- what a processor sees of a processed envelope: the type id and the value -/
def EnvEvent.payload {V : Type} : EnvEvent V → Option (List Nat × V)
  | .processed e => some (e.msgType, e.msg)
  | _ => none

/-- **the local path and the wire path of `Router.Send` are equivalent** (router.go:316-337 vs. the
connection path): for every sequence of values that are sendable (registered type, encodable), have a
processor and fit the frame limit, the processors of a router that sends to itself are handed exactly the
type ids and values, in the order, that the processors of a remote router are handed after `Marshal`,
framing, any segmentation of the byte stream, `receiveRaw` and `Unmarshal`; both `Send`s report success.
The envelopes differ in `ServerIdentity` (the router itself / the peer of the connection) and `Size`
(0 / the marshalled length) only.  (Falsified by: a self path that dispatches under another type id or
skips the dispatcher test, a wire path that alters, drops or reorders.) -/
theorem c03_self_send_equals_wire {V : Type} (r : Registry) (tc : TCodec V) (hsound : (codecOf r tc).Sound)
    (self remote max : Nat) (hmax : max < 2^32) (procs : List (List Nat)) (vs : List V)
    (hv : ∀ v ∈ vs, (codecOf r tc).sendable v = true ∧ procs.contains (typeIdOf (tc.typeOf v)) = true ∧
      (bufOf (codecOf r tc) v).length ≤ max)
    (fuel : Nat) (hfuel : vs.length + 1 ≤ fuel) (c : Segs)
    (hc : c.flatten = wire (vs.map (bufOf (codecOf r tc)))) :
    (selfSend r tc self procs vs).1.map (fun e => (e.msgType, e.msg)) =
      (recvEnvLoop (codecOf r tc) max remote procs fuel c).filterMap EnvEvent.payload ∧
    (selfSend r tc self procs vs).2 = true := by
  rw [c03_self_send r tc self procs vs (fun v h => ⟨(hv v h).1, (hv v h).2.1⟩)]
  rw [c03_envelope_fields (codecOf r tc) hsound max remote hmax procs vs
    (fun v h => ⟨(hv v h).1, (hv v h).2.2⟩) fuel hfuel c hc]
  refine ⟨?_, rfl⟩
  simp only [List.map_map, List.filterMap_append, List.filterMap_cons, EnvEvent.payload, List.filterMap_nil,
    List.append_nil]
  clear hc hfuel
  induction vs with
  | nil => rfl
  | cons v rest ih =>
    have hp : procs.contains ((codecOf r tc).tyOf v) = true := (hv v (by simp)).2.1
    simp only [List.map_cons, List.filterMap_cons, hp, if_true, EnvEvent.payload, Function.comp]
    rw [← ih (fun w hw => hv w (by simp [hw]))]
    simp [codecOf, Function.comp]


/-! #### interface-typed fields inside a message of the wire model -/

/-- **a point or scalar inside a message**: on the wire an interface-typed field is a byte-string field
(`encIface`: tag of the dynamic type if a generator is registered, then the value's own bytes; nothing when
nil — `Ty.opt .bytes`).  For every schema, every well-formed value and every position that holds such a
field: `Decode` hands the decoder of interface fields exactly the bytes `encIface` wrote, and it instantiates
the sent dynamic type from the sent bytes exactly when `ifaceSame` says so — layer 2 (`c03_wire_roundtrip`) and
the dispatch of interface fields (`c03_iface_*`) compose.  (Falsified by: a field written with another wire
type or without its length, a tag of another length, a decoder that strips the tag before looking it up.) -/
theorem c03_wire_iface_field (ts : List Wire.Ty) (vs : List Wire.Val) (hw : Wire.wf (.msg ts) (.msg vs) = true)
    (k : Nat) (suite : Option SuiteId) (kd : Kind) (g : Grp) (bytes : List Nat)
    (hk : vs[k]? = some (.opt (some (.bytes (encIface onetGens g.marshalID bytes))))) :
    ∃ vs', Wire.decode ts (Wire.encMsg 1 ts vs) = some vs' ∧
      ∃ b, vs'[k]? = some (.opt (some (.bytes b))) ∧
        (decIface onetGens (defaultConstructors suite kd) b = some (g, bytes) ↔
          ifaceSame onetGens suite kd g bytes = true) := by
  refine ⟨vs, Wire.c03_wire_roundtrip ts vs hw, _, hk, ?_⟩
  simp [ifaceSame]

/-- non-vacuity: an Ed25519 point (tagged `ed.point`) as the second field of a message is inside the theorem,
and it comes back on a connection of any suite -/
example :
    let fld : Wire.Val := .opt (some (.bytes (encIface onetGens Grp.edP.marshalID [1, 2, 3])))
    Wire.wf (.msg [.i32, .opt .bytes, .bytes]) (.msg [.int 5, fld, .bytes [7]]) = true ∧
    Wire.encMsg 1 [.i32, .opt .bytes, .bytes] [.int 5, fld, .bytes [7]] =
      [8, 10, 18, 11, 101, 100, 46, 112, 111, 105, 110, 116, 1, 2, 3, 26, 1, 7] ∧
    ifaceSame onetGens none .point .edP [1, 2, 3] = true := by decide

/-! #### field numbers (`Model/C03Fields.lean`) -/
namespace Fields

mutual
theorem idsOf_untagged : ∀ (f : SField) (id : Nat), untaggedOf f = true →
    idsOf id f = (List.range' (id + 1) (leavesOf f), id + leavesOf f)
  | .plain tag, id, h => by
    have : tag = 0 := by simpa [untaggedOf] using h
    subst this
    simp [idsOf, leavesOf]
  | .emb tag fs, id, h => by
    have h' : tag = 0 ∧ untaggedAll fs = true := by simpa [untaggedOf] using h
    obtain ⟨rfl, hfs⟩ := h'
    simp only [idsOf, leavesOf]
    have := idsAll_untagged fs id hfs
    simpa using this
termination_by structural f => f
theorem idsAll_untagged : ∀ (fs : List SField) (id : Nat), untaggedAll fs = true →
    idsAll id fs = (List.range' (id + 1) (leavesAll fs), id + leavesAll fs)
  | [], id, _ => by simp [idsAll, leavesAll]
  | f :: fs, id, h => by
    have h' : untaggedOf f = true ∧ untaggedAll fs = true := by simpa [untaggedAll] using h
    simp only [idsAll, leavesAll, idsOf_untagged f id h'.1, idsAll_untagged fs (id + leavesOf f) h'.2]
    refine Prod.ext ?_ (by simp; omega)
    simp only
    rw [show id + leavesOf f + 1 = id + 1 + leavesOf f by omega, ← List.range'_append_1]
termination_by structural fs => fs
end


/-- **field numbers of a tag-free struct type are positions**: whatever embedded structs it has, at
whatever depth, `ProtoFields` numbers the wire fields `1, 2, …, n` in the order of the flattened field list
and does not panic — the positional numbering of `Model/C03Wire.lean` (`encMsg 1`, the cursor of `decMsg`)
is the library's for every such type.  (Falsified by: an embedded struct that takes a number of its own, a
counter that restarts inside an embedded struct, numbering from 0.) -/
theorem c03_field_numbers_are_positions (fs : List SField) (h : untaggedAll fs = true) :
    protoFields fs = some (List.range' 1 (leavesAll fs)) := by
  have := idsAll_untagged fs 0 h
  simp only [protoFields, this, Nat.zero_add]
  rw [if_pos (List.nodup_range' (s := 1) (n := leavesAll fs))]

theorem seek_skip (n : Nat) (pre l : List Nat) (h : ∀ p ∈ pre, p < n) : seek n (pre ++ l) = seek n l := by
  induction pre with
  | nil => rfl
  | cons p pre ih =>
    have hp : p < n := h p (by simp)
    simp only [List.cons_append, seek, hp, if_true]
    exact ih (fun q hq => h q (by simp [hq]))

theorem findsAll_suffix (entries : List Nat) : ∀ (pre : List Nat), entries.Pairwise (· < ·) →
    (∀ p ∈ pre, ∀ e ∈ entries, p < e) → findsAll (pre ++ entries) entries = true := by
  induction entries with
  | nil => intro _ _ _; rfl
  | cons n es ih =>
    intro pre hs hpre
    have h1 : seek n (pre ++ n :: es) = (true, n :: es) := by
      rw [seek_skip n pre (n :: es) (fun p hp => hpre p hp n (by simp))]
      simp [seek]
    simp only [findsAll, h1, Bool.true_and]
    have hs' := List.pairwise_cons.mp hs
    exact ih [n] hs'.2 (fun p hp e he => by
      have : p = n := by simpa using hp
      subst this
      exact hs'.1 e he)

/-- **the decoder's cursor finds every field** when the field numbers increase with the field order — it
only moves forward (`decode.go:117-121`): each entry the encoder wrote is stored in its field -/
theorem c03_cursor_finds_sorted (ids : List Nat) (h : ids.Pairwise (· < ·)) : findsAll ids ids = true :=
  findsAll_suffix ids [] h (by simp)

/-- … in particular for every tag-free struct type, embedded structs included: numbering and cursor of
the library agree with the positional model -/
theorem c03_untagged_all_fields_found (fs : List SField) (h : untaggedAll fs = true) :
    ∃ ids, protoFields fs = some ids ∧ findsAll ids ids = true :=
  ⟨_, c03_field_numbers_are_positions fs h, c03_cursor_finds_sorted _ (List.pairwise_lt_range' (s := 1))⟩

/-- what tags can do (negation witnesses; none of onet's own messages carries a numeric tag — the only tag
is `protobuf:"opt"` on `ServerIdentity.URL`, which has no number): a tag that repeats a number makes
`ProtoFields` panic, and numbers that do not increase with the field order make the forward-only cursor
miss a field that *was* encoded -/
theorem c03_tags_can_break_numbering :
    protoFields [.plain 0, .plain 1] = none ∧
    protoFields [.plain 2, .plain 1] = some [2, 1] ∧ findsAll [2, 1] [2, 1] = false ∧
    protoFields [.plain 0, .emb 7 [.plain 0, .plain 0], .plain 0] = some [1, 7, 8, 9] := by decide

/-- non-vacuity: two levels of embedding, the numbers run through -/
example : protoFields [.plain 0, .emb 0 [.plain 0, .emb 0 [.plain 0], .plain 0], .plain 0] = some [1, 2, 3, 4, 5] := by
  decide

end Fields


/-! ### the code regions the model stands for
Regenerated from /repo's source on every run (`harness/cmd/astfacts` → `OnetVerif/Shapes.lean`): the
calls that matter for synchronisation and data flow, the lock regions and (for decision logic) the
conditions, in source order.  A re-ordering, a dropped call or a changed condition breaks these
obligations even when no sampled input or schedule shows a difference; the check then searches for
a failing input. -/
theorem c03_shape_tcp_TCPConn_Receive :
    Shapes.network_tcp_TCPConn_Receive =
   ["c.receiveRaw", "assign:buff,err:=c.receiveRaw()", "if:(err!=nil)",
     "return:nil,xerrors.Errorf(\"\",err)", "Unmarshal",
     "assign:id,body,err:=Unmarshal(buff,c.suite)",
     "return:&Envelope{MsgType:id,Msg:body,Size:Size(len(buff))},err"] := rfl

theorem c03_shape_tcp_TCPConn_receiveRaw :
    Shapes.network_tcp_TCPConn_receiveRaw =
   ["if:(c.receiveRawTest!=nil)", "return:c.receiveRawTest()", "return:c.receiveRawProd()"] := rfl

theorem c03_shape_tcp_TCPConn_receiveRawProd :
    Shapes.network_tcp_TCPConn_receiveRawProd =
   ["receiveMutex.Lock", "defer:receiveMutex.Unlock", "timeoutLock.RLock", "time.Now",
     "Now().Add", "conn.SetReadDeadline", "timeoutLock.RUnlock", "binary.Read",
     "assign:err:=binary.Read(c.conn,globalOrder,&total)", "if:(err!=nil)",
     "return:nil,xerrors.Errorf(\"\",handleError(err))", "if:(total>MaxPacketSize)",
     "return:nil,xerrors.Errorf(\"\",c.conn.RemoteAddr().String(),total,MaxPacketSize,ErrUnknown)",
     "assign:b:=make(conv,total)", "for:(read<total){", "timeoutLock.RLock", "time.Now",
     "Now().Add", "conn.SetReadDeadline", "timeoutLock.RUnlock", "conn.Read",
     "assign:n,err:=c.conn.Read(b)", "if:(err!=nil)", "c.updateRx",
     "return:nil,xerrors.Errorf(\"\",handleError(err))", "buffer.Write",
     "assign:_,err:=buffer.Write(b[:n])", "if:(err!=nil)", "Size", "assign:read+=Size(n)",
     "assign:b=b[n:]", "}", "c.updateRx", "return:buffer.Bytes(),nil"] := rfl

theorem c03_shape_tcp_TCPConn_Send :
    Shapes.network_tcp_TCPConn_Send =
   ["sendMutex.Lock", "defer:sendMutex.Unlock", "Marshal", "assign:b,err:=Marshal(msg)",
     "if:(err!=nil)", "return:0,xerrors.Errorf(\"\",err.Error())", "c.sendRaw",
     "assign:len,err:=c.sendRaw(b)", "if:(err!=nil)", "return:len,xerrors.Errorf(\"\",err)",
     "return:len,nil"] := rfl

theorem c03_shape_tcp_TCPConn_sendRaw :
    Shapes.network_tcp_TCPConn_sendRaw =
   ["timeoutLock.RLock", "time.Now", "Now().Add", "conn.SetWriteDeadline", "timeoutLock.RUnlock",
     "Size", "assign:packetSize:=Size(len(b))", "binary.Write",
     "assign:err:=binary.Write(c.conn,globalOrder,packetSize)", "if:(err!=nil)", "c.Close",
     "return:0,xerrors.Errorf(\"\",err)", "for:(sent<packetSize){", "conn.Write",
     "assign:n,err:=c.conn.Write(b[sent:])", "if:(err!=nil)", "c.Close",
     "assign:sentLen:=(4+uint64(sent))", "c.updateTx",
     "return:sentLen,xerrors.Errorf(\"\",handleError(err))", "Size", "assign:sent+=Size(n)", "}",
     "assign:sentLen:=(4+uint64(sent))", "c.updateTx", "return:sentLen,nil"] := rfl

theorem c03_shape_tcp_handleError :
    Shapes.network_tcp_handleError =
   ["if:(strings.Contains(err.Error(),\"use of closed\")||strings.Contains(err.Error(),\"broken pipe\"))",
     "return:ErrClosed", "else", "if:strings.Contains(err.Error(),\"canceled\")",
     "return:ErrCanceled", "else", "if:((err==io.EOF)||strings.Contains(err.Error(),\"EOF\"))",
     "return:ErrEOF", "assign:netErr,ok:=err.(net.Error)", "if:!ok", "return:ErrUnknown",
     "if:netErr.Timeout()", "return:ErrTimeout",
     "if:strings.Contains(err.Error(),\"bad certificate\")", "else", "return:ErrUnknown"] := rfl

theorem c03_shape_encoding_Marshal :
    Shapes.network_encoding_Marshal =
   ["MessageType", "assign:msgType=MessageType(msg)", "if:(msgType==ErrorType)",
     "return:nil,xerrors.Errorf(\"\",reflect.TypeOf(msg))", "assign:b:=new(bytes.Buffer)",
     "binary.Write", "assign:err:=binary.Write(b,globalOrder,msgType)", "if:(err!=nil)",
     "return:nil,xerrors.Errorf(\"\",err)", "protobuf.Encode",
     "assign:buf,err=protobuf.Encode(msg)", "if:(err!=nil)", "if:(log.DebugVisible()>0)",
     "return:nil,xerrors.Errorf(\"\",err)", "b.Write", "assign:_,err=b.Write(buf)",
     "if:(err!=nil)", "return:nil,xerrors.Errorf(\"\",err)", "return:b.Bytes(),nil"] := rfl

theorem c03_shape_encoding_Unmarshal :
    Shapes.network_encoding_Unmarshal =
   ["bytes.NewBuffer", "assign:b:=bytes.NewBuffer(buf)", "binary.Read",
     "assign:err:=binary.Read(b,globalOrder,&tID)", "if:(err!=nil)",
     "return:ErrorType,nil,xerrors.Errorf(\"\",err)", "registry.get",
     "assign:typ,ok:=registry.get(tID)", "if:!ok",
     "return:ErrorType,nil,xerrors.Errorf(\"\",tID.String())", "assign:ptrVal:=reflect.New(typ)",
     "ptrVal.Interface", "assign:ptr:=ptrVal.Interface()", "DefaultConstructors",
     "assign:constructors:=DefaultConstructors(suite)", "b.Bytes",
     "protobuf.DecodeWithConstructors",
     "assign:err:=protobuf.DecodeWithConstructors(b.Bytes(),ptr,constructors)", "if:(err!=nil)",
     "return:ErrorType,nil,xerrors.Errorf(\"\",err)", "return:tID,ptrVal.Interface(),nil"] := rfl

theorem c03_shape_encoding_RegisterMessage :
    Shapes.network_encoding_RegisterMessage =
   ["computeMessageType", "assign:msgType:=computeMessageType(msg)",
     "assign:val:=reflect.ValueOf(msg)", "if:(val.Kind()==reflect.Ptr)", "val.Elem",
     "assign:val=val.Elem()", "val.Type", "assign:t:=val.Type()", "registry.put",
     "return:msgType"] := rfl

theorem c03_shape_encoding_computeMessageType :
    Shapes.network_encoding_computeMessageType =
   ["assign:val:=reflect.ValueOf(msg)", "if:(val.Kind()==reflect.Ptr)", "val.Elem",
     "assign:val=val.Elem()", "val.Type", "Type().String",
     "assign:url:=(NamespaceBodyType+val.Type().String())", "uuid.NewSHA1",
     "assign:u:=uuid.NewSHA1(uuid.NameSpaceURL,conv(url))", "return:MessageTypeID(u)"] := rfl

theorem c03_shape_encoding_MessageType :
    Shapes.network_encoding_MessageType =
   ["computeMessageType", "assign:msgType:=computeMessageType(msg)", "registry.get",
     "assign:_,ok:=registry.get(msgType)", "if:!ok", "return:ErrorType", "return:msgType"] := rfl

theorem c03_shape_encoding_typeRegistry_get :
    Shapes.network_encoding_typeRegistry_get =
   ["lock.Lock", "defer:lock.Unlock", "assign:t,ok:=tr.types[mid]", "return:t,ok"] := rfl

theorem c03_shape_encoding_typeRegistry_put :
    Shapes.network_encoding_typeRegistry_put =
   ["lock.Lock", "defer:lock.Unlock", "assign:tr.types[mid]=typ"] := rfl

theorem c03_shape_encoding_DefaultConstructors :
    Shapes.network_encoding_DefaultConstructors =
   ["assign:constructors:=make(protobuf.Constructors)", "if:(suite!=nil)",
     "return:suite.Point()", "assign:constructors[reflect.TypeOf().Elem()]=func",
     "return:suite.Scalar()", "assign:constructors[reflect.TypeOf().Elem()]=func",
     "return:constructors"] := rfl

theorem c03_shape_encoding_init :
    Shapes.network_encoding_init =
   ["bn256.NewSuiteG1", "NewSuiteG1().Point", "protobuf.RegisterInterface", "bn256.NewSuiteG1",
     "NewSuiteG1().Scalar", "protobuf.RegisterInterface", "bn256.NewSuiteG2",
     "NewSuiteG2().Point", "protobuf.RegisterInterface", "bn256.NewSuiteG2",
     "NewSuiteG2().Scalar", "protobuf.RegisterInterface", "bn256.NewSuiteGT",
     "NewSuiteGT().Point", "protobuf.RegisterInterface", "bn256.NewSuiteGT",
     "NewSuiteGT().Scalar", "protobuf.RegisterInterface", "suites.MustFind", "ed25519.Point",
     "protobuf.RegisterInterface", "ed25519.Scalar", "protobuf.RegisterInterface"] := rfl

theorem c03_shape_router_Router_handleConn_b3 :
    Shapes.network_router_Router_handleConn_b3 =
   ["defer{", "c.Close", "assign:err:=c.Close()", "if:(err!=nil)", "c.Rx", "c.Tx",
     "assign:rx,tx:=c.Rx(),c.Tx()", "traffic.updateRx", "traffic.updateTx", "wg.Done",
     "r.removeConnection", "verifC10Point", "}", "verifC10Point", "c.Remote",
     "assign:address:=c.Remote()", "for:{", "c.Receive", "assign:packet,err:=c.Receive()",
     "verifC10Point", "r.Lock", "assign:paused:=r.paused", "r.Unlock", "if:(paused!=nil)",
     "recv:paused", "return:", "if:r.Closed()",
     "return:", "if:(err!=nil)", "if:xerrors.Is(err,ErrTimeout)",
     "r.triggerConnectionErrorHandlers", "return:",
     "if:(xerrors.Is(err,ErrClosed)||xerrors.Is(err,ErrEOF))",
     "r.triggerConnectionErrorHandlers", "return:", "if:xerrors.Is(err,ErrUnknown)",
     "r.triggerConnectionErrorHandlers", "return:", "continue",
     "assign:packet.ServerIdentity=remote", "verifC10Point", "msgTraffic.updateRx", "r.Dispatch",
     "assign:err:=r.Dispatch(packet)", "if:(err!=nil)", "}"] := rfl

theorem c03_shape_local_LocalConn_Send :
    Shapes.network_local_LocalConn_Send =
   ["Marshal", "assign:buff,err:=Marshal(msg)", "if:(err!=nil)",
     "return:0,xerrors.Errorf(\"\",err)", "assign:sentLen:=uint64(len(buff))", "lc.updateTx",
     "manager.send", "assign:err=lc.manager.send(lc.remote,buff)", "if:(err!=nil)",
     "return:sentLen,xerrors.Errorf(\"\",err)", "return:sentLen,nil"] := rfl

theorem c03_shape_local_LocalConn_Receive :
    Shapes.network_local_LocalConn_Receive =
   ["recv:outgoingQueue", "assign:buff,opened:=<-lc.outgoingQueue", "if:!opened",
     "return:nil,xerrors.Errorf(\"\",ErrClosed)", "lc.updateRx", "Unmarshal",
     "assign:id,body,err:=Unmarshal(buff,lc.suite)", "if:(err!=nil)",
     "return:nil,xerrors.Errorf(\"\",err)",
     "return:&Envelope{MsgType:id,Msg:body,Size:Size(len(buff))},nil"] := rfl

theorem c03_shape_local_LocalManager_send :
    Shapes.network_local_LocalManager_send =
   ["lm.Lock", "defer:lm.Unlock", "send:incomingQueue"] := rfl


end C03
