import OnetVerif.Model.C03
/-! Property C03 — property theorems, negation witnesses, `_partial` variants and non-vacuity
examples only (helper lemmas that need Mathlib go to OnetVerif/Proofs/). -/
namespace C03

end C03
