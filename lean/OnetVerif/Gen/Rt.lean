/-! Run-time support of the Go→Lean translator (`harness/cmd/go2lean`).  HAND-WRITTEN, core Lean only.

The few Go operations whose meaning the generated definitions cannot spell out in place: indexing
and slicing (with the run-time panic as `none`) and `len` as a Go `int`.  The text generated from
/repo (`Gen/C20.lean`, …) refers to these names; they belong to the trusted base of the translator. -/
namespace Gen.Rt

/-- `len(x)` as a Go `int` -/
def len {α : Type} (xs : List α) : Int := Int.ofNat xs.length

/-- `xs[i]`; `none` = "index out of range" panic -/
def idx {α : Type} (xs : List α) (i : Int) : Option α :=
  if i < 0 then none else xs[i.toNat]?

/-- `xs[lo:hi]`; `none` = "slice bounds out of range" panic (`0 ≤ lo ≤ hi ≤ len(xs)` is required) -/
def slice {α : Type} (xs : List α) (lo hi : Int) : Option (List α) :=
  if lo < 0 ∨ hi < lo ∨ len xs < hi then none
  else some ((xs.take hi.toNat).drop lo.toNat)

/-- `for _, x := range xs { … }` whose body only decides whether to `return`: the value returned
by the first iteration that returns, `none` when the loop runs to its end. -/
def rangeReturn {α ρ : Type} (xs : List α) (body : α → Option ρ) : Option ρ :=
  xs.findSome? body

end Gen.Rt
