/-! Run-time support of the Go→Lean translator (`harness/cmd/go2lean`).  HAND-WRITTEN, core Lean only.

The few Go operations whose meaning the generated definitions cannot spell out in place: indexing
and slicing (with the run-time panic as `none`) and `len` as a Go `int`.  The text generated from
/repo (`Gen/C20.lean`, …) refers to these names; they belong to the trusted base of the translator. -/
namespace Gen.Rt

/-- `len(x)` as a Go `int` -/
def len {α : Type} (xs : List α) : Int := Int.ofNat xs.length

/-- `xs[i]`; `none` = "index out of range" panic -/
def idx {α : Type} (xs : List α) (i : Int) : Option α :=
  if i < 0 then none else xs[i.toNat]?

/-- `xs[lo:hi]`; `none` = "slice bounds out of range" panic (`0 ≤ lo ≤ hi ≤ len(xs)` is required) -/
def slice {α : Type} (xs : List α) (lo hi : Int) : Option (List α) :=
  if lo < 0 ∨ hi < lo ∨ len xs < hi then none
  else some ((xs.take hi.toNat).drop lo.toNat)

/-- `for _, x := range xs { … }` whose body only decides whether to `return`: the value returned
by the first iteration that returns, `none` when the loop runs to its end. -/
def rangeReturn {α ρ : Type} (xs : List α) (body : α → Option ρ) : Option ρ :=
  xs.findSome? body

/-- a Go map: `none` = the nil map, otherwise its entries as an association list (an earlier entry hides a
later one with the same key; the order of the entries is not observable by the translated subset: a `range`
over a map is only translated when its result does not depend on the order). -/
abbrev Map (κ ν : Type) := Option (List (κ × ν))

/-- `v, ok := m[k]`: `none` = absent (reading from the nil map finds nothing) -/
def Map.find {κ ν : Type} [BEq κ] (m : Map κ ν) (k : κ) : Option ν := (m.getD []).lookup k

/-- `m[k]` as a value: the zero value of the element type when absent -/
def Map.get {κ ν : Type} [BEq κ] (m : Map κ ν) (k : κ) (zero : ν) : ν := (Map.find m k).getD zero

/-- `m == nil` -/
def Map.isNil {κ ν : Type} (m : Map κ ν) : Bool := m.isNone

/-- the entries a `range` visits (each key once: an entry hidden by an earlier one is skipped) -/
def Map.entriesAux {κ ν : Type} [BEq κ] : List (κ × ν) → List κ → List (κ × ν)
  | [], _ => []
  | (k, v) :: r, seen => if seen.contains k then entriesAux r seen else (k, v) :: entriesAux r (k :: seen)

def Map.entries {κ ν : Type} [BEq κ] (l : List (κ × ν)) : List (κ × ν) := Map.entriesAux l []

/-- `for k := range m` -/
def Map.keys {κ ν : Type} [BEq κ] (m : Map κ ν) : List κ := (Map.entries (m.getD [])).map (·.1)

/-- `for _, v := range m` -/
def Map.vals {κ ν : Type} [BEq κ] (m : Map κ ν) : List ν := (Map.entries (m.getD [])).map (·.2)

/-- `m[k] = v`; `none` = "assignment to entry in nil map" panic -/
def Map.insert? {κ ν : Type} [BEq κ] (m : Map κ ν) (k : κ) (v : ν) : Option (Map κ ν) :=
  match m with
  | none => none
  | some l => some (some ((k, v) :: l))

/-- `delete(m, k)` (nothing happens on the nil map or when the key is absent) -/
def Map.erase {κ ν : Type} [BEq κ] (m : Map κ ν) (k : κ) : Map κ ν :=
  m.map fun l => l.filter fun e => !(e.1 == k)

/-- the pairs (index, element) a `for i, x := range xs` visits -/
def enumFrom {α : Type} (n : Nat) : List α → List (Int × α)
  | [] => []
  | x :: r => (Int.ofNat n, x) :: enumFrom (n + 1) r

def enum {α : Type} (xs : List α) : List (Int × α) := enumFrom 0 xs

/-- `for _, x := range xs { … }` whose body updates the variables `s` and may `return`: `Sum.inl r` — an iteration
returned `r`; `Sum.inr s` — the loop ran to its end with these values. -/
def foldReturn {α σ ρ : Type} (xs : List α) (init : σ) (body : σ → α → Sum ρ σ) : Sum ρ σ :=
  match xs with
  | [] => .inr init
  | x :: r =>
    match body init x with
    | .inl res => .inl res
    | .inr s => foldReturn r s body

/-- `m[k] = v` on a map that is known not to be nil (made by `make` in the same function) -/
def Map.put {κ ν : Type} [BEq κ] (m : Map κ ν) (k : κ) (v : ν) : Map κ ν := some ((k, v) :: m.getD [])

/-! ### loops of the general form (round 7) -/

/-- what one iteration of a loop body does: `ret r` — a `return` (or a run-time panic) inside the body, `r` being a value
of the type the code around the loop produces; `brk s` — `break`; `next s` — the end of the body or `continue`; `s` are the
values of the variables declared before the loop and assigned inside it. -/
inductive Step (ρ σ : Type) where
  | ret (r : ρ)
  | brk (s : σ)
  | next (s : σ)

/-- `for _, x := range xs { body }` / `for i := a; i < b; i++ { body }` (over `upto a b`): `Sum.inl r` — an iteration
returned `r`; `Sum.inr s` — the loop ended (ran out of elements or `break`) with these values. -/
def loop {α σ ρ : Type} (xs : List α) (init : σ) (body : σ → α → Step ρ σ) : Sum ρ σ :=
  match xs with
  | [] => .inr init
  | x :: r =>
    match body init x with
    | .ret res => .inl res
    | .brk s => .inr s
    | .next s => loop r s body

/-- the values `i` takes in `for i := a; i < b; i++` when the body assigns neither `i` nor anything `b` reads -/
def upto (a b : Int) : List Int := (List.range (b - a).toNat).map fun k => a + Int.ofNat k

/-- `a / b` on Go `int`s (truncated towards zero); `none` = "integer divide by zero" panic -/
def idiv (a b : Int) : Option Int := if b = 0 then none else some (Int.tdiv a b)

/-- `a % b` on Go `int`s (sign of the dividend); `none` = "integer divide by zero" panic -/
def imod (a b : Int) : Option Int := if b = 0 then none else some (Int.tmod a b)

/-- `a / b`, `a % b` on unsigned integers -/
def udiv (a b : Nat) : Option Nat := if b = 0 then none else some (a / b)
def umod (a b : Nat) : Option Nat := if b = 0 then none else some (a % b)

/-- `for k := range m { delete(m, k) }`: every key is deleted; the nil map stays nil -/
def Map.clear {κ ν : Type} (m : Map κ ν) : Map κ ν := m.map fun _ => []

/-- conversion to a signed integer type of `bits` bits (`int32(x)`): two's complement wrap-around -/
def wrapS (bits : Nat) (x : Int) : Int := (x + 2 ^ (bits - 1)) % 2 ^ bits - 2 ^ (bits - 1)

/-! ### facts about `loop` for the equivalence proofs (no definitions below this line are used by generated text) -/

/-- a body that never returns nor breaks: the loop is the fold of its state function -/
theorem loop_next {α σ ρ : Type} (f : σ → α → σ) (body : σ → α → Step ρ σ) (xs : List α) (s : σ)
    (h : ∀ s x, x ∈ xs → body s x = .next (f s x)) : loop xs s body = Sum.inr (xs.foldl f s) := by
  induction xs generalizing s with
  | nil => rfl
  | cons x r ih =>
    have hx : body s x = .next (f s x) := h s x (by simp)
    simp only [loop, hx, List.foldl_cons]
    exact ih (f s x) (fun s' y hy => h s' y (by simp [hy]))

/-- a body that either fails with the same value `r0` (a panic) or goes on: the loop is the option-fold of its step function -/
theorem loop_step {α σ ρ : Type} (step : σ → α → Option σ) (r0 : ρ) (body : σ → α → Step ρ σ) (xs : List α) (s : σ)
    (h : ∀ s x, x ∈ xs → body s x = (match step s x with | none => .ret r0 | some s' => .next s')) :
    loop xs s body = (match xs.foldlM step s with | none => Sum.inl r0 | some s' => Sum.inr s') := by
  induction xs generalizing s with
  | nil => rfl
  | cons x r ih =>
    have hx := h s x (by simp)
    cases hs : step s x with
    | none => simp [loop, hx, hs, List.foldlM]
    | some s' =>
      simp only [loop, hx, hs, List.foldlM_cons, Option.bind_eq_bind, Option.bind_some]
      exact ih s' (fun s'' y hy => h s'' y (by simp [hy]))

theorem upto_eq (a : Int) (n : Nat) : upto a (a + n) = (List.range n).map fun k => a + Int.ofNat k := by
  have h : (a + (n : Int) - a).toNat = n := by omega
  simp [upto, h]

end Gen.Rt
