import OnetVerif.Model.C17Table
/-! Model for property C17, second part — the path from an accepted connection to the first
dispatched message as a **transition system**, with `SetValidPeers` calls, the peer's own actions and
`Router.Stop` interleaved at every atomic region (core-only).

`network/router.go`, the callback `Router.Start` hands to the listener (215-258) runs in a goroutine of
its own for every connection; between any two of its regions anything else may run:

* `recvId`   — `receiveServerIdentity` (617-657): blocks in `c.Receive()` until the peer has written
  something (or has gone); the first message must be a `ServerIdentity`;
* `check`    — `isPeerValid` → `validPeers.isValid` (129-151, 232): one region of `validPeers.lock`;
  a refusal closes the connection (235) and the callback returns;
* `register` — `registerConnection` (532-546): one region of the router's lock; refused when the
  router is closed (then `c.Close()`, 246);
* `launch`   — `launchHandleRoutine` (548-557): one region of the router's lock; refused when closed;
* `recv`     — one turn of `handleConn`'s loop (459-513): `c.Receive()`, `r.Closed()`, then
  `packet.ServerIdentity = remote` (504) and `r.Dispatch(packet)` (510).

Everything the peer does (`peerSend`, `peerClose`) and `setPeers` / `stop` are acts of the same
schedule.  The table tested at `check` is kept as ghost information in the later phases, only the
theorems read it. -/
namespace C17
namespace Acc

/-- what a peer can write on a connection -/
inductive Wire where
  /-- a `ServerIdentity` message -/
  | ident (p : Ident)
  /-- any other message (the harness's application message number `m`) -/
  | msg (m : Nat)
  deriving DecidableEq, Repr

/-- why the server's side of a connection ended -/
inductive Why where
  /-- `receiveServerIdentity` failed: wrong first message, or the peer left before sending one -/
  | idErr
  /-- `isPeerValid` said no (router.go:232-238) -/
  | refused
  /-- `registerConnection` / `launchHandleRoutine` / the receive loop found the router closed -/
  | routerClosed
  /-- the receive loop read the end of the stream -/
  | peerGone
  deriving DecidableEq, Repr

/-- where the server's goroutine for one accepted connection stands -/
inductive Phase where
  /-- in `receiveServerIdentity`, blocked in `Receive` -/
  | waitId
  /-- identity `p` received, validity not tested yet -/
  | gotId (p : Ident)
  /-- `isPeerValid(p)` answered yes, against the table `vpThen` (ghost) -/
  | checked (p : Ident) (vpThen : VP)
  /-- in `r.connections` -/
  | registered (p : Ident) (vpThen : VP)
  /-- `handleConn` runs -/
  | running (p : Ident) (vpThen : VP)
  | closed (why : Why)
  deriving DecidableEq, Repr

structure Conn where
  phase : Phase := .waitId
  /-- written by the peer, not yet read by the server -/
  inbox : List Wire := []
  /-- the peer has not closed its end -/
  peerOpen : Bool := true
  deriving DecidableEq, Repr

structure State where
  vp : VP := none
  /-- accepted connections, by number -/
  conns : List Conn := []
  /-- `r.isClosed` -/
  closed : Bool := false
  /-- what was handed to the dispatcher: connection, identity attached, message -/
  log : List (Nat × Ident × Nat) := []
  deriving DecidableEq, Repr

inductive Act where
  | setPeers (id : SetId) (peers : List Ident)
  /-- the listener accepts a new connection and starts the callback -/
  | connect
  | peerSend (c : Nat) (w : Wire)
  | peerClose (c : Nat)
  | recvId (c : Nat)
  | check (c : Nat)
  | register (c : Nat)
  | launch (c : Nat)
  | recv (c : Nat)
  /-- `Router.Stop` sets `isClosed` (273-275) -/
  | stop
  deriving DecidableEq, Repr

/-- change connection `c` (nothing happens when it does not exist) -/
def upd (s : State) (c : Nat) (f : Conn → Conn) : State :=
  match s.conns[c]? with
  | none => s
  | some cn => { s with conns := s.conns.set c (f cn) }

/-- `receiveServerIdentity` -/
def recvIdConn (cn : Conn) : Conn :=
  match cn.phase with
  | .waitId =>
    match cn.inbox with
    | .ident p :: rest => { cn with phase := .gotId p, inbox := rest }
    | .msg _ :: rest => { cn with phase := .closed .idErr, inbox := rest }
    | [] => if cn.peerOpen then cn else { cn with phase := .closed .idErr }
  | _ => cn

/-- `isPeerValid` and the refusal -/
def checkConn (vp : VP) (cn : Conn) : Conn :=
  match cn.phase with
  | .gotId p => if vp.isValid p then { cn with phase := .checked p vp } else { cn with phase := .closed .refused }
  | _ => cn

def registerConn (closed : Bool) (cn : Conn) : Conn :=
  match cn.phase with
  | .checked p v => if closed then { cn with phase := .closed .routerClosed } else { cn with phase := .registered p v }
  | _ => cn

def launchConn (closed : Bool) (cn : Conn) : Conn :=
  match cn.phase with
  | .registered p v => if closed then { cn with phase := .closed .routerClosed } else { cn with phase := .running p v }
  | _ => cn

/-- one turn of `handleConn`'s loop: the connection afterwards and what was dispatched -/
def recvConn (closed : Bool) (cn : Conn) : Conn × Option (Ident × Nat) :=
  match cn.phase with
  | .running p _ =>
    if closed then ({ cn with phase := .closed .routerClosed }, none)
    else match cn.inbox with
      | .msg m :: rest => ({ cn with inbox := rest }, some (p, m))
      -- an identity message later in the stream has no processor: logged, nothing dispatched
      | .ident _ :: rest => ({ cn with inbox := rest }, none)
      | [] => if cn.peerOpen then (cn, none) else ({ cn with phase := .closed .peerGone }, none)
  | _ => (cn, none)

def step (s : State) : Act → State
  | .setPeers id peers => { s with vp := s.vp.set id peers }
  | .connect => { s with conns := s.conns ++ [{}] }
  | .peerSend c w => upd s c fun cn => if cn.peerOpen then { cn with inbox := cn.inbox ++ [w] } else cn
  | .peerClose c => upd s c fun cn => { cn with peerOpen := false }
  | .recvId c => upd s c recvIdConn
  | .check c => upd s c (checkConn s.vp)
  | .register c => upd s c (registerConn s.closed)
  | .launch c => upd s c (launchConn s.closed)
  | .recv c =>
    match s.conns[c]? with
    | none => s
    | some cn =>
      let r := recvConn s.closed cn
      { s with conns := s.conns.set c r.1,
               log := match r.2 with | some (p, m) => s.log ++ [(c, p, m)] | none => s.log }
  | .stop => { s with closed := true }

def run (s : State) (acts : List Act) : State := acts.foldl step s

/-- the phase of connection `c` -/
def phaseOf (s : State) (c : Nat) : Option Phase := (s.conns[c]?).map (·.phase)

/-- the acts of the server's own goroutines for connection `c` -/
def internal (c : Nat) : List Act := [.recvId c, .check c, .register c, .launch c, .recv c]

/-- how far a connection still is from rest: phases left plus unread messages -/
def Conn.measure (cn : Conn) : Nat :=
  match cn.phase with
  | .waitId => 5 + cn.inbox.length + (if cn.peerOpen then 0 else 1)
  | .gotId _ => 4 + cn.inbox.length + (if cn.peerOpen then 0 else 1)
  | .checked _ _ => 3 + cn.inbox.length + (if cn.peerOpen then 0 else 1)
  | .registered _ _ => 2 + cn.inbox.length + (if cn.peerOpen then 0 else 1)
  | .running _ _ => 1 + cn.inbox.length + (if cn.peerOpen then 0 else 1)
  | .closed _ => 0

def measure (s : State) : Nat := (s.conns.map Conn.measure).sum

/-- the accept path run to its end for connection `c`, nothing else in between
(what `C17.step … (.offer p m)` stands for): the peer connects, writes its identity and `m`;
the server reads the identity, tests, registers, launches and reads `m`. -/
def offerActs (c : Nat) (p : Ident) (m : Nat) : List Act :=
  [.connect, .peerSend c (.ident p), .peerSend c (.msg m), .recvId c, .check c, .register c, .launch c, .recv c]

/-- the registered connections as the sequential model sees them -/
def absConns (s : State) : List C17.Conn :=
  s.conns.filterMap fun cn =>
    match cn.phase with
    | .registered p v => some { peer := p, origin := .offered v }
    | .running p v => some { peer := p, origin := .offered v }
    | _ => none

def abs (s : State) : C17.State := { vp := s.vp, conns := absConns s }

end Acc
end C17
