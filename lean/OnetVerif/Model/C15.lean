import OnetVerif.Model.Util
import OnetVerif.Generated
/-! Model for property C15: streams deliver everything in order and end cleanly whoever leaves
first.  Channel-level transition system of one streaming websocket connection (anchors are to
/repo at the time of writing):

* the client and the two directions of the websocket (`c2s`, `s2c`);
* the reader goroutine `R` (websocket.go:324-346): reads a client message, forwards it into
  `clientInputs`, on a read error closes `closing`; it closes `clientInputs` when it ends and
  stops forwarding once `leaving` is closed;
* the write loop `W` (websocket.go:348-383): forwards `outChan` to the client, a closed `outChan`
  ends the stream with a normal close, `closing` / a write error with an error close; closes
  `leaving` on its way out; the deferred `ws.Close()` makes `R`'s read fail;
* the service adapter `A` (`ProcessClientStreamRequest`, processor.go:456-623): for every client
  message decode, call the streaming handler, start a forwarder `F` for the channel it returned
  and a stopper; `endStream` after a bad message; `stopAll` when `clientInputs` is closed;
* forwarders `F` (processor.go:572-617): service channel → `outChan`; the last one that ends
  closes `outChan`; stoppers (processor.go:543-557): after `stopAll` close the service's stop channel;
* the service: hands values to the forwarder of a channel (`emit`), closes a channel (`svcClose`).

A streaming handler may hand back nil channels (with a nil error): the client messages `nostop` (new
channel, nil stop channel) and `noout` (nil channel) model such requests; `Stream.noStop` / `noOut`
remember it.  Nothing can be emitted on or closed on a nil channel, a nil stop channel cannot be
closed (`Panic.closeOfNilStop`) and is never seen closed.

`Variant` selects, per repair, the code as it is now (`true`) or as it was (`false`), so that the
behaviour of the old code can be stated and refuted.  Sending on / closing a closed channel is the
outcome `panic` (the process dies: no further step).  Capacities of `clientInputs` and `outChan`
are parameters (`Caps`); the driver uses `Generated.wsClientInputsCap` / `wsOutChanCap`.  Core-only. -/
namespace C15

/-- which repairs are in place -/
structure Variant where
  /-- `outChan` is closed by the last forwarder (counter under `outLock`), a bad message ends the
  stream through `endStream`, the adapter keeps draining, forwarders give up on `stopAll`;
  `false`: first forwarder's `closeOutOnce`, unguarded `close(outChan); return` in the adapter -/
  guardedOut : Bool
  /-- the reader closes `clientInputs` itself and selects on `leaving`;
  `false`: the write loop closes `clientInputs`, the reader sends unconditionally -/
  readerCloses : Bool
  /-- a channel the handler returns a second time is not given a second forwarder -/
  dedupe : Bool
  /-- nil channels handed back by a streaming handler are survived: a nil stop channel is left
  alone by the stopper, a nil output channel gets no forwarder (the request is handled like a
  failing one); `false`: the stopper closes whatever it was given, every request gets a forwarder -/
  nilSafe : Bool
  deriving DecidableEq, Repr

/-- the code as it is -/
def Variant.fixed : Variant := ⟨true, true, true, true⟩
/-- the code before the repairs -/
def Variant.old : Variant := ⟨false, false, false, false⟩

structure Caps where
  inCap : Nat    -- `make(chan []byte, 10)`  (websocket.go:313)
  outCap : Nat   -- `make(chan []byte, 100)` (processor.go:459)
  deriving Repr

def Caps.generated : Caps := ⟨Generated.wsClientInputsCap, Generated.wsOutChanCap⟩

/-- a message of the client on the stream -/
inductive CMsg where
  | fresh             -- valid request, the handler returns a new channel
  | reuse (j : Nat)   -- valid request, the handler returns the channel of stream `j` again
  | garbage           -- does not decode
  | failing           -- decodes, the handler returns an error (or panics: same path)
  | nostop            -- valid request, the handler returns a new channel and a nil stop channel
  | noout             -- valid request, the handler returns a nil channel (and a stop channel, no error)
  deriving DecidableEq, Repr

/-- what the write loop puts on the wire -/
inductive Frame where
  | data (k v : Nat)   -- value `v` of service channel `k`
  | closeNormal        -- 1000 "service finished streaming"
  | closeError         -- 1002 "unexpected error: …"
  deriving DecidableEq, Repr

inductive RPc where
  | read | hold (m : CMsg) | done
  deriving DecidableEq, Repr

inductive FPc where
  | recv | hold (v : Nat) | done
  deriving DecidableEq, Repr

inductive Panic where
  | sendOnClosedInputs | sendOnClosedOut | closeOfClosedOut | closeOfNilStop
  deriving DecidableEq, Repr

/-- one channel handed out by the streaming handler, with its forwarder(s) and its stop channel -/
structure Stream where
  chanClosed : Bool := false    -- the service closed the channel
  stopClosed : Bool := false    -- `stopServiceChan` closed: the service is told to stop
  refused : Bool := false       -- the request came when `outChan` was already closed: stopped at once
  fwd : FPc := .recv            -- the forwarder of the channel
  extra : List FPc := []        -- more forwarders on the same channel (only without `dedupe`)
  emitted : List Nat := []      -- ghost: the values handed to forwarders, in order
  noStop : Bool := false        -- the handler returned a nil stop channel: nobody can be told
  noOut : Bool := false         -- the handler returned a nil channel: nothing can be emitted on or closed
  deriving DecidableEq, Repr

structure St where
  c2s : List CMsg := []         -- client messages on their way to the reader
  cGone : Bool := false         -- the client closed or dropped the connection
  s2c : List Frame := []        -- frames written by the server, in order
  wsClosed : Bool := false      -- the deferred `ws.Close()` of `ServeHTTP` has run
  rpc : RPc := .read
  closing : Bool := false       -- `close(closing)`
  leaving : Bool := false       -- `close(leaving)`
  inq : List CMsg := []         -- `clientInputs`
  inClosed : Bool := false
  adone : Bool := false         -- the adapter goroutine has ended
  ended : Bool := false         -- its `ended` flag
  stopAll : Bool := false       -- `close(stopAll)`
  fcount : Nat := 0             -- `forwarders`
  outClosed : Bool := false     -- `outChan` closed
  onceDone : Bool := false      -- `closeOutOnce` used (old code)
  outq : List (Nat × Nat) := [] -- `outChan`: (channel, value)
  streams : List Stream := []
  wdone : Bool := false         -- the write loop has been left
  calls : Nat := 0              -- handler invocations
  panic : Option Panic := none
  deriving DecidableEq, Repr

/-- `ServeHTTP` has read the first message `m`, put it into `clientInputs`, started the adapter and
the reader (websocket.go:313-346) -/
def init (m : CMsg) : St := { inq := [m] }

inductive Act where
  | cSend (m : CMsg)       -- the client sends a further message
  | cLeave                 -- the client closes or drops the connection
  | rStep                  -- reader: read a message / forward it / notice the closed socket
  | rLeave                 -- reader: the `<-leaving` case of its select
  | aStep                  -- adapter: one iteration of `for buf := range clientInputs`
  | emit (k f v : Nat)     -- the service hands `v` to forwarder `f` of channel `k`
  | svcClose (k : Nat)     -- the service closes channel `k`
  | emitBad (k f : Nat)    -- the service hands forwarder `f` of channel `k` a value `protobuf.Encode` refuses
  | fStep (k f : Nat)      -- forwarder: put the held value into `outChan` / end on a closed channel
  | fDrop (k f : Nat)      -- forwarder: the `<-stopAll` case of its select
  | stop (k : Nat)         -- stopper of channel `k`
  | wOut                   -- write loop: the `outChan` case
  | wClosing               -- write loop: the `closing` case
  | wOutFail               -- write loop: `WriteMessage` fails (the client is gone)
  deriving DecidableEq, Repr

/-- unguarded `close(outChan)` -/
def closeOut (s : St) : St :=
  if s.outClosed then { s with panic := some .closeOfClosedOut } else { s with outClosed := true }

/-- the deferred function of a forwarder (processor.go:577-586 / `closeOutOnce` before) -/
def fwdExit (v : Variant) (s : St) : St :=
  if v.guardedOut then
    { s with fcount := s.fcount - 1, outClosed := s.outClosed || (s.fcount - 1 == 0) }
  else if s.onceDone then s else closeOut { s with onceDone := true }

/-- the adapter meets a message that does not decode or whose handler fails (processor.go:507-527) -/
def adapterFail (v : Variant) (s : St) : St :=
  if v.guardedOut then
    -- `ended = true; endStream()`
    { s with ended := true, stopAll := true, outClosed := s.outClosed || (s.fcount == 0) }
  else
    -- `close(outChan); return` — `stopAll` is never closed
    { closeOut s with adone := true }

/-- the handler returned a new channel `t` (processor.go:533-640) -/
def newStream (v : Variant) (s : St) (t : Stream := {}) : St :=
  if v.guardedOut then
    if s.outClosed then { s with streams := s.streams ++ [{ t with refused := true, fwd := .done }] }
    else { s with fcount := s.fcount + 1, streams := s.streams ++ [t] }
  else { s with streams := s.streams ++ [t] }

/-- the handler returned a nil channel and no error (processor.go:537-547): there is nothing to
stream and a forwarder would wait for ever — `ended = true; endStream()` like for a failing
handler, the request counts as refused (its stopper does not wait for `stopAll`), no forwarder.
Without `nilSafe`: a forwarder like for any other channel. -/
def nilOut (v : Variant) (s : St) : St :=
  if v.nilSafe then
    adapterFail v { s with streams := s.streams ++ [{ refused := true, fwd := .done, noOut := true }] }
  else newStream v s { noOut := true }

/-- the stopper of channel `k` does its work (processor.go:560-577): a nil stop channel is left
alone (`stopClosed` then only says that the stopper has run); without `nilSafe` it is closed like
any other: `close of nil channel` -/
def stopChan (v : Variant) (s : St) (k : Nat) (st : Stream) : St :=
  if st.noStop && !v.nilSafe then { s with panic := some .closeOfNilStop }
  else { s with streams := s.streams.set k { st with stopClosed := true } }

/-- the handler returned channel `j` again and there is no `dedupe`: one more forwarder on it -/
def extraFwd (v : Variant) (s : St) (j : Nat) (st : Stream) : St :=
  if v.guardedOut && s.outClosed then s
  else { s with fcount := (if v.guardedOut then s.fcount + 1 else s.fcount),
                streams := s.streams.set j { st with extra := st.extra ++ [.recv] } }

def getFwd (st : Stream) (f : Nat) : Option FPc := if f = 0 then some st.fwd else st.extra[f - 1]?

def setFwd (st : Stream) (f : Nat) (pc : FPc) : Stream :=
  if f = 0 then { st with fwd := pc } else { st with extra := st.extra.set (f - 1) pc }

/-- the reader goroutine ends -/
def readerExit (v : Variant) (s : St) : St :=
  if v.readerCloses then { s with rpc := .done, inClosed := true } else { s with rpc := .done }

/-- the write loop is left after writing frame `f`; `ServeHTTP` returns and the socket is closed -/
def writerLeave (v : Variant) (viaClosing : Bool) (f : Frame) (s : St) : St :=
  let s := { s with s2c := s.s2c ++ [f], wsClosed := true, wdone := true }
  if v.readerCloses then (if viaClosing then s else { s with leaving := true })
  else { s with inClosed := true }      -- `close(clientInputs)` by the write loop

def step (v : Variant) (caps : Caps) (s : St) : Act → Option St := fun a =>
  if s.panic.isSome then none else
  match a with
  | .cSend m => if s.cGone then none else some { s with c2s := s.c2s ++ [m] }
  | .cLeave => if s.cGone then none else some { s with cGone := true }
  | .rStep =>
    match s.rpc with
    | .read =>
      if s.wsClosed then some (readerExit v { s with closing := true })
      else match s.c2s with
        | m :: rest => some { s with c2s := rest, rpc := .hold m }
        | [] => if s.cGone then some (readerExit v { s with closing := true }) else none
    | .hold m =>
      if s.inClosed then some { s with panic := some .sendOnClosedInputs }
      else if s.inq.length < caps.inCap then some { s with inq := s.inq ++ [m], rpc := .read }
      else none
    | .done => none
  | .rLeave =>
    match s.rpc with
    | .hold _ => if v.readerCloses && s.leaving then some (readerExit v s) else none
    | _ => none
  | .aStep =>
    if s.adone then none else
    match s.inq with
    | [] => if s.inClosed then some { s with adone := true, stopAll := true } else none
    | m :: rest =>
      let s := { s with inq := rest }
      if s.ended then some s else
      match m with
      | .garbage => some (adapterFail v s)
      | .failing => some (adapterFail v { s with calls := s.calls + 1 })
      | .fresh => some (newStream v { s with calls := s.calls + 1 })
      | .nostop => some (newStream v { s with calls := s.calls + 1 } { noStop := true })
      | .noout => some (nilOut v { s with calls := s.calls + 1 })
      | .reuse j =>
        let s := { s with calls := s.calls + 1 }
        match s.streams[j]? with
        | none => some (newStream v s)
        | some st => if v.dedupe then some s else some (extraFwd v s j st)
  | .emit k f x =>
    match s.streams[k]? with
    | none => none
    | some st =>
      if st.chanClosed || st.noOut then none else
      match getFwd st f with
      | some .recv =>
        some { s with streams := s.streams.set k (setFwd { st with emitted := st.emitted ++ [x] } f (.hold x)) }
      | _ => none
  | .emitBad k f =>
    -- processor.go:631-635: `buf, err := protobuf.Encode(v.Interface()); if err != nil { log.Error(err); return }`
    -- — the forwarder ends (its deferred function runs) although the service has not closed the
    -- channel; the value is not a message of the stream (`emitted` is what can be delivered)
    match s.streams[k]? with
    | none => none
    | some st =>
      if st.chanClosed || st.noOut then none else
      match getFwd st f with
      | some .recv => some (fwdExit v { s with streams := s.streams.set k (setFwd st f .done) })
      | _ => none
  | .svcClose k =>
    match s.streams[k]? with
    | none => none
    | some st =>
      if st.chanClosed || st.noOut then none
      else some { s with streams := s.streams.set k { st with chanClosed := true } }
  | .fStep k f =>
    match s.streams[k]? with
    | none => none
    | some st =>
      match getFwd st f with
      | some .recv =>
        if st.chanClosed then some (fwdExit v { s with streams := s.streams.set k (setFwd st f .done) }) else none
      | some (.hold x) =>
        if s.outClosed then some { s with panic := some .sendOnClosedOut }
        else if s.outq.length < caps.outCap then
          some { s with outq := s.outq ++ [(k, x)], streams := s.streams.set k (setFwd st f .recv) }
        else none
      | _ => none
  | .fDrop k f =>
    match s.streams[k]? with
    | none => none
    | some st =>
      match getFwd st f with
      | some (.hold _) =>
        if v.guardedOut && s.stopAll then some (fwdExit v { s with streams := s.streams.set k (setFwd st f .done) })
        else none
      | _ => none
  | .stop k =>
    match s.streams[k]? with
    | none => none
    | some st =>
      if (s.stopAll || st.refused) && !st.stopClosed then some (stopChan v s k st) else none
  | .wOut =>
    if s.wdone then none else
    match s.outq with
    | (k, x) :: rest => some { s with outq := rest, s2c := s.s2c ++ [.data k x] }
    | [] => if s.outClosed then some (writerLeave v false .closeNormal s) else none
  | .wClosing =>
    if s.wdone then none
    else if s.closing then some (writerLeave v true .closeError s) else none
  | .wOutFail =>
    if s.wdone then none else
    match s.outq with
    | _ :: rest => if s.cGone then some (writerLeave v false .closeError { s with outq := rest }) else none
    | [] => none

/-- a schedule: an action that is not enabled (blocked party, dead process) is skipped -/
def run (v : Variant) (caps : Caps) (s : St) : List Act → St
  | [] => s
  | a :: as =>
    match step v caps s a with
    | some s' => run v caps s' as
    | none => run v caps s as

/-! ## A variant that waits for the client after the normal close

`stepWaiting` differs from `step Variant.fixed` in one place: having written the normal close and
closed `leaving`, the write loop does not return but waits until the reader goroutine has ended
("to finish the closing handshake").  The state "`leaving` closed, write loop not yet left" does not
occur in the code as it is (there `leaving` is closed on the way out), so it needs no new field.
Used for a negative result only. -/
def stepWaiting (caps : Caps) (s : St) (a : Act) : Option St :=
  match a with
  | .wOut =>
    if s.panic.isNone && !s.wdone && s.outq.isEmpty && s.outClosed then
      if s.leaving then
        -- `<-readerDone`
        if s.rpc = .done then some { s with wsClosed := true, wdone := true } else none
      else some { s with s2c := s.s2c ++ [.closeNormal], leaving := true }
    else step .fixed caps s .wOut
  | a => step .fixed caps s a

def runWaiting (caps : Caps) (s : St) : List Act → St
  | [] => s
  | a :: as =>
    match stepWaiting caps s a with
    | some s' => runWaiting caps s' as
    | none => runWaiting caps s as

/-! ## Several streaming connections on one server

Every connection has its own socket, reader, write loop, adapter, channels and forwarders
(everything `ServeHTTP` and `ProcessClientStreamRequest` create is local to the call); the
connections share the process: a panic in any goroutine ends all of them. -/
structure Srv where
  conns : List St
  deriving Repr

def Srv.panicked (y : Srv) : Bool := y.conns.any (fun s => s.panic.isSome)

/-- connection `i` performs action `a` -/
def srvStep (v : Variant) (caps : Caps) (y : Srv) (i : Nat) (a : Act) : Option Srv :=
  if y.panicked then none else
  match y.conns[i]? with
  | none => none
  | some s =>
    match step v caps s a with
    | none => none
    | some s' => some { conns := y.conns.set i s' }

def srvRun (v : Variant) (caps : Caps) (y : Srv) : List (Nat × Act) → Srv
  | [] => y
  | (i, a) :: rest =>
    match srvStep v caps y i a with
    | some y' => srvRun v caps y' rest
    | none => srvRun v caps y rest

/-- the actions of connection `i` in a schedule of the whole server -/
def proj (i : Nat) (sched : List (Nat × Act)) : List Act := (sched.filter (fun p => p.1 == i)).map (·.2)

/-! ## The client's side of a stream: `StreamingConn.ReadMessage` / `ReadMessageWithOpts`
(websocket_client.go:455-486)

`readMsg` arms the connection's read deadline with the deadline of *this* read's options — the zero
time, i.e. `ReadMessage` without options, clears it — and reads one frame.  A read that runs into its
deadline fails, and the websocket library keeps a failed read's error: every later read fails too.
`sticky = true` is the variant that only touches the deadline when the options carry one, so that the
deadline of an earlier read stays armed. -/
structure CConn where
  now : Nat := 0
  /-- the read deadline armed on the connection (absolute), `none`: no deadline -/
  deadline : Option Nat := none
  /-- frames that have arrived and were not read yet -/
  inbox : List Frame := []
  /-- a read has failed -/
  dead : Bool := false
  deriving Repr, DecidableEq

inductive ROut where
  | frame (f : Frame) | timedOut | waits | failed
  deriving Repr, DecidableEq

inductive CAct where
  | tick (d : Nat)            -- time passes
  | arrive (f : Frame)        -- a frame of the server arrives
  | read (dl : Option Nat)    -- `ReadMessageWithOpts` with a deadline `dl` ahead / `ReadMessage` (`none`)
  deriving Repr, DecidableEq

def cRead (sticky : Bool) (c : CConn) (dl : Option Nat) : CConn × ROut :=
  if c.dead then (c, .failed) else
  let d := match dl with
    | some r => some (c.now + r)
    | none => if sticky then c.deadline else none
  let c := { c with deadline := d }
  match d with
  | some t =>
    if t ≤ c.now then ({ c with dead := true }, .timedOut)
    else match c.inbox with
      | f :: rest => ({ c with inbox := rest }, .frame f)
      | [] => (c, .waits)
  | none =>
    match c.inbox with
    | f :: rest => ({ c with inbox := rest }, .frame f)
    | [] => (c, .waits)

def cStep (sticky : Bool) (c : CConn) : CAct → CConn × List ROut
  | .tick d => ({ c with now := c.now + d }, [])
  | .arrive f => ({ c with inbox := c.inbox ++ [f] }, [])
  | .read dl => ((cRead sticky c dl).1, [(cRead sticky c dl).2])

def cRun (sticky : Bool) (c : CConn) : List CAct → CConn × List ROut
  | [] => (c, [])
  | a :: as =>
    let r := cStep sticky c a
    let rest := cRun sticky r.1 as
    (rest.1, r.2 ++ rest.2)

/-! ## The client's read loop: `Client.Stream`, then `ReadMessage` until a read fails
(websocket_client.go:440-505)

`Client.Stream` writes the request on the connection of its destination and hands back a `StreamingConn`;
the usual caller then reads until a read returns an error.  `readMsg` hands back one decoded message per
data frame, in the order of the frames; a close frame comes back as a `*websocket.CloseError` (1000 when
the service ended the stream, 1002 when the server gave up) and every later read fails too.  The loop is
a function of the frames the server has written so far — whatever server wrote them. -/

def Frame.isData : Frame → Bool
  | .data _ _ => true
  | _ => false

/-- how the loop stands after the frames written so far: it has been handed a close error (`normal`: code
1000) and has ended, or it waits in `ReadMessage` for the next frame -/
inductive CEnd where
  | closed (normal : Bool)
  | waiting
  deriving Repr, DecidableEq

/-- the values handed to the caller (channel, value), in order, and where the loop stands -/
def clientLoop : List Frame → List (Nat × Nat) × CEnd
  | [] => ([], .waiting)
  | .data k v :: rest => ((k, v) :: (clientLoop rest).1, (clientLoop rest).2)
  | .closeNormal :: _ => ([], .closed true)
  | .closeError :: _ => ([], .closed false)

/-- the number of `ReadMessage` calls that have returned -/
def clientReads (fs : List Frame) : Nat :=
  (clientLoop fs).1.length + (match (clientLoop fs).2 with | .closed _ => 1 | .waiting => 0)

/-! ## Line-protocol driver

The harness drives the client and the service of one or more streaming connections step by step
and waits for the observable effect of each step; the goroutines of onet run freely in between.
The driver therefore runs the internal actions to quiescence after every external one (`settle`),
trying them in a fixed order; a party the harness holds at a hook does not move. -/
namespace Drv

structure Conn where
  name : String
  st : St
  read : Nat := 0                 -- frames the client has consumed
  holds : List String := []       -- hook points at which the harness holds this connection's goroutines

structure State where
  conns : List Conn := []

def init : State := {}

def held (c : Conn) (p : String) : Bool := c.holds.contains p

/-- internal actions worth trying in state `s`, in a fixed order -/
def candidates (c : Conn) : List Act :=
  let s := c.st
  let ks := List.range s.streams.length
  (if held c "reader-forward" && (match s.rpc with | .hold _ => true | _ => false) then [] else [.rStep, .rLeave]) ++
  (if held c "adapter-receive" && !s.inq.isEmpty then [] else [.aStep]) ++
  ks.map .stop ++
  (if held c "forwarder-send" then ks.map (fun k => .fStep k 0) |>.filter (fun a =>
      match a with
      | .fStep k _ => (match s.streams[k]? with | some st => st.fwd == .recv | none => false)
      | _ => false)
   else ks.map (fun k => .fStep k 0) ++ ks.map (fun k => .fDrop k 0)) ++
  [.wOut, .wClosing, .wOutFail]

def settleAux (v : Variant) : Nat → Conn → Conn
  | 0, c => c
  | fuel + 1, c =>
    match (candidates c).findSome? (fun a => step v Caps.generated c.st a) with
    | some s' => settleAux v fuel { c with st := s' }
    | none => c

def settle (c : Conn) : Conn := settleAux .fixed 10000 c

def parseMsg (s : String) : Option CMsg :=
  if s = "fresh" then some .fresh else if s = "garbage" then some .garbage
  else if s = "failing" then some .failing
  -- a handler that panics (with a string, an error value, a runtime error): the barrier of
  -- `callInterfaceFunc` turns it into the handler's error, the same path
  else if s = "panics" || s = "panicerr" || s = "panicidx" then some .failing
  else if s = "nostop" then some .nostop else if s = "noout" then some .noout
  else if s.startsWith "reuse" then (s.drop 5).toString.toNat?.map .reuse else none

def showFrame : Frame → String
  | .data k v => s!"data {k} {v}"
  | .closeNormal => "close 1000"
  | .closeError => "close 1002"

def find (s : State) (n : String) : Option Conn := s.conns.find? (·.name = n)

def put (s : State) (c : Conn) : State :=
  if s.conns.any (·.name = c.name) then { conns := s.conns.map fun d => if d.name = c.name then c else d }
  else { conns := s.conns ++ [c] }

/-- the connection of a client whose first message cannot be routed: error close, nothing started -/
def closedAtOnce : St :=
  { s2c := [.closeError], wsClosed := true, wdone := true, rpc := .done, inClosed := true, adone := true,
    stopAll := true }

/-- apply external action `a` to connection `c` (if enabled), then settle -/
def ext (c : Conn) (a : Act) : Option Conn :=
  (step .fixed Caps.generated c.st a).map fun s' => settle { c with st := s' }

def ok (s : State) (c : Option Conn) : State × String :=
  match c with
  | some c => (put s c, "ok")
  | none => (s, "timeout")

/-- operations (see harness/cmd/onetharness/c15.go):
`open c m`, `csend c m`, `wstart c n`, `emit c k v`, `svcclose c k`, `cread c`, `cleave c close|drop`,
`wstop c k`, `hold c p`, `release c p`, `wheld c p`, `flood c k v n`, `wexit c n`, `cmute c`, `wclosed c`,
`cping c`, `ping v`, `gc`, `census`, `alive` -/
def step (s : State) (toks : List String) : State × String :=
  match toks with
  | ["open", n, "unregistered"] =>
    -- a path no handler is registered for: `IsStreaming` fails, the read loop of `ServeHTTP` is
    -- left at once with the error close (websocket.go:279-285, 388-396); no goroutine is started
    match find s n with
    | none => (put s { name := n, st := closedAtOnce }, "ok")
    | some _ => (s, "bad-op")
  | ["open", n, m] =>
    match parseMsg m, find s n with
    | some m, none => (put s (settle { name := n, st := C15.init m }), "ok")
    | _, _ => (s, "bad-op")
  | ["csend", n, m] =>
    match parseMsg m, find s n with
    | some m, some c => ok s (ext c (.cSend m))
    | _, _ => (s, "bad-op")
  | ["wstart", n, k] =>
    match k.toNat?, find s n with
    | some k, some c => (s, if k < c.st.calls then "ok" else "timeout")
    | _, _ => (s, "bad-op")
  | ["emit", n, k, x] =>
    match k.toNat?, x.toNat?, find s n with
    | some k, some x, some c => ok s (ext c (.emit k 0 x))
    | _, _, _ => (s, "bad-op")
  | ["emitempty", n] =>
    -- a message whose encoding has no bytes: a value of channel 0 like any other (a client decodes the
    -- zero value); `outChan` carries byte slices, an empty one is not the closed channel
    match find s n with
    | some c => ok s (ext c (.emit 0 0 0))
    | none => (s, "bad-op")
  | ["emitbig", n, k, x, _kb] =>
    -- a big message: the size is the transport's business, nothing of onet's depends on it
    match k.toNat?, x.toNat?, find s n with
    | some k, some x, some c => ok s (ext c (.emit k 0 x))
    | _, _, _ => (s, "bad-op")
  | ["creadopt", n, ms] =>
    -- one read of onet's client with its own options (`CConn`/`cRead` below the connection model:
    -- the deadline is per read): the next frame; when there is none, the deadline passes (or, without
    -- deadline, the harness gives up)
    match ms.toNat?, find s n with
    | some ms, some c =>
      match c.st.s2c[c.read]? with
      | some f => (put s { c with read := c.read + 1 }, showFrame f)
      | none => (s, if ms = 0 then "timeout" else "deadline")
    | _, _ => (s, "bad-op")
  | ["quiet", ms] => (s, if ms.toNat?.isSome then "ok" else "bad-op")
  | ["cpause", n] => (s, if (find s n).isSome then "ok" else "bad-op")    -- the client's reading is not onet's
  | ["cresume", n] => (s, if (find s n).isSome then "ok" else "bad-op")
  | ["cpingraw", n] =>
    -- a ping of a raw client: the library answers it under the reader's `ReadMessage` with a control
    -- frame of its own; the reader routine itself writes nothing, so the write loop is not disturbed
    (s, if (find s n).isSome then "ok" else "bad-op")
  | ["emitbad", n, k] =>
    match k.toNat?, find s n with
    | some k, some c => ok s (ext c (.emitBad k 0))
    | _, _ => (s, "bad-op")
  | ["svcclose", n, k] =>
    match k.toNat?, find s n with
    | some k, some c => ok s (ext c (.svcClose k))
    | _, _ => (s, "bad-op")
  | ["cread", n] =>
    match find s n with
    | some c =>
      match c.st.s2c[c.read]? with
      | some f => (put s { c with read := c.read + 1 }, showFrame f)
      | none => (s, "timeout")
    | none => (s, "bad-op")
  | ["cdrain", n] =>
    -- the read loop of onet's client (`clientLoop`) on the frames it has not read yet: every value in
    -- order, then the close it ends with (`c15_client_receives_in_order_and_complete`)
    match find s n with
    | some c =>
      let r := clientLoop (c.st.s2c.drop c.read)
      -- canonical form: channel by channel (the order between channels is the forwarders' business)
      let groups := (List.range c.st.streams.length).filterMap fun k =>
        let vs := (r.1.filter (fun p => p.1 == k)).map (fun p => toString p.2)
        if vs.isEmpty then none else some (s!" {k}:" ++ ",".intercalate vs)
      let head := "drain" ++ String.join groups ++ " | "
      match r.2 with
      | .closed b => (put s { c with read := c.read + r.1.length + 1 }, head ++ (if b then "close 1000" else "close 1002"))
      | .waiting => (put s { c with read := c.read + r.1.length }, head ++ "timeout")
    | none => (s, "bad-op")
  | ["cleave", n, _how] =>
    match find s n with
    | some c => ok s (ext c .cLeave)
    | none => (s, "bad-op")
  | ["wstop", n, k] =>
    match k.toNat?, find s n with
    | some k, some c =>
      (s, match c.st.streams[k]? with
          -- a nil stop channel is never seen closed
          | some st => if st.stopClosed && !st.noStop then "ok" else "timeout"
          | none => "timeout")
    | _, _ => (s, "bad-op")
  | ["flood", n, k, x, cnt] =>
    -- the service keeps emitting (values x, x+1, …) as long as a forwarder takes them; how many
    -- are taken depends on the schedule (a forwarder may give up on `stopAll`), so the
    -- observation is constant
    match k.toNat?, x.toNat?, cnt.toNat?, find s n with
    | some k, some x, some cnt, some c =>
      let c' := (List.range cnt).foldl (fun c i => (ext c (.emit k 0 (x + i))).getD c) c
      (put s c', "ok")
    | _, _, _, _ => (s, "bad-op")
  | ["wexit", n, cnt] =>
    -- wait until `cnt` forwarders of the connection have ended
    match cnt.toNat?, find s n with
    | some cnt, some c =>
      (s, if cnt ≤ (c.st.streams.filter (fun st => !st.refused && st.fwd == .done)).length then "ok" else "timeout")
    | _, _ => (s, "bad-op")
  | ["hold", n, p] =>
    match find s n with
    | some c => (put s { c with holds := p :: c.holds }, "ok")
    | none => (s, "bad-op")
  | ["release", n, p] =>
    match find s n with
    | some c => (put s (settle { c with holds := c.holds.filter (· ≠ p) }), "ok")
    | none => (s, "bad-op")
  | ["wheld", n, p] =>
    match find s n with
    | some c =>
      let at_ :=
        if p = "reader-forward" then (match c.st.rpc with | .hold _ => true | _ => false)
        else if p = "adapter-receive" then !c.st.inq.isEmpty && !c.st.adone
        else if p = "forwarder-send" then c.st.streams.any (fun st => match st.fwd with | .hold _ => true | _ => false)
        else false
      (s, if held c p && at_ then "ok" else "timeout")
    | none => (s, "bad-op")
  | ["cping", n] =>
    -- a websocket ping: answered by the library under the reader's `ReadMessage`, nothing of onet's moves
    match find s n with
    | some _ => (s, "ok")
    | none => (s, "bad-op")
  | ["ping", v] =>
    -- a plain request of another client to the same service (handler `C15Ping`: v ↦ v+1), on a
    -- connection of its own: it shares nothing with the streams
    match v.toInt? with
    | some v => (s, s!"pong {v + 1}")
    | none => (s, "bad-op")
  | ["cmute", n] =>
    -- from now on the client neither answers a close frame nor closes the connection: it only
    -- listens.  The server does not depend on the client's answer (`writerLeave`: `ServeHTTP`
    -- returns, the deferred `ws.Close()` runs), so nothing changes here
    match find s n with
    | some _ => (s, "ok")
    | none => (s, "bad-op")
  | ["wclosed", n] =>
    -- wait until the server has closed the connection (the deferred `ws.Close()` of `ServeHTTP`)
    match find s n with
    | some c => (s, if c.st.wsClosed then "ok" else "timeout")
    | none => (s, "bad-op")
  | ["census"] =>
    -- goroutine census of the server process: no routine of `ProcessClientStreamRequest` (adapter,
    -- stoppers, forwarders) of any connection is left
    (s, if s.conns.all (fun c => c.st.adone && c.st.streams.all (fun st => st.fwd == .done && st.stopClosed))
        then "ok" else "stuck")
  | ["gc"] => (s, "ok")     -- a garbage collection in the server process: channels are told apart by identity
  | ["alive"] => (s, "ok")
  | _ => (s, "bad-op")

end Drv

end C15
