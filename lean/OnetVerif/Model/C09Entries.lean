/-! Model for property C09, second part — the send operations offered to services and protocols,
written over an *arbitrary* router-level send (core-only).

* `server.go`: `Server` embeds `*network.Router`, so `Server.Send` is `Router.Send`.
* `context.go:60-68` `Context.SendRaw`: one message through `server.Send`, the error is wrapped and
  returned (before commit abb887e it was built and dropped).
* `treenode.go:150-176` `TreeNodeInstance.SendTo`: refuses a nil destination and a closing
  instance without touching the router; the first message to a node carries the instance's
  generic configuration if one is set (`sentTo`); then `overlay.SendToTreeNode` (`overlay.go:602-636`),
  which hands one or two messages (configuration, wrapped protocol message) to `server.Send` and
  passes its error on.
* `treenode.go:764-847`: `Broadcast` (every node of the tree's list but the own), `Multicast` (the
  given nodes), `SendToParent` (nothing at the root), `SendToChildren` (one after the other, returns
  at the first error), `SendToChildrenInParallel` (one goroutine per child, every error collected;
  the order in which the goroutines reach the router is the scheduler's).
-/
namespace C09

abbrev Peer := Nat

inductive Res where
  | ok
  | err
  deriving DecidableEq, Repr

/-- the router-level send the entry points sit on: state, destination, number of messages handed
over in the one call -/
abbrev RS (σ : Type) := σ → Peer → Nat → σ × Res

/-- a tree-node instance, as far as its sends are concerned. Nodes are named by the peer they
live on (the trees of the harness have one node per server). -/
structure Tni where
  /-- `treeNode.Parent`; `none` at the root -/
  parent : Option Peer := none
  /-- `treeNode.Children`, in order -/
  children : List Peer := []
  /-- `n.closing`: set by `closeDispatch` (`Done`, `Overlay.Close`) -/
  closing : Bool := false
  /-- `n.config != nil` (`SetConfig`) -/
  config : Bool := false
  /-- `n.sentTo`: nodes a message was already sent to, in order of first send -/
  sentTo : List Peer := []
  deriving DecidableEq, Repr

/-- `n.List()` without the node itself: in the trees used here the list is parent, own node,
children -/
def Tni.others (t : Tni) : List Peer := t.parent.toList ++ t.children

/-- what a call of an entry point leaves behind and hands back -/
structure Out (σ : Type) where
  st : σ
  tni : Tni
  /-- errors handed to the caller (`0`: the `error` is nil / the `[]error` is empty) -/
  errs : Nat
  /-- ghost: the router sends that were made, in order, and what each answered -/
  calls : List (Peer × Res)

def Res.n : Res → Nat
  | .ok => 0
  | .err => 1

/-- number of router sends in a call log that answered with an error -/
def errCount (l : List (Peer × Res)) : Nat := (l.map (·.2.n)).sum

/-- `Server.Send` (the server embeds the router) -/
def serverSend {σ : Type} (rs : RS σ) (s : σ) (d : Peer) (n : Nat) : σ × Res := rs s d n

/-- `Context.SendRaw` (context.go:60-68) -/
def ctxSendRaw {σ : Type} (rs : RS σ) (s : σ) (d : Peer) : σ × Res :=
  let r := serverSend rs s d 1
  match r.2 with
  | .err => (r.1, .err)      -- `return xerrors.Errorf("sending message: %v", err)`
  | .ok => (r.1, .ok)

/-- `Context.SendRaw` before commit abb887e: the error was built and `nil` returned -/
def ctxSendRawBeforeFix {σ : Type} (rs : RS σ) (s : σ) (d : Peer) : σ × Res :=
  ((serverSend rs s d 1).1, .ok)

/-- `TreeNodeInstance.SendTo` + `Overlay.SendToTreeNode` -/
def sendTo {σ : Type} (rs : RS σ) (s : σ) (t : Tni) (to : Option Peer) : Out σ :=
  match to with
  | none => ⟨s, t, 1, []⟩                       -- "Sent to a nil TreeNode"
  | some d =>
    if t.closing then ⟨s, t, 1, []⟩             -- "is closing"
    else
      let first := !t.sentTo.contains d
      -- `if !n.sentTo[to.ID] { c = n.config; n.sentTo[to.ID] = true }`
      let t' := if first then { t with sentTo := t.sentTo ++ [d] } else t
      -- `server.Send(to.ServerIdentity, confMsg, final)` / `server.Send(to.ServerIdentity, final)`
      let r := serverSend rs s d (if first && t.config then 2 else 1)
      ⟨r.1, t', r.2.n, [(d, r.2)]⟩

/-- `SendToParent` -/
def sendToParent {σ : Type} (rs : RS σ) (s : σ) (t : Tni) : Out σ :=
  match t.parent with
  | none => ⟨s, t, 0, []⟩                       -- `if n.IsRoot() { return nil }`
  | some p => sendTo rs s t (some p)

/-- the loop of `SendToChildren`: returns at the first error -/
def seqUntilErr {σ : Type} (rs : RS σ) (s : σ) (t : Tni) : List Peer → Out σ
  | [] => ⟨s, t, 0, []⟩
  | d :: l =>
    let o := sendTo rs s t (some d)
    if o.errs = 0 then
      let o2 := seqUntilErr rs o.st o.tni l
      ⟨o2.st, o2.tni, o2.errs, o.calls ++ o2.calls⟩
    else o

/-- `SendToChildren` (a leaf has no children: nothing happens) -/
def sendToChildren {σ : Type} (rs : RS σ) (s : σ) (t : Tni) : Out σ := seqUntilErr rs s t t.children

/-- the loop of `Multicast` / `Broadcast`, and the goroutines of `SendToChildrenInParallel` in
the order in which they run: every destination is tried, every error is kept -/
def sendAll {σ : Type} (rs : RS σ) (s : σ) (t : Tni) : List Peer → Out σ
  | [] => ⟨s, t, 0, []⟩
  | d :: l =>
    let o := sendTo rs s t (some d)
    let o2 := sendAll rs o.st o.tni l
    ⟨o2.st, o2.tni, o.errs + o2.errs, o.calls ++ o2.calls⟩

/-- `Multicast(msg, nodes...)` -/
def multicast {σ : Type} (rs : RS σ) (s : σ) (t : Tni) (nodes : List Peer) : Out σ := sendAll rs s t nodes

/-- `Broadcast(msg)` -/
def broadcast {σ : Type} (rs : RS σ) (s : σ) (t : Tni) : Out σ := sendAll rs s t t.others

/-- `SendToChildrenInParallel(msg)`; `sched` is the order in which the goroutines get to run — a
permutation of the children, chosen by the scheduler -/
def sendToChildrenInParallel {σ : Type} (rs : RS σ) (s : σ) (t : Tni) (sched : List Peer) : Out σ :=
  sendAll rs s t sched

/-! ### the moment of tree propagation: a message over a tree the server does not know
`overlay.go:150-175` (`TransmitMsg`) and `333-371` (`requestTree`): the message is parked; unless a
request for that tree is out already, the tree id is marked as asked for and a request goes to the
sender of the message through the router; **if that send fails the mark is taken back**, so that
the next message over the tree asks again.  `handleSendTree` (`overlay.go:505-545`): a tree that was
asked for is stored and the messages parked for it are handed to their instances. -/

structure Trees where
  /-- trees in the store -/
  known : List Nat := []
  /-- ids marked as asked for (`treeStorage.Register`) -/
  asked : List Nat := []
  /-- parked messages: (tree, message), in order of arrival -/
  parked : List (Nat × Nat) := []
  /-- ghost: messages handed to protocol instances, in order -/
  handled : List (Nat × Nat) := []
  deriving DecidableEq, Repr

/-- a protocol message `m` over tree `t` arrives from peer `p`.  `fixed = false`: the variant in
which the mark stays after a failed request. -/
def transmit {σ : Type} (fixed : Bool) (rs : RS σ) (s : σ) (o : Trees) (p : Peer) (t m : Nat) : σ × Trees × Res :=
  if o.known.contains t then (s, { o with handled := o.handled ++ [(t, m)] }, .ok)
  else
    let o := { o with parked := o.parked ++ [(t, m)] }
    if o.asked.contains t then (s, o, .ok)          -- "request already sent"
    else
      let r := rs s p 1                              -- `o.server.Send(si, msg)` with the mark set
      match r.2 with
      | .ok => (r.1, { o with asked := o.asked ++ [t] }, .ok)
      | .err => (r.1, if fixed then o else { o with asked := o.asked ++ [t] }, .err)

/-- the tree arrives: accepted only if it was asked for; stored, its parked messages handled -/
def treeArrives (o : Trees) (t : Nat) : Trees :=
  if o.asked.contains t then
    { known := o.known ++ [t], asked := o.asked.filter (· != t),
      parked := o.parked.filter (·.1 != t), handled := o.handled ++ o.parked.filter (·.1 == t) }
  else o

end C09
