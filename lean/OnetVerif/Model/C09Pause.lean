/-! Model for property C09, fifth part — the router's pause gate (`network/router.go`: `Pause` 187-193,
`Unpause` 198-205, the gate in `handleConn` 462-473, `Stop` 266-268 which calls `Unpause` first), core-only.

`r.paused` is a channel or nil.  `Pause` makes a channel when there is none; `Unpause` closes the channel
and resets the field — both inside one region of the router's lock.  Every receive loop reads the field
(under the lock) each time its `Receive` comes back; if there is a channel it waits on **that** channel and,
once it is closed, returns (the deferred clean-up closes the connection and removes the entry; nobody is
told, and the packet that `Receive` had returned is dropped).

`fixed = false` is the code before the round-7 repair: a loop that has been woken writes `r.paused = nil`
once more (in a lock region of its own) before it returns.  If a second `Pause` has come in between, that
write erases the *new* channel: loops that have already read it wait on a channel that neither `Unpause`
nor `Stop` will ever close.

Channels are numbered in the order `Pause` makes them.  Unboundedly many loops, any schedule. -/
namespace C09

inductive GatePc where
  /-- in `c.Receive()` -/
  | recv
  /-- read `r.paused = ch`, blocked in `<-ch` -/
  | wait (ch : Nat)
  /-- (old code) past `<-ch`, before `r.Lock(); r.paused = nil` -/
  | woken (ch : Nat)
  /-- returned; the deferred clean-up has run -/
  | exited
  deriving DecidableEq, Repr

structure Gate where
  /-- `r.paused` -/
  paused : Option Nat := none
  /-- number of channels made so far -/
  next : Nat := 0
  /-- the channels `Unpause` has closed -/
  closedCh : List Nat := []
  loops : List GatePc := []
  deriving DecidableEq, Repr

inductive GateAct where
  /-- `launchHandleRoutine`: one more receive loop -/
  | launch
  /-- `Router.Pause()` -/
  | pause
  /-- `Router.Unpause()` (also the first thing `Router.Stop` does) -/
  | unpause
  /-- the `Receive` of loop `i` came back (a packet or an error): it reads `r.paused` -/
  | received (i : Nat)
  /-- `<-ch` of loop `i` returns: possible once `ch` is closed -/
  | wake (i : Nat)
  /-- (old code) loop `i`: `r.Lock(); r.paused = nil; r.Unlock(); return` -/
  | reset (i : Nat)
  deriving DecidableEq, Repr

/-- `none`: the act is not enabled -/
def gateStep (fixed : Bool) (s : Gate) : GateAct → Option Gate
  | .launch => some { s with loops := s.loops ++ [.recv] }
  | .pause =>
    match s.paused with
    | some _ => some s
    | none => some { s with paused := some s.next, next := s.next + 1 }
  | .unpause =>
    match s.paused with
    | some ch => some { s with paused := none, closedCh := ch :: s.closedCh }
    | none => some s
  | .received i =>
    if s.loops[i]? = some .recv then
      match s.paused with
      | some ch => some { s with loops := s.loops.set i (.wait ch) }
      | none => some s        -- not paused: the iteration goes on (`Model/C09Recv.lean`)
    else none
  | .wake i =>
    match s.loops[i]? with
    | some (.wait ch) =>
      if s.closedCh.contains ch then some { s with loops := s.loops.set i (if fixed then .exited else .woken ch) }
      else none
    | _ => none
  | .reset i =>
    match s.loops[i]? with
    | some (.woken _) => some { s with paused := none, loops := s.loops.set i .exited }
    | _ => none

def gateRun (fixed : Bool) (s : Gate) : List GateAct → Gate
  | [] => s
  | a :: as => match gateStep fixed s a with
    | some s' => gateRun fixed s' as
    | none => gateRun fixed s as

/-- a loop that waits on a channel nobody holds any more and nobody has closed: it can never go on -/
def GatePc.stranded (s : Gate) : GatePc → Bool
  | .wait ch => !s.closedCh.contains ch && s.paused != some ch
  | _ => false

/-! ### the harness's script (`harness/cmd/onetharness/c10pause.go`): three loops a, b, c = 0, 1, 2 -/

structure Pg where
  g : Gate := { loops := [.recv, .recv, .recv] }
  /-- loops held right after their `Receive` came back (`h<x>`) -/
  held : List Nat := []
  out : List String := []
  deriving Repr

/-- every loop whose wake-up is enabled takes it (the repaired code: a wake-up changes nothing but the loop) -/
def wakeAll (s : Gate) : Gate :=
  (List.range s.loops.length).foldl (fun s i => (gateStep true s (.wake i)).getD s) s

def pgPeer : String → Option Nat
  | "a" => some 0 | "b" => some 1 | "c" => some 2 | _ => none

/-- loop `i` comes back from `Receive` with a message: dispatched, or — paused — dropped at the gate -/
def pgReceived (st : Pg) (i : Nat) : Pg :=
  match st.g.paused with
  | none => { st with out := st.out ++ ["disp"] }
  | some _ => { st with g := (gateStep true st.g (.received i)).getD st.g, out := st.out ++ ["gate"] }

def pgTok (st : Pg) (tok : String) : Option Pg :=
  if tok = "P" then some { st with g := (gateStep true st.g .pause).getD st.g, out := st.out ++ ["ok"] }
  else if tok = "U" then some { st with g := wakeAll ((gateStep true st.g .unpause).getD st.g), out := st.out ++ ["ok"] }
  else match pgPeer tok with
    | some i => if st.g.loops[i]? = some .recv ∧ !st.held.contains i then some (pgReceived st i) else none
    | none =>
      match pgPeer (tok.drop 1).toString with
      | some i =>
        if tok.startsWith "h" ∧ tok.length = 2 then
          if st.g.loops[i]? = some .recv ∧ !st.held.contains i then some { st with held := st.held ++ [i], out := st.out ++ ["held"] } else none
        else if tok.startsWith "r" ∧ tok.length = 2 then
          if st.held.contains i then some (pgReceived { st with held := st.held.filter (· != i) } i) else none
        else none
      | none => none

/-- the whole script, then `Router.Stop` (it begins with `Unpause`; closing the connections makes every other
loop come back from `Receive` and see `r.Closed()`): `stop=hang` iff a loop is left at the gate -/
def pgRun (script : String) : Option String :=
  match (script.splitOn ".").foldlM pgTok ({} : Pg) with
  | none => none
  | some st =>
    let g := wakeAll ((gateStep true st.g .unpause).getD st.g)
    let stuck := g.loops.any fun pc => match pc with | .wait _ => true | _ => false
    some (",".intercalate (st.out ++ [if stuck then "stop=hang" else "stop=ret"]))

end C09
