import OnetVerif.Model.Util
/-! Model for property C17 — valid-peer sets decide exactly who may connect (core-only).

* `network/router.go:62-146`: `validPeers` (`peers map[PeerSetID]peerSet`, nil map = "everybody
  is valid"), `set`, `get`, `isValid`.
* `network/router.go:208-245`: the accept path — identity exchange, validity test, register,
  launch the receive loop; `router.go:359-381`: connections this router opens itself (no test).
* `context.go:311-336`: the service-facing wrappers and the derivation of a set id from the
  service id and the caller's bytes.

An identity received from the wire has two **independent** fields the sender controls: the public
key (authenticated only over TLS) and the deprecated `ID` field.  The id of a peer is the id of its
key (`GetID()`); the model keeps track of which field every test reads.
-/
namespace C17

/-- a public key -/
abbrev Key := Nat
/-- `ServerIdentityID` -/
abbrev PeerId := Nat
/-- `PeerSetID` (32 bytes); for ids made by a service context: the pre-image of the hash -/
abbrev SetId := List Nat

/-- `ServerIdentity.GetID()`: a UUIDv5 of the key's text — modelled by its pre-image -/
def idOfKey (k : Key) : PeerId := k

/-- a `ServerIdentity` as far as the filter can see it -/
structure Ident where
  key : Key
  /-- the deprecated, wire-supplied `ID` field -/
  idField : PeerId
  deriving DecidableEq, Repr

def Ident.getID (i : Ident) : PeerId := idOfKey i.key

/-- `NewServerIdentity`: the field is filled with the id of the key -/
def Ident.honest (k : Key) : Ident := ⟨k, idOfKey k⟩

/-- `validPeers.peers`: `none` = nil map -/
abbrev VP := Option (List (SetId × List PeerId))

/-- `validPeers.set` (router.go:91-108): a fresh set of the ids **of the keys** (the C17 fix: was
the `ID` field) replaces the entry `id`; the map is created on first use. -/
def VP.set (vp : VP) (id : SetId) (peers : List Ident) : VP :=
  some ((id, peers.map Ident.getID) :: (vp.getD []).filter (fun e => e.1 != id))

/-- `validPeers.get` (router.go:111-126): nil while uninitialised, else the members of the set
(empty for an id never set) -/
def VP.get (vp : VP) (id : SetId) : Option (List PeerId) :=
  match vp with
  | none => none
  | some m => some ((m.lookup id).getD [])

/-- `validPeers.isValid` (router.go:129-150): everybody while uninitialised, else membership of
the id **of the key** in any of the sets -/
def VP.isValid (vp : VP) (p : Ident) : Bool :=
  match vp with
  | none => true
  | some m => m.any (fun e => e.2.contains p.getID)

/-- the same test on the wire-supplied field — the code before the fix (kept for the witness) -/
def VP.isValidByField (vp : VP) (p : Ident) : Bool :=
  match vp with
  | none => true
  | some m => m.any (fun e => e.2.contains p.idField)

/-- `NewPeerSetID(data)` (router.go:73-79): `copy` into a 32-byte array — pads with zeros, cuts
what is longer -/
def newPeerSetID (data : List Nat) : SetId := (data ++ List.replicate 32 0).take 32

/-- `Context.NewPeerSetID(data)` (context.go:329-336): `sha256(serviceID ‖ data)` — its pre-image;
the service id is a 16-byte UUID -/
def ctxPeerSetID (serviceID data : List Nat) : SetId := serviceID ++ data

/-! ### the router around the filter -/

/-- why a registered connection exists (ghost information, only read by the theorems) -/
inductive Origin where
  /-- the peer offered it and passed the test against this table -/
  | offered (vpThen : VP)
  /-- this router dialled it itself (`connect`): never tested -/
  | dialled
  deriving DecidableEq, Repr

structure Conn where
  peer : Ident
  origin : Origin
  deriving DecidableEq, Repr

structure State where
  vp : VP := none
  /-- `r.connections`, keyed by `remote.GetID()` -/
  conns : List Conn := []
  deriving DecidableEq, Repr

inductive Op where
  /-- `SetValidPeers(id, peers)` (router or service context) -/
  | setPeers (id : SetId) (peers : List Ident)
  /-- `GetValidPeers(id)` -/
  | getPeers (id : SetId)
  /-- a peer connects and sends its identity, then a message `m` -/
  | offer (p : Ident) (m : Nat)
  /-- a message arrives from the peer with this key over a connection that exists already -/
  | msg (k : Key) (m : Nat)
  /-- this router opens a connection to `p` (sending to it) -/
  | dial (p : Ident)
  /-- the connections with the peer of this key end -/
  | drop (k : Key)
  deriving Repr

inductive Obs where
  | done
  | peers (r : Option (List PeerId))
  /-- the connection was registered and the message handed to the dispatcher, attributed to `p` -/
  | dispatched (p : Ident) (m : Nat)
  /-- the connection was closed, nothing registered, nothing dispatched -/
  | refused
  /-- no connection with that peer: nothing can arrive -/
  | noConn
  deriving DecidableEq, Repr

def step (s : State) : Op → State × Obs
  | .setPeers id peers => ({ s with vp := s.vp.set id peers }, .done)
  | .getPeers id => (s, .peers (s.vp.get id))
  | .offer p m =>
    -- router.go:225-244: test, then register, then the receive loop dispatches
    if s.vp.isValid p then
      ({ s with conns := s.conns ++ [{ peer := p, origin := .offered s.vp }] }, .dispatched p m)
    else (s, .refused)
  | .msg k m =>
    match s.conns.find? (fun c => c.peer.key == k) with
    | some c => (s, .dispatched c.peer m)
    | none => (s, .noConn)
  | .dial p => ({ s with conns := s.conns ++ [{ peer := p, origin := .dialled }] }, .done)
  | .drop k => ({ s with conns := s.conns.filter (fun c => c.peer.key != k) }, .done)

def run (s : State) : List Op → State × List Obs
  | [] => (s, [])
  | op :: l =>
    let r := step s op
    let r' := run r.1 l
    (r'.1, r.2 :: r'.2)

end C17
