import OnetVerif.Model.C17Table
import OnetVerif.Model.C17Accept
import OnetVerif.Model.C17Tls
import OnetVerif.Model.C17Dial
/-! Model for property C17 — line-protocol front end.  The table, the identities and the sequential
router are in `Model/C17Table.lean`, the accept path as a transition system in `Model/C17Accept.lean`. -/
namespace C17

/-! ### line-protocol driver -/
namespace Drv

/-- the router's state and, while a `SetValidPeers` call is held before it has taken effect, the
set it is about to install -/
structure State where
  st : C17.State := {}
  pending : Option (SetId × List Ident) := none
  /-- the accept path driven act by act (`aconn`, `aident`, …); its table is kept equal to `st.vp` -/
  acc : Acc.State := {}
  /-- the dialling side driven act by act (`ddial`, `dreg`, `dlaunch`, `dmsg`); table and closed flag follow `st` / `acc` -/
  dial : Dial.State := {}

def init : State := {}

/-- `<key>:<id field>`; `<key>` alone is the honest identity -/
def parseIdent (s0 : String) : Option Ident :=
  -- a trailing `!` marks the identity whose id derivation the harness holds (`sethold`)
  let s := if s0.endsWith "!" then (s0.dropEnd 1).toString else s0
  match s.splitOn ":" with
  | [k] => k.toNat?.map Ident.honest
  | [k, f] => match k.toNat?, f.toNat? with
    | some k, some f => some ⟨k, f⟩
    | _, _ => none
  | _ => none

def parseIdents (s : String) : Option (List Ident) :=
  if s = "-" then some [] else (s.splitOn ",").mapM parseIdent

/-- `r<hex>` = `NewPeerSetID(data)`; `c<service>/<hex>` = `Context.NewPeerSetID(data)` of that
service (the service number stands for its 16-byte id); `x<service>/<hex>` = `NewPeerSetID(data)`, used through
that service's `Context` -/
def parseSetId (s : String) : Option SetId :=
  if s.startsWith "r" then (Util.unhex (s.drop 1).toString).map newPeerSetID
  else if s.startsWith "c" then
    match (s.drop 1).toString.splitOn "/" with
    | [svc, d] => match svc.toNat?, Util.unhex d with
      | some svc, some d => some (ctxPeerSetID (List.replicate 16 (svc + 1000)) d)
      | _, _ => none
    | _ => none
  else if s.startsWith "x" then
    -- `Context.SetValidPeers / GetValidPeers` of service `svc` with an identifier made by `network.NewPeerSetID`:
    -- the wrappers (context.go:311-326) hand the identifier on as it is, so this is the set `r<hex>`
    match (s.drop 1).toString.splitOn "/" with
    | [svc, d] => match svc.toNat?, Util.unhex d with
      | some _, some d => some (newPeerSetID d)
      | _, _ => none
    | _ => none
  else none

def insertSorted (x : Nat) : List Nat → List Nat
  | [] => [x]
  | y :: l => if x < y then x :: y :: l else if x = y then y :: l else y :: insertSorted x l

/-- a set read back, as a sorted duplicate-free list (the code returns map keys in map order) -/
def canon (l : List Nat) : List Nat := l.foldr insertSorted []

def showObs : Obs → String
  | .done => "ok"
  | .peers none => "nil"
  | .peers (some l) => "set:" ++ Util.showNatList (canon l)
  | .dispatched p m => s!"dispatched:{p.key}:{m}"
  | .refused => "refused"
  | .noConn => "noconn"

/--
* `open <tcp|local|tls>` — a fresh filtering server on that transport (the model does not depend on it)
* `offercert <signer> <cn> <uri|-> <signed name> <ident> <m>` — TLS only, see `Model/C17Tls.lean`
* `set <setid> <idents>` / `get <setid>`
* `offer <ident> <m>` — a fresh connection by a peer with that key and that `ID` field, then message m
* `msg <key> <m>` — message m over the existing connection of that peer
* `dial <ident>` — the filtering router sends to the peer (opens the connection itself)
* `drop <key>`
* `sethold <setid> <idents>` — a `SetValidPeers` call that is held while it derives the id of the
  identity marked `!` (before its lock region, `router.go:96-106`): nothing has changed yet;
  `release` lets it finish. `validPeers.lock` makes `set`, `get` and `isValid` atomic, so whatever
  runs in between sees the table as it was before the call.

The accept path act by act (`Model/C17Accept.lean`), on raw connections numbered 0, 1, … in the order
they are opened; `set` / `get` / `sethold` / `release` and everything above may come in between:
* `aconn <c>` — a peer connects and writes nothing yet (`c` must be the next number)
* `aident <c> <ident>` — it writes that identity; the server reads it and tests it: `valid` (the
  server's goroutine now stands before `registerConnection`) or `refused`
* `afirst <c> <m>` — it writes an application message first instead: `iderr`
* `areg <c>` — `registerConnection`: `registered`;  `alaunch <c>` — `launchHandleRoutine`, and the receive
  loop reads what is waiting: `launched:<messages dispatched, or ->`
* `amsg <c> <m>` — the peer writes message m: `dispatched:<key>:<m>` when the loop runs, `queued` while the
  server's goroutine stands before registration or launch, `closed` when the server closed the connection
* `areident <c> <ident>` — the peer writes one more identity message on a connection that is served:
  `ignored` (nothing is dispatched; later messages keep the identity that was tested)
* `agone <c>` — the peer closes its end
* `ddial <d> <ident>` / `dreg <d>` / `dlaunch <d>` / `dmsg <d> <m>` — the dialling side act by act (`Model/C17Dial.lean`): the
  router sends to a new peer and its `connect` is held before `registerConnection` (`connected`), then before
  `launchHandleRoutine` (`registered`), then the send completes (`launched`); after `astop`: `closed`
* `astop` — `Router.Stop` (once; afterwards no `aconn`): the receive loops end; `areg` / `alaunch` of a connection
  whose goroutine stood before registration / launch answer `closed`, messages are `queued` or `closed`, never dispatched
-/
def stepCore (s : State) (toks : List String) : State × String :=
  let go (op : Option Op) : State × String :=
    match op with
    | none => (s, "bad-op")
    | some op => let r := C17.step s.st op; ({ s with st := r.1 }, showObs r.2)
  match toks with
  | ["open", tr] => if tr = "tcp" || tr = "local" || tr = "tls" then (init, "ok") else (s, "bad-op")
  | ["offercert", sg, cn, uri, nm, p, m] =>
    -- a connection offered to a TLS listener by a peer the harness builds from crypto/tls: the private key it
    -- holds (`sg`), the keys its certificate names in the CommonName / the URI, the name under its signature,
    -- the identity message it sends, one message; the peer leaves afterwards (nothing stays in the table)
    match sg.toNat?, cn.toNat?, (if uri = "-" then some none else uri.toNat?.map some), nm.toNat?, parseIdent p, m.toNat? with
    | some sg, some cn, some uri, some nm, some p, some m =>
      (s, match Tls.offer false s.st.vp { cn := cn, uri := uri, signer := sg, signedName := nm } p with
        | .dispatched => s!"dispatched:{p.key}:{m}"
        | _ => "refused")
    | _, _, _, _, _, _ => (s, "bad-op")
  | ["sethold", id, ps] =>
    match s.pending, parseSetId id, parseIdents ps with
    | none, some id, some ps => ({ s with pending := some (id, ps) }, "held")
    | _, _, _ => (s, "bad-op")
  | ["release"] =>
    match s.pending with
    | some (id, ps) => ({ s with st := (C17.step s.st (.setPeers id ps)).1, pending := none }, "ok")
    | none => (s, "bad-op")
  | ["set", id, ps] => go (do let id ← parseSetId id; let ps ← parseIdents ps; pure (.setPeers id ps))
  | ["get", id] => go ((parseSetId id).map .getPeers)
  | ["offer", p, m] => go (do let p ← parseIdent p; let m ← m.toNat?; pure (.offer p m))
  | ["msg", k, m] => go (do let k ← k.toNat?; let m ← m.toNat?; pure (.msg k m))
  | ["dial", p] => go ((parseIdent p).map .dial)
  | ["drop", k] => go (k.toNat?.map .drop)
  | ["ddial", dn, p] =>
    -- the router sends to a new peer: its `connect` stands before `registerConnection`
    match dn.toNat?, parseIdent p with
    | some dn, some p =>
      if dn = s.dial.thrs.length ∧ s.acc.closed = false then ({ s with dial := Dial.step s.dial (.dial p) }, "connected")
      else (s, "bad-op")
    | _, _ => (s, "bad-op")
  | ["dreg", dn] =>
    match dn.toNat? with
    | some dn =>
      match s.dial.thrs[dn]? with
      | some t =>
        if t.ph = .fresh then
          let d := Dial.step s.dial (.register dn)
          ({ s with dial := d }, match d.thrs[dn]? with | some t' => if t'.ph = .registered then "registered" else "closed" | none => "?")
        else (s, "bad-op")
      | none => (s, "bad-op")
    | none => (s, "bad-op")
  | ["dlaunch", dn] =>
    match dn.toNat? with
    | some dn =>
      match s.dial.thrs[dn]? with
      | some t =>
        if t.ph = .registered then
          let d := Dial.step s.dial (.launch dn)
          match d.thrs[dn]? with
          | some t' =>
            if t'.ph = .running then
              -- from now on the sequential router knows the connection too (`msg <key>` finds it)
              ({ s with dial := d, st := (C17.step s.st (.dial t.peer)).1 }, "launched")
            else ({ s with dial := d }, "closed")
          | none => (s, "?")
        else (s, "bad-op")
      | none => (s, "bad-op")
    | none => (s, "bad-op")
  | ["dmsg", dn, m] =>
    match dn.toNat?, m.toNat? with
    | some dn, some m =>
      match s.dial.thrs[dn]? with
      | some t =>
        if t.ph = .running ∧ s.dial.closed = false then
          ({ s with dial := Dial.step s.dial (.recv dn m) }, s!"dispatched:{t.peer.key}:{m}")
        else (s, "bad-op")
      | none => (s, "bad-op")
    | _, _ => (s, "bad-op")
  | ["aconn", c] =>
    -- the listener of a stopped router is closed: nobody connects any more
    if c.toNat? = some s.acc.conns.length ∧ s.acc.closed = false then ({ s with acc := Acc.step s.acc .connect }, "ok")
    else (s, "bad-op")
  | ["astop"] =>
    -- `Router.Stop`: `isClosed` is set and the registered connections are closed, so every receive loop takes
    -- its next turn at once and ends; goroutines that stand before registration or launch find out when they go on
    if s.acc.closed then (s, "bad-op")
    else
      let a := Acc.step s.acc .stop
      ({ s with acc := Acc.run a ((List.range a.conns.length).map .recv) }, "ok")
  | ["aident", c, p] =>
    match c.toNat?, parseIdent p with
    | some c, some p =>
      if Acc.phaseOf s.acc c = some .waitId ∧ (s.acc.conns[c]?.map (·.peerOpen)) = some true then
        let a := Acc.run s.acc [.peerSend c (.ident p), .recvId c, .check c]
        ({ s with acc := a }, match Acc.phaseOf a c with
          | some (.checked _ _) => "valid" | some (.closed .refused) => "refused" | _ => "?")
      else (s, "bad-op")
    | _, _ => (s, "bad-op")
  | ["afirst", c, m] =>
    match c.toNat?, m.toNat? with
    | some c, some m =>
      if Acc.phaseOf s.acc c = some .waitId ∧ (s.acc.conns[c]?.map (·.peerOpen)) = some true then
        let a := Acc.run s.acc [.peerSend c (.msg m), .recvId c]
        ({ s with acc := a }, match Acc.phaseOf a c with | some (.closed .idErr) => "iderr" | _ => "?")
      else (s, "bad-op")
    | _, _ => (s, "bad-op")
  | ["areg", c] =>
    match c.toNat? with
    | some c =>
      match Acc.phaseOf s.acc c with
      | some (.checked _ _) =>
        let a := Acc.step s.acc (.register c)
        ({ s with acc := a }, match Acc.phaseOf a c with | some (.registered _ _) => "registered" | _ => "closed")
      | _ => (s, "bad-op")
    | none => (s, "bad-op")
  | ["alaunch", c] =>
    match c.toNat? with
    | some c =>
      match Acc.phaseOf s.acc c, s.acc.conns[c]? with
      | some (.registered _ _), some cn =>
        -- launch, then one turn of the loop per message that is waiting (and one more for the end of
        -- the stream when the peer has gone)
        let a := Acc.run s.acc (.launch c :: List.replicate (cn.inbox.length + 1) (.recv c))
        let got := (a.log.drop s.acc.log.length).map fun e => e.2.2
        ({ s with acc := a }, match Acc.phaseOf (Acc.step s.acc (.launch c)) c with
          | some (.running _ _) => "launched:" ++ (if got.isEmpty then "-" else Util.showNatList got)
          | _ => "closed")
      | _, _ => (s, "bad-op")
    | none => (s, "bad-op")
  | ["amsg", c, m] =>
    match c.toNat?, m.toNat? with
    | some c, some m =>
      match s.acc.conns[c]? with
      | some cn =>
        if !cn.peerOpen then (s, "bad-op") else
        match cn.phase with
        | .waitId | .gotId _ => (s, "bad-op")
        | .checked _ _ | .registered _ _ => ({ s with acc := Acc.step s.acc (.peerSend c (.msg m)) }, "queued")
        | .closed _ => ({ s with acc := Acc.step s.acc (.peerSend c (.msg m)) }, "closed")
        | .running p _ =>
          let a := Acc.run s.acc [.peerSend c (.msg m), .recv c]
          ({ s with acc := a }, if a.log.length = s.acc.log.length + 1 then s!"dispatched:{p.key}:{m}" else "lost")
      | none => (s, "bad-op")
    | _, _ => (s, "bad-op")
  | ["areident", c, p] =>
    match c.toNat?, parseIdent p with
    | some c, some p =>
      match s.acc.conns[c]? with
      | some cn =>
        if !cn.peerOpen then (s, "bad-op") else
        match cn.phase with
        | .running _ _ =>
          let a := Acc.run s.acc [.peerSend c (.ident p), .recv c]
          ({ s with acc := a }, if a.log.length = s.acc.log.length then "ignored" else "dispatched")
        | _ => (s, "bad-op")
      | none => (s, "bad-op")
    | _, _ => (s, "bad-op")
  | ["agone", c] =>
    match c.toNat? with
    | some c =>
      match s.acc.conns[c]? with
      | some cn =>
        if !cn.peerOpen then (s, "bad-op") else
        -- the server's goroutine notices where it is reading: in the identity exchange or in the loop
        ({ s with acc := Acc.run s.acc [.peerClose c, .recvId c, .recv c] }, "ok")
      | none => (s, "bad-op")
    | none => (s, "bad-op")
  | _ => (s, "bad-op")

/-- one line; the accept path's copy of the table follows the router's -/
def step (s : State) (toks : List String) : State × String :=
  let r := stepCore s toks
  ({ r.1 with acc := { r.1.acc with vp := r.1.st.vp },
              dial := { r.1.dial with vp := r.1.st.vp, closed := r.1.acc.closed } }, r.2)

end Drv

end C17
