import OnetVerif.Model.Util
import OnetVerif.Model.C02
import OnetVerif.Model.C04
import OnetVerif.Model.C06
import OnetVerif.Model.C09Recv
import OnetVerif.Model.C11Store
/-! Differential operations for the functions of /repo that `harness/cmd/go2lean` re-translates (class
`translated-functions` of the properties' harnesses, `harness/cmd/onetharness/c*ztf.go`).  A line `tf <cxx> <function>
<arguments>` asks for the value the **hand-written model** of that property gives on the arguments — the models of
`Model/Cxx.lean` where they have the function, the specification the property's `Props/CxxGen.lean` proves the
translated definition equal to where they inline it.  The harness calls the real function on the same arguments and
has a reference answer of its own (the oracle), so a change of a translated function shows as a concrete failing
input and not only as a broken equivalence theorem.  Stateless, core-only; unparsable lines are `bad-op`. -/
namespace TF

/-- an identity as `ServerIdentity.Equal` sees it: `n` the nil pointer, `k-` no public key, `k<num>` the key `num` -/
def ident? (s : String) : Option (Option (Option Nat)) :=
  if s = "n" then some none
  else if s = "k-" then some (some none)
  else if s.startsWith "k" then ((s.drop 1).toString.toNat?).map fun k => some (some k)
  else none

/-- `ServerIdentity.Equal` as property C02 reads it: only the keys are compared, a missing identity or key equals
nothing (`c02_gen_Equal_keys`, `c02_gen_Equal_nil`; the model's `verify` tests `n.server = p`) -/
def equal (a b : Option (Option Nat)) : Bool :=
  match a, b with
  | some (some x), some (some y) => x == y
  | _, _ => false

/-- `t:w,t:w` or `-`: a flag table -/
def flags? (s : String) : Option (List (Nat × Nat)) :=
  if s = "-" then some [] else
  (s.splitOn ",").mapM fun e =>
    match e.splitOn ":" with
    | [t, w] => match t.toNat?, w.toNat? with
      | some t, some w => some (t, w)
      | _, _ => none
    | _ => none

/-- `hasFlag(mt, f)` as property C04 reads it: the stored word (0 for a type never registered) has a bit of `f`
(`c04_gen_hasFlag_spec`; `Reg.flags` is this for `f = AggregateMessages`) -/
def hasFlag (tbl : List (Nat × Nat)) (mt f : Nat) : Bool := Nat.land ((tbl.lookup mt).getD 0) f != 0

/-- one operation on a tree store: `r<id>` Register, `u<id>` Unregister, `s<id>` Set of a tree with that id -/
inductive StoreOp where
  | reg (id : Nat) | unreg (id : Nat) | set (id : Nat)

def storeOp? (s : String) : Option StoreOp :=
  match s.toList with
  | 'r' :: r => (String.ofList r).toNat?.map .reg
  | 'u' :: r => (String.ofList r).toNat?.map .unreg
  | 's' :: r => (String.ofList r).toNat?.map .set
  | _ => none

def storeOps? (s : String) : Option (List StoreOp) :=
  if s = "-" then some [] else (s.splitOn ",").mapM storeOp?

/-- the store of property C06 (`Ovl.store` with `localStep`: `request` = Register, `unrequest` = Unregister,
`setTree` = Set) after the operations; per id 0..5: `a`bsent, re`q`uested, `p`resent -/
def c06Store (ops : List StoreOp) : String :=
  let o : C06.Ovl := ops.foldl (fun o op =>
    match op with
    | .reg id => C06.localStep o (.request id)
    | .unreg id => C06.localStep o (.unrequest id)
    | .set id => o.setTree { id := id, roster := none, root := .nil }) {}
  String.ofList ((List.range 6).map fun id =>
    if o.isRequested id then 'q' else if o.isRegistered id then 'p' else 'a')

/-- the same on the slots of property C11 (`C11.Store.step1`, every id on its own) -/
def c11Store (ops : List StoreOp) : String :=
  String.ofList ((List.range 6).map fun id =>
    let s : C11.Store.St1 := ops.foldl (fun s op =>
      match op with
      | .reg i => if i = id then C11.Store.step1 s .register else s
      | .unreg i => if i = id then C11.Store.step1 s .unregister else s
      | .set i => if i = id then C11.Store.step1 s (.set 0) else s) {}
    match s.slot with
    | .absent => 'a' | .requested => 'q' | .present _ => 'p')

/-- `Roster.Search` of property C06 on a roster whose entries carry these `ID` fields: the position, `-1` if none -/
def c06Search (ids : List Nat) (sid : Nat) : String :=
  match C06.search (ids.map fun i => { sid := i, key := i }) sid with
  | some (i, _) => toString i
  | none => "-1"

/-- `Roster.Get` of property C06 on a roster whose entries carry these `ID` fields: the position it hands back the
entry of, `nil` outside the list (`c06_gen_Roster_Get_spec`) -/
def c06Get (ids : List Nat) (idx : Int) : String :=
  if idx < 0 ∨ (ids.length : Int) ≤ idx then "nil" else toString idx.toNat

def int? (s : String) : Option Int :=
  match s.toList with
  | '-' :: r => if r.isEmpty then none else (String.ofList r).toNat?.map fun n => -(n : Int)
  | _ => s.toNat?.map fun n => (n : Int)

/-- seven observations `closed pipe cancel isEOF eofText netErr timeout` as 0/1; only vectors an error value can
have (`io.EOF` is itself: text "EOF", no `net.Error`; a timeout needs a `net.Error`) -/
def netErr? (s : String) : Option C09.NetErr :=
  match s.toList.map (· == '1'), s.toList.all (fun c => c == '0' || c == '1') with
  | [a, b, c, d, e, f, g], true =>
    if d && (a || b || c || !e || f || g) then none
    else if g && !f then none
    else some { closedText := a, pipeText := b, cancelText := c, isEOF := d, eofText := e, netErr := f, timeout := g }
  | _, _ => none

def showClass : C09.ErrClass → String
  | .closed => "closed" | .canceled => "canceled" | .eof => "eof" | .timeout => "timeout"
  | .unknown => "unknown" | .other => "other"

def step (toks : List String) : String :=
  match toks with
  | ["c02", "equal", a, b] =>
    match ident? a, ident? b with
    | some a, some b => toString (equal a b)
    | _, _ => "bad-op"
  | ["c04", "hasflag", tbl, mt, f] =>
    match flags? tbl, mt.toNat?, f.toNat? with
    | some tbl, some mt, some f => toString (hasFlag tbl mt f)
    | _, _, _ => "bad-op"
  | ["c06", "store", ops] =>
    match storeOps? ops with
    | some ops => c06Store ops
    | none => "bad-op"
  | ["c11", "store", ops] =>
    match storeOps? ops with
    | some ops => c11Store ops
    | none => "bad-op"
  | ["c06", "search", ids, sid] =>
    match (if ids = "-" then some [] else Util.natList ids), sid.toNat? with
    | some ids, some sid => c06Search ids sid
    | _, _ => "bad-op"
  | ["c06", "rosterget", ids, idx] =>
    match (if ids = "-" then some [] else Util.natList ids), int? idx with
    | some ids, some idx => c06Get ids idx
    | _, _ => "bad-op"
  | ["c09", "handleerror", bits] =>
    match netErr? bits with
    | some e => showClass (C09.handleError e)
    | none => "bad-op"
  | _ => "bad-op"

end TF
