import OnetVerif.Model.C06
/-! Property C06, two cooperating servers: the overlays of two servers (each a `C06.Ovl` with the handlers
and local actions of `Model/C06.lean`) and the control messages in flight between them.  A step is a local
action at one server, a tree request leaving a server (`TransmitMsg → requestTree`: marker, then a
`RequestTree` on its way to the other server — version 0 for a peer of an old release), the handling of
one message in flight (its replies travel back), the same without consuming it (a duplicate), or its
loss.  Any interleaving of these is a run.  Core-only, executable. -/
/-! The definitions (`Net`, `NetEv`, `netStep`, `netRun`, `Out.toMsg`, `emptyRoster`) live in `Model/C06.lean` since the line-protocol
driver runs them too (ops `n.*`); this module is kept as the place where the two-server model is described. -/
