import OnetVerif.Model.C06
/-! Property C06, two cooperating servers: the overlays of two servers (each a `C06.Ovl` with the handlers
and local actions of `Model/C06.lean`) and the control messages in flight between them.  A step is a local
action at one server, a tree request leaving a server (`TransmitMsg → requestTree`: marker, then a
`RequestTree` on its way to the other server — version 0 for a peer of an old release), the handling of
one message in flight (its replies travel back), the same without consuming it (a duplicate), or its
loss.  Any interleaving of these is a run.  Core-only, executable. -/
namespace C06

/-- `&Roster{}`: what `handleRequestRoster` sends when it knows no such roster -/
def emptyRoster : Roster := { id := 0, list := [] }

/-- a reply, as the message its addressee handles -/
def Out.toMsg : Out → Msg
  | .responseTree tm ro => .responseTree (some tm) ro
  | .treeMarshal tm => .treeMarshal tm
  | .requestRoster rid => .requestRoster rid
  | .roster ro => .sendRoster (ro.getD emptyRoster)

inductive Site where
  | A | B
  deriving DecidableEq, Repr

def Site.other : Site → Site
  | .A => .B
  | .B => .A

/-- the two overlays and, per server, the messages on their way to it -/
structure Net where
  ovl   : Site → Ovl
  inbox : Site → List Msg

def upd {α : Type} (f : Site → α) (s : Site) (v : α) : Site → α := fun s' => if s' = s then v else f s'

inductive NetEv where
  | loc (s : Site) (l : Local)
  | ask (s : Site) (id version : Nat)
  | deliver (s : Site) (i : Nat)
  | redeliver (s : Site) (i : Nat)
  | drop (s : Site) (i : Nat)

/-- `s` handles `m`; its replies are on their way to the other server -/
def Net.handleAt (n : Net) (s : Site) (m : Msg) (rest : List Msg) : Net :=
  let r := handle (n.ovl s) m
  let inbox := upd n.inbox s rest
  { ovl := upd n.ovl s r.1, inbox := upd inbox s.other (inbox s.other ++ r.2.map Out.toMsg) }

def netStep (n : Net) : NetEv → Net
  | .loc s l => { n with ovl := upd n.ovl s (localStep (n.ovl s) l) }
  | .ask s id v =>
    let o := n.ovl s
    { ovl := upd n.ovl s (localStep o (.reqSend id)),
      inbox := if o.wouldRequest id then upd n.inbox s.other (n.inbox s.other ++ [.requestTree id v]) else n.inbox }
  | .deliver s i =>
    match (n.inbox s)[i]? with
    | none => n
    | some m => n.handleAt s m ((n.inbox s).eraseIdx i)
  | .redeliver s i =>
    match (n.inbox s)[i]? with
    | none => n
    | some m => n.handleAt s m (n.inbox s)
  | .drop s i => { n with inbox := upd n.inbox s ((n.inbox s).eraseIdx i) }

def netRun (n : Net) (evs : List NetEv) : Net := evs.foldl netStep n

end C06
