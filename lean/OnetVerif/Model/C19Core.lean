import OnetVerif.Model.Util
/-! Model for property C19 — simulation statistics (`simul/monitor/stats.go`,
`bucket_stats.go`, `monitor.go`), as repaired by the `fix:` commits (reset of the accumulators on
every `Collect`, first value initialises `max`, `AverageStats` unlocks, `BucketStats.Set` is
all-or-nothing).

Core-only (no Mathlib): the driver instantiates the number type with `Float` (IEEE double, same
operation order as the Go code, so the comparison with `math.Float64bits` is bit-exact); the
theorems in `Props/C19.lean` instantiate it with an arbitrary linearly ordered field (ℚ, ℝ, …).

No outlier filter is configured (premise of the property): `Value.Filter` is the identity. -/
namespace C19

/-- the arithmetic the accumulator code uses, in the order the Go code uses it -/
class Num (α : Type) where
  add : α → α → α
  sub : α → α → α
  mul : α → α → α
  div : α → α → α
  ofNat : Nat → α
  lt : α → α → Bool
  sqrt : α → α

/-- order on measure names (`sort.Strings` on `Stats.keys`) -/
class KeyOrd (κ : Type) where
  lt : κ → κ → Bool

section generic
variable {α κ : Type}

/-- `type Value struct` (stats.go:346-365): the carried accumulators and the store -/
structure Value (α : Type) where
  n : Nat
  min : α
  max : α
  sum : α
  oldM : α
  newM : α
  oldS : α
  newS : α
  dev : α
  store : List α

variable [Num α]

/-- `float64` zero -/
def zero : α := Num.ofNat 0

/-- `NewValue(name)` / `new(Value)` -/
def Value.new : Value α :=
  { n := 0, min := zero, max := zero, sum := zero, oldM := zero, newM := zero, oldS := zero,
    newS := zero, dev := zero, store := [] }

/-- `Value.Store` (stats.go:377-381) -/
def Value.put (t : Value α) (x : α) : Value α := { t with store := t.store ++ [x] }

/-- the reset at the head of `Value.Collect` (the `fix:`; before it only `sum` was cleared) -/
def Value.reset (t : Value α) : Value α := { (Value.new : Value α) with store := t.store }

/-- one iteration of the loop of `Value.Collect` (stats.go:397-420) -/
def Value.step (t : Value α) (x : α) : Value α :=
  let mn := if Num.lt x t.min || t.n == 0 then x else t.min      -- `t.min > newTime || t.n == 0`
  let mx := if Num.lt t.max x || t.n == 0 then x else t.max      -- `t.max < newTime || t.n == 0`
  let n := t.n + 1                                               -- `t.n++`
  if n == 1 then
    { t with n := n, min := mn, max := mx, oldM := x, newM := x, oldS := zero,
             dev := Num.sqrt (Num.div t.newS (Num.ofNat (n - 1))), sum := Num.add t.sum x }
  else
    let newM := Num.add t.oldM (Num.div (Num.sub x t.oldM) (Num.ofNat n))
    let newS := Num.add t.oldS (Num.mul (Num.sub x t.oldM) (Num.sub x newM))
    { t with n := n, min := mn, max := mx, oldM := newM, newM := newM, oldS := newS, newS := newS,
             dev := Num.sqrt (Num.div newS (Num.ofNat (n - 1))), sum := Num.add t.sum x }

/-- `Value.Collect` -/
def Value.collect (t : Value α) : Value α := t.store.foldl Value.step t.reset

/-- `Value.Values()`: min, max, avg, sum, dev — the five CSV columns of a measure -/
def Value.values (t : Value α) : List α := [t.min, t.max, t.newM, t.sum, t.dev]

/-- `AverageValue` (stats.go:430-448) on values of one name: only the stores are joined -/
def averageValue (vs : List (Value α)) : Value α :=
  { (Value.new : Value α) with store := vs.flatMap (·.store) }

/-- `type Stats struct`: the static fields in `staticKeys` order, and `values` + `keys` as one
association list kept in key order (`keys` is re-sorted after every new name, stats.go:66-69) -/
structure Stats (κ α : Type) where
  static : List (String × String) := []
  vals : List (κ × Value α) := []

variable [KeyOrd κ] [DecidableEq κ]

/-- store `x` under `k`; a new name goes to its place in key order -/
def upsert (k : κ) (x : α) : List (κ × Value α) → List (κ × Value α)
  | [] => [(k, (Value.new : Value α).put x)]
  | (k', v) :: rest =>
    if k = k' then (k', v.put x) :: rest
    else if KeyOrd.lt k k' then (k, (Value.new : Value α).put x) :: (k', v) :: rest
    else (k', v) :: upsert k x rest

/-- `Stats.Update` (stats.go:56-71) -/
def Stats.update (s : Stats κ α) (k : κ) (x : α) : Stats κ α := { s with vals := upsert k x s.vals }

/-- `Stats.Value(name)` -/
def Stats.value (s : Stats κ α) (k : κ) : Option (Value α) := (s.vals.find? (·.1 = k)).map (·.2)

/-- `Stats.Collect` (stats.go:277-285), no filter configured -/
def Stats.collect (s : Stats κ α) : Stats κ α :=
  { s with vals := s.vals.map fun kv => (kv.1, kv.2.collect) }

/-- the numeric part of the line `WriteValues` writes: per measure, in key order, its five columns -/
def Stats.row (s : Stats κ α) : List (κ × List α) := s.vals.map fun kv => (kv.1, kv.2.values)

/-- `AverageStats` (stats.go:167-199): static fields and keys of the first result set; per key
the stores of all result sets that have it, joined in the order of the result sets -/
def averageStats : List (Stats κ α) → Stats κ α
  | [] => {}
  | s0 :: rest =>
    { static := s0.static,
      vals := s0.vals.map fun kv => (kv.1, averageValue ((s0 :: rest).filterMap (·.value kv.1))) }

/-- `bucketRule` (bucket_stats.go:10-16) -/
structure Rule where
  low : Int
  high : Int
  deriving DecidableEq, Repr

/-- `bucketRule.Match` -/
def Rule.matches (r : Rule) (i : Int) : Bool := decide (r.low ≤ i) && decide (i < r.high)

/-- `bucketRules.Match` (bucket_stats.go:51-65) -/
def rulesMatch (rr : List Rule) (host : Int) : Bool :=
  if host < 0 then false else rr.any (·.matches host)

/-- one entry of `BucketStats.rules` / `BucketStats.buckets` -/
structure Bucket (κ α : Type) where
  idx : Int
  rules : List Rule
  stats : Stats κ α

abbrev BucketStats (κ α : Type) := List (Bucket κ α)

/-- `BucketStats.Set` after all rules parsed (a parse error changes nothing) -/
def BucketStats.set (bs : BucketStats κ α) (idx : Int) (rules : List Rule) (st : Stats κ α) :
    BucketStats κ α :=
  { idx := idx, rules := rules, stats := st } :: bs.filter (·.idx ≠ idx)

/-- a measure as it arrives: name, value, host index -/
structure Measure (κ α : Type) where
  name : κ
  val : α
  host : Int

/-- `BucketStats.Update` (bucket_stats.go:108-116) -/
def BucketStats.update (bs : BucketStats κ α) (m : Measure κ α) : BucketStats κ α :=
  bs.map fun b => if rulesMatch b.rules m.host then { b with stats := b.stats.update m.name m.val } else b

/-- `BucketStats.Get` (bucket_stats.go:98-106): collects the bucket it returns -/
def BucketStats.get (bs : BucketStats κ α) (idx : Int) : BucketStats κ α × Option (Stats κ α) :=
  let bs' := bs.map fun b => if b.idx = idx then { b with stats := b.stats.collect } else b
  (bs', (bs'.find? (·.idx = idx)).map (·.stats))

/-- the part of `Monitor` the statistics live in -/
structure Monitor (κ α : Type) where
  global : Stats κ α
  buckets : BucketStats κ α := []

/-- `Monitor.update` (monitor.go:212-219) -/
def Monitor.update (m : Monitor κ α) (x : Measure κ α) : Monitor κ α :=
  { global := m.global.update x.name x.val, buckets := m.buckets.update x }

/-- the read-out operations that may precede the final write (print, collect, write header,
write values); all but the header trigger `Collect` -/
inductive Readout where
  | collect | string | header | values
  deriving DecidableEq, Repr

def Stats.readout (s : Stats κ α) : Readout → Stats κ α
  | .header => s
  | _ => s.collect

end generic

/-! ### Parsing of bucket rules (`newBucketRule`, `strconv.Atoi`), on byte strings -/

/-- `strconv.Atoi` on a byte string: one optional sign, at least one digit, digits only, and
the value must fit `int` (64 bit) -/
def atoi (bs : List Nat) : Option Int :=
  let (neg, ds) : Bool × List Nat :=
    match bs with
    | 43 :: r => (false, r)
    | 45 :: r => (true, r)
    | r => (false, r)
  if ds.isEmpty || !ds.all (fun c => decide (48 ≤ c) && decide (c ≤ 57)) then none
  else
    let v : Nat := ds.foldl (fun a c => a * 10 + (c - 48)) 0
    if neg then (if v ≤ 2 ^ 63 then some (-(v : Int)) else none)
    else (if v < 2 ^ 63 then some (v : Int) else none)

/-- `strings.Split(r, ":")` -/
def splitColon : List Nat → List (List Nat)
  | [] => [[]]
  | c :: r =>
    match splitColon r with
    | [] => [[c]]     -- unreachable: the result is never empty
    | h :: t => if c = 58 then [] :: h :: t else (c :: h) :: t

/-- `newBucketRule` (bucket_stats.go:18-41) -/
def parseRule (bs : List Nat) : Option Rule :=
  match splitColon bs with
  | [a, b] =>
    match atoi a, atoi b with
    | some lo, some hi => some { low := lo, high := hi }
    | _, _ => none
  | _ => none

end C19
