import OnetVerif.Model.Util
import OnetVerif.Generated
/-! Model for property C20: address parsing (`network/address.go`), listen-address selection
(`network/tcp.go` getListenAddress, `network/struct.go` GlobalBind) and the websocket host:port
derivation (`websocket_client.go` getWSHostPort).  Core-only.

Strings are byte lists (`List Nat`, every element < 256 on the inputs the driver feeds).  The Go
standard-library functions the code calls are transcribed from the Go sources of the toolchain
that builds the harness (go1.23.5; the same text in go1.26): `strings.Split`, `net.SplitHostPort`,
`strconv.Atoi`, `strconv.ParseUint(_, 10, 16)`, `net.ParseIP` (via `netip.ParseAddr`),
`strings.ToLower`, `net.JoinHostPort`, `strconv.FormatUint`.  A `none` result of an accessor
stands for a Go run-time panic (index out of range). -/
namespace C20

abbrev Str := List Nat

/-! ### byte classes -/
def isDigit (c : Nat) : Bool := 48 ≤ c && c ≤ 57
def isLower (c : Nat) : Bool := 97 ≤ c && c ≤ 122
def isAlnum (c : Nat) : Bool := isLower c || isDigit c
def isHex (c : Nat) : Bool := isDigit c || (97 ≤ c && c ≤ 102) || (65 ≤ c && c ≤ 70)

/-! ### `strings.Split(s, "://")` (address.go:36 `typeAddressSep`) -/

/-- `"://"` -/
def sep : Str := [58, 47, 47]

/-- `strings.Index(s, "://")` followed by the two slicings of `genSplit`: what is before and what
is after the first (leftmost) occurrence of the separator. -/
def cut : Str → Option (Str × Str)
  | [] => none
  | c :: rest =>
    if c = 58 ∧ rest.take 2 = [47, 47] then some ([], rest.drop 2)
    else match cut rest with
      | none => none
      | some (b, a) => some (c :: b, a)

/-- `strings.Split(s, "://")`: cut at every leftmost non-overlapping separator (`genSplit` with
`n = -1`).  The fuel is the string length; every cut consumes three bytes. -/
def splitAll : Nat → Str → List Str
  | 0, s => [s]
  | n + 1, s =>
    match cut s with
    | none => [s]
    | some (b, a) => b :: splitAll n a

def split (s : Str) : List Str := splitAll s.length s

/-! ### connection types (address.go:24-50) -/
def tcp : Str := [116, 99, 112]
def tls : Str := [116, 108, 115]
def localT : Str := [108, 111, 99, 97, 108]
/-- `InvalidConnType = "wrong"` -/
def wrong : Str := [119, 114, 111, 110, 103]

/-- `connType(t string) ConnType` (address.go:40-50) -/
def connTypeOf (t : Str) : Str := if t = tcp ∨ t = tls ∨ t = localT then t else wrong

/-! ### `net.SplitHostPort` (net/ipsock.go:165-218) -/

/-- `bytealg.IndexByteString` -/
def indexOf (c : Nat) : Str → Option Nat
  | [] => none
  | x :: r => if x = c then some 0 else (indexOf c r).map (· + 1)

/-- `bytealg.LastIndexByteString` -/
def lastIndexOf (c : Nat) : Str → Option Nat
  | [] => none
  | x :: r =>
    match lastIndexOf c r with
    | some i => some (i + 1)
    | none => if x = c then some 0 else none

/-- `net.SplitHostPort`; `none` = any of its errors (missing port, too many colons, missing or
unexpected bracket). -/
def splitHostPort (hp : Str) : Option (Str × Str) :=
  match lastIndexOf 58 hp with
  | none => none                                   -- missing port in address
  | some i =>
    if hp.head? = some 91 then                     -- hostport[0] == '['
      match indexOf 93 hp with
      | none => none                               -- missing ']' in address
      | some e =>
        if e + 1 = hp.length then none             -- missing port
        else if e + 1 = i then
          if (hp.drop 1).contains 91 then none     -- unexpected '[' (j = 1)
          else if (hp.drop (e + 1)).contains 93 then none   -- unexpected ']' (k = end+1)
          else some ((hp.take e).drop 1, hp.drop (i + 1))
        else none                                  -- too many colons / missing port
    else
      if (hp.take i).contains 58 then none         -- too many colons
      else if hp.contains 91 then none             -- unexpected '[' (j = 0)
      else if hp.contains 93 then none             -- unexpected ']' (k = 0)
      else some (hp.take i, hp.drop (i + 1))

/-- `net.JoinHostPort` (net/ipsock.go:236-243) -/
def joinHostPort (h p : Str) : Str :=
  if h.contains 58 then 91 :: h ++ 93 :: 58 :: p else h ++ 58 :: p

/-! ### `strconv.Atoi`, `strconv.ParseUint(s, 10, 16)`, `strconv.FormatUint(_, 10)` -/

/-- value of a string of decimal digits, `none` on any other byte (the digit loops of
`strconv.Atoi` / `ParseUint`) -/
def digitsVal : Str → Nat → Option Nat
  | [], acc => some acc
  | c :: r, acc => if isDigit c then digitsVal r (acc * 10 + (c - 48)) else none

/-- `strconv.Atoi` on a 64-bit platform: `none` = syntax or range error. -/
def atoi (s : Str) : Option Int :=
  match s with
  | [] => none
  | c :: r =>
    let neg := c = 45
    let ds := if c = 45 ∨ c = 43 then r else s
    if ds = [] then none
    else match digitsVal ds 0 with
      | none => none
      | some n =>
        if neg then (if n > 2 ^ 63 then none else some (-(n : Int)))
        else (if n ≥ 2 ^ 63 then none else some (n : Int))

/-- `strconv.ParseUint(s, 10, 16)`: no sign, digits only, value below 2^16. -/
def parseUint16 (s : Str) : Option Nat :=
  if s = [] then none
  else match digitsVal s 0 with
    | none => none
    | some n => if n ≤ 65535 then some n else none

/-- `strconv.FormatUint(n, 10)` as bytes -/
def fmtNat (n : Nat) : Str := (Nat.toDigits 10 n).map Char.toNat

/-! ### `net.ParseIP` (net/ip.go:496-509 → `netip.ParseAddr`, net/netip/netip.go:115-344)
Only nil / non-nil matters to address.go, so the model returns a `Bool`. -/

/-- `parseIPv4Fields` (netip.go:155-193): `first` = at index 0, `prevDot` = `s[i-1] == '.'`. -/
def v4loop : Str → (val pos digLen : Nat) → (first prevDot : Bool) → Bool
  | [], _, pos, _, _, _ => pos ≥ 3                          -- "IPv4 address too short"
  | c :: rest, val, pos, digLen, first, prevDot =>
    if isDigit c then
      if digLen = 1 ∧ val = 0 then false                    -- octet with leading zero
      else
        let val' := val * 10 + (c - 48)
        if val' > 255 then false
        else v4loop rest val' pos (digLen + 1) false false
    else if c = 46 then
      if first || rest.isEmpty || prevDot then false        -- field must have at least one digit
      else if pos = 3 then false                            -- too long
      else v4loop rest 0 (pos + 1) 0 false true
    else false                                              -- unexpected character

def parseIPv4 (s : Str) : Bool := v4loop s 0 0 0 true false

/-- the loop of `parseIPv6` (netip.go:236-343).  `rem` = groups still free = `(16 - i) / 2`,
`ell` = `ellipsis >= 0`.  The result folds in the checks after the loop ("trailing garbage",
"address string too short", "the :: must expand to at least one field of zeros"). -/
def v6loop : (rem : Nat) → Str → (ell : Bool) → Bool
  | 0, s, ell => s.isEmpty && !ell
  | rem + 1, s, ell =>
    let hex := s.takeWhile isHex
    let rest := s.dropWhile isHex
    if hex.length > 4 then false                 -- each group must have 4 or less digits
    else if hex.length = 0 then false            -- at least one digit
    else match rest with
      | [] => if rem = 0 then !ell else ell      -- group saved, end of string
      | c :: rest' =>
        if c = 46 then                           -- trailing IPv4
          if (ell || rem + 1 = 2) && decide (rem + 1 ≥ 2) then
            if parseIPv4 s then (if rem + 1 = 2 then !ell else ell) else false
          else false
        else if c ≠ 58 then false                -- unexpected character, want colon
        else match rest' with
          | [] => false                          -- colon must be followed by more characters
          | d :: rest'' =>
            if d = 58 then
              if ell then false                  -- multiple ::
              else if rest''.isEmpty then decide (rem ≠ 0)   -- `::` at the end
              else v6loop rem rest'' true
            else v6loop rem (d :: rest'') ell

def parseIPv6 (s : Str) : Bool :=
  if s.contains 37 then false                    -- any zone (or empty zone): ParseIP gives nil
  else if s.take 2 = [58, 58] then
    (if s.drop 2 = [] then true else v6loop 8 (s.drop 2) true)
  else v6loop 8 s false

/-- `net.ParseIP(s) != nil` -/
def parseIP (s : Str) : Bool :=
  match s.find? (fun c => c = 46 || c = 58 || c = 37) with
  | some c => if c = 46 then parseIPv4 s else if c = 58 then parseIPv6 s else false
  | none => false

/-! ### `strings.ToLower` (strings.Map(unicode.ToLower, s)) over UTF-8
Exact in every byte for ASCII, for invalid UTF-8 (each offending byte becomes U+FFFD, three
bytes) and for the 25 runes whose lower case has another UTF-8 length (two of them become ASCII:
U+212A KELVIN SIGN → k, U+0130 → i).  Every other non-ASCII rune is copied unchanged: its lower
case is a non-ASCII rune of the same length, which `validHostname` cannot tell from the rune
itself (it only looks at the byte length and at ASCII bytes).  The harness re-checks the table
against `unicode.ToLower` for every rune (op `lower`). -/

def isCont (c : Nat) : Bool := 128 ≤ c && c ≤ 191

/-- the runes whose lower case has another UTF-8 length (Unicode tables of go1.23 … go1.26) -/
def lenChange : List (Str × Str) := [
  ([196, 176], [105]),                    -- U+0130 -> U+0069
  ([200, 186], [226, 177, 165]),          -- U+023A -> U+2C65
  ([200, 190], [226, 177, 166]),          -- U+023E -> U+2C66
  ([225, 186, 158], [195, 159]),          -- U+1E9E -> U+00DF
  ([226, 132, 166], [207, 137]),          -- U+2126 -> U+03C9
  ([226, 132, 170], [107]),               -- U+212A -> U+006B
  ([226, 132, 171], [195, 165]),          -- U+212B -> U+00E5
  ([226, 177, 162], [201, 171]),          -- U+2C62 -> U+026B
  ([226, 177, 164], [201, 189]),          -- U+2C64 -> U+027D
  ([226, 177, 173], [201, 145]),          -- U+2C6D -> U+0251
  ([226, 177, 174], [201, 177]),          -- U+2C6E -> U+0271
  ([226, 177, 175], [201, 144]),          -- U+2C6F -> U+0250
  ([226, 177, 176], [201, 146]),          -- U+2C70 -> U+0252
  ([226, 177, 190], [200, 191]),          -- U+2C7E -> U+023F
  ([226, 177, 191], [201, 128]),          -- U+2C7F -> U+0240
  ([234, 158, 141], [201, 165]),          -- U+A78D -> U+0265
  ([234, 158, 170], [201, 166]),          -- U+A7AA -> U+0266
  ([234, 158, 171], [201, 156]),          -- U+A7AB -> U+025C
  ([234, 158, 172], [201, 161]),          -- U+A7AC -> U+0261
  ([234, 158, 173], [201, 172]),          -- U+A7AD -> U+026C
  ([234, 158, 174], [201, 170]),          -- U+A7AE -> U+026A
  ([234, 158, 176], [202, 158]),          -- U+A7B0 -> U+029E
  ([234, 158, 177], [202, 135]),          -- U+A7B1 -> U+0287
  ([234, 158, 178], [202, 157]),          -- U+A7B2 -> U+029D
  ([234, 159, 133], [202, 130])]          -- U+A7C5 -> U+0282

/-- bytes written for one valid multi-byte rune -/
def lowerMulti (r : Str) : Str :=
  match lenChange.find? (fun e => e.1 == r) with
  | some e => e.2
  | none => r

/-- one rune of `for _, c := range s`: (bytes written by `Map(unicode.ToLower)`, width read) -/
def lowerStep : Str → Str × Nat
  | [] => ([], 1)
  | b0 :: r =>
    if b0 < 128 then ([if 65 ≤ b0 ∧ b0 ≤ 90 then b0 + 32 else b0], 1)
    else
      let bad : Str × Nat := ([239, 191, 189], 1)
      if 194 ≤ b0 ∧ b0 ≤ 223 then
        match r with
        | b1 :: _ => if isCont b1 then (lowerMulti [b0, b1], 2) else bad
        | _ => bad
      else if 224 ≤ b0 ∧ b0 ≤ 239 then
        match r with
        | b1 :: b2 :: _ =>
          let lo := if b0 = 224 then 160 else 128
          let hi := if b0 = 237 then 159 else 191
          if lo ≤ b1 ∧ b1 ≤ hi ∧ isCont b2 then (lowerMulti [b0, b1, b2], 3) else bad
        | _ => bad
      else if 240 ≤ b0 ∧ b0 ≤ 244 then
        match r with
        | b1 :: b2 :: b3 :: _ =>
          let lo := if b0 = 240 then 144 else 128
          let hi := if b0 = 244 then 143 else 191
          if lo ≤ b1 ∧ b1 ≤ hi ∧ isCont b2 ∧ isCont b3 then ([b0, b1, b2, b3], 4) else bad
        | _ => bad
      else bad

def lowerRunes : Nat → Str → Str
  | 0, _ => []
  | _ + 1, [] => []
  | n + 1, s => (lowerStep s).1 ++ lowerRunes n (s.drop (lowerStep s).2)

/-- `strings.ToLower` -/
def goLower (s : Str) : Str := lowerRunes s.length s

/-! ### `validHostname` (address.go:122-175) -/

/-- `strings.Split(s, ".")` -/
def splitDot : Str → List Str
  | [] => [[]]
  | c :: r =>
    if c = 46 then [] :: splitDot r
    else match splitDot r with
      | p :: ps => (c :: p) :: ps
      | [] => [[c]]

/-- `strings.Split(s, sep)` for a separator of one byte `c` (`genSplit` with `n = -1`: cut at every
occurrence; the empty string gives one empty part) -/
def splitByte (c : Nat) : Str → List Str
  | [] => [[]]
  | x :: r =>
    if x = c then [] :: splitByte c r
    else match splitByte c r with
      | p :: ps => (x :: p) :: ps
      | [] => [[x]]

/-- `[a-z0-9]|[a-z0-9][a-z0-9\-]*[a-z0-9]` -/
def labelOk (l : Str) : Bool :=
  match l with
  | [] => false
  | c :: r => isAlnum c && r.all (fun x => isAlnum x || x = 45) && isAlnum ((c :: r).getLastD c)

/-- `[a-z]+` -/
def tldOk (l : Str) : Bool := !l.isEmpty && l.all isLower

/-- hand-written recogniser replacing
`regexp.MatchString("^(([a-z0-9]|[a-z0-9][a-z0-9\\-]*[a-z0-9])\\.)*([a-z]+)$", s)`:
no label can contain a dot, so a match is exactly a split at the dots whose last part is the
alphabetic label and whose other parts are labels. -/
def matchRe (s : Str) : Bool :=
  let ls := splitDot s
  ls.dropLast.all labelOk && tldOk (ls.getLastD [])

/-- `if s[len(s)-1] == '.' { s = s[:len(s)-1] }` -/
def stripDot (s : Str) : Str := if s.getLast? = some 46 then s.dropLast else s

/-- `validHostname` from the length test on (lower-cased, trailing dot removed) -/
def hostnameCore (s : Str) : Bool :=
  if s.length > 253 then false
  else if (splitDot s).any (fun l => l.length < 1 || l.length > 63) then false
  else
    let m := matchRe s
    if !m && !s.contains 46 then true else m

/-- `validHostname` as repaired (the length limit is 253 without the trailing dot, as documented) -/
def validHostname (h : Str) : Bool :=
  if h = [] then false else hostnameCore (stripDot (goLower h))

/-! ### `Address` methods (address.go:51-268) -/

/-- `Address.Valid` (address.go:177-209) -/
def valid (a : Str) : Bool :=
  match split a with
  | [t, na] =>
    if connTypeOf t = wrong then false
    else match splitHostPort na with
      | none => false
      | some (ip, port) =>
        match atoi port with
        | none => false
        | some p =>
          if p < 0 ∨ p > 65535 then false
          else if ip = [] then true
          else if !parseIP ip then validHostname ip
          else true
  | _ => false

/-- `Address.ConnType` (address.go:52-61); `none` = index panic on `vals[0]` -/
def connType (a : Str) : Option Str :=
  if !valid a then some wrong else (split a)[0]?.map connTypeOf

/-- `Address.NetworkAddress` (address.go:72-81); `none` = index panic on `vals[1]` -/
def networkAddress (a : Str) : Option Str :=
  if !valid a then some [] else (split a)[1]?

/-- `Address.Host` (address.go:216-229) -/
def host (a : Str) : Option Str :=
  (networkAddress a).map fun na =>
    if na = [] then []
    else match splitHostPort na with
      | none => []
      | some (h, _) => h

/-- `Address.Port` (address.go:231-246) -/
def port (a : Str) : Option Str :=
  (networkAddress a).map fun na =>
    if na = [] then []
    else match splitHostPort na with
      | none => []
      | some (_, p) => p

/-- `Address.IsHostname` (address.go:63-70) -/
def isHostname (a : Str) : Option Bool :=
  (host a).map fun h => validHostname h && !parseIP h

/-- `NewAddress` (address.go:263-268) -/
def newAddress (t na : Str) : Str := t ++ sep ++ na

/-! ### resolution, public / private (address.go:83-122, 247-260)
The DNS lookup `lookupHost` (a package-level variable of the code) is a parameter: `none` = an error,
`some l` = the addresses found. -/

/-- `"[::]"` -/
def bracketAny : Str := [91, 58, 58, 93]

/-- `Address.Resolve` (address.go:95-122); `none` = index panic (`vals[·]` of an accessor, or `ipAddress[0]` on an
answer that is empty although there was no error) -/
def resolve (lookup : Str → Option (List Str)) (a : Str) : Option Str :=
  if !valid a then some []
  else match host a, isHostname a with
    | some h, some ih =>
      if h = bracketAny then some [58, 58]          -- "::"
      else if parseIP h then some h
      else if !ih then some []
      else match lookup h with
        | none => some []
        | some l => l.head?
    | _, _ => none

/-- the host name `Resolve` hands to the DNS lookup, if it consults it at all -/
def lookedUp (a : Str) : Option Str :=
  if !valid a then none
  else match host a, isHostname a with
    | some h, some true => if h = bracketAny || parseIP h then none else some h
    | _, _ => none

/-- `Address.NetworkAddressResolved` (address.go:83-93) -/
def networkAddressResolved (lookup : Str → Option (List Str)) (a : Str) : Option Str :=
  if !valid a then some []
  else match resolve lookup a, port a with
    | some ip, some p => some (joinHostPort ip p)
    | _, _ => none

/-- one `.` of a regular expression: any rune but a newline; what follows it -/
def dotRune (s : Str) : Option Str :=
  match s with
  | [] => none
  | c :: _ => if c = 10 then none else some (s.drop (lowerStep s).2)

/-- `s` begins with `pre`, then a byte in `lo..hi`, then a dot (`^172\.1[6-9]\.`) -/
def prefixRangeDot (pre : Str) (lo hi : Nat) (s : Str) : Bool :=
  pre.isPrefixOf s &&
    match s.drop pre.length with
    | c :: d :: _ => lo ≤ c && c ≤ hi && d = 46
    | _ => false

/-- hand-written recogniser replacing the regular expression of `Public`
`(^127\.)|(^10\.)|(^172\.1[6-9]\.)|(^172\.2[0-9]\.)|(^172\.3[0-1]\.)|(^192\.168\.)|(^169\.254)|(^\[::1\])|(^\[fd.{0,2}:)`:
every alternative is anchored at the start. -/
def privateRe (s : Str) : Bool :=
  [49, 50, 55, 46].isPrefixOf s ||                                  -- 127.
  [49, 48, 46].isPrefixOf s ||                                      -- 10.
  prefixRangeDot [49, 55, 50, 46, 49] 54 57 s ||                    -- 172.1[6-9].
  prefixRangeDot [49, 55, 50, 46, 50] 48 57 s ||                    -- 172.2[0-9].
  prefixRangeDot [49, 55, 50, 46, 51] 48 49 s ||                    -- 172.3[0-1].
  [49, 57, 50, 46, 49, 54, 56, 46].isPrefixOf s ||                  -- 192.168.
  [49, 54, 57, 46, 50, 53, 52].isPrefixOf s ||                      -- 169.254
  [91, 58, 58, 49, 93].isPrefixOf s ||                              -- [::1]
  ([91, 102, 100].isPrefixOf s &&                                   -- [fd.{0,2}:
    let r := s.drop 3
    r.head? = some 58 ||
      match dotRune r with
      | none => false
      | some r1 => r1.head? = some 58 ||
        match dotRune r1 with
        | none => false
        | some r2 => r2.head? = some 58)

/-- `Address.Public` (address.go:247-260): `Valid` is only asked when the resolved address is not private -/
def isPublic (lookup : Str → Option (List Str)) (a : Str) : Option Bool :=
  match networkAddressResolved lookup a with
  | none => none
  | some s => if privateRe s then some false else some (valid a)

/-! ### listen address (struct.go:284-292, tcp.go:471-506) and websocket address
(websocket_client.go:582-632) -/

inductive R where
  | ok (s : Str)
  | err
  | panic
  deriving DecidableEq, Repr

/-- `GlobalBind` (struct.go:284-292) -/
def globalBind (address : Str) : R :=
  match splitHostPort address with
  | none => .err
  | some (_, p) => .ok (58 :: p)

/-- `getListenAddress` (tcp.go:471-506), as repaired (the combination of a bare listen host with
the server's port is returned only if it is a splittable host:port). -/
def getListenAddress (a l : Str) : R :=
  match networkAddress a with
  | none => .panic
  | some na =>
    if l = [] then globalBind na
    else match splitHostPort na with
      | none => .err
      | some (_, p) =>
        -- `len(strings.Split(listenAddr, ":")) == 1` ⇔ no colon in the (non-empty) listenAddr
        if l.contains 58 = false ∧ p ≠ [] then
          match splitHostPort (l ++ 58 :: p) with
          | none => .err
          | some _ => .ok (l ++ 58 :: p)
        else match splitHostPort l with
          | none => .err
          | some (hl, pl) => if hl ≠ [] ∧ pl ≠ [] then .ok l else .err

/-- what `url.Parse(si.URL)` returned, as far as getWSHostPort looks at it (net/url is not
modelled: the harness supplies these parts, the theorems hold for arbitrary ones) -/
structure UrlParts where
  parsed   : Bool      -- err == nil
  abs      : Bool      -- url.IsAbs()
  scheme   : Str       -- url.Scheme
  port     : Str       -- url.Port()
  hostname : Str       -- url.Hostname()

/-- what `url.Parse` returned without error (`*url.URL`), as far as getWSHostPort looks at it -/
structure Url where
  abs      : Bool      -- url.IsAbs()
  scheme   : Str       -- url.Scheme
  port     : Str       -- url.Port()
  hostname : Str       -- url.Hostname()

/-- `url.Parse` as an environment function: its answer read as the model's `UrlParts` -/
def UrlParts.ofParse : Option Url → UrlParts
  | none => { parsed := false, abs := false, scheme := [], port := [], hostname := [] }
  | some u => { parsed := true, abs := u.abs, scheme := u.scheme, port := u.port, hostname := u.hostname }

/-- `network.ServerIdentity` as far as getWSHostPort reads it (field names as in Go) -/
structure SI where
  Address : Str
  URL     : Str

def http : Str := [104, 116, 116, 112]
def https : Str := [104, 116, 116, 112, 115]

/-- `schemeToPort` (websocket_client.go:570-580) -/
def schemeToPort (s : Str) : Option Nat :=
  if s = http then some 80 else if s = https then some 443 else none

/-- `getWSHostPort` (websocket_client.go:582-632) as repaired: `url = none` is `si.URL == ""`;
the port is a 16-bit value, an address port of 65535 is an error instead of wrapping to 0. -/
def wsHostPort (a : Str) (url : Option UrlParts) (global : Bool) : R :=
  let finish (hostname : Str) (port : Nat) : R :=
    .ok (joinHostPort (if global then [48, 46, 48, 46, 48, 46, 48] else hostname) (fmtNat port))
  match url with
  | some u =>
    if !u.parsed then .err
    else if !u.abs then .err
    else match schemeToPort u.scheme with
      | none => .err
      | some pp =>
        if u.port = [] then finish u.hostname pp
        else match parseUint16 u.port with
          | none => .err
          | some n => finish u.hostname (n % 65536)      -- uint16(portRaw)
  | none =>
    match port a, host a with
    | some p, some h =>
      match parseUint16 p with
      | none => .err
      | some n =>
        if n + 1 ≥ 65536 then .err                       -- the repair
        else finish h ((n + 1) % 65536)                  -- uint16(portRaw + 1)
    | _, _ => .panic

/-- the code before the repair (kept for the negation witness in Props) -/
def wsHostPortOld (a : Str) (global : Bool) : R :=
  match port a, host a with
  | some p, some h =>
    match parseUint16 p with
    | none => .err
    | some n =>
      .ok (joinHostPort (if global then [48, 46, 48, 46, 48, 46, 48] else h) (fmtNat ((n + 1) % 65536)))
  | _, _ => .panic

/-! ### line-protocol driver -/
namespace Drv

abbrev State := Unit
def init : State := ()

def bytesOf (s : String) : Str := s.toUTF8.toList.map UInt8.toNat

/-- the constants re-extracted from /repo must be the ones this model was written for -/
def constsOk : Bool :=
  Generated.connTypes.map bytesOf == [tcp, tls, localT] && Generated.portBitSize == 16

def b01 (b : Bool) : String := if b then "1" else "0"

def showOpt (o : Option Str) : String :=
  match o with
  | none => "panic"
  | some s => Util.hex s

def showR : R → String
  | .ok s => "ok " ++ Util.hex s
  | .err => "err"
  | .panic => "panic"

def showOptB (o : Option Bool) : String :=
  match o with
  | none => "panic"
  | some b => b01 b

/-- `Resolve`, `NetworkAddressResolved`, `Public` with the given DNS answer, and the name looked up -/
def showResolve (lookup : Str → Option (List Str)) (a : Str) : String :=
  let lk := match lookedUp a with | none => "none" | some h => Util.hex h
  s!"res={showOpt (resolve lookup a)} nar={showOpt (networkAddressResolved lookup a)} public={showOptB (isPublic lookup a)} looked={lk}"

def parseBool (s : String) : Option Bool :=
  if s = "1" then some true else if s = "0" then some false else none

/-- `addr <hex>` every accessor; `hostname <hex>` validHostname; `ip <hex>` ParseIP≠nil;
`shp <hex>` SplitHostPort; `gbind <hex>`; `listen <addr> <listenAddr>`;
`resolve <addr> err` / `resolve <addr> ok <answer>*` Resolve, NetworkAddressResolved, Public with that DNS answer;
`ws <addr> <global> nourl` / `ws <addr> <global> url <url> <parsed> <abs> <scheme> <port> <hostname>`
(the last five are what `url.Parse(<url>)` returned); `lower <hex>` length and ASCII bytes of ToLower. -/
def step (s : State) (toks : List String) : State × String :=
  if !constsOk then (s, "bad-consts") else
  match toks with
  | ["addr", a] =>
    match Util.unhex a with
    | some a =>
      let v := valid a
      let ct := connType a
      let na := networkAddress a
      let re := match ct, na with
        | some t, some n => Util.hex (newAddress t n)
        | _, _ => "panic"
      let ih := match isHostname a with | none => "panic" | some b => b01 b
      (s, s!"valid={b01 v} type={showOpt ct} na={showOpt na} host={showOpt (host a)} port={showOpt (port a)} ishost={ih} re={re}")
    | none => (s, "bad-op")
  | ["hostname", h] =>
    match Util.unhex h with
    | some h => (s, b01 (validHostname h))
    | none => (s, "bad-op")
  | ["ip", h] =>
    match Util.unhex h with
    | some h => (s, b01 (parseIP h))
    | none => (s, "bad-op")
  | ["shp", h] =>
    match Util.unhex h with
    | some h =>
      (s, match splitHostPort h with
          | none => "err"
          | some (x, y) => s!"ok {Util.hex x} {Util.hex y}")
    | none => (s, "bad-op")
  | ["gbind", h] =>
    match Util.unhex h with
    | some h => (s, showR (globalBind h))
    | none => (s, "bad-op")
  | ["listen", a, l] =>
    match Util.unhex a, Util.unhex l with
    | some a, some l => (s, showR (getListenAddress a l))
    | _, _ => (s, "bad-op")
  | ["ws", a, g, "nourl"] =>
    match Util.unhex a, parseBool g with
    | some a, some g => (s, showR (wsHostPort a none g))
    | _, _ => (s, "bad-op")
  | ["ws", a, g, "url", u, pd, ab, sc, po, hn] =>
    match Util.unhex a, parseBool g, Util.unhex u, parseBool pd, parseBool ab, Util.unhex sc, Util.unhex po, Util.unhex hn with
    | some a, some g, some _, some pd, some ab, some sc, some po, some hn =>
      (s, showR (wsHostPort a (some { parsed := pd, abs := ab, scheme := sc, port := po, hostname := hn }) g))
    | _, _, _, _, _, _, _, _ => (s, "bad-op")
  | "resolve" :: a :: "err" :: [] =>
    match Util.unhex a with
    | some a => (s, showResolve (fun _ => none) a)
    | none => (s, "bad-op")
  | "resolve" :: a :: "ok" :: answers =>
    match Util.unhex a, answers.mapM Util.unhex with
    | some a, some l => (s, showResolve (fun _ => some l) a)
    | _, _ => (s, "bad-op")
  | ["lower", h] =>
    match Util.unhex h with
    | some h =>
      let l := goLower h
      (s, s!"{l.length} {Util.hex (l.filter (· < 128))}")
    | none => (s, "bad-op")
  | _ => (s, "bad-op")

end Drv

end C20
