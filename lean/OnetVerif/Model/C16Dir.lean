import OnetVerif.Model.C16Core
/-! Model for property C16, second part — the data directory (`service.go:322-425`,
`server.go:56-82`): one database *file* per server, named after the server's public key.

* `dbFileName`   (service.go:382-387): `<hex of sha256(public key)>.db`
* `dbFileNameOld`(service.go:377-380): `<hex of the public key>.db` — the name older versions used
* `updateDbFileName` (389-399): a file with the old name is renamed to the new name
  (`os.Rename` replaces a file that has the new name already: "we assume the new name does not exist")
* `openDb` (367-375): `bbolt.Open` creates the file when it is missing
* `closeDatabase` (408-425): the file is removed when the server was made for a temporary directory
  (`delDb`: `newServer` was given a path, server.go:60-67), kept otherwise.

The hash is a parameter `h` (the driver instantiates SHA-256, `Model/C16Sha.lean`); the theorems hold
for every `h` and say which (in)equalities between keys and hashes they need.  Core-only. -/
namespace C16

/-- one hexadecimal digit, lower case (`%x`) -/
def hexDigit (n : Nat) : Nat := if n < 10 then 48 + n else 87 + n

/-- `fmt.Sprintf("%x", b)` -/
def hexOf : Bytes → Bytes
  | [] => []
  | x :: r => hexDigit (x / 16 % 16) :: hexDigit (x % 16) :: hexOf r

/-- `".db"` -/
def dotDb : Bytes := [46, 100, 98]

/-- `dbFileNameOld` (the directory part, `path.Join(s.dbPath, …)`, is the `Dir` itself) -/
def oldName (pub : Bytes) : Bytes := hexOf pub ++ dotDb

/-- `dbFileName` -/
def newName (h : Bytes → Bytes) (pub : Bytes) : Bytes := hexOf (h pub) ++ dotDb

/-- a data directory: file name → contents of that database file (`none`: no such file) -/
abbrev Dir := Bytes → Option Db

def Dir.empty : Dir := fun _ => none

/-- create / replace / remove (`none`) one file -/
def setFile (d : Dir) (n : Bytes) (c : Option Db) : Dir := fun m => if m = n then c else d m

/-- a server as far as its database file is concerned -/
structure Server where
  pub : Bytes          -- `ServerIdentity.Public.MarshalBinary()`
  delDb : Bool         -- made for a temporary directory: the file is deleted on close
  deriving DecidableEq, Repr

/-- `updateDbFileName`: `os.Stat(old)` succeeds ⇒ `os.Rename(old, new)` -/
def migrate (h : Bytes → Bytes) (d : Dir) (pub : Bytes) : Dir :=
  match d (oldName pub) with
  | none => d
  | some c => setFile (setFile d (oldName pub) none) (newName h pub) (some c)

/-- `openDb(s.dbFileName())` followed by the creation of every registered service's context -/
def openFile (h : Bytes → Bytes) (d : Dir) (pub : Bytes) (services : List Bytes) : Dir :=
  setFile d (newName h pub) (some (startServer ((d (newName h pub)).getD Db.empty) services))

/-- `newServiceManager` on a directory -/
def startOn (h : Bytes → Bytes) (d : Dir) (pub : Bytes) (services : List Bytes) : Dir :=
  openFile h (migrate h d pub) pub services

/-- `closeDatabase` -/
def closeOn (h : Bytes → Bytes) (d : Dir) (srv : Server) : Dir :=
  if srv.delDb then setFile d (newName h srv.pub) none else d

/-- an event in the life of a data directory that several servers may use (one after the other, or
at the same time with different keys) -/
inductive DEv where
  | start (srv : Server) (services : List Bytes)
  | call (pub : Bytes) (svc : Bytes) (op : Op)      -- a storage call of a service of the server with this key
  | close (srv : Server)

/-- a storage call goes to the file of its server (a call on a server whose file does not exist
cannot happen: the file is created when the server is made) -/
def callOn (h : Bytes → Bytes) (known : List Bytes) (d : Dir) (pub svc : Bytes) (op : Op) : Dir × Res :=
  match d (newName h pub) with
  | none => (d, .panic)
  | some db =>
    let r := step known db svc op
    (setFile d (newName h pub) (some r.1), r.2)

/-- a history on a directory: the directory after it and the results of the calls, each with the
key of the server it was made on -/
def drun (h : Bytes → Bytes) (known : List Bytes) (d : Dir) : List DEv → Dir × List (Bytes × Res)
  | [] => (d, [])
  | .start srv services :: rest => drun h known (startOn h d srv.pub services) rest
  | .call pub svc op :: rest =>
    let r := callOn h known d pub svc op
    let r' := drun h known r.1 rest
    (r'.1, (pub, r.2) :: r'.2)
  | .close srv :: rest => drun h known (closeOn h d srv) rest

/-- the part of a directory history that concerns the server with key `pub`, as a history of its
database (`Ev`): a start is a (re)start with these services, a close leaves nothing to do -/
def proj (pub : Bytes) : List DEv → List Ev
  | [] => []
  | .start srv services :: rest => if srv.pub = pub then .restart services :: proj pub rest else proj pub rest
  | .call p svc op :: rest => if p = pub then .call svc op :: proj pub rest else proj pub rest
  | .close _ :: rest => proj pub rest

/-- the results of the calls made on the server with key `pub` -/
def resultsOf (pub : Bytes) (l : List (Bytes × Res)) : List Res :=
  (l.filter fun p => p.1 = pub).map (·.2)

end C16
