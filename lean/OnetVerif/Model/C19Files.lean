import OnetVerif.Model.C19Core
/-! Model for property C19, the write-out side of a simulation: the columns `Stats.WriteHeader` /
`Stats.WriteValues` write (simul/monitor/stats.go:74-113) and the file handling of `simul.RunTests`
(simul/build.go:103-182, 342-367): which result set goes to which file, when a header line is written,
which runs are in the `-range`, truncate or append.

Core-only.  The result sets are a parameter `S` here (the theorems about files do not look into them);
`Model/C19.lean` instantiates `S` with `Stats String Float` and renders the lines. -/
namespace C19

section columns
variable {κ α : Type}

/-- `Value.HeaderFields()` of every measure in `keys` order: the measure's name with the suffixes
`_min _max _avg _sum _dev`, here the pairs (name, 0..4) -/
def Stats.headerCols (s : Stats κ α) : List (κ × Nat) :=
  s.vals.flatMap fun kv => (List.range 5).map fun i => (kv.1, i)

/-- the numeric columns `WriteValues` writes: `Collect`, then `Value.Values()` of every measure in `keys` order -/
def Stats.valueCols [Num α] [KeyOrd κ] [DecidableEq κ] (s : Stats κ α) : List α :=
  s.collect.vals.flatMap fun kv => kv.2.values

/-- the static columns of the header: every key of `staticKeys` that has a value -/
def Stats.staticHeader (s : Stats κ α) : List String := s.static.map (·.1)

/-- the static columns of a values line -/
def Stats.staticValues (s : Stats κ α) : List String := s.static.map (·.2)

end columns

/-! ### `getStartStop` -/

/-- `strconv.Atoi` as the pair Go returns: the number and "no error"; on a syntax error 0, on a number that does
not fit `int` the nearest bound — both with the error set -/
def atoiPair (bs : List Nat) : Int × Bool :=
  match atoi bs with
  | some v => (v, false)
  | none =>
    let (neg, ds) : Bool × List Nat :=
      match bs with
      | 43 :: r => (false, r)
      | 45 :: r => (true, r)
      | r => (false, r)
    if ds.isEmpty || !ds.all (fun c => decide (48 ≤ c) && decide (c ≤ 57)) then (0, true)
    else if neg then (-(2 ^ 63 : Int), true) else ((2 ^ 63 : Int) - 1, true)

/-- `getStartStop` (simul/build.go:352-367): `simRange` split at `:`; a first field that is no number
means "everything from what `Atoi` left in `start`" (0 for a text that is no number — also for `:4`, the second
field is not looked at then); one number means that run only; `a:b` the runs a..b; `a:` (or a second field that
is no number) a..rcs. -/
def getStartStop (simRange : List Nat) (rcs : Int) : Int × Int :=
  match splitColon simRange with
  | [] => (0, rcs - 1)          -- not reachable: `strings.Split` never returns an empty slice
  | f0 :: rest =>
    let p := atoiPair f0
    if p.2 then (p.1, rcs - 1)
    else
      match rest with
      | [] => (p.1, p.1)
      | f1 :: _ =>
        let q := atoiPair f1
        if q.2 then (p.1, rcs) else (p.1, q.1)

/-- `i < start || i > stop` negated: run `i` is executed -/
def inRange (ss : Int × Int) (i : Nat) : Bool := decide (ss.1 ≤ (i : Int)) && decide ((i : Int) ≤ ss.2)

/-- the bytes of an ASCII text -/
def strBytes (s : String) : List Nat := s.toList.map Char.toNat

/-- `fmt.Sprintf("test_data/%s.csv", name)` -/
def sprintfName0 (name : List Nat) : List Nat := strBytes "test_data/" ++ name ++ strBytes ".csv"

/-- `fmt.Sprintf("test_data/%s_%d.csv", name, index)` -/
def sprintfNameN (name : List Nat) (index : Int) : List Nat :=
  strBytes "test_data/" ++ name ++ [95] ++ strBytes (toString index) ++ strBytes ".csv"

/-- `generateResultFileName` (simul/build.go:342-349): the bucket index is appended to all but the global
result set's file -/
def resultFileNameB (name : List Nat) (index : Int) : List Nat :=
  if index = 0 then sprintfName0 name else sprintfNameN name index

/-- the same on `String` (the driver's file names) -/
def resultFileName (name : String) (index : Nat) : String :=
  String.ofList ((resultFileNameB (strBytes name) (Int.ofNat index)).map Char.ofNat)

/-- `Value.HeaderFields()` (stats.go:491-493) on byte strings -/
def headerFields (name : List Nat) : List (List Nat) :=
  ["_min", "_max", "_avg", "_sum", "_dev"].map fun sfx => name ++ strBytes sfx

section files
variable {S L : Type}

/-- a line of a result file: the header or the values of a result set -/
inductive Line (S : Type) where
  | header (s : S)
  | values (s : S)
  deriving Repr, DecidableEq

/-- the body of the loop over the result sets of one run (build.go:152-180): the file of bucket `j` is
opened when the first run that has a bucket `j` reaches it (`j >= len(files)`), then the lines are written -/
def writeSet (ln : S → List L) (files : List (List L)) (j : Nat) (s : S) : List (List L) :=
  let files := if files.length ≤ j then files ++ [[]] else files
  files.modify j (· ++ ln s)

/-- `for j, bucketStat := range stats` from index `j` on -/
def writeRunFrom (ln : S → List L) : Nat → List S → List (List L) → List (List L)
  | _, [], fs => fs
  | j, s :: ss, fs => writeRunFrom ln (j + 1) ss (writeSet ln fs j s)

/-- what `RunTests` writes for a result set of run `i`: the header for run 0 only, then the values -/
def runLines (i : Nat) (s : S) : List (Line S) :=
  (if i = 0 then [Line.header s] else []) ++ [Line.values s]

/-- `for i, rc := range runconfigs` from index `i` on; `none` = `RunTest` returned an error (`continue`) -/
def runTestsFrom (ss : Int × Int) : Nat → List (Option (List S)) → List (List (Line S)) → List (List (Line S))
  | _, [], fs => fs
  | i, r :: rs, fs =>
    if !inRange ss i then runTestsFrom ss (i + 1) rs fs
    else match r with
      | none => runTestsFrom ss (i + 1) rs fs
      | some sets => runTestsFrom ss (i + 1) rs (writeRunFrom (runLines i) 0 sets fs)

/-- `RunTests`: the lines written to file 0, 1, … (as many files as the widest executed run has result sets) -/
def runTests (simRange : List Nat) (runs : List (Option (List S))) : List (List (Line S)) :=
  runTestsFrom (getStartStop simRange runs.length) 0 runs []

/-- the open mode (build.go:120-124): truncate, unless a range is given — then append -/
def fileAfter {X : Type} (simRange : List Nat) (old new : List X) : List X :=
  if simRange.isEmpty then new else old ++ new

end files

end C19
