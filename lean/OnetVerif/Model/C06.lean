import OnetVerif.Model.Util
/-! Model for property C06: a tree learnt from a peer or rebuilt from its serialised form is the
same tree (`tree.go`, `overlay.go`, `treestorage.go`, as they are after the `fix:` commits
a34bf3c, 5aab0d8, 2aafb7f, 9ed8d4a, 9b09732, 6793864).

Tree part — `MakeTreeMarshal`/`TreeMarshalCopyTree` (tree.go:119-131, 335-347), `MakeTree`/
`MakeTreeFromList` (350-393), `computeSubtreeAggregate` (283-297), `Marshal`/`NewTreeFromMarshal`/
`BinaryMarshaler`/`BinaryUnmarshaler` (98-179) with the codec as a parameter.

History part — the tree store (treestorage.go: an entry is absent, requested = present-with-nil, or
holds a tree), the table of parked tree descriptions and the handlers `handleRequestTree`,
`handleSendTree`, `handleSendTreeMarshal`, `handleRequestRoster`, `handleSendRoster`
(overlay.go:410-560), plus the local actions that move the store (request, failed request, local
registration, a live instance, expiry after the grace period).

Identifiers are numbers (0 = the nil UUID).  Keys live in `Nat` with `+` standing for the group
operation (the harness uses keys `k·G` with known small `k`, so aggregates can be compared).
Trees are first-child/next-sibling forests.  Core-only. -/
namespace C06

/-- a server identity as the tree code sees it: its id (`ServerIdentity.ID`) and public key -/
structure Server where
  sid : Nat
  key : Nat
  /-- the entry carries no public key (`Public == nil`): it can be found, but no node can be built on it -/
  nokey : Bool := false
  deriving DecidableEq, Repr

/-- `Roster`: `ID` and `List`; `tag` stands for everything else that travels with it (suite,
per-service keys) -/
structure Roster where
  id   : Nat
  list : List Server
  tag  : Nat := 0
  deriving DecidableEq, Repr

/-- `Roster.Search`: position and entry of the first server with that id (tree.go:482-489) -/
def search : List Server → Nat → Option (Nat × Server)
  | [], _ => none
  | s :: rest, sid => if s.sid = sid then some (0, s) else (search rest sid).map fun (i, e) => (i + 1, e)

/-- forest of `TreeMarshal` nodes: `TreeNodeID`, `ServerIdentityID`, children, next sibling -/
inductive TM where
  | nil
  | node (nid sid : Nat) (children siblings : TM)
  deriving DecidableEq, Repr

/-- the top `TreeMarshal`: `TreeID`, `RosterID` and `Children` (exactly the root, if well formed) -/
structure TreeMarshal where
  treeId   : Nat
  rosterId : Nat
  children : TM
  deriving DecidableEq, Repr

/-- forest of `TreeNode`s: `ID`, the server (`ServerIdentity`: id and key), `RosterIndex`,
`PublicAggregateSubTree`, children, next sibling.  `Parent` is implied by the nesting. -/
inductive TN where
  | nil
  | node (nid sid key idx agg : Nat) (children siblings : TN)
  deriving DecidableEq, Repr

/-- `Tree`: `ID`, `Roster` (nil for a hand-made value without one) and the root -/
structure Tree where
  id     : Nat
  roster : Option Roster
  root   : TN
  deriving DecidableEq, Repr

def TM.len : TM → Nat
  | .nil => 0
  | .node _ _ _ s => 1 + s.len

/-- `TreeMarshalCopyTree` -/
def copyTree : TN → TM
  | .nil => .nil
  | .node nid sid _ _ _ c s => .node nid sid (copyTree c) (copyTree s)

/-- `Tree.MakeTreeMarshal` -/
def makeTreeMarshal (t : Tree) : TreeMarshal :=
  match t.roster with
  | none => { treeId := 0, rosterId := 0, children := .nil }
  | some ro => { treeId := t.id, rosterId := ro.id, children := copyTree t.root }

/-- why a description is refused -/
inductive Err where
  | noRoster | rosterId | notOneRoot | unknownServer | noKey | codec
  deriving DecidableEq, Repr

/-- `MakeTreeFromList` (tree.go:368-390) for a whole forest, in the order of the code: the node's
server is looked up (`Roster.Search`: not found → error), the entry must carry a public key, then
the children in order (the first error ends the rebuild), then the following siblings.  Aggregates
are filled in afterwards. -/
def makeForest (ro : List Server) : TM → Except Err TN
  | .nil => .ok .nil
  | .node nid sid c s =>
    match search ro sid with
    | none => .error .unknownServer
    | some (idx, e) =>
      if e.nokey then .error .noKey else
      match makeForest ro c with
      | .error x => .error x
      | .ok c' =>
        match makeForest ro s with
        | .error x => .error x
        | .ok s' => .ok (.node nid sid e.key idx 0 c' s')

/-- `computeSubtreeAggregate` over a forest: the forest with every `PublicAggregateSubTree` set and
the sum of the aggregates of its top-level nodes -/
def aggregate : TN → TN × Nat
  | .nil => (.nil, 0)
  | .node nid sid key idx _ c s =>
    let rc := aggregate c
    let rs := aggregate s
    (.node nid sid key idx (key + rc.2) rc.1 rs.1, key + rc.2 + rs.2)

/-- `TreeMarshal.MakeTree` (tree.go:350-372) -/
def makeTree (tm : TreeMarshal) (ro : Option Roster) : Except Err Tree :=
  match ro with
  | none => .error .noRoster
  | some ro =>
    if ro.id ≠ tm.rosterId then .error .rosterId
    else if tm.children.len ≠ 1 then .error .notOneRoot
    else match makeForest ro.list tm.children with
      | .error e => .error e
      | .ok f => .ok { id := tm.treeId, roster := some ro, root := (aggregate f).1 }

/-- `NewTree` for a tree put together locally with `NewTreeNode`/`AddChild`: the id is given (it is
a hash, property C13), aggregates are computed -/
def newTree (id : Nat) (ro : Roster) (root : TN) : Tree :=
  { id := id, roster := some ro, root := (aggregate root).1 }

/-- the wire codec for the two serialised forms (`network.Marshal`/`Unmarshal` of `TreeMarshal` and
of `tbmStruct{T, Ro}`): a parameter; the theorems assume decoding inverts encoding -/
structure Codec (B : Type) where
  encTM  : TreeMarshal → B
  decTM  : B → Option TreeMarshal
  encTBM : B × Option Roster → B
  decTBM : B → Option (B × Option Roster)

/-- `Tree.Marshal` -/
def marshal {B} (cd : Codec B) (t : Tree) : B := cd.encTM (makeTreeMarshal t)

/-- `NewTreeFromMarshal` -/
def newTreeFromMarshal {B} (cd : Codec B) (buf : B) (ro : Option Roster) : Except Err Tree :=
  match cd.decTM buf with
  | none => .error .codec
  | some tm => makeTree tm ro

/-- `Tree.BinaryMarshaler` -/
def binaryMarshal {B} (cd : Codec B) (t : Tree) : B := cd.encTBM (marshal cd t, t.roster)

/-- `Tree.BinaryUnmarshaler` -/
def binaryUnmarshal {B} (cd : Codec B) (b : B) : Except Err Tree :=
  match cd.decTBM b with
  | none => .error .codec
  | some (t, ro) => newTreeFromMarshal cd t ro

/-- `TreeNode.Equal` (tree.go:961-977) over forests: node id, server id, number of children and
the children in order — and nothing else (not the key, the roster position or the aggregate) -/
def nodeEqual : TN → TN → Bool
  | .nil, .nil => true
  | .node nid sid _ _ _ c s, .node nid' sid' _ _ _ c' s' =>
    nid == nid' && sid == sid' && nodeEqual c c' && nodeEqual s s'
  | _, _ => false

/-- `Tree.Equal` (tree.go:182-188): tree id, roster id, then the nodes; `none` when a roster is
missing (the code dereferences it) -/
def treeEqual (t t' : Tree) : Option Bool :=
  match t.roster, t'.roster with
  | some ro, some ro' => some (t.id == t'.id && ro.id == ro'.id && nodeEqual t.root t'.root)
  | _, _ => none

/-! ### the overlay's tree store and the control-message handlers -/

/-- `treeStorage.trees` and `Overlay.pendingTreeMarshal`, the tree ids of the live protocol
instances (`o.instances[*].token.TreeID`), and two ghost sets for the statements: every id ever
requested, every id registered locally -/
structure Ovl where
  store   : List (Nat × Option Tree) := []
  pending : List (Nat × List TreeMarshal) := []
  insts   : List Nat := []
  everReq : List Nat := []
  locals  : List Nat := []
  deriving DecidableEq, Repr

def lookup {α} (l : List (Nat × α)) (k : Nat) : Option α :=
  match l with
  | [] => none
  | (k', v) :: rest => if k' = k then some v else lookup rest k

def insert {α} (l : List (Nat × α)) (k : Nat) (v : α) : List (Nat × α) :=
  match l with
  | [] => [(k, v)]
  | (k', v') :: rest => if k' = k then (k, v) :: rest else (k', v') :: insert rest k v

def erase {α} (l : List (Nat × α)) (k : Nat) : List (Nat × α) :=
  l.filter fun p => p.1 ≠ k

/-- `treeStorage.Get`: the tree, or nil when absent or only requested -/
def Ovl.get (o : Ovl) (id : Nat) : Option Tree := (lookup o.store id).join
/-- `treeStorage.IsRequested` -/
def Ovl.isRequested (o : Ovl) (id : Nat) : Bool := lookup o.store id == some none
/-- `treeStorage.IsRegistered` -/
def Ovl.isRegistered (o : Ovl) (id : Nat) : Bool := (lookup o.store id).isSome

/-- `Overlay.RegisterTree` = `treeStorage.Set` (parked protocol messages are property C01) -/
def Ovl.setTree (o : Ovl) (t : Tree) : Ovl := { o with store := insert o.store t.id (some t) }

/-- the roster `handleSendTreeMarshal` finds for a roster id (overlay.go:476-486, after 0cfb44b): the
tokens of the live instances are walked, each instance's tree is read from the store, and a tree
that is there and carries a roster with that id provides it (the last one, if several do) -/
def Ovl.instRoster (o : Ovl) (rid : Nat) : Option Roster :=
  (o.insts.filterMap fun tid =>
    (o.get tid).bind fun t => t.roster.bind fun r => if r.id = rid then some r else none).getLast?

/-- `treeStorage.GetRoster`: the roster of some stored tree with that roster id -/
def Ovl.getRoster (o : Ovl) (rid : Nat) : Option Roster :=
  o.store.findSome? fun p =>
    match p.2 with
    | some t => match t.roster with
      | some ro => if ro.id = rid then some ro else none
      | none => none
    | none => none

/-- what a peer can send -/
inductive Msg where
  | requestTree (treeId version : Nat)
  | responseTree (tm : Option TreeMarshal) (ro : Option Roster)
  | treeMarshal (tm : TreeMarshal)
  | requestRoster (rosterId : Nat)
  | sendRoster (ro : Roster)
  deriving DecidableEq, Repr

/-- what the server sends back to the peer -/
inductive Out where
  | responseTree (tm : TreeMarshal) (ro : Option Roster)
  | treeMarshal (tm : TreeMarshal)
  | requestRoster (rosterId : Nat)
  | roster (ro : Option Roster)      -- `none`: the empty `&Roster{}`
  deriving DecidableEq, Repr

/-- `handleSendTree` (overlay.go:508-535) -/
def handleSendTree (o : Ovl) (tm : Option TreeMarshal) (ro : Option Roster) : Ovl :=
  match tm with
  | none => o
  | some tm =>
    if tm.treeId = 0 then o
    else match ro with
      | none => o
      | some ro =>
        if !o.isRequested tm.treeId then o
        else match makeTree tm (some ro) with
          | .error _ => o
          | .ok t => o.setTree t

/-- one description in the loop of `checkPendingTreeMarshal`: skipped when its tree is present or
cannot be built, stored otherwise -/
def pendStep (ro : Roster) (o : Ovl) (tm : TreeMarshal) : Ovl :=
  if (o.get tm.treeId).isSome then o
  else match makeTree tm (some ro) with
    | .error _ => o
    | .ok t => o.setTree t

/-- `checkPendingTreeMarshal` (overlay.go:291-318, after 6793864): every description parked for the
roster id is tried, then they are forgotten -/
def checkPending (o : Ovl) (ro : Roster) : Ovl :=
  match lookup o.pending ro.id with
  | none => o
  | some sl =>
    let o' := sl.foldl (pendStep ro) o
    { o' with pending := erase o'.pending ro.id }

/-- `Overlay.Process` for the five tree/roster control messages: new state and what is sent back -/
def handle (o : Ovl) : Msg → Ovl × List Out
  | .requestTree id version =>
    match o.get id with
    | none => (o, [])
    | some t =>
      if version = 0 then (o, [.treeMarshal (makeTreeMarshal t)])
      else (o, [.responseTree (makeTreeMarshal t) t.roster])
  | .responseTree tm ro => (handleSendTree o tm ro, [])
  | .treeMarshal tm =>
    if tm.treeId = 0 then (o, [])
    else if !o.isRequested tm.treeId then (o, [])
    else match o.instRoster tm.rosterId with
      | none =>
        ({ o with pending := insert o.pending tm.rosterId ((lookup o.pending tm.rosterId).getD [] ++ [tm]) },
          [.requestRoster tm.rosterId])
      | some ro => (handleSendTree o (some tm) (some ro), [])
  | .requestRoster rid => (o, [.roster (o.getRoster rid)])
  | .sendRoster ro => if ro.id = 0 then (o, []) else (checkPending o ro, [])

/-- what happens locally -/
inductive Local where
  | reqSend (id : Nat)        -- a protocol message for tree `id` arrives: `TransmitMsg` → `requestTree`
                              -- (overlay.go:333-376), the request reaches the peer
  | reqFail (id : Nat)        -- the same, but the request cannot be sent: `Register`, then `Unregister`
  | request (id : Nat)        -- `requestTree`: `treeStorage.Register` before the request is sent
  | unrequest (id : Nat)      -- the request could not be sent: `treeStorage.Unregister`
  | register (t : Tree)       -- `RegisterTree` of a tree made on this server
  | instance (t : Tree)       -- `CreateProtocol`: registers the tree, the instance's roster is live
  | expire (id : Nat)         -- the grace period of a finished tree is over (treestorage.go:123-127)
  deriving DecidableEq, Repr

/-- does `requestTree` get as far as `Register` + `Send`?  Not when the tree is known (the message is
dispatched) and not when the id is already registered ("request already sent") -/
def Ovl.wouldRequest (o : Ovl) (id : Nat) : Bool := !(lookup o.store id).isSome

def localStep (o : Ovl) : Local → Ovl
  | .reqSend id =>
    if o.wouldRequest id then { o with store := insert o.store id none, everReq := id :: o.everReq } else o
  | .reqFail id =>
    -- registered while the send is attempted, unregistered when it fails: the slot is gone again
    if o.wouldRequest id then { o with everReq := id :: o.everReq } else o
  | .request id =>
    { o with store := if (lookup o.store id).isSome then o.store else insert o.store id none,
             everReq := id :: o.everReq }
  | .unrequest id =>
    if o.isRequested id then { o with store := erase o.store id } else o
  | .register t => { o.setTree t with locals := t.id :: o.locals }
  | .instance t =>
    match t.roster with
    | some _ => { o.setTree t with locals := t.id :: o.locals, insts := o.insts ++ [t.id] }
    | none => o
  | .expire id => { o with store := erase o.store id }

/-- one event of a server's history -/
inductive Ev where
  | peer (m : Msg)
  | loc (l : Local)
  deriving DecidableEq, Repr

def stepEv (o : Ovl) : Ev → Ovl
  | .peer m => (handle o m).1
  | .loc l => localStep o l

def runEv (o : Ovl) (evs : List Ev) : Ovl := evs.foldl stepEv o

/-! ### two cooperating servers (described at the head of `Model/C06Net.lean`) -/

/-- `&Roster{}`: what `handleRequestRoster` sends when it knows no such roster -/
def emptyRoster : Roster := { id := 0, list := [] }

/-- a reply, as the message its addressee handles -/
def Out.toMsg : Out → Msg
  | .responseTree tm ro => .responseTree (some tm) ro
  | .treeMarshal tm => .treeMarshal tm
  | .requestRoster rid => .requestRoster rid
  | .roster ro => .sendRoster (ro.getD emptyRoster)

inductive Site where
  | A | B
  deriving DecidableEq, Repr

def Site.other : Site → Site
  | .A => .B
  | .B => .A

/-- the two overlays and, per server, the messages on their way to it -/
structure Net where
  ovl   : Site → Ovl
  inbox : Site → List Msg

def upd {α : Type} (f : Site → α) (s : Site) (v : α) : Site → α := fun s' => if s' = s then v else f s'

inductive NetEv where
  | loc (s : Site) (l : Local)
  | ask (s : Site) (id version : Nat)
  | deliver (s : Site) (i : Nat)
  | redeliver (s : Site) (i : Nat)
  | drop (s : Site) (i : Nat)

/-- `s` handles `m`; its replies are on their way to the other server -/
def Net.handleAt (n : Net) (s : Site) (m : Msg) (rest : List Msg) : Net :=
  let r := handle (n.ovl s) m
  let inbox := upd n.inbox s rest
  { ovl := upd n.ovl s r.1, inbox := upd inbox s.other (inbox s.other ++ r.2.map Out.toMsg) }

def netStep (n : Net) : NetEv → Net
  | .loc s l => { n with ovl := upd n.ovl s (localStep (n.ovl s) l) }
  | .ask s id v =>
    let o := n.ovl s
    { ovl := upd n.ovl s (localStep o (.reqSend id)),
      inbox := if o.wouldRequest id then upd n.inbox s.other (n.inbox s.other ++ [.requestTree id v]) else n.inbox }
  | .deliver s i =>
    match (n.inbox s)[i]? with
    | none => n
    | some m => n.handleAt s m ((n.inbox s).eraseIdx i)
  | .redeliver s i =>
    match (n.inbox s)[i]? with
    | none => n
    | some m => n.handleAt s m (n.inbox s)
  | .drop s i => { n with inbox := upd n.inbox s ((n.inbox s).eraseIdx i) }

def netRun (n : Net) (evs : List NetEv) : Net := evs.foldl netStep n


/-! ### any number of cooperating servers

Servers are numbered; a message in flight carries its sender, and what its addressee sends in reply travels back
to that sender (`Overlay.Process` answers the `ServerIdentity` of the envelope).  A request for a tree may be put
to any server (`TransmitMsg` → `requestTree` asks the sender of the protocol message that named the tree). -/

structure NNet where
  ovl   : Nat → Ovl
  inbox : Nat → List (Nat × Msg)      -- (sender, message) on its way to the server

def updN {α : Type} (f : Nat → α) (s : Nat) (v : α) : Nat → α := fun s' => if s' = s then v else f s'

inductive NNetEv where
  | loc (s : Nat) (l : Local)
  | ask (s p : Nat) (id version : Nat)       -- `s` asks `p` for tree `id`
  | deliver (s : Nat) (i : Nat)
  | redeliver (s : Nat) (i : Nat)
  | drop (s : Nat) (i : Nat)

/-- `s` handles `m` that came from `p`; its replies are on their way to `p` -/
def NNet.handleAt (n : NNet) (s p : Nat) (m : Msg) (rest : List (Nat × Msg)) : NNet :=
  let r := handle (n.ovl s) m
  let inbox := updN n.inbox s rest
  { ovl := updN n.ovl s r.1, inbox := updN inbox p (inbox p ++ r.2.map fun o => (s, o.toMsg)) }

def nnetStep (n : NNet) : NNetEv → NNet
  | .loc s l => { n with ovl := updN n.ovl s (localStep (n.ovl s) l) }
  | .ask s p id v =>
    let o := n.ovl s
    { ovl := updN n.ovl s (localStep o (.reqSend id)),
      inbox := if o.wouldRequest id then updN n.inbox p (n.inbox p ++ [(s, .requestTree id v)]) else n.inbox }
  | .deliver s i =>
    match (n.inbox s)[i]? with
    | none => n
    | some m => n.handleAt s m.1 m.2 ((n.inbox s).eraseIdx i)
  | .redeliver s i =>
    match (n.inbox s)[i]? with
    | none => n
    | some m => n.handleAt s m.1 m.2 (n.inbox s)
  | .drop s i => { n with inbox := updN n.inbox s ((n.inbox s).eraseIdx i) }

def nnetRun (n : NNet) (evs : List NNetEv) : NNet := evs.foldl nnetStep n


/-! ### line-protocol driver -/
namespace Drv

/-- rosters and trees defined so far (by label), the overlay under test -/
structure State where
  rosters : List (Nat × Roster) := []
  trees   : List (Nat × Tree) := []
  shapes  : List (Nat × (Nat × List (Nat × Nat × Nat))) := []   -- per tree label: roster label, items
  ovl     : Ovl := {}
  net     : Net := { ovl := fun _ => {}, inbox := fun _ => [] }
  nnet    : NNet := { ovl := fun _ => {}, inbox := fun _ => [] }

def init : State := {}

/-- the codec of the driver: the serialised form is the value itself -/
inductive Wire where
  | tm (t : TreeMarshal)
  | tbm (w : Wire) (ro : Option Roster)
  | junk                       -- bytes that are no message, or a message of another type

def wireCodec : Codec Wire :=
  { encTM := .tm
    decTM := fun w => match w with | .tm t => some t | _ => none
    encTBM := fun p => .tbm p.1 p.2
    decTBM := fun w => match w with | .tbm w ro => some (w, ro) | _ => none }

def showTN : TN → List String
  | .nil => []
  | .node nid sid key idx agg c s =>
    let kids := showTN c
    let arity := (copyTree c).len
    (s!"{nid}/{sid}/{key}/{idx}/{agg}:{arity}" :: kids) ++ showTN s

def showRoster (ro : Roster) : String :=
  s!"R{ro.id}[" ++ ",".intercalate (ro.list.map fun s => if s.nokey then s!"{s.sid}/nil" else s!"{s.sid}/{s.key}") ++ s!"]#{ro.tag}"

def showTree (t : Tree) : String :=
  s!"T{t.id} " ++ (match t.roster with | none => "R-" | some ro => showRoster ro) ++ " " ++
    ",".intercalate (showTN t.root)

def showErr : Err → String
  | .noRoster => "err:no-roster"
  | .rosterId => "err:roster-id"
  | .notOneRoot => "err:not-one-root"
  | .unknownServer => "err:unknown-server"
  | .noKey => "err:no-key"
  | .codec => "err:codec"

def showRes : Except Err Tree → String
  | .ok t => showTree t
  | .error e => showErr e

def showTMf : TM → List String
  | .nil => []
  | .node nid sid c s => (s!"{nid}/{sid}:{c.len}" :: showTMf c) ++ showTMf s

def showTM (tm : TreeMarshal) : String :=
  s!"T{tm.treeId},R{tm.rosterId},{tm.children.len};" ++ ",".intercalate (showTMf tm.children)

def showOut : Out → String
  | .responseTree tm ro => "resptree(" ++ showTM tm ++ " " ++ (match ro with | none => "nil" | some r => showRoster r) ++ ")"
  | .treeMarshal tm => "tm(" ++ showTM tm ++ ")"
  | .requestRoster rid => s!"reqroster({rid})"
  | .roster ro => "roster(" ++ (match ro with | none => "empty" | some r => showRoster r) ++ ")"

def sortPairs {α} (l : List (Nat × α)) : List (Nat × α) :=
  (l.toArray.qsort fun a b => a.1 < b.1).toList

def showStore (o : Ovl) : String :=
  let st := (sortPairs o.store).map fun (id, t) =>
    match t with
    | none => s!"{id}:requested"
    | some t => s!"{id}:<" ++ showTree t ++ ">"
  let pd := (sortPairs o.pending).map fun (rid, l) => s!"{rid}:" ++ "+".intercalate (l.map fun tm => toString tm.treeId)
  "store{" ++ " ".intercalate st ++ "} pending{" ++ " ".intercalate pd ++ "}"

/-- pre-order `a/b:arity` items → forest of `n` trees; `mk` builds a node from `a`, `b` -/
def parseForestWith {F} (nil : F) (mk : Nat → Nat → F → F → Option F) :
    (fuel n : Nat) → List (Nat × Nat × Nat) → Option (F × List (Nat × Nat × Nat))
  | _, 0, l => some (nil, l)
  | 0, _ + 1, _ => none
  | fuel + 1, n + 1, (a, b, ar) :: l =>
      match parseForestWith nil mk fuel ar l with
      | some (c, l1) =>
          match parseForestWith nil mk fuel n l1 with
          | some (s, l2) => (mk a b c s).map fun f => (f, l2)
          | none => none
      | none => none
  | _ + 1, _ + 1, [] => none

/-- the first subtree of a pre-order item list, and what follows it -/
def splitSub : (fuel : Nat) → List (Nat × Nat × Nat) → Option (List (Nat × Nat × Nat) × List (Nat × Nat × Nat))
  | 0, _ => none
  | _ + 1, [] => none
  | fuel + 1, (a, b, ar) :: rest =>
    let rec kids : Nat → List (Nat × Nat × Nat) → List (Nat × Nat × Nat) → Option (List (Nat × Nat × Nat) × List (Nat × Nat × Nat))
      | 0, acc, l => some (acc, l)
      | n + 1, acc, l =>
        match splitSub fuel l with
        | some (sub, l') => kids n (acc ++ sub) l'
        | none => none
    (kids ar [] rest).map fun (ks, l') => ((a, b, ar) :: ks, l')

/-- what re-using the nodes of a tree amounts to: the pre-order node `k` gets one more child (a new
leaf `leaf`, appended as its last child), or loses its last child with everything below -/
def editItems (items : List (Nat × Nat × Nat)) (k : Nat) (leaf : Option (Nat × Nat)) : Option (List (Nat × Nat × Nat)) :=
  match items.drop k with
  | [] => none
  | (a, b, ar) :: _ =>
    match splitSub (items.length + 1) (items.drop k) with
    | none => none
    | some (sub, after) =>
      let before := items.take k
      match leaf with
      | some (p, nid) => some (before ++ ((a, b, ar + 1) :: sub.drop 1) ++ [(p, nid, 0)] ++ after)
      | none =>
        if ar = 0 then none else
        -- drop the last child: walk over the first ar-1 children
        let rec skip : Nat → List (Nat × Nat × Nat) → List (Nat × Nat × Nat) → Option (List (Nat × Nat × Nat))
          | 0, acc, _ => some acc
          | n + 1, acc, l =>
            match splitSub (items.length + 1) l with
            | some (s1, l') => skip n (acc ++ s1) l'
            | none => none
        (skip (ar - 1) [] (sub.drop 1)).map fun kept => before ++ ((a, b, ar - 1) :: kept) ++ after

/-- `a/b:arity` -/
def parseItem (s : String) : Option (Nat × Nat × Nat) :=
  match s.splitOn ":" with
  | [ab, ar] =>
    match ab.splitOn "/" with
    | [a, b] => do some ((← a.toNat?), (← b.toNat?), (← ar.toNat?))
    | _ => none
  | _ => none

def parseItems (s : String) : Option (List (Nat × Nat × Nat)) :=
  if s = "-" then some [] else (s.splitOn ",").mapM parseItem

/-- `<letter><number>` -/
def tagged (c : Char) (s : String) : Option Nat :=
  match s.toList with
  | c' :: rest => if c' = c then (String.ofList rest).toNat? else none
  | [] => none

/-- `T<tid>,R<rid>,<k>;<items>`: an explicit tree description with `k` top-level children -/
def parseTM (s : String) : Option TreeMarshal :=
  match s.splitOn ";" with
  | [hd, items] =>
    match hd.splitOn "," with
    | [t, r, k] =>
      match tagged 'T' t, tagged 'R' r, k.toNat?, parseItems items with
      | some tid, some rid, some k, some l =>
        match parseForestWith TM.nil (fun a b c s => some (TM.node a b c s)) (l.length + 1) k l with
        | some (f, []) => some { treeId := tid, rosterId := rid, children := f }
        | _ => none
      | _, _, _, _ => none
    | _ => none
  | _ => none

/-- the server label a roster entry is looked up by: the identifier derived from its KEY (`ServerIdentity.GetID()`,
which `MakeTreeFromList` and `TreeMarshalCopyTree` use since the repair of round 7) — key `(s+1)·G` is server `s`'s
(labels 0–47); a key that is no server's gets a label of its own; an entry without key has the nil identifier -/
def sidOfKey (k : Nat) : Nat := if 1 ≤ k ∧ k ≤ 48 then k - 1 else 9000 + k
def sidNoKey : Nat := 9999

/-- `a/b`: `a` is what the entry's deprecated `ID` FIELD claims (a server label, or `n` = the field is empty) — the
tree code never reads it, so the model does not keep it; `b` is the key (`-`: none) -/
def parseServers (s : String) : Option (List Server) :=
  if s = "-" then some [] else
  (s.splitOn ",").mapM fun it =>
    match it.splitOn "/" with
    | [a, b] =>
      if a ≠ "n" ∧ a.toNat?.isNone then none
      else if b = "-" then some { sid := sidNoKey, key := 0, nokey := true }
      else do let k ← b.toNat?; some { sid := sidOfKey k, key := k }
    | _ => none

def optRoster (st : State) (s : String) : Option (Option Roster) :=
  if s = "nil" then some none else (s.toNat?.bind fun l => lookup st.rosters l).map some

/-- a roster that can travel: every entry has its public key (the codec cannot write an entry
without one) -/
def wireRoster (st : State) (s : String) : Option (Option Roster) :=
  (optRoster st s).bind fun ro =>
    match ro with
    | some r => if r.list.any (·.nokey) then none else some ro
    | none => some none

def showMsg : Msg → String
  | .requestTree id v => s!"reqtree({id},{v})"
  | .responseTree tm ro =>
    "resptree(" ++ (match tm with | none => "nil" | some t => showTM t) ++ " " ++
      (match ro with | none => "nil" | some r => showRoster r) ++ ")"
  | .treeMarshal tm => "tm(" ++ showTM tm ++ ")"
  | .requestRoster rid => s!"reqroster({rid})"
  | .sendRoster ro => if ro.id = 0 ∧ ro.list = [] then "roster(empty)" else "roster(" ++ showRoster ro ++ ")"

def showNet (n : Net) : String :=
  "A:" ++ showStore (n.ovl .A) ++ " B:" ++ showStore (n.ovl .B) ++
    " toA[" ++ " ".intercalate ((n.inbox .A).map showMsg) ++ "] toB[" ++ " ".intercalate ((n.inbox .B).map showMsg) ++ "]"

def parseSite (s : String) : Option Site :=
  if s = "A" then some .A else if s = "B" then some .B else none

/-- the two-server ops: `n.register <A|B> <tree label>`, `n.ask <A|B> <tree id> <version>`,
`n.deliver|n.dup|n.drop <A|B> <k>` (the message at position `k mod length` of that server's inbox; `idle` when
nothing is in flight towards it), `n.unrequest|n.expire <A|B> <tree id>` -/
def netOp (st : State) (toks : List String) : State × String :=
  let fin := fun (n : Net) => ({ st with net := n }, showNet n)
  match toks with
  | ["n.register", s, l] =>
    match parseSite s, l.toNat?.bind (lookup st.trees) with
    | some s, some t => fin (netStep st.net (.loc s (.register t)))
    | _, _ => (st, "bad-op")
  | ["n.ask", s, id, v] =>
    match parseSite s, id.toNat?, v.toNat? with
    | some s, some id, some v => if v > 1 then (st, "bad-op") else fin (netStep st.net (.ask s id v))
    | _, _, _ => (st, "bad-op")
  | ["n.unrequest", s, id] =>
    match parseSite s, id.toNat? with
    | some s, some id => fin (netStep st.net (.loc s (.unrequest id)))
    | _, _ => (st, "bad-op")
  | ["n.expire", s, id] =>
    match parseSite s, id.toNat? with
    | some s, some id => fin (netStep st.net (.loc s (.expire id)))
    | _, _ => (st, "bad-op")
  | [op, s, k] =>
    match parseSite s, k.toNat? with
    | some s, some k =>
      let len := (st.net.inbox s).length
      if op ≠ "n.deliver" ∧ op ≠ "n.dup" ∧ op ≠ "n.drop" then (st, "bad-op")
      else if len = 0 then (st, "idle " ++ showNet st.net)
      else
        let i := k % len
        if op = "n.deliver" then fin (netStep st.net (.deliver s i))
        else if op = "n.dup" then fin (netStep st.net (.redeliver s i))
        else fin (netStep st.net (.drop s i))
    | _, _ => (st, "bad-op")
  | _ => (st, "bad-op")

/-- how many servers the `m.` ops address (and the observation shows) -/
def nSites : Nat := 4

def showNNet (n : NNet) : String :=
  " ".intercalate ((List.range nSites).map fun s =>
    s!"S{s}:" ++ showStore (n.ovl s) ++ " to" ++ s!"{s}[" ++
      " ".intercalate ((n.inbox s).map fun m => s!"{m.1}>" ++ showMsg m.2) ++ "]")

def parseNSite (s : String) : Option Nat := s.toNat?.bind fun k => if k < nSites then some k else none

/-- the N-server ops: `m.register <s> <tree label>`, `m.ask <s> <p> <tree id> <version>` (`s` asks `p ≠ s`),
`m.deliver|m.dup|m.drop <s> <k>` (the message at position `k mod length` of that server's inbox; `idle` when nothing
is in flight towards it), `m.unrequest|m.expire <s> <tree id>` -/
def nnetOp (st : State) (toks : List String) : State × String :=
  let fin := fun (n : NNet) => ({ st with nnet := n }, showNNet n)
  match toks with
  | ["m.register", s, l] =>
    match parseNSite s, l.toNat?.bind (lookup st.trees) with
    | some s, some t => fin (nnetStep st.nnet (.loc s (.register t)))
    | _, _ => (st, "bad-op")
  | ["m.ask", s, p, id, v] =>
    match parseNSite s, parseNSite p, id.toNat?, v.toNat? with
    | some s, some p, some id, some v =>
      if v > 1 ∨ s = p then (st, "bad-op") else fin (nnetStep st.nnet (.ask s p id v))
    | _, _, _, _ => (st, "bad-op")
  | ["m.unrequest", s, id] =>
    match parseNSite s, id.toNat? with
    | some s, some id => fin (nnetStep st.nnet (.loc s (.unrequest id)))
    | _, _ => (st, "bad-op")
  | ["m.expire", s, id] =>
    match parseNSite s, id.toNat? with
    | some s, some id => fin (nnetStep st.nnet (.loc s (.expire id)))
    | _, _ => (st, "bad-op")
  | [op, s, k] =>
    match parseNSite s, k.toNat? with
    | some s, some k =>
      let len := (st.nnet.inbox s).length
      if op ≠ "m.deliver" ∧ op ≠ "m.dup" ∧ op ≠ "m.drop" then (st, "bad-op")
      else if len = 0 then (st, "idle " ++ showNNet st.nnet)
      else
        let i := k % len
        if op = "m.deliver" then fin (nnetStep st.nnet (.deliver s i))
        else if op = "m.dup" then fin (nnetStep st.nnet (.redeliver s i))
        else fin (nnetStep st.nnet (.drop s i))
    | _, _ => (st, "bad-op")
  | _ => (st, "bad-op")

/-- `tree <label> <tree id> <roster label> <member position/node id:arity,…>` -/
def treeOp (st : State) (l tid r items : String) : State × String :=
  match l.toNat?, tid.toNat?, r.toNat?.bind (lookup st.rosters), parseItems items with
  | some l, some tid, some ro, some its =>
    let mk := fun (pos nid : Nat) (c s : TN) =>
      (ro.list[pos]?).bind fun e => if e.nokey then none else some (TN.node nid e.sid e.key pos 0 c s)
    match parseForestWith TN.nil mk (its.length + 1) 1 its with
    | some (f, []) =>
      let t := newTree tid ro f
      ({ st with trees := insert st.trees l t, shapes := insert st.shapes l (r.toNat?.getD 0, its) }, showTree t)
    | _ => (st, "bad-op")
  | _, _, _, _ => (st, "bad-op")

def step (st : State) (toks : List String) : State × String :=
  match toks with
  -- `roster <label> <id> <tag> <sid/key,…>`
  | ["roster", l, id, tag, servers] =>
    match l.toNat?, id.toNat?, tag.toNat?, parseServers servers with
    | some l, some id, some tag, some sv =>
      ({ st with rosters := insert st.rosters l { id := id, list := sv, tag := tag } }, "ok")
    | _, _, _, _ => (st, "bad-op")
  -- `tree <label> <tree id> <roster label> <member position/node id:arity,…>`: NewTreeNode + NewTree
  | ["tree", l, tid, r, items] => treeOp st l tid r items
  -- `sibling <roster label> <server label>`: another roster is derived (`Concat`) from the base roster this
  -- one was derived from — rosters are values: nothing changes
  | ["sibling", r, sl] =>
    match r.toNat?.bind (lookup st.rosters), sl.toNat? with
    | some _, some sl => if sl ≥ 48 then (st, "bad-op") else (st, "ok")
    | _, _ => (st, "bad-op")
  -- `gtree <label> <tree id> <roster label> <N> <root position> <items>`: the tree is made by the real
  -- `GenerateNaryTreeWithRoot(N, ro.List[root])` (property C12 says which tree that is: the complete
  -- N-ary tree in breadth-first order over the roster rotated to the root — `items` spell it out,
  -- with the roster position every node must carry); from here on it is a tree like any other
  | ["gtree", l, tid, r, bn, root, items] =>
    match bn.toNat?, root.toNat?, r.toNat?.bind (lookup st.rosters) with
    | some bn, some root, some ro =>
      if bn = 0 ∨ root ≥ ro.list.length then (st, "bad-op") else treeOp st l tid r items
    | _, _, _ => (st, "bad-op")
  -- `retree <label> <tree id> <old label> add <k> <position>` / `… prune <k>`: the TreeNode objects of
  -- the old tree are re-used: node k (pre-order) gets a new leaf as last child / loses its last
  -- child; NewTree over the same root.  The old label is gone (its nodes are the new tree's).
  | "retree" :: l :: tid :: old :: edit =>
    let leaf? : Option (Nat × Option Nat) :=
      match edit with
      | ["add", k, p] => do some ((← k.toNat?), some (← p.toNat?))
      | ["prune", k] => do some ((← k.toNat?), none)
      | _ => none
    match l.toNat?, tid.toNat?, old.toNat?.bind (lookup st.shapes), leaf? with
    | some l, some tid, some (rl, its), some (k, p?) =>
      match lookup st.rosters rl with
      | none => (st, "bad-op")
      | some ro =>
        let leaf : Option (Option (Nat × Nat)) :=
          match p? with
          | none => some none
          | some p => (ro.list[p]?).bind fun e => if e.nokey then none else some (some (p, e.sid))
        match leaf.bind (editItems its k) with
        | none => (st, "bad-op")
        | some its' =>
          let mk := fun (pos nid : Nat) (c s : TN) =>
            (ro.list[pos]?).bind fun e => if e.nokey then none else some (TN.node nid e.sid e.key pos 0 c s)
          match parseForestWith TN.nil mk (its'.length + 1) 1 its' with
          | some (f, []) =>
            let t := newTree tid ro f
            let oldL := old.toNat?.getD 0
            ({ st with trees := insert (erase st.trees oldL) l t, shapes := insert (erase st.shapes oldL) l (rl, its') },
              showTree t)
          | _ => (st, "bad-op")
    | _, _, _, _ => (st, "bad-op")
  -- `strip <label> <old label>`: the same tree value without its roster (`&Tree{ID, Root}`)
  | ["strip", l, old] =>
    match l.toNat?, old.toNat?.bind (lookup st.trees) with
    | some l, some t =>
      let t' : Tree := { t with roster := none }
      ({ st with trees := insert st.trees l t' }, showTree t')
    | _, _ => (st, "bad-op")
  -- `equal <label> <label>`: Tree.Equal
  | ["equal", a, b] =>
    match a.toNat?.bind (lookup st.trees), b.toNat?.bind (lookup st.trees) with
    | some t, some t' =>
      (st, match treeEqual t t' with | some true => "true" | some false => "false" | none => "bad-op")
    | _, _ => (st, "bad-op")
  -- `frommarshal <empty|unknown|othertype> <roster label | nil>`: NewTreeFromMarshal of bytes that are
  -- no tree description
  | ["frommarshal", kind, r] =>
    match optRoster st r with
    | some ro =>
      if kind = "empty" ∨ kind = "unknown" ∨ kind = "othertype" then
        (st, showRes (newTreeFromMarshal wireCodec Wire.junk ro))
      else (st, "bad-op")
    | none => (st, "bad-op")
  -- `binaryun junk <empty|unknown|othertype>`: BinaryUnmarshaler of bytes that are no binary form;
  -- `binaryun splice <tree label> <roster label | nil>`: of a binary form whose roster was exchanged
  | ["binaryun", "junk", kind] =>
    if kind = "empty" ∨ kind = "unknown" ∨ kind = "othertype" then
      (st, showRes (binaryUnmarshal wireCodec Wire.junk))
    else (st, "bad-op")
  | ["binaryun", "splice", l, r] =>
    match l.toNat?.bind (lookup st.trees), wireRoster st r with
    | some t, some ro => (st, showRes (binaryUnmarshal wireCodec (wireCodec.encTBM (marshal wireCodec t, ro))))
    | _, _ => (st, "bad-op")
  -- `marshal-rt <tree label> <roster label | nil>`: Marshal, NewTreeFromMarshal
  | ["marshal-rt", l, r] =>
    match l.toNat?.bind (lookup st.trees), optRoster st r with
    | some t, some ro => (st, showRes (newTreeFromMarshal wireCodec (marshal wireCodec t) ro))
    | _, _ => (st, "bad-op")
  -- `binary-rt <tree label>`: BinaryMarshaler, BinaryUnmarshaler
  | ["binary-rt", l] =>
    match l.toNat?.bind (lookup st.trees) with
    | some t => (st, showRes (binaryUnmarshal wireCodec (binaryMarshal wireCodec t)))
    | none => (st, "bad-op")
  -- `maketree <description> <roster label | nil>`
  | ["maketree", d, r] =>
    match parseTM d, optRoster st r with
    | some tm, some ro => (st, showRes (makeTree tm ro))
    | _, _ => (st, "bad-op")
  -- history: local actions
  | ["h.request", id] =>
    match id.toNat? with
    | some id => let o := localStep st.ovl (.request id); ({ st with ovl := o }, showStore o)
    | none => (st, "bad-op")
  | ["h.reqsend", id] =>
    match id.toNat? with
    | some id =>
      let o := localStep st.ovl (.reqSend id)
      ({ st with ovl := o }, (if st.ovl.wouldRequest id then s!"out[reqtree({id})] " else "out[] ") ++ showStore o)
    | none => (st, "bad-op")
  | ["h.reqfail", id] =>
    match id.toNat? with
    | some id => let o := localStep st.ovl (.reqFail id); ({ st with ovl := o }, "out[] " ++ showStore o)
    | none => (st, "bad-op")
  | ["h.unrequest", id] =>
    match id.toNat? with
    | some id => let o := localStep st.ovl (.unrequest id); ({ st with ovl := o }, showStore o)
    | none => (st, "bad-op")
  | ["h.expire", id] =>
    match id.toNat? with
    | some id => let o := localStep st.ovl (.expire id); ({ st with ovl := o }, showStore o)
    | none => (st, "bad-op")
  -- `h.race <tree A> <tree B> <rounds>`: the server waits for A's id; A's description and B's description under A's
  -- id are answered at the same time, `rounds` times over; whichever the server stores first stays (a handler is one
  -- step of this model); afterwards the id is released again — what remains to observe is the store without it
  | ["h.race", a, b, n] =>
    match a.toNat?.bind (lookup st.trees), b.toNat?.bind (lookup st.trees), n.toNat? with
    | some ta, some tb, some n =>
      if n > 2000 ∨ ta.roster.isNone ∨ tb.roster.isNone then (st, "bad-op")
      else let o := localStep st.ovl (.expire ta.id); ({ st with ovl := o }, showStore o)
    | _, _, _ => (st, "bad-op")
  | ["h.register", l] =>
    match l.toNat?.bind (lookup st.trees) with
    | some t => let o := localStep st.ovl (.register t); ({ st with ovl := o }, showStore o)
    | none => (st, "bad-op")
  | ["h.instance", l] =>
    match l.toNat?.bind (lookup st.trees) with
    | some t => let o := localStep st.ovl (.instance t); ({ st with ovl := o }, showStore o)
    | none => (st, "bad-op")
  -- history: messages from a peer
  | "h.msg" :: rest =>
    let m : Option Msg :=
      match rest with
      | ["reqtree", id, v] => do some (.requestTree (← id.toNat?) (← v.toNat?))
      | ["resptree", d, r] =>
        (if d = "nil" then some none else (parseTM d).map some).bind fun tm =>
          (wireRoster st r).map fun ro => .responseTree tm ro
      | ["tm", d] => (parseTM d).map .treeMarshal
      | ["reqroster", rid] => rid.toNat?.map .requestRoster
      | ["roster", r] => ((wireRoster st r).bind id).map .sendRoster
      | _ => none
    match m with
    | some m =>
      let (o, outs) := handle st.ovl m
      ({ st with ovl := o },
        "out[" ++ " ".intercalate (outs.map showOut) ++ "] " ++ showStore o)
    | none => (st, "bad-op")
  -- `propagate <member:arity,…> <pre-order index of the receiving node> <mem|tcp>`: a tree over six servers,
  -- known to the root's server; the receiving node's server requests it and handles the answer
  | ["propagate", desc, target, transport] =>
    -- the transport (in-memory or TCP) does not exist in the model: both carry the same messages
    if transport ≠ "mem" ∧ transport ≠ "tcp" then (st, "bad-op") else
    let items : Option (List (Nat × Nat × Nat)) := (desc.splitOn ",").mapM fun it =>
      match it.splitOn ":" with
      | [m, a] => do some ((← m.toNat?), (← m.toNat?), (← a.toNat?))
      | _ => none
    match items, target.toNat? with
    | some its, some tg =>
      let ro : Roster := { id := 1, list := (List.range 6).map fun s => { sid := s, key := s + 1 } }
      if its.any (fun it => it.1 ≥ 6) ∨ tg = 0 ∨ tg ≥ its.length then (st, "bad-op") else
      if (its[tg]?.map (·.1)) = (its[0]?.map (·.1)) then (st, "bad-op") else
      let mk := fun (pos nid : Nat) (c s : TN) => (ro.list[pos]?).map fun e => TN.node nid e.sid e.key pos 0 c s
      match parseForestWith TN.nil mk (its.length + 1) 1 its with
      | some (f, []) =>
        let t := newTree 1 ro f
        let sender := localStep {} (.instance t)
        let receiver := localStep {} (.request 1)
        let outs := (handle sender (.requestTree 1 1)).2
        let receiver := outs.foldl (fun o out =>
          match out with
          | .responseTree tm r => (handle o (.responseTree (some tm) r)).1
          | _ => o) receiver
        (st, match receiver.get 1 with
          | some t' => if t' = t then "learnt:same" else "learnt:differs"
          | none => "learnt:none")
      | _ => (st, "bad-op")
    | _, _ => (st, "bad-op")
  | op :: rest => if op.startsWith "n." then netOp st (op :: rest)
    else if op.startsWith "m." then nnetOp st (op :: rest) else (st, "bad-op")
  | _ => (st, "bad-op")

end Drv

end C06
