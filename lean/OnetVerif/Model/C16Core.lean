import OnetVerif.Model.Util
/-! Model for property C16 — service storage (`context.go:26-51, 166-309`, `service.go:367-425`,
`server.go:48-82`): one bbolt database per server, buckets named after the service.

The database is `bucket name → key → value` on byte strings.  A stored value is the
`network.Marshal` encoding of what the service saved (16-byte type id ++ protobuf body); the codec
itself is a parameter: `Load` succeeds iff the stored bytes start with a registered type id (the
harness never stores a registered id followed by a malformed body).  Core-only. -/
namespace C16

abbrev Bytes := List Nat

/-- one bbolt bucket: key → value -/
abbrev Bucket := Bytes → Option Bytes

/-- the database file: bucket name → bucket (`none`: no such bucket) -/
abbrev Db := Bytes → Option Bucket

def Db.empty : Db := fun _ => none

/-- `"version"` -/
def sVersion : Bytes := [118, 101, 114, 115, 105, 111, 110]
/-- `'_'` -/
def cUnderscore : Nat := 95
/-- `var dbVersion = []byte("dbVersion")` (context.go:238) -/
def dbVersionKey : Bytes := [100, 98, 86, 101, 114, 115, 105, 111, 110]

/-- `bucketName: []byte(ServiceFactory.Name(servID))` (context.go:33) -/
def mainName (svc : Bytes) : Bytes := svc
/-- `bucketVersionName: []byte(ServiceFactory.Name(servID) + "version")` (context.go:34) -/
def versionName (svc : Bytes) : Bytes := svc ++ sVersion
/-- `fullName := append(append(bucketName, byte('_')), name...)` (context.go:295) -/
def extraName (svc x : Bytes) : Bytes := svc ++ [cUnderscore] ++ x

/-- `tx.CreateBucketIfNotExists(name)` -/
def createBucket (db : Db) (n : Bytes) : Db :=
  fun m => if m = n then some ((db n).getD fun _ => none) else db m

/-- `newContext` (context.go:26-51): both buckets of the service exist afterwards -/
def newContext (db : Db) (svc : Bytes) : Db :=
  createBucket (createBucket db (mainName svc)) (versionName svc)

/-- server start on a data directory (`newServiceManager`, service.go:322-365): the file is
opened with whatever it holds and every registered service gets its context -/
def startServer (db : Db) (services : List Bytes) : Db := services.foldl newContext db

/-- what a storage call returns -/
inductive Res where
  | ok
  | nothing                -- `(nil, nil)`: no such key
  | val (b : Bytes)        -- the stored bytes (for `Load`: the encoding of the value returned)
  | ver (i : Int)
  | name (b : Bytes)       -- bucket name returned by `GetAdditionalBucket`
  | errTx                  -- the bbolt transaction failed (key empty or too large)
  | errMarshal
  | errUnmarshal
  | errVersion             -- `bytes to int`
  | noBucket               -- direct access to an additional bucket that was never created
  | panic                  -- nil bucket dereferenced inside onet
  deriving DecidableEq, Repr

/-- bbolt `MaxKeySize` -/
def maxKeySize : Nat := 32768

/-- `b.Put(key, v)` in bucket `n` inside `db.Update`; `none`: no such bucket -/
def putIn (db : Db) (n k v : Bytes) : Option (Db × Res) :=
  match db n with
  | none => none
  | some b =>
    if k = [] ∨ k.length > maxKeySize then some (db, .errTx)
    else some (fun m => if m = n then some (fun k' => if k' = k then some v else b k') else db m, .ok)

/-- `b.Delete(key)` in bucket `n` -/
def delIn (db : Db) (n k : Bytes) : Option (Db × Res) :=
  match db n with
  | none => none
  | some b => some (fun m => if m = n then some (fun k' => if k' = k then none else b k') else db m, .ok)

/-- `tx.Bucket(n).Get(key)`; outer `none`: no such bucket -/
def getFrom (db : Db) (n k : Bytes) : Option (Option Bytes) := (db n).map (· k)

/-- `network.Unmarshal` succeeds: the bytes start with a registered type id -/
def decodable (known : List Bytes) (raw : Bytes) : Bool :=
  decide (16 ≤ raw.length) && known.contains (raw.take 16)

/-- `int32(version)` written little-endian (context.go:268-271) -/
def wrap32 (v : Int) : Nat := (v % 4294967296).toNat
def encodeVersion (v : Int) : Bytes :=
  let u := wrap32 v
  [u % 256, u / 256 % 256, u / 65536 % 256, u / 16777216 % 256]

/-- `binary.Read(…, LittleEndian, &int32)` on the first four bytes -/
def decodeVersion (b : Bytes) : Option Int :=
  match b with
  | b0 :: b1 :: b2 :: b3 :: _ =>
    let u := b0 % 256 + 256 * (b1 % 256) + 65536 * (b2 % 256) + 16777216 * (b3 % 256)
    some (if u < 2147483648 then (u : Int) else (u : Int) - 4294967296)
  | _ => none

/-- the storage calls of a `Context` (and direct use of an additional bucket through the
returned database handle and bucket name) -/
inductive Op where
  | save (k raw : Bytes)        -- `Save(key, value)` with `network.Marshal(value) = raw`
  | saveBad (k : Bytes)         -- `Save` of a value of an unregistered type
  | load (k : Bytes)
  | loadRaw (k : Bytes)
  | saveVersion (v : Int)
  | loadVersion
  | addBucket (x : Bytes)       -- `GetAdditionalBucket(x)`
  | bput (x k v : Bytes)        -- `db.Update(tx.Bucket(svc_x).Put(k, v))`
  | bget (x k : Bytes)
  | bdel (x k : Bytes)
  deriving DecidableEq, Repr

/-- one call by service `svc` -/
def step (known : List Bytes) (db : Db) (svc : Bytes) : Op → Db × Res
  | .save k raw =>
    match putIn db (mainName svc) k raw with
    | none => (db, .panic)
    | some r => r
  | .saveBad _ => (db, .errMarshal)
  | .load k =>
    match getFrom db (mainName svc) k with
    | none => (db, .panic)
    | some none => (db, .nothing)
    | some (some raw) => (db, if decodable known raw then .val raw else .errUnmarshal)
  | .loadRaw k =>
    match getFrom db (mainName svc) k with
    | none => (db, .panic)
    | some none => (db, .nothing)
    | some (some raw) => (db, .val raw)
  | .saveVersion v =>
    match putIn db (versionName svc) dbVersionKey (encodeVersion v) with
    | none => (db, .panic)
    | some r => r
  | .loadVersion =>
    match getFrom db (versionName svc) dbVersionKey with
    | none => (db, .panic)
    | some none => (db, .ver 0)
    | some (some []) => (db, .ver 0)
    | some (some b) =>
      match decodeVersion b with
      | some v => (db, .ver v)
      | none => (db, .errVersion)
  | .addBucket x => (createBucket db (extraName svc x), .name (extraName svc x))
  | .bput x k v =>
    match putIn db (extraName svc x) k v with
    | none => (db, .noBucket)
    | some r => r
  | .bget x k =>
    match getFrom db (extraName svc x) k with
    | none => (db, .noBucket)
    | some none => (db, .nothing)
    | some (some v) => (db, .val v)
  | .bdel x k =>
    match delIn db (extraName svc x) k with
    | none => (db, .noBucket)
    | some r => r

/-- an event of a server's life on one data directory -/
inductive Ev where
  | call (svc : Bytes) (op : Op)
  | restart (services : List Bytes)     -- close, then start again with these services registered

/-- a history: database after it and the results of the calls, in order -/
def run (known : List Bytes) (db : Db) : List Ev → Db × List Res
  | [] => (db, [])
  | .call svc op :: rest =>
    let r := step known db svc op
    let r' := run known r.1 rest
    (r'.1, r.2 :: r'.2)
  | .restart services :: rest => run known (startServer db services) rest

end C16
