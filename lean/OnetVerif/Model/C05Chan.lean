import OnetVerif.Model.Util
/-! Model for property C05 (an instance one of whose message types is received through a **channel** of
bounded length): `treenode.go` `dispatchChannel` 447-501, the non-aggregating branch — the reader goroutine
looks at `out.Len() < out.Cap()`; when there is room (and the instance is not closing) it sends, otherwise
it returns "channel too small … please use RegisterChannelLength()" and the message is **gone**: the reader
logs the error and goes on with the next message (`dispatchMsgReader` 535-540).  A message is `(true, m)`
when its type is registered with the channel and `(false, m)` when it has a handler.  One `Act` per critical
section as in `Model/C05Inst.lean`; the reader's work on a channel message is two steps (`top → sending m`:
pop under the mutex; `sending m → top`: `dispatchChannel`), so that a `close` may fall between them as it may
in the code; `take` is the protocol reading its channel.  Core-only. -/
namespace C05
namespace Chan

inductive Pc where
  | top
  | handling (m : Nat)   -- inside the handler of m
  | sending (m : Nat)    -- inside dispatchChannel for m
  | waiting
  | stopped
  deriving DecidableEq, Repr

/-- what became of a channel message the reader dispatched -/
inductive Fate where
  | put      -- sent into the channel
  | full     -- the channel was full: "channel too small", the message is dropped
  | late     -- room, but the instance is closing: not sent
  deriving DecidableEq, Repr

structure St where
  cap      : Nat := 1
  queue    : List (Bool × Nat) := []
  token    : Bool := false
  closing  : Bool := false
  pc       : Pc := .top
  chan     : List Nat := []            -- content of the protocol's channel, oldest first
  accepted : List (Bool × Nat) := []   -- ghost: acceptance order
  popped   : List (Bool × Nat) := []   -- ghost: what the reader took from the queue, in order
  started  : List Nat := []            -- ghost: handler-enter order
  finished : List Nat := []            -- ghost: handler-exit order
  log      : List (Nat × Fate) := []   -- ghost: the channel messages dispatched so far, in order
  taken    : List Nat := []            -- ghost: what the protocol read from its channel, in order
  deriving Repr

inductive Act where
  | accept (c : Bool) (m : Nat)   -- ProcessProtocolMsg
  | reader                        -- one step of dispatchMsgReader
  | close                         -- closeDispatch
  | take                          -- the protocol receives from its channel
  deriving Repr

def step (s : St) : Act → Option St
  | .accept c m =>
      if s.closing then some s
      else some { s with queue := s.queue ++ [(c, m)], token := true, accepted := s.accepted ++ [(c, m)] }
  | .close => some { s with closing := true, token := true }
  | .take =>
      match s.chan with
      | m :: c => some { s with chan := c, taken := s.taken ++ [m] }
      | [] => none                -- the protocol blocks on an empty channel
  | .reader =>
      match s.pc with
      | .top =>
          if s.closing then some { s with pc := .stopped }
          else match s.queue with
            | (false, m) :: q =>
                some { s with queue := q, pc := .handling m, popped := s.popped ++ [(false, m)], started := s.started ++ [m] }
            | (true, m) :: q =>
                some { s with queue := q, pc := .sending m, popped := s.popped ++ [(true, m)] }
            | [] => some { s with pc := .waiting }
      | .handling m => some { s with pc := .top, finished := s.finished ++ [m] }
      | .sending m =>
          -- never blocks: a full channel is an error return, not a wait
          if s.chan.length < s.cap then
            if s.closing then some { s with pc := .top, log := s.log ++ [(m, .late)] }
            else some { s with pc := .top, chan := s.chan ++ [m], log := s.log ++ [(m, .put)] }
          else some { s with pc := .top, log := s.log ++ [(m, .full)] }
      | .waiting => if s.token then some { s with pc := .top, token := s.closing } else none
      | .stopped => none

/-- a schedule; a disabled action is skipped -/
def run (s : St) : List Act → St
  | [] => s
  | a :: as => match step s a with
      | some s' => run s' as
      | none => run s as

/-- the channel-type messages of a list, in order -/
def cmsgs (l : List (Bool × Nat)) : List Nat := (l.filter (fun p => p.1)).map (·.2)
/-- the handler-type messages of a list, in order -/
def hmsgs (l : List (Bool × Nat)) : List Nat := (l.filter (fun p => !p.1)).map (·.2)

/-- the dispatched channel messages with a given fate, in order -/
def fated (f : Fate) (l : List (Nat × Fate)) : List Nat := (l.filter (fun p => p.2 == f)).map (·.1)

/-- everything that ever went into the channel, in order -/
def put (s : St) : List Nat := fated .put s.log
/-- the messages that found the channel full -/
def rejected (s : St) : List Nat := fated .full s.log

/-- the reader runs until it is inside a handler or has nothing to do -/
def settle : Nat → St → St
  | 0, s => s
  | n + 1, s =>
    match s.pc with
    | .handling _ => s
    | .stopped => s
    | _ => match step s .reader with
      | none => s
      | some s' => settle n s'

end Chan
end C05
