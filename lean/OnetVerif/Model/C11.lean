import OnetVerif.Model.Util
import OnetVerif.Model.C11Store
/-! Model for property C11: finished instances and the lifetime of a tree on one server, for one
tree id.  Anchors: `overlay.go` `TransmitMsg` (137-225: `getAndRefresh`, the `transmitMux` region
with the done test, instance creation, `treeStorage.Set` after creation), `nodeDone`/`nodeDelete`/
`cleanTreeStorage` (602-648), `NewTreeNodeInstanceFromService` (local start); `treestorage.go`
`getAndRefresh`/`Set`/`Remove`/`cancelDeletion` and the removal timer (environment action `expire`).

Steps of an arrival thread: `lookup` = `getAndRefresh` (cancels an armed removal), `found` = the
`transmitMux` region up to and including the listing of a new instance, `set` = `treeStorage.Set`
followed by the constructor call and the hand-over (still inside `transmitMux`, so no other thread
takes a `found` step meanwhile), `bind` = the protocol constructor has returned: the protocol instance
is registered and the message handed over.  Between `set` and `bind` the instance is listed but not
yet bound to a protocol.  Core-only. -/
namespace C11

/-- `flushed`: a parked message that `checkPendingMessages` gives to `TransmitMsg` again (it starts with the
lookup, like `lookup`); `parked`: in `o.pendingMsg`, waiting for the tree -/
inductive Pc where | lookup | flushed | found | set | bind | parked | fin deriving DecidableEq, Repr

structure Th where
  tok : Nat
  m : Nat
  pc : Pc
  deriving DecidableEq, Repr

structure St where
  present : Bool := false       -- the tree store holds the tree
  armed : Bool := false         -- a removal is scheduled (`cancellations[id]`)
  requested : Bool := false     -- the slot is registered with a nil tree (`requestTree`)
  used : Bool := false          -- ghost: some instance has used the tree
  live : List Nat := []         -- `o.instances` (tokens)
  settled : List Nat := []      -- ghost: live instances whose creation has completed (`Set` done)
  doneToks : List Nat := []     -- `o.instancesInfo[tok] = true`
  constructed : List Nat := []  -- ghost: protocol constructor calls
  handed : List (Nat × Nat) := []  -- ghost: (token, message) handed to an instance
  peerAsked : Nat := 0          -- tree requests of peers (`handleRequestTree`)
  peerAnswered : Nat := 0       -- … that were answered with the tree
  thr : List Th := []
  deriving Repr

inductive Act where
  | arrive (tok m : Nat)      -- an envelope for instance `tok` is handed to the dispatcher
  | thread (i : Nat)
  | done (tok : Nat)          -- the instance declares itself done (`nodeDone`)
  | expire                    -- the removal timer fires
  | localStart (tok : Nat)    -- `CreateProtocol`: list the instance, then `RegisterTree`
  | peerReq                   -- a peer asks for the tree (`handleRequestTree`: `treeStorage.Get`, no refresh)
  | doneRefused (tok : Nat)   -- `Done()` with an `OnDoneCallback` that returns false: nothing happens
  | treeResp                  -- the tree arrives from the peer that was asked for it
  /-- the protocol constructor of thread `i` (at `bind`) produces no instance: it returns an error, it panics
  (`serviceManager.newProtocol` recovers a service's panic into an error), or — `nilInst` — it returns
  `(nil, nil)` -/
  | ctorFail (i : Nat) (nilInst : Bool)
  deriving Repr

def at_ (p : Pc) (t : Th) : Bool := t.pc == p

/-- tokens numbered 1000 to 1999 carry the tree's id and a node id that is not in the tree (any peer can send
that; 2000 and above: the instances of `churn`, ordinary runs that the observation does not list): `TreeNodeFromTree` fails and `TransmitMsg` returns "No TreeNode defined in this tree here" -/
def badTok (tok : Nat) : Bool := 1000 ≤ tok && tok < 2000

/-- thread `t` is inside the creation of instance `tok` (listed, constructor not yet returned) -/
def regTok (tok : Nat) (t : Th) : Bool := (t.pc == .set || t.pc == .bind) && t.tok == tok

/-- thread `t` holds `transmitMux` (local starts, `m = 0`, do not take it) -/
def holdsMux (t : Th) : Bool := (t.pc == .set || t.pc == .bind) && t.m != 0

/-- `checkPendingMessages`: every parked message goes through `TransmitMsg` again -/
def flushT (t : Th) : Th := if t.pc = .parked then { t with pc := .flushed } else t
def flushAll (l : List Th) : List Th := l.map flushT

/-- `getAndRefresh`, and on a miss `requestTree`: park the message, register the slot, ask the sender -/
def lookupStep (s : St) (i : Nat) (t : Th) : St :=
  if s.present then { s with armed := false, thr := s.thr.set i { t with pc := .found } }
  else { s with armed := false, requested := true, thr := s.thr.set i { t with pc := .parked } }

def stepTh (s : St) (i : Nat) (t : Th) : Option St :=
  match t.pc with
  | .lookup => some (lookupStep s i t)
  | .flushed => some (lookupStep s i t)
  | .parked => none
  | .found =>
      if 0 < s.thr.countP holdsMux then none      -- `transmitMux` is held by a creating thread
      else if t.tok ∈ s.doneToks then
        -- late message: dropped; the removal cancelled by the lookup is scheduled again
        some { s with armed := if s.live = [] then true else s.armed,
                      thr := s.thr.set i { t with pc := .fin } }
      else if t.tok ∈ s.live then
        some { s with handed := s.handed ++ [(t.tok, t.m)], thr := s.thr.set i { t with pc := .fin } }
      else if badTok t.tok then
        -- the token names no node of the tree: refused with an error; the removal cancelled by the lookup is
        -- scheduled again (`cleanTreeStorage` on the error path, /repo fix of round 5)
        some { s with armed := if s.live = [] then true else s.armed,
                      thr := s.thr.set i { t with pc := .fin } }
      else
        some { s with live := s.live ++ [t.tok], used := true, thr := s.thr.set i { t with pc := .set } }
  | .set =>
      -- `Set` (an arrival: followed by the flush of what was parked since its lookup; a local start:
      -- `RegisterTree` = `Set` + flush)
      some { s with present := true, armed := false, requested := false,
                    settled := if t.tok ∈ s.live then s.settled ++ [t.tok] else s.settled,
                    thr := flushAll (s.thr.set i { t with pc := .bind }) }
  | .bind =>
      some { s with constructed := s.constructed ++ [t.tok],
                    handed := if t.m = 0 then s.handed else s.handed ++ [(t.tok, t.m)],
                    thr := s.thr.set i { t with pc := .fin } }
  | .fin => none

def step (s : St) : Act → Option St
  | .arrive tok m => some { s with thr := s.thr ++ [⟨tok, m, .lookup⟩] }
  | .thread i =>
      match s.thr[i]? with
      | some t => stepTh s i t
      | none => none
  | .done tok =>
      -- an instance can declare itself done once its constructor has returned
      if tok ∈ s.settled ∧ s.thr.countP (regTok tok) = 0 then
        let live' := s.live.filter (· != tok)
        some { s with live := live', settled := s.settled.filter (· != tok),
                      doneToks := s.doneToks ++ [tok],
                      armed := if live' = [] then true else s.armed }
      -- `Done()` once more on a finished instance: `nodeDelete` finds it "already gone" and returns
      else if tok ∈ s.doneToks then some s
      else none
  | .expire => if s.armed then some { s with present := false, armed := false, requested := false } else none
  -- the peer's `ResponseTree` (`handleSendTree`): accepted only for a requested, not yet stored tree;
  -- `RegisterTree` = `Set` + flush
  | .treeResp =>
      if s.requested ∧ s.present = false then
        some { s with present := true, armed := false, requested := false, thr := flushAll s.thr }
      else none
  -- the constructor produces no instance (an arrival: `newProtocol` returns an error — its own, or a service's
  -- recovered panic — or `(nil, nil)` in `TransmitMsg`; a local start: `protocolInstantiate` fails in
  -- `CreateProtocol`): in every case `nodeDelete` — unlisted, marked finished, `cleanTreeStorage`; nothing is
  -- handed over
  | .ctorFail i _ =>
      match s.thr[i]? with
      | some t =>
        if t.pc = .bind then
          let live' := s.live.filter (· != t.tok)
          some { s with live := live', settled := s.settled.filter (· != t.tok),
                        doneToks := s.doneToks ++ [t.tok],
                        constructed := s.constructed ++ [t.tok],
                        armed := if live' = [] then true else s.armed,
                        thr := s.thr.set i { t with pc := .fin } }
        else none
      | none => none
  | .localStart tok =>
      if badTok tok ∨ tok ∈ s.live ∨ tok ∈ s.doneToks ∨ tok ∈ s.constructed then none
      else some { s with live := s.live ++ [tok], used := true,
                         thr := s.thr ++ [⟨tok, 0, .set⟩] }
  | .peerReq => some { s with peerAsked := s.peerAsked + 1,
                              peerAnswered := if s.present then s.peerAnswered + 1 else s.peerAnswered }
  | .doneRefused tok => if tok ∈ s.settled ∧ s.thr.countP (regTok tok) = 0 then some s else none

/-- the creation path as it was before /repo fafcac0: an arrival's `Set` does not flush -/
def stepOld (s : St) : Act → Option St
  | .thread i =>
      match s.thr[i]? with
      | some t =>
        if t.pc = .set ∧ t.m ≠ 0 then
          some { s with present := true, armed := false, requested := false,
                        settled := if t.tok ∈ s.live then s.settled ++ [t.tok] else s.settled,
                        thr := s.thr.set i { t with pc := .bind } }
        else stepTh s i t
      | none => none
  | a => step s a

/-- the code as it was before the three repairs of round 5: the error path of `TransmitMsg` for a token that
names no node of the tree returns without `cleanTreeStorage`, `CreateProtocol` returns the constructor's
error without `nodeDelete` (for an arrival `TransmitMsg` did call it), and `TransmitMsg` returns without
`nodeDelete` when the constructor gave neither an instance nor an error -/
def stepOld5 (s : St) : Act → Option St
  | .thread i =>
      match s.thr[i]? with
      | some t =>
        if t.pc = .found ∧ s.thr.countP holdsMux = 0 ∧ t.tok ∉ s.doneToks ∧ t.tok ∉ s.live ∧ badTok t.tok then
          some { s with thr := s.thr.set i { t with pc := .fin } }
        else stepTh s i t
      | none => none
  | .ctorFail i n =>
      match s.thr[i]? with
      | some t =>
        -- a local start whose constructor returned an error, or an arrival whose constructor returned `(nil, nil)`
        -- (`if pi == nil { return nil }`): the node stays listed, no done mark
        if t.pc = .bind ∧ (t.m = 0 ∨ n = true) then
          some { s with constructed := s.constructed ++ [t.tok], thr := s.thr.set i { t with pc := .fin } }
        else step s (.ctorFail i n)
      | none => none
  | a => step s a

def runOld5 (s : St) : List Act → St
  | [] => s
  | a :: as => match stepOld5 s a with
      | some s' => runOld5 s' as
      | none => runOld5 s as

def runOld (s : St) : List Act → St
  | [] => s
  | a :: as => match stepOld s a with
      | some s' => runOld s' as
      | none => runOld s as

def run (s : St) : List Act → St
  | [] => s
  | a :: as => match step s a with
      | some s' => run s' as
      | none => run s as

namespace Drv

structure State where
  s : St := {}
  store : Store.Drv.State := {}   -- cases of the class `store` drive the tree store on its own
  churned : Nat := 0              -- instances started and finished by `churn` so far (tokens 2000, 2001, …)

def init : State := {}

def sortNat (l : List Nat) : List Nat := (l.toArray.qsort (· < ·)).toList

/-- the instances of `churn` (tokens 2000 and above) are not listed in the observation -/
def shown (l : List Nat) : List Nat := sortNat (l.filter (· < 2000))

def obs (x : St) : String :=
  let tree := (if x.present then "present" else if x.requested then "requested" else "absent") ++ (if x.armed then "+armed" else "")
  s!"tree={tree} live={Util.showNatList (shown x.live)} done={Util.showNatList (shown x.doneToks)} constructed={Util.showNatList (shown x.constructed)} handed={x.handed.length}"

def findThr (x : St) (tok m : Nat) : Option Nat :=
  (List.range x.thr.length).find? fun i => match x.thr[i]? with
    | some t => t.tok == tok && t.m == m && t.pc != .fin | none => false

def pcName : Pc → String
  | .lookup => "lookup" | .found => "found" | .set => "set" | .bind => "ctor" | .fin => "fin"
  | .flushed => "flushed" | .parked => "parked"

/-- instances numbered 500 to 999 and 200 to 259 are runs whose constructor produces no instance (harness convention) -/
def failTok (tok : Nat) : Bool := (500 ≤ tok && tok < 1000) || (200 ≤ tok && tok < 260)

/-- 200–219: a service's `NewProtocol` panics; 220–239: it returns an error; 240–259: the protocol constructor returns
`(nil, nil)` — instances that only a message can create (the harness starts none of them locally) -/
def remoteOnly (tok : Nat) : Bool := 200 ≤ tok && tok < 260
def nilTok (tok : Nat) : Bool := 240 ≤ tok && tok < 260

/-- let thread i go on through `Set` (and, unless `stopAtCtor`, through the constructor; a failing constructor is
never held) -/
def finish (x : St) (i : Nat) (stopAtCtor : Bool) : St :=
  let x1 := match x.thr[i]? with
    | some t => if t.pc = .set then (C11.step x (.thread i)).getD x else x
    | none => x
  match x1.thr[i]? with
  | some t =>
    if t.pc = .bind then
      if failTok t.tok then (C11.step x1 (.ctorFail i (nilTok t.tok))).getD x1
      else if stopAtCtor then x1
      else (C11.step x1 (.thread i)).getD x1
    else x1
  | none => x1

/-- the flush goroutine gives the (one) flushed message to `TransmitMsg`: its lookup happens at once and it
stops at the hook point after it -/
def relook (x : St) : St :=
  (List.range x.thr.length).foldl (fun acc i => match acc.thr[i]? with
    | some t => if t.pc = .flushed then (C11.step acc (.thread i)).getD acc else acc
    | none => acc) x

/-- one run of `churn`: `CreateProtocol` (listed, tree registered, constructor) and `Done()` -/
def churn1 (x : St) (tok : Nat) : St :=
  match C11.step x (.localStart tok) with
  | some x1 =>
    let x2 := relook (finish x1 (x1.thr.length - 1) false)
    (C11.step x2 (.done tok)).getD x2
  | none => x

/-- ops: `arrive <tok> <m>` (thread runs to its hook point after the lookup), `thread <tok> <m>`
(the `transmitMux` region to its end), `done <tok>`, `wait` (longer than the grace period: the
timer fires if armed), `localstart <tok>`.  Token numbers ≥ 1000 name no node of the tree (`badTok`), 500–999 have a
failing constructor (`failTok`). -/
def step (st : State) (toks : List String) : State × String :=
  let x := st.s
  match toks with
  | "store" :: rest => let (t, o) := Store.Drv.step st.store rest; ({ st with store := t }, o)
  | ["arrive", tok, m] =>
    match tok.toNat?, m.toNat? with
    | some tok, some m =>
      match C11.step x (.arrive tok m) with
      | some x1 =>
        let i := x1.thr.length - 1
        let x2 := (C11.step x1 (.thread i)).getD x1
        ({ st with s := x2 }, s!"pc={(x2.thr[i]?.map (fun t => pcName t.pc)).getD "?"} {obs x2}")
      | none => (st, "disabled")
    | _, _ => (st, "bad-op")
  | ["thread", tok, m] =>
    match tok.toNat?, m.toNat? with
    | some tok, some m =>
      match findThr x tok m with
      | some i =>
        match C11.step x (.thread i) with
        | some x1 =>
          -- a creating thread goes on through `Set`, the constructor and the hand-over
          let x2 := relook (finish x1 i false)
          ({ st with s := x2 }, s!"pc={(x2.thr[i]?.map (fun t => pcName t.pc)).getD "?"} {obs x2}")
        | none => (st, "disabled")
      | none => (st, "disabled")
    | _, _ => (st, "bad-op")
  -- like `thread`, but the protocol constructor does not return yet (`ctorret` lets it)
  | ["threadc", tok, m] =>
    match tok.toNat?, m.toNat? with
    | some tok, some m =>
      match findThr x tok m with
      | some i =>
        match C11.step x (.thread i) with
        | some x1 =>
          let x2 := relook (finish x1 i true)
          ({ st with s := x2 }, s!"pc={(x2.thr[i]?.map (fun t => pcName t.pc)).getD "?"} {obs x2}")
        | none => (st, "disabled")
      | none => (st, "disabled")
    | _, _ => (st, "bad-op")
  | ["ctorret", tok] =>
    match tok.toNat? with
    | some tok =>
      match (List.range x.thr.length).find? (fun i => match x.thr[i]? with
              | some t => t.tok == tok && t.pc == .bind | none => false) with
      | some i =>
        match C11.step x (.thread i) with
        | some x1 => ({ st with s := x1 }, s!"pc=fin {obs x1}")
        | none => (st, "disabled")
      | none => (st, "disabled")
    | none => (st, "bad-op")
  | ["done", tok] =>
    match tok.toNat? with
    | some tok =>
      match C11.step x (.done tok) with
      | some x1 => ({ st with s := x1 }, obs x1)
      | none => (st, "disabled")
    | none => (st, "bad-op")
  | ["wait"] =>
    match C11.step x .expire with
    | some x1 => ({ st with s := x1 }, obs x1)
    | none => (st, obs x)
  -- a peer asks for the tree (`handleRequestTree`): answered iff present; nothing else changes — in
  -- particular a scheduled removal stays scheduled
  -- the peer's answer to the tree request (refused unless the tree is requested and not stored)
  | ["treeresp"] =>
    match C11.step x .treeResp with
    | some x1 => let x2 := relook x1; ({ st with s := x2 }, "accepted " ++ obs x2)
    | none => (st, "refused " ++ obs x)
  -- `readtree <tok>`: the protocol of a built instance — listed, or finished already — reads its tree
  -- (`TreeNodeInstance.Tree()` = `treeStorage.Get`: a read, it does not touch a scheduled removal; without the tree it
  -- panics). Typical source: `p.Done(); report(len(p.Roster().List))`
  | ["readtree", tok] =>
    match tok.toNat? with
    | some tok =>
      let built := !failTok tok && !badTok tok && tok < 2000 &&
        ((x.settled.contains tok && x.thr.countP (regTok tok) == 0) || (x.doneToks.contains tok && x.constructed.contains tok))
      if built then (st, (if x.present then "tree " else "panic ") ++ obs x) else (st, "disabled")
    | none => (st, "bad-op")
  | ["peerreq"] =>
    match C11.step x .peerReq with
    | some x1 => ({ st with s := x1 }, (if x1.peerAnswered > x.peerAnswered then "answered " else "ignored ") ++ obs x1)
    | none => (st, "disabled")
  -- `Done()` of an instance whose `OnDoneCallback` answers `0` (not yet) or `1` (go on)
  | ["donecb", tok, "0"] =>
    match tok.toNat? with
    | some tok =>
      match C11.step x (.doneRefused tok) with
      | some x1 => ({ st with s := x1 }, obs x1)
      | none => (st, "disabled")
    | none => (st, "bad-op")
  | ["donecb", tok, "1"] =>
    match tok.toNat? with
    | some tok =>
      match C11.step x (.done tok) with
      | some x1 => ({ st with s := x1 }, obs x1)
      | none => (st, "disabled")
    | none => (st, "bad-op")
  -- handler gating of the harness (`hold`: the handlers of an instance block, `release`: one returns):
  -- the model does not follow handlers (C05 does); the harness's oracle watches them
  | ["hold", tok] => if tok.toNat?.isSome then (st, "ok") else (st, "bad-op")
  | ["release", tok] => if tok.toNat?.isSome then (st, "ok") else (st, "bad-op")
  -- `churn n`: a busy server — n further ordinary runs on the tree are started locally and finish, one after the
  -- other (tokens 2000, 2001, …; not listed in the observation)
  | ["churn", n] =>
    match n.toNat? with
    | some n =>
      if n > 4000 then (st, "bad-op") else
      let x' := (List.range n).foldl (fun acc j => churn1 acc (2000 + st.churned + j)) x
      ({ st with s := x', churned := st.churned + n }, obs x')
    | none => (st, "bad-op")
  | ["localstart", tok] =>
    match tok.toNat? with
    | some tok =>
      if remoteOnly tok then (st, "disabled") else
      match C11.step x (.localStart tok) with
      | some x1 =>
        let i := x1.thr.length - 1
        let x2 := relook (finish x1 i false)
        ({ st with s := x2 }, obs x2)
      | none => (st, "disabled")
    | none => (st, "bad-op")
  | _ => (st, "bad-op")

end Drv

end C11
