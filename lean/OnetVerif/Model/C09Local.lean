/-! Model for property C09, third part — the in-memory transport's manager as far as a peer that
closes while sends are in flight is concerned (`network/local.go:140-180`, core-only).

`LocalManager.send` looks the destination's connection up and puts the message into its queue
**inside one region of the manager's lock**; `LocalManager.close` removes the connection and closes
its queue inside a region of the same lock.  A full queue makes the sender wait — with the lock —
until the receiver takes a message.  Unboundedly many senders, one connection (every connection has
its own queue; the lock is the manager's). -/
namespace C09

inductive SndPc
  | want              -- before `lm.Lock()`
  | holding           -- found the connection, about to enqueue (blocked while the queue is full)
  | done (ok : Bool)  -- enqueued / `ErrClosed`
  | panicked          -- "send on closed channel"
  deriving DecidableEq, Repr

structure Lm where
  /-- which sender holds `lm.Mutex` -/
  lock : Option Nat := none
  /-- the connection is listed and its queue open -/
  isOpen : Bool := true
  queued : Nat := 0
  cap : Nat := 2
  senders : List SndPc := []
  deriving DecidableEq, Repr

inductive LmAct
  | sendCall           -- a new `LocalConn.Send`
  | lookup (i : Nat)   -- `lm.Lock(); q, ok := lm.conns[e]`
  | enqueue (i : Nat)  -- `q.incomingQueue <- msg` (and the deferred `lm.Unlock()`)
  | drain              -- the receiving side takes a message
  | close              -- `lm.close(conn)`: one region of the lock; the queue's channel is closed
  deriving DecidableEq, Repr

/-- `atomic = true`: the code as it is.  `atomic = false`: the lock is released between the look-up
and the hand-over to the queue. -/
def lmStep (atomic : Bool) (s : Lm) : LmAct → Option Lm
  | .sendCall => some { s with senders := s.senders ++ [.want] }
  | .lookup i =>
    if s.senders[i]? = some .want ∧ s.lock = none then
      if s.isOpen then some { s with senders := s.senders.set i .holding, lock := if atomic then some i else none }
      else some { s with senders := s.senders.set i (.done false) }
    else none
  | .enqueue i =>
    if s.senders[i]? = some .holding then
      if !s.isOpen then some { s with senders := s.senders.set i .panicked }
      else if s.queued < s.cap then
        some { s with senders := s.senders.set i (.done true), queued := s.queued + 1, lock := none }
      else none                     -- blocked: the queue is full
    else none
  | .drain => if 0 < s.queued then some { s with queued := s.queued - 1 } else none
  | .close => if s.lock = none ∧ s.isOpen then some { s with isOpen := false } else none

def lmRun (atomic : Bool) (s : Lm) : List LmAct → Lm
  | [] => s
  | a :: as => match lmStep atomic s a with
    | some s' => lmRun atomic s' as
    | none => lmRun atomic s as

end C09
