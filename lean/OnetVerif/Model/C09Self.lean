import OnetVerif.Model.C09Entries
/-! Model for property C09, sixth part — `Router.Send` towards the router's own identity
(`network/router.go:303-327`), core-only.

When the destination's id equals the router's, `Send` hands every message to the dispatcher itself, in the
caller's goroutine, one after the other; the connection table, the dialler and the closed flag are not looked at.
The first message the dispatcher refuses (no processor for its type) — or that cannot be marshalled for the byte
count — ends the call with `(0, err)`; what was dispatched before stays dispatched. -/
namespace C09

/-- a message handed to `Send`: its payload and whether the dispatcher takes it -/
structure SelfMsg where
  m : Nat
  handled : Bool
  deriving DecidableEq, Repr

structure SelfOut where
  /-- handed to the own dispatcher, in order -/
  dispatched : List Nat := []
  res : Res
  deriving DecidableEq, Repr

/-- the loop `for _, msg := range msgs` of the self branch -/
def selfSend : List SelfMsg → SelfOut
  | [] => { res := .ok }
  | x :: l =>
    if x.handled then
      let o := selfSend l
      { dispatched := x.m :: o.dispatched, res := o.res }
    else { res := .err }

end C09
