/-! SHA-256 (FIPS 180-4) on byte lists, core-only — used by the C16 driver to compute the name of a
server's database file (`serviceManager.dbFileName`, service.go:382-387) exactly as the code does, so
that the directory listing of the real data directory can be compared name for name.  The theorems
of C16 never unfold it: they are stated for an arbitrary hash function. -/
namespace C16.Sha

def k : Array UInt32 := #[
  0x428a2f98, 0x71374491, 0xb5c0fbcf, 0xe9b5dba5, 0x3956c25b, 0x59f111f1, 0x923f82a4, 0xab1c5ed5,
  0xd807aa98, 0x12835b01, 0x243185be, 0x550c7dc3, 0x72be5d74, 0x80deb1fe, 0x9bdc06a7, 0xc19bf174,
  0xe49b69c1, 0xefbe4786, 0x0fc19dc6, 0x240ca1cc, 0x2de92c6f, 0x4a7484aa, 0x5cb0a9dc, 0x76f988da,
  0x983e5152, 0xa831c66d, 0xb00327c8, 0xbf597fc7, 0xc6e00bf3, 0xd5a79147, 0x06ca6351, 0x14292967,
  0x27b70a85, 0x2e1b2138, 0x4d2c6dfc, 0x53380d13, 0x650a7354, 0x766a0abb, 0x81c2c92e, 0x92722c85,
  0xa2bfe8a1, 0xa81a664b, 0xc24b8b70, 0xc76c51a3, 0xd192e819, 0xd6990624, 0xf40e3585, 0x106aa070,
  0x19a4c116, 0x1e376c08, 0x2748774c, 0x34b0bcb5, 0x391c0cb3, 0x4ed8aa4a, 0x5b9cca4f, 0x682e6ff3,
  0x748f82ee, 0x78a5636f, 0x84c87814, 0x8cc70208, 0x90befffa, 0xa4506ceb, 0xbef9a3f7, 0xc67178f2]

def h0 : Array UInt32 := #[
  0x6a09e667, 0xbb67ae85, 0x3c6ef372, 0xa54ff53a, 0x510e527f, 0x9b05688c, 0x1f83d9ab, 0x5be0cd19]

def rotr (x : UInt32) (n : UInt32) : UInt32 := (x >>> n) ||| (x <<< (32 - n))

/-- message padding: `0x80`, zeros up to 56 mod 64, the bit length as 8 big-endian bytes -/
def pad (msg : List Nat) : List Nat :=
  let l := msg.length
  let zeros := (119 - l % 64) % 64
  let bits := 8 * l
  msg ++ [128] ++ List.replicate zeros 0 ++ (List.range 8).reverse.map fun i => bits / 256 ^ i % 256

def word (b0 b1 b2 b3 : Nat) : UInt32 :=
  UInt32.ofNat ((b0 % 256) * 16777216 + (b1 % 256) * 65536 + (b2 % 256) * 256 + b3 % 256)

def words : List Nat → List UInt32
  | b0 :: b1 :: b2 :: b3 :: r => word b0 b1 b2 b3 :: words r
  | _ => []

/-- the 64-entry message schedule of one block (16 words) -/
def schedule (blk : Array UInt32) : Array UInt32 :=
  (List.range 48).foldl (fun w i =>
    let t := i + 16
    let w15 := w[t - 15]!
    let w2 := w[t - 2]!
    let s0 := rotr w15 7 ^^^ rotr w15 18 ^^^ (w15 >>> 3)
    let s1 := rotr w2 17 ^^^ rotr w2 19 ^^^ (w2 >>> 10)
    w.push (w[t - 16]! + s0 + w[t - 7]! + s1)) blk

def compress (hs : Array UInt32) (blk : Array UInt32) : Array UInt32 :=
  let w := schedule blk
  let r := (List.range 64).foldl (fun (st : Array UInt32) i =>
    let a := st[0]!; let b := st[1]!; let c := st[2]!; let d := st[3]!
    let e := st[4]!; let f := st[5]!; let g := st[6]!; let h := st[7]!
    let s1 := rotr e 6 ^^^ rotr e 11 ^^^ rotr e 25
    let ch := (e &&& f) ^^^ ((~~~ e) &&& g)
    let t1 := h + s1 + ch + k[i]! + w[i]!
    let s0 := rotr a 2 ^^^ rotr a 13 ^^^ rotr a 22
    let maj := (a &&& b) ^^^ (a &&& c) ^^^ (b &&& c)
    let t2 := s0 + maj
    #[t1 + t2, a, b, c, d + t1, e, f, g]) hs
  (List.range 8).foldl (fun (acc : Array UInt32) i => acc.push (hs[i]! + r[i]!)) #[]

def blocks : Nat → List UInt32 → List (Array UInt32)
  | 0, _ => []
  | n + 1, ws => if ws.isEmpty then [] else (ws.take 16).toArray :: blocks n (ws.drop 16)

/-- SHA-256 of a byte string, as 32 bytes -/
def sha256 (msg : List Nat) : List Nat :=
  let ws := words (pad msg)
  let hs := (blocks (ws.length / 16 + 1) ws).foldl compress h0
  hs.toList.flatMap fun x =>
    let n := x.toNat
    [n / 16777216 % 256, n / 65536 % 256, n / 256 % 256, n % 256]

end C16.Sha
