/-! Model for property C14, second file: whom a parallel request asks, and which connection a request
travels on.

* `ParallelOptions.GetList` / `Quit` (websocket_client.go:265-330): how many routines are started, how
  many nodes are asked, where in the roster the list starts, which nodes are left out — and the test
  `nodesNbr == 0` of `SendProtobufParallelWithDecoder` (websocket_client.go:352-357): nobody to ask is
  an error for the caller.  `rand.Perm` is a parameter (`perm`).
* the connection table of a `Client` (`newConnIfNotExist`, `Send`, `closeSingleUseConn`:
  websocket_client.go:80-217) for any number of destinations: a request to a destination travels on the
  connection stored under that destination's *key*; a connection reaches the server and path it was
  dialed for.  The key is a parameter (`key`): the code uses the destination itself (identity pointer
  and path); a key that two destinations share is the variant of seed C14r5-A.

Core-only. -/
namespace C14

/-! ## `ParallelOptions` (websocket_client.go:240-330) -/

/-- the fields of `ParallelOptions` (`IgnoreNodes` as node names; two identities are the same node when
`ServerIdentity.Equal` says so) -/
structure ParOpts where
  parallel : Int := 0
  askNodes : Int := 0
  startNode : Int := 0
  quitError : Bool := false
  ignore : List Nat := []
  dontShuffle : Bool := false
  deriving Repr, DecidableEq

/-- `Quit` (websocket_client.go:325-330): a nil receiver is allowed -/
def ParOpts.quit : Option ParOpts → Bool
  | none => false
  | some o => o.quitError

structure ListParams where
  parallel : Int
  askNodes : Int
  startNode : Int
  deriving Repr, DecidableEq

/-- the first half of `GetList` (websocket_client.go:268-293): the three numbers, for a roster of `len`
nodes.  Go's `int`s: the options may hold anything, negative numbers included. -/
def getListParams (len : Int) (po : Option ParOpts) : ListParams :=
  let parallel0 : Int := (len + 1) / 2
  match po with
  | none => ⟨parallel0, len, 0⟩
  | some o =>
    let parallel := if o.parallel > 0 ∧ o.parallel < parallel0 then o.parallel else parallel0
    let startNode := if o.startNode > 0 ∧ o.startNode < len then o.startNode else 0
    let askNodes := len - startNode
    let askNodes := if o.askNodes > 0 ∧ o.askNodes < len then o.askNodes else askNodes
    let parallel := if askNodes < parallel then askNodes else parallel
    ⟨parallel, askNodes, startNode⟩

/-- the order in which the roster is walked: as given (`DontShuffle`), else a permutation drawn by
`rand.Perm` (parameter; also used when `DontShuffle` is set on an empty roster) -/
def permOf (len : Nat) (po : Option ParOpts) (randPerm : List Nat) : List Nat :=
  match po with
  | some o => if o.dontShuffle ∧ len ≠ 0 then List.range len else randPerm
  | none => randPerm

/-- the loop of `GetList` (websocket_client.go:300-316): walk the roster from `start` in the order `perm`,
put every node that is not ignored into the channel, stop when the channel holds `ask` nodes -/
def collect (nodes : List Nat) (ignore : List Nat) (start : Nat) (ask : Nat) : List Nat → List Nat → List Nat
  | [], acc => acc
  | p :: ps, acc =>
    let node := nodes.getD ((start + p) % nodes.length) 0
    let acc' := if ignore.contains node then acc else acc ++ [node]
    if acc'.length = ask then acc' else collect nodes ignore start ask ps acc'

/-- `GetList`: the number of routines and the nodes in the channel, in the order they will be taken -/
def getList (nodes : List Nat) (po : Option ParOpts) (randPerm : List Nat) : Int × List Nat :=
  let ps := getListParams nodes.length po
  let ignore := match po with | some o => o.ignore | none => []
  (ps.parallel, collect nodes ignore ps.startNode.toNat ps.askNodes.toNat (permOf nodes.length po randPerm) [])

/-- how a call of `SendProtobufParallelWithDecoder` can end -/
inductive ParEnd where
  | node (n : Nat)     -- a node and its reply
  | error              -- an error value
  | crash              -- the calling process ends (`errs[0]` of an empty list)
  deriving Repr, DecidableEq

/-- the decision before any routine is started (websocket_client.go:352-357): with nobody to ask the call
ends at once.  `guarded = false` is the code before 2f7be2f: the loop over the errors is not entered
(`len(errs) < 0` is false) and `errs[0]` is evaluated. `none`: the routines are started (`Par`). -/
def nobodyToAsk (guarded : Bool) (asked : List Nat) : Option ParEnd :=
  if asked.length = 0 then (if guarded then some .error else some .crash) else none

/-! ## The connection table of a client, any number of destinations -/

/-- `conns`: key ↦ the destination the stored connection was dialed for -/
structure MCl (K D : Type) where
  conns : List (K × D) := []

def MCl.find {K D : Type} [DecidableEq K] (c : MCl K D) (k : K) : Option D :=
  (c.conns.find? (fun e => e.1 = k)).map (·.2)

def MCl.drop {K D : Type} [DecidableEq K] (c : MCl K D) (k : K) : MCl K D :=
  ⟨c.conns.filter (fun e => e.1 ≠ k)⟩

/-- one `Send` to destination `d` (`newConnIfNotExist` + `Send`): the connection stored under `key d`, or a
freshly dialed one (stored under `key d`); the request is written on it and answered — if it is answered
(`ok`) — by whatever serves the destination that connection was dialed for.  A failure forgets the
connection; a single-use client (`keep = false`) forgets it in any case. Result: the destination whose
server and handler produced the reply. -/
def mSend {K D : Type} [DecidableEq K] (key : D → K) (keep : Bool) (c : MCl K D) (d : D) (ok : Bool) :
    MCl K D × Option D :=
  let reached : D := match c.find (key d) with | some d' => d' | none => d
  let c1 : MCl K D := match c.find (key d) with | some _ => c | none => ⟨(key d, d) :: c.conns⟩
  let c2 := if ok && keep then c1 else c1.drop (key d)
  (c2, if ok then some reached else none)

/-- any sequence of `Send`s: for each, the destination asked and the one that answered -/
def mRun {K D : Type} [DecidableEq K] (key : D → K) (keep : Bool) : MCl K D → List (D × Bool) → List (D × Option D)
  | _, [] => []
  | c, (d, ok) :: rest => (d, (mSend key keep c d ok).2) :: mRun key keep (mSend key keep c d ok).1 rest

/-- what a caller does with the client: a `Send`, or `Close` (websocket_client.go:527-547: every stored
connection is closed and forgotten; the lock objects stay) -/
inductive MOp (D : Type) where
  | send (d : D) (ok : Bool)
  | close

def mOps {K D : Type} [DecidableEq K] (key : D → K) (keep : Bool) : MCl K D → List (MOp D) → MCl K D × List (D × Option D)
  | c, [] => (c, [])
  | c, .send d ok :: rest =>
    let r := mOps key keep (mSend key keep c d ok).1 rest
    (r.1, (d, (mSend key keep c d ok).2) :: r.2)
  | _, .close :: rest => mOps key keep ⟨[]⟩ rest

/-! ## From the URL to the handler table: `NewWebSocket` / `registerService` / `wsHandler.ServeHTTP`
(websocket.go:108-160, 192-205, 268) and the client's URL (`newConnIfNotExist`, websocket_client.go:129-152)

The client dials `ws://host/<service>/<path>`.  The multiplexer holds one pattern `/<service>/` per
registered service next to the catch-all `/`; the longest pattern that is a prefix of the URL path wins.
The handler of service `s` looks its table up under `strings.TrimPrefix(r.URL.Path, "/"+s+"/")`. -/

def pattern (svc : List Char) : List Char := '/' :: (svc ++ ['/'])

/-- `strings.TrimPrefix` -/
def trimPrefix (s p : List Char) : List Char := if p.isPrefixOf s then s.drop p.length else s

/-- `strings.TrimLeft(s, cutset)`: drops leading characters that occur in `cutset` — the function a hurried
reader takes for `TrimPrefix` -/
def trimLeft (s cutset : List Char) : List Char := s.dropWhile (fun c => cutset.contains c)

/-- the client's URL path for a request to `path` of service `svc` -/
def clientURL (svc path : List Char) : List Char := pattern svc ++ path

/-- `http.ServeMux` restricted to the patterns onet registers: the longest `/<service>/` that is a prefix of
the URL path; `none`: the catch-all handler (upgrade, close 4001 "This service doesn't exist") -/
def longer (best : Option (List Char)) (s : List Char) : Option (List Char) :=
  match best with
  | none => some s
  | some b => if b.length < s.length then some s else some b

def muxRoute (services : List (List Char)) (url : List Char) : Option (List Char) :=
  (services.filter (fun s => (pattern s).isPrefixOf url)).foldl longer none

/-- which service's table is asked, and under which key -/
def route (services : List (List Char)) (url : List Char) : Option (List Char × List Char) :=
  (muxRoute services url).map fun s => (s, trimPrefix url (pattern s))

end C14
