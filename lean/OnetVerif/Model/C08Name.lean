/-! Property C08, the **bytes** of a key name: `pubToCN` / `pubFromCN` (network/tls.go:403-439) down to
the characters of the certificate's common name — `encoding/hex` (`EncodeToString`, `DecodeString`),
kyber's `PointUnmarshalFrom` (reads exactly `MarshalSize` bytes and leaves the rest) and
`util/encoding.StringHexToPoint` (`getHex`: exactly `2 * MarshalSize` characters are looked at).
The group (how a point is marshalled, which byte strings are points, what `String()` prints) is a
parameter.  `Model/C08.lean` abstracts a name to `Name.new | old | alt | junk`; the theorems of
`Props/C08.lean` about this file justify that abstraction: the canonical name decodes to its key,
the two styles cannot be confused, and the non-canonical spellings (`alt`) are exactly upper-case
digits and bytes after the key.  Executable, core-only.  Strings are lists of bytes. -/
namespace C08.NameBytes

/-- `hextable[n]`: lower-case digits (encoding/hex) -/
def hexDigit (n : Nat) : Nat := if n < 10 then 48 + n else 87 + n

/-- `hex.EncodeToString` -/
def hexEncode : List Nat → List Nat
  | [] => []
  | b :: bs => hexDigit (b / 16) :: hexDigit (b % 16) :: hexEncode bs

/-- `reverseHexTable`: `0-9`, `a-f` and `A-F` are digits -/
def fromHexChar (c : Nat) : Option Nat :=
  if 48 ≤ c ∧ c ≤ 57 then some (c - 48)
  else if 97 ≤ c ∧ c ≤ 102 then some (c - 87)
  else if 65 ≤ c ∧ c ≤ 70 then some (c - 55)
  else none

/-- `hex.DecodeString`: pairs of digits; an odd length or a character that is no digit is an error -/
def hexDecode : List Nat → Option (List Nat)
  | [] => some []
  | [_] => none
  | a :: b :: r =>
    match fromHexChar a, fromHexChar b, hexDecode r with
    | some x, some y, some l => some ((16 * x + y) :: l)
    | _, _, _ => none

/-- what `pubToCN` / `pubFromCN` use of a key suite -/
structure Group (P : Type) where
  /-- `MarshalSize()` -/
  len : Nat
  /-- `MarshalBinary` / `MarshalTo` -/
  marshal : P → List Nat
  /-- `UnmarshalBinary` on `len` bytes -/
  unmarshal : List Nat → Option P
  /-- `String()` as bytes: the old-style common name -/
  str : P → List Nat

/-- kyber's contract for a group -/
structure Group.Lawful {P : Type} (g : Group P) : Prop where
  marshal_len : ∀ p, (g.marshal p).length = g.len
  marshal_byte : ∀ p, ∀ b ∈ g.marshal p, b < 256
  roundtrip : ∀ p, g.unmarshal (g.marshal p) = some p

/-- the four ways `pubFromCN` fails: empty name (tls.go:404), `hex.DecodeString` / `hex.Decode` error,
fewer bytes than a key has (`io.ReadFull`, `getHex`), bytes that are no point (`UnmarshalBinary`) -/
inductive CNErr | empty | hex | short | point
  deriving DecidableEq, Repr

/-- the type byte of the new style: `'Z'` -/
def typeByte : Nat := 90

/-- `pubToCN` (tls.go:435-439): `"Z" + hex.EncodeToString(marshal(pub))` -/
def pubToCN {P : Type} (g : Group P) (p : P) : List Nat := typeByte :: hexEncode (g.marshal p)

/-- `pubFromCN` (tls.go:403-433).  New style (`cn[0] == 'Z'`): unhex everything after the type byte,
`UnmarshalFrom` reads the first `len` bytes of it.  Everything else is old style:
`StringHexToPoint` reads `2 * len` characters of the whole name and unhexes them. -/
def pubFromCN {P : Type} (g : Group P) (cn : List Nat) : Except CNErr P :=
  match cn with
  | [] => .error .empty
  | c :: rest =>
    if c = typeByte then
      match hexDecode rest with
      | none => .error .hex
      | some buf =>
        if buf.length < g.len then .error .short
        else match g.unmarshal (buf.take g.len) with
          | none => .error .point
          | some p => .ok p
    else
      if cn.length < 2 * g.len then .error .short
      else match hexDecode (cn.take (2 * g.len)) with
        | none => .error .hex
        | some buf =>
          match g.unmarshal buf with
          | none => .error .point
          | some p => .ok p

/-- upper-case spelling of a hex digit (`hex.DecodeString` reads both) -/
def upper (c : Nat) : Nat := if 97 ≤ c ∧ c ≤ 102 then c - 32 else c

/-! ### line protocol: `c08 cn …`, `c08 tocn …` -/
namespace Text

def hexChar (n : Nat) : Char := Char.ofNat (hexDigit n)

def showHex (bs : List Nat) : String :=
  if bs.isEmpty then "-" else String.ofList ((hexEncode bs).map Char.ofNat)

def parseHex (s : String) : Option (List Nat) :=
  if s = "-" then some [] else hexDecode (s.toList.map Char.toNat)

/-- `<hex>:<1|0>,…` or `-`: the verdict of the real `UnmarshalBinary` on the byte strings the
generator built its names from -/
def parseTable (s : String) : Option (List (List Nat × Bool)) :=
  if s = "-" then some []
  else (s.splitOn ",").mapM fun e =>
    match e.splitOn ":" with
    | [h, "1"] => (parseHex h).map (·, true)
    | [h, "0"] => (parseHex h).map (·, false)
    | _ => none

/-- the group of the driver: a point is its marshalled form, `UnmarshalBinary` answers by table -/
def tableGroup (len : Nat) (tbl : List (List Nat × Bool)) : Group (List Nat) where
  len := len
  marshal := id
  unmarshal := fun b => match tbl.find? (·.1 = b) with
    | some (_, true) => some b
    | _ => none
  str := hexEncode

/-- the group that takes every byte string for a point: tells which bytes reach `UnmarshalBinary` -/
def anyGroup (len : Nat) : Group (List Nat) where
  len := len
  marshal := id
  unmarshal := some
  str := hexEncode

def errName : CNErr → String
  | .empty => "empty" | .hex => "hex" | .short => "short" | .point => "point"

/-- `cn len=<n> name=<hex of the name's bytes> pts=<table>` -/
def cnOp (len : Nat) (name : List Nat) (tbl : List (List Nat × Bool)) : String :=
  match pubFromCN (anyGroup len) name with
  | .ok b =>
    if (tbl.find? (·.1 = b)).isNone then "cn=no-verdict:" ++ showHex b
    else match pubFromCN (tableGroup len tbl) name with
      | .ok p => "cn=ok:" ++ showHex p
      | .error e => "cn=err:" ++ errName e
  | .error e => "cn=err:" ++ errName e

end Text

end C08.NameBytes
