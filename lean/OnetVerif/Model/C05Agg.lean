import OnetVerif.Model.Util
/-! Model for property C05, an instance one of whose message types is **aggregated** (registered with a slice
argument — handler or channel —, flag `AggregateMessages`): `treenode.go` `dispatchMsgToProtocol` 557-592 and
`aggregate` 612-637, between the single reader's pop and the handler.  A message from the parent, or of a type
without the flag, is dispatched at once as a batch of one; a message of an aggregated type from a child is
appended to the type's buffer (`msgQueue[mt]`), and when the buffer holds as many messages as the node has
children (`len(msgs) == len(n.Children())`) the buffer is handed over **as it is** — in the order in which
the messages were accepted — and emptied; otherwise the reader goes back to its loop ("not done aggregating").
One aggregated type; one `Act` per critical section as in `Model/C05Inst.lean`.  Core-only. -/
namespace C05
namespace Agg

structure Msg where
  agg : Bool          -- the type carries the flag AggregateMessages
  src : Option Nat    -- `none`: the parent; `some c`: child number c
  m   : Nat
  deriving DecidableEq, Repr

/-- `aggregate`'s first test: `fromParent || !n.hasFlag(mt, AggregateMessages)` -/
def direct (x : Msg) : Bool := x.src.isNone || !x.agg

inductive Pc where
  | top
  | handling (a : Bool) (ms : List Nat)   -- inside the handler (or the channel send) of a batch (aggregated?)
  | waiting
  | stopped
  deriving DecidableEq, Repr

structure St where
  nch      : Nat := 2                     -- len(n.Children())
  queue    : List Msg := []
  token    : Bool := false
  closing  : Bool := false
  pc       : Pc := .top
  buf      : List Msg := []               -- msgQueue[mt]
  accepted : List Msg := []               -- ghost: acceptance order
  popped   : List Msg := []               -- ghost: what the reader took from the queue
  given    : List Msg := []               -- ghost: every message handed to a handler, in the order given
  started  : List (Bool × List Nat) := [] -- ghost: the invocations (aggregated?, values as given)
  finished : List (Bool × List Nat) := []
  deriving Repr

inductive Act where
  | accept (x : Msg)   -- ProcessProtocolMsg
  | reader             -- one step of dispatchMsgReader
  | close
  deriving Repr

def step (s : St) : Act → Option St
  | .accept x =>
      if s.closing then some s
      else some { s with queue := s.queue ++ [x], token := true, accepted := s.accepted ++ [x] }
  | .close => some { s with closing := true, token := true }
  | .reader =>
      match s.pc with
      | .top =>
          if s.closing then some { s with pc := .stopped }
          else match s.queue with
            | [] => some { s with pc := .waiting }
            | x :: q =>
              if direct x then
                some { s with queue := q, popped := s.popped ++ [x], given := s.given ++ [x],
                              pc := .handling false [x.m], started := s.started ++ [(false, [x.m])] }
              else if (s.buf ++ [x]).length == s.nch then
                some { s with queue := q, popped := s.popped ++ [x], buf := [], given := s.given ++ (s.buf ++ [x]),
                              pc := .handling true ((s.buf ++ [x]).map (·.m)),
                              started := s.started ++ [(true, (s.buf ++ [x]).map (·.m))] }
              else
                -- "Not done aggregating children msgs": back to the loop
                some { s with queue := q, popped := s.popped ++ [x], buf := s.buf ++ [x] }
      | .handling a ms => some { s with pc := .top, finished := s.finished ++ [(a, ms)] }
      | .waiting => if s.token then some { s with pc := .top, token := s.closing } else none
      | .stopped => none

/-- a schedule; a disabled action is skipped -/
def run (s : St) : List Act → St
  | [] => s
  | a :: as => match step s a with
      | some s' => run s' as
      | none => run s as

/-- the aggregated messages from children of a list, in order -/
def aggs (l : List Msg) : List Msg := l.filter (fun x => !direct x)
/-- the messages dispatched one by one, in order -/
def directs (l : List Msg) : List Msg := l.filter direct

/-- the reader runs until it is inside a handler or has nothing to do -/
def settle : Nat → St → St
  | 0, s => s
  | n + 1, s =>
    match s.pc with
    | .handling _ _ => s
    | .stopped => s
    | _ => match step s .reader with
      | none => s
      | some s' => settle n s'

end Agg
end C05
