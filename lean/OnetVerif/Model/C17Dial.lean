import OnetVerif.Model.C17Table
/-! Model for property C17, fourth part — the dialling side **concurrent** with the accepting side and with
`SetValidPeers` (core-only).

Two kinds of goroutines put connections into the router's table (`network/router.go`):

* the accept callback of `Router.Start` (215-258), per accepted connection: identity received → `isPeerValid`
  (one region of `validPeers.lock`; a refusal closes the connection) → `registerConnection` → `launchHandleRoutine`;
* `Router.connect` (371-404), per `Send` that finds no connection: `host.Connect`, the own identity is sent →
  `registerConnection` → `launchHandleRoutine`.  **No validity test anywhere on this path.**

Each arrow is a region of its own; between any two of them anything else may run: other goroutines of either kind,
`SetValidPeers` calls, receive-loop turns, connections ending, `Router.Stop`.  `Model/C17Accept.lean` has the accept
path in full detail (identity exchange, inboxes); here both paths are cut down to the regions that touch the table,
so that their interleavings can be stated in one system.  The table an accepted connection was tested against is
kept as ghost information on the thread and on every log entry; only the theorems read it. -/
namespace C17
namespace Dial

inductive Side where
  | accepted
  | dialled
  deriving DecidableEq, Repr

inductive Ph where
  /-- accept: identity received, not tested yet; dial: connected and the own identity sent -/
  | fresh
  /-- accept only: `isPeerValid` said yes -/
  | checked
  /-- in `r.connections` -/
  | registered
  /-- `handleConn` runs -/
  | running
  /-- refused, closed, or its loop has returned and the entry is removed -/
  | ended
  deriving DecidableEq, Repr

structure Thr where
  side : Side
  peer : Ident
  ph : Ph := .fresh
  /-- ghost: the table `isPeerValid` looked at -/
  vpThen : Option VP := none
  deriving DecidableEq, Repr

/-- one dispatched message: who it is attributed to, and how its connection got into the table -/
structure Entry where
  peer : Ident
  m : Nat
  side : Side
  vpThen : Option VP
  deriving DecidableEq, Repr

structure State where
  vp : VP := none
  /-- `r.isClosed` -/
  closed : Bool := false
  thrs : List Thr := []
  log : List Entry := []
  deriving DecidableEq, Repr

inductive Act where
  | setPeers (id : SetId) (peers : List Ident)
  /-- a peer has connected and its identity `p` has been read by the accept callback -/
  | arrive (p : Ident)
  /-- `Router.connect(p)`: connected, own identity sent -/
  | dial (p : Ident)
  /-- `isPeerValid` of accepted connection `k` -/
  | check (k : Nat)
  | register (k : Nat)
  | launch (k : Nat)
  /-- one turn of the receive loop of `k` with message `m` -/
  | recv (k : Nat) (m : Nat)
  /-- the connection ends (the peer closes; the loop returns and removes the entry) -/
  | drop (k : Nat)
  /-- `Router.Stop` sets `isClosed` -/
  | stop
  deriving DecidableEq, Repr

def upd (s : State) (k : Nat) (f : Thr → Thr) : State :=
  match s.thrs[k]? with
  | none => s
  | some t => { s with thrs := s.thrs.set k (f t) }

def checkThr (vp : VP) (t : Thr) : Thr :=
  if t.side = .accepted ∧ t.ph = .fresh then
    if vp.isValid t.peer then { t with ph := .checked, vpThen := some vp } else { t with ph := .ended }
  else t

/-- `registerConnection`: the accepted connection must have passed the test; the dialled one comes as it is -/
def registerThr (closed : Bool) (t : Thr) : Thr :=
  if (t.side = .accepted ∧ t.ph = .checked) ∨ (t.side = .dialled ∧ t.ph = .fresh) then
    if closed then { t with ph := .ended } else { t with ph := .registered }
  else t

def launchThr (closed : Bool) (t : Thr) : Thr :=
  if t.ph = .registered then (if closed then { t with ph := .ended } else { t with ph := .running }) else t

def step (s : State) : Act → State
  | .setPeers id peers => { s with vp := s.vp.set id peers }
  | .arrive p => { s with thrs := s.thrs ++ [{ side := .accepted, peer := p }] }
  | .dial p => { s with thrs := s.thrs ++ [{ side := .dialled, peer := p }] }
  | .check k => upd s k (checkThr s.vp)
  | .register k => upd s k (registerThr s.closed)
  | .launch k => upd s k (launchThr s.closed)
  | .recv k m =>
    match s.thrs[k]? with
    | some t =>
      if t.ph = .running then
        if s.closed then { s with thrs := s.thrs.set k { t with ph := .ended } }
        else { s with log := s.log ++ [{ peer := t.peer, m := m, side := t.side, vpThen := t.vpThen }] }
      else s
    | none => s
  | .drop k => upd s k fun t => if t.ph = .running then { t with ph := .ended } else t
  | .stop => { s with closed := true }

def run (s : State) (acts : List Act) : State := acts.foldl step s

/-- in the table -/
def Thr.listed (t : Thr) : Bool := t.ph == .registered || t.ph == .running

end Dial
end C17
