import OnetVerif.Model.Util
/-! Model for property C05 (the instance): the per-instance message queue, its single reader goroutine and the
1-buffered wake-up channel (`treenode.go`: `ProcessProtocolMsg` 498-510, `notifyDispatch` 512-520,
`dispatchMsgReader` 522-553, `closeDispatch` 358-371).  One `Act` per critical section of the
source: `accept m` is the whole of `ProcessProtocolMsg` (one mutex region), `reader` one step of the
reader goroutine, `close` is `closeDispatch`.  Handlers are opaque: entering and leaving one are the
reader's `top → handling m` and `handling m → top` steps.  Core-only. -/
namespace C05

inductive RPc where
  | top                 -- about to lock and look at the queue
  | handling (m : Nat)  -- inside dispatchMsgToProtocol for m
  | waiting             -- blocked on msgDispatchQueueWait
  | stopped
  deriving DecidableEq, Repr

structure St where
  queue    : List Nat := []
  token    : Bool := false
  closing  : Bool := false
  pc       : RPc := .top
  accepted : List Nat := []   -- ghost: acceptance order
  started  : List Nat := []   -- ghost: handler-enter order
  finished : List Nat := []   -- ghost: handler-exit order
  deriving Repr

inductive Act where
  | accept (m : Nat)   -- ProcessProtocolMsg under the mutex (atomic)
  | reader             -- one step of dispatchMsgReader
  | close              -- closeDispatch
  deriving Repr

def step (s : St) : Act → Option St
  | .accept m =>
      if s.closing then some s
      else some { s with queue := s.queue ++ [m], token := true, accepted := s.accepted ++ [m] }
  | .close => some { s with closing := true, token := true }  -- closed channel is always readable
  | .reader =>
      match s.pc with
      | .top =>
          if s.closing then some { s with pc := .stopped }
          else match s.queue with
            | m :: q => some { s with queue := q, pc := .handling m, started := s.started ++ [m] }
            | [] => some { s with pc := .waiting }
      | .handling m => some { s with pc := .top, finished := s.finished ++ [m] }
      | .waiting => if s.token then some { s with pc := .top, token := s.closing } else none
      | .stopped => none

def run (s : St) : List Act → Option St
  | [] => some s
  | a :: as => match step s a with
      | some s' => run s' as
      | none => run s as   -- a blocked thread simply does not move

/-- several instances on one server: the overlay hands a message over with `accept` on the
addressed instance only (`overlay.go:216-219`, `pi.ProcessProtocolMsg`), every instance has its own
reader goroutine -/
abbrev Server := Nat → St

inductive SAct where
  | at (i : Nat) (a : Act)

def sstep (s : Server) : SAct → Option Server
  | .at i a => (step (s i) a).map fun t => fun j => if j = i then t else s j

end C05
