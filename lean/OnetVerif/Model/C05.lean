import OnetVerif.Model.Util
/-! Model for property C05: the per-instance message queue, its single reader goroutine and the
1-buffered wake-up channel (`treenode.go`: `ProcessProtocolMsg` 498-510, `notifyDispatch` 512-520,
`dispatchMsgReader` 522-553, `closeDispatch` 358-371).  One `Act` per critical section of the
source: `accept m` is the whole of `ProcessProtocolMsg` (one mutex region), `reader` one step of the
reader goroutine, `close` is `closeDispatch`.  Handlers are opaque: entering and leaving one are the
reader's `top → handling m` and `handling m → top` steps.  Core-only. -/
namespace C05

inductive RPc where
  | top                 -- about to lock and look at the queue
  | handling (m : Nat)  -- inside dispatchMsgToProtocol for m
  | waiting             -- blocked on msgDispatchQueueWait
  | stopped
  deriving DecidableEq, Repr

structure St where
  queue    : List Nat := []
  token    : Bool := false
  closing  : Bool := false
  pc       : RPc := .top
  accepted : List Nat := []   -- ghost: acceptance order
  started  : List Nat := []   -- ghost: handler-enter order
  finished : List Nat := []   -- ghost: handler-exit order
  deriving Repr

inductive Act where
  | accept (m : Nat)   -- ProcessProtocolMsg under the mutex (atomic)
  | reader             -- one step of dispatchMsgReader
  | close              -- closeDispatch
  deriving Repr

def step (s : St) : Act → Option St
  | .accept m =>
      if s.closing then some s
      else some { s with queue := s.queue ++ [m], token := true, accepted := s.accepted ++ [m] }
  | .close => some { s with closing := true, token := true }  -- closed channel is always readable
  | .reader =>
      match s.pc with
      | .top =>
          if s.closing then some { s with pc := .stopped }
          else match s.queue with
            | m :: q => some { s with queue := q, pc := .handling m, started := s.started ++ [m] }
            | [] => some { s with pc := .waiting }
      | .handling m => some { s with pc := .top, finished := s.finished ++ [m] }
      | .waiting => if s.token then some { s with pc := .top, token := s.closing } else none
      | .stopped => none

def run (s : St) : List Act → Option St
  | [] => some s
  | a :: as => match step s a with
      | some s' => run s' as
      | none => run s as   -- a blocked thread simply does not move

/-- several instances on one server: the overlay hands a message over with `accept` on the
addressed instance only (`overlay.go:216-219`, `pi.ProcessProtocolMsg`), every instance has its own
reader goroutine -/
abbrev Server := Nat → St

inductive SAct where
  | at (i : Nat) (a : Act)

def sstep (s : Server) : SAct → Option Server
  | .at i a => (step (s i) a).map fun t => fun j => if j = i then t else s j

namespace Drv

structure State where
  srv : List (Nat × St) := []

def init : State := {}

def get (s : State) (i : Nat) : St := (s.srv.lookup i).getD {}
def set (s : State) (i : Nat) (t : St) : State := { srv := (i, t) :: s.srv.filter (fun p => p.1 != i) }

/-- let the reader goroutine of an instance run its internal steps (wake up from waiting, look at
the queue) until it enters a handler or blocks; fuel bounds the loop (two steps suffice) -/
def settle : Nat → St → St
  | 0, t => t
  | n + 1, t =>
    match t.pc with
    | .handling _ => t
    | .stopped => t
    | _ => match step t .reader with
      | none => t
      | some t' => settle n t'

def showPc (t : St) : String :=
  match t.pc with
  | .handling m => s!"in:{m}"
  | .stopped => "idle"   -- a stopped reader cannot be told from an idle one from outside
  | .waiting => "idle"
  | .top => "idle"

/-- `accept <inst> <m>`: hand message m over; `exit <inst>`: the running handler returns; `close
<inst>`.  After each, the reader runs until it is inside a handler or has nothing to do; the reply
is what the instance is doing then: `in:<m>`, `idle` or `stopped`. -/
def step (s : State) (toks : List String) : State × String :=
  match toks with
  | ["accept", i, m] =>
    match i.toNat?, m.toNat? with
    | some i, some m =>
      match C05.step (get s i) (.accept m) with
      | some t => let t := settle 4 t; (set s i t, showPc t)
      | none => (s, "blocked")
    | _, _ => (s, "bad-op")
  -- the instance sends a message to its own node: it arrives like any other message
  | ["self", i, m] =>
    match i.toNat?, m.toNat? with
    | some i, some m =>
      match C05.step (get s i) (.accept m) with
      | some t => let t := settle 4 t; (set s i t, showPc t)
      | none => (s, "blocked")
    | _, _ => (s, "bad-op")
  | ["exit", i] =>
    match i.toNat? with
    | some i =>
      let t := get s i
      match t.pc with
      | .handling _ =>
        match C05.step t .reader with
        | some t => let t := settle 4 t; (set s i t, showPc t)
        | none => (s, "blocked")
      | _ => (s, "no-handler")
    | none => (s, "bad-op")
  | ["close", i] =>
    match i.toNat? with
    | some i =>
      match C05.step (get s i) .close with
      | some t => let t := settle 4 t; (set s i t, showPc t)
      | none => (s, "blocked")
    | none => (s, "bad-op")
  | ["storm", _, _, _] => ({}, "ok")
  -- time passes (a handler may stay blocked for as long as it likes): nothing happens
  | ["sleep", _] => (s, "ok")
  -- trace validation of runs scheduled by the Go runtime: one line per observed event
  | ["ev-accept", i, m] =>
    match i.toNat?, m.toNat? with
    | some i, some m =>
      match C05.step (get s i) (.accept m) with
      | some t => (set s i t, "ok")
      | none => (s, "blocked")
    | _, _ => (s, "bad-op")
  | ["ev-enter", i] =>
    match i.toNat? with
    | some i =>
      let t := settle 4 (get s i)
      (set s i t, match t.pc with | .handling m => toString m | _ => "none")
    | none => (s, "bad-op")
  | ["ev-exit", i] =>
    match i.toNat? with
    | some i =>
      let t := get s i
      match t.pc with
      | .handling m =>
        match C05.step t .reader with
        | some t => (set s i t, toString m)
        | none => (s, "blocked")
      | _ => (s, "none")
    | none => (s, "bad-op")
  | _ => (s, "bad-op")

end Drv

end C05
