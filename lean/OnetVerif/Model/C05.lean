import OnetVerif.Model.Util
import OnetVerif.Model.C05Inst
import OnetVerif.Model.C05Conn
import OnetVerif.Model.C05Chan
import OnetVerif.Model.C05Reg
import OnetVerif.Model.C05Agg
/-! Model for property C05.  The instance (queue, wake-up token, single reader) is `Model/C05Inst.lean`,
the way from a connection to the instance's queue (receive loop, dispatchers, overlay hand-over,
`transmitMux`) is `Model/C05Conn.lean`, an instance that receives one of its types through a bounded channel
`Model/C05Chan.lean`, the registration of the protocol instance and who starts the reader `Model/C05Reg.lean`;
this file is the line-protocol front end.  Core-only. -/
namespace C05

namespace Drv

structure State where
  srv : List (Nat × St) := []
  conn : Conn.St := {}
  chan : Chan.St := {}
  agg : Agg.St := {}
  ch2 : List Nat := []      -- content of the channel of slices (aggregated channel type) of the channel class
  aggm : List Nat := []     -- the messages of that type handed over so far

def init : State := {}

def get (s : State) (i : Nat) : St := (s.srv.lookup i).getD {}
def set (s : State) (i : Nat) (t : St) : State := { s with srv := (i, t) :: s.srv.filter (fun p => p.1 != i) }

/-- let the reader goroutine of an instance run its internal steps (wake up from waiting, look at
the queue) until it enters a handler or blocks; fuel bounds the loop (two steps suffice) -/
def settle : Nat → St → St
  | 0, t => t
  | n + 1, t =>
    match t.pc with
    | .handling _ => t
    | .stopped => t
    | _ => match step t .reader with
      | none => t
      | some t' => settle n t'

def showPc (t : St) : String :=
  match t.pc with
  | .handling m => s!"in:{m}"
  | .stopped => "idle"   -- a stopped reader cannot be told from an idle one from outside
  | .waiting => "idle"
  | .top => "idle"

/-- the reader of instance `i` of the connection model runs until it is inside a handler or blocks -/
def csettle (x : Conn.St) (i : Nat) : Conn.St :=
  { x with inst := Conn.upd x.inst i (settle 4 (x.inst i)) }

/-- connection `p`'s goroutine takes the envelope at the head of its wire and brings it to its
processor (the harness constructors return at once) -/
def cdeliver (x : Conn.St) (p : Nat) : Conn.St :=
  Conn.run x [.loop p, .loop p, .ctorRet p]

def cstates (x : Conn.St) : String :=
  "|".intercalate ((List.range 3).map fun i => showPc (x.inst i))

/-- the connection class: `cstart <tcp>`; `csend <peer> <inst> <m>` (peer's instance sends m to the
instance over its connection; answer: what the instance is doing once the server has accepted it);
`cburst <peer> <m0> <i,i,…>` (messages m0, m0+1, … written back to back for the listed instances;
answer: what the three instances are doing); `cexit <inst>`; `csvc <peer> <proc> <m>` (a service
message whose processor blocks) and `csvcret <proc>` (answer: processors running); `cstate`. -/
def cstep (s : State) (toks : List String) : Option (State × String) :=
  match toks with
  | ["cstart", _] => some ({ s with conn := {} }, "ok")
  | ["csend", p, i, m] =>
    match p.toNat?, i.toNat?, m.toNat? with
    | some p, some i, some m =>
      let x := cdeliver (Conn.run s.conn [.send p (.proto i m)]) p
      let x := csettle x i
      some ({ s with conn := x }, showPc (x.inst i))
    | _, _, _ => some (s, "bad-op")
  | ["cburst", p, m0, is] =>
    match p.toNat?, m0.toNat?, Util.natList is with
    | some p, some m0, some is =>
      let sends : List Conn.Act := (List.range is.length).map fun k => .send p (.proto (is.getD k 0) (m0 + k))
      let x := Conn.run s.conn sends
      let x := is.foldl (fun acc _ => cdeliver acc p) x
      let x := (List.range 3).foldl csettle x
      some ({ s with conn := x }, cstates x)
    | _, _, _ => some (s, "bad-op")
  | ["cexit", i] =>
    match i.toNat? with
    | some i =>
      match (s.conn.inst i).pc with
      | .handling _ =>
        let x := csettle (Conn.run s.conn [.reader i]) i
        some ({ s with conn := x }, showPc (x.inst i))
      | _ => some (s, "no-handler")
    | none => some (s, "bad-op")
  | ["csvc", p, q, m] =>
    match p.toNat?, q.toNat?, m.toNat? with
    | some p, some q, some m =>
      let x := Conn.run s.conn [.send p (.svc q m), .loop p, .loop p]
      some ({ s with conn := x }, s!"running={x.running.length}")
    | _, _, _ => some (s, "bad-op")
  | ["csvcret", q] =>
    match q.toNat? with
    | some q =>
      match (List.range s.conn.running.length).find? (fun k => (s.conn.running.getD k (0, 0)).1 == q) with
      | some k =>
        let x := Conn.run s.conn [.svcRet k]
        some ({ s with conn := x }, s!"running={x.running.length}")
      | none => some (s, "no-processor")
    | none => some (s, "bad-op")
  | ["cstate"] => some (s, cstates s.conn)
  | _ => none

def showCh (t : Chan.St) : String :=
  let pc := match t.pc with
    | .handling m => s!"in:{m}"
    | .sending m => s!"held:{m}"
    | _ => "idle"
  s!"{pc} len={t.chan.length}"

/-- the reader goes on until it has popped a channel message and stands before `dispatchChannel`'s tests
(`sending m`), or is inside a handler, or has nothing to do -/
def chToSending : Nat → Chan.St → Chan.St
  | 0, t => t
  | n + 1, t =>
    match t.pc with
    | .handling _ => t
    | .sending _ => t
    | .stopped => t
    | _ => match Chan.step t .reader with
      | none => t
      | some t' => chToSending n t'

def chHeld (t : Chan.St) : Bool := match t.pc with | .sending _ => true | _ => false

/-- the reader of the channel instance runs until it is inside a handler or has nothing to do (two steps
per queued channel message) -/
def chsettle (t : Chan.St) : Chan.St := Chan.settle (2 * t.queue.length + 8) t

/-- the send into the channel of slices (`reflect.Send`, no capacity test) is a synchronous call of the reader that
returns when the channel has room — for the instance it is what a handler that returns then is: the message is a
`(false, m)` message of `Model/C05Chan.lean` whose "handler" is left as soon as there is room -/
def chauto : Nat → State → State
  | 0, s => s
  | n + 1, s =>
    match s.chan.pc with
    | .handling m =>
      if s.aggm.contains m && s.ch2.length < s.chan.cap then
        match Chan.step s.chan .reader with
        | some t => chauto n { s with chan := chsettle t, ch2 := s.ch2 ++ [m] }
        | none => s
      else s
    | _ => s

/-- the channel class (one instance whose type-4 messages go to a channel of `cap` places and whose type-3
messages have a gated handler): `chstart <cap>`; `chsend <m>` (a channel message is handed over) and `chacc <m>`
(a handler message), `chexit` (the running handler returns), `chclose`, `chwait <ms>` (time passes) — answer:
what the instance is doing and how many messages sit in the channel once the reader has nothing more to do;
`chread` (the protocol takes one message from its channel if there is one: `got:<m>` / `empty`); `chdrain`
(it takes all of them: `rest:<m,…>`).  `chhold <m>` (idle, open instance only): a channel message is handed
over and the reader is stopped **between the pop and `dispatchChannel`'s tests** (`held:<m>`); while it stands
there only `chread`, `chdrain` and `chclose` happen (the others answer `held`); `chrel` lets it go on. -/
def chstep (s : State) (toks : List String) : Option (State × String) :=
  let fin (t : Chan.St) : Option (State × String) :=
    let s' := chauto (t.queue.length + s.ch2.length + 4) { s with chan := t }
    some (s', showCh s'.chan)
  if chHeld s.chan && (match toks with
      | ["chsend", _] => true | ["chacc", _] => true | ["chexit"] => true | ["chwait", _] => true
      | ["chhold", _] => true | ["chagg", _] => true | _ => false) then some (s, "held") else
  match toks with
  | ["chhold", m] =>
    match m.toNat? with
    | some m =>
      if s.chan.closing then some (s, "not-idle") else
      match s.chan.pc with
      | .handling _ => some (s, "not-idle")
      | _ => match Chan.step s.chan (.accept true m) with
        | some t => fin (chToSending 8 t)
        | none => some (s, "blocked")
    | none => some (s, "bad-op")
  | ["chrel"] =>
    if chHeld s.chan then fin (chsettle s.chan) else some (s, "not-held")
  | ["chstart", c] =>
    match c.toNat? with
    | some c => if c = 0 then some (s, "bad-op") else some ({ s with chan := { cap := c }, ch2 := [], aggm := [] }, "ok")
    | none => some (s, "bad-op")
  | ["chsend", m] =>
    match m.toNat? with
    | some m => match Chan.step s.chan (.accept true m) with
      | some t => fin (chsettle t)
      | none => some (s, "blocked")
    | none => some (s, "bad-op")
  | ["chacc", m] =>
    match m.toNat? with
    | some m => match Chan.step s.chan (.accept false m) with
      | some t => fin (chsettle t)
      | none => some (s, "blocked")
    | none => some (s, "bad-op")
  | ["chexit"] =>
    match s.chan.pc with
    | .handling m =>
      if s.aggm.contains m then some (s, "no-handler") else
      match Chan.step s.chan .reader with
      | some t => fin (chsettle t)
      | none => some (s, "blocked")
    | _ => some (s, "no-handler")
  | ["chagg", m] =>
    match m.toNat? with
    | some m =>
      let s := if s.chan.closing then s else { s with aggm := m :: s.aggm }
      match Chan.step s.chan (.accept false m) with
      | some t =>
        let s' := chauto (t.queue.length + s.ch2.length + 4) { s with chan := chsettle t }
        some (s', showCh s'.chan)
      | none => some (s, "blocked")
    | none => some (s, "bad-op")
  | ["chaggread"] =>
    match s.ch2 with
    | m :: rest =>
      let s' := chauto (s.chan.queue.length + rest.length + 4) { s with ch2 := rest }
      some (s', s!"got:{m}")
    | [] => some (s, "empty")
  | ["chclose"] =>
    match Chan.step s.chan .close with
    | some t => if chHeld t then fin t else fin (chsettle t)
    | none => some (s, "blocked")
  | ["chwait", ms] =>
    match ms.toNat? with
    | some _ => fin (chsettle s.chan)
    | none => some (s, "bad-op")
  | ["chread"] =>
    match s.chan.chan with
    | m :: _ => match Chan.step s.chan .take with
      | some t => some ({ s with chan := t }, s!"got:{m}")
      | none => some (s, "blocked")
    | [] => some (s, "empty")
  | ["chdrain"] =>
    let t := Chan.run s.chan (s.chan.chan.map fun _ => .take)
    some ({ s with chan := t }, "rest:" ++ Util.showNatList s.chan.chan)
  | _ => none


def showAgg (t : Agg.St) : String :=
  match t.pc with
  | .handling _ ms => "in:" ++ Util.showNatList ms
  | _ => "idle"

def gsettle (t : Agg.St) : Agg.St := Agg.settle (2 * t.queue.length + 8) t

/-- the aggregation class (one instance on a node with `k` children whose type-1 messages are aggregated and whose
type-3 messages are not; every handler is gated): `gstart <k>`; `gagg <c> <m>` (child c sends an aggregated-type
message), `gpar <m>` (the parent sends one: dispatched at once), `gacc <m>` (a plain message from child 0), `gexit`
(the running handler returns) — answer: the batch the running handler was given (`in:<m,…>`) or `idle`, once the
reader has nothing more to do. -/
def gstep (s : State) (toks : List String) : Option (State × String) :=
  let fin (t : Agg.St) : Option (State × String) := some ({ s with agg := t }, showAgg t)
  let acc (x : Agg.Msg) : Option (State × String) :=
    match Agg.step s.agg (.accept x) with
    | some t => fin (gsettle t)
    | none => some (s, "blocked")
  match toks with
  | ["gstart", k] =>
    match k.toNat? with
    | some k => if k = 0 || k > 9 then some (s, "bad-op") else some ({ s with agg := { nch := k } }, "ok")
    | none => some (s, "bad-op")
  | ["gagg", c, m] =>
    match c.toNat?, m.toNat? with
    | some c, some m => if c < s.agg.nch then acc ⟨true, some c, m⟩ else some (s, "bad-op")
    | _, _ => some (s, "bad-op")
  | ["gpar", m] =>
    match m.toNat? with
    | some m => acc ⟨true, none, m⟩
    | none => some (s, "bad-op")
  | ["gacc", m] =>
    match m.toNat? with
    | some m => acc ⟨false, some 0, m⟩
    | none => some (s, "bad-op")
  | ["gexit"] =>
    match s.agg.pc with
    | .handling _ _ => match Agg.step s.agg .reader with
      | some t => fin (gsettle t)
      | none => some (s, "blocked")
    | _ => some (s, "no-handler")
  | _ => none

/-- `accept <inst> <m>`: hand message m over; `exit <inst>`: the running handler returns; `close
<inst>`.  After each, the reader runs until it is inside a handler or has nothing to do; the reply
is what the instance is doing then: `in:<m>`, `idle` or `stopped`. -/
def step (s : State) (toks : List String) : State × String :=
  match cstep s toks with
  | some r => r
  | none =>
  match chstep s toks with
  | some r => r
  | none =>
  match gstep s toks with
  | some r => r
  | none =>
  match toks with
  -- the protocol instance of `i` is registered once more (`Overlay.RegisterProtocolInstance` with the instance the
  -- node is bound to): refused, nothing changes; after `close` the node is no longer listed
  | ["rereg", i] =>
    match i.toNat? with
    | some i =>
      match s.srv.lookup i with
      | some t => (s, (Reg.register { core := t, bound := true }).2.show)
      | none => (s, "no-instance")
    | none => (s, "bad-op")
  | ["accept", i, m] =>
    match i.toNat?, m.toNat? with
    | some i, some m =>
      match C05.step (get s i) (.accept m) with
      | some t => let t := settle 4 t; (set s i t, showPc t)
      | none => (s, "blocked")
    | _, _ => (s, "bad-op")
  -- the handler of m will be slow inside a send to several nodes (`SendToChildren`, `SendToChildrenInParallel`,
  -- `Broadcast`, `Multicast`, `SendToParent`): for the instance and the server a hand-over like any other
  | ["sendin", i, m, p] =>
    match i.toNat?, m.toNat? with
    | some i, some m =>
      if !(["children", "par", "bcast", "multi", "parent"].contains p) then (s, "bad-op") else
      match C05.step (get s i) (.accept m) with
      | some t => let t := settle 4 t; (set s i t, showPc t)
      | none => (s, "blocked")
    | _, _ => (s, "bad-op")
  -- a hand-over whose instance lookup happened before the instance was closed: straight to `accept`
  | ["late", i, m] =>
    match i.toNat?, m.toNat? with
    | some i, some m =>
      match C05.step (get s i) (.accept m) with
      | some t => let t := settle 4 t; (set s i t, showPc t)
      | none => (s, "blocked")
    | _, _ => (s, "bad-op")
  -- the instance sends a message to its own node: it arrives like any other message
  | ["self", i, m] =>
    match i.toNat?, m.toNat? with
    | some i, some m =>
      match C05.step (get s i) (.accept m) with
      | some t => let t := settle 4 t; (set s i t, showPc t)
      | none => (s, "blocked")
    | _, _ => (s, "bad-op")
  | ["exit", i] =>
    match i.toNat? with
    | some i =>
      let t := get s i
      match t.pc with
      | .handling _ =>
        match C05.step t .reader with
        | some t => let t := settle 4 t; (set s i t, showPc t)
        | none => (s, "blocked")
      | _ => (s, "no-handler")
    | none => (s, "bad-op")
  | ["close", i] =>
    match i.toNat? with
    | some i =>
      match C05.step (get s i) .close with
      | some t => let t := settle 4 t; (set s i t, showPc t)
      | none => (s, "blocked")
    | none => (s, "bad-op")
  | ["storm", _, _, _] => ({}, "ok")
  -- time passes (a handler may stay blocked for as long as it likes): nothing happens
  | ["sleep", _] => (s, "ok")
  -- trace validation of runs scheduled by the Go runtime: one line per observed event
  | ["ev-accept", i, m] =>
    match i.toNat?, m.toNat? with
    | some i, some m =>
      match C05.step (get s i) (.accept m) with
      | some t => (set s i t, "ok")
      | none => (s, "blocked")
    | _, _ => (s, "bad-op")
  | ["ev-enter", i] =>
    match i.toNat? with
    | some i =>
      let t := settle 4 (get s i)
      (set s i t, match t.pc with | .handling m => toString m | _ => "none")
    | none => (s, "bad-op")
  | ["ev-exit", i] =>
    match i.toNat? with
    | some i =>
      let t := get s i
      match t.pc with
      | .handling m =>
        match C05.step t .reader with
        | some t => (set s i t, toString m)
        | none => (s, "blocked")
      | _ => (s, "none")
    | none => (s, "bad-op")
  | _ => (s, "bad-op")

end Drv

end C05
