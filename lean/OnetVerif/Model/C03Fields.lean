/-! Property C03, layer 2: **field numbers** of `go.dedis.ch/protobuf` (v1.0.11) — `field.go`
`ProtoFields` / `innerFieldIndexes` / `ParseTag` — for struct types with embedded (anonymous) structs
and `protobuf:"<n>"` tags, and the decoder's forward-only field cursor (`decode.go:117-121`).
`Model/C03Wire.lean` numbers the fields of a message by position; the theorems about this file
(`Props/C03.lean`) say when that is what the library does: for every tag-free struct type, embedded
structs included (their fields are spliced in, in place), the field numbers are `1, 2, 3, …` over the
flattened field list, strictly increasing, and the cursor finds every field.  Executable, core-only. -/
namespace C03.Fields

/-- a struct field as far as numbering goes: an ordinary field or an embedded struct (by value or by
pointer — `innerFieldIndexes` looks through the pointer), each with its tag number (0 = none) -/
inductive SField where
  | plain (tag : Nat)
  | emb (tag : Nat) (fields : List SField)
  deriving Repr, Inhabited

mutual
/-- `innerFieldIndexes` on one field: `*id++`, `if tid != 0 { *id = tid }`, then either the field gets
`*id`, or (`f.Anonymous`) `*id--` and the embedded type's fields follow -/
def idsOf (id : Nat) : SField → List Nat × Nat
  | .plain tag =>
    let id' := if tag ≠ 0 then tag else id + 1
    ([id'], id')
  | .emb tag fs =>
    let id' := if tag ≠ 0 then tag else id + 1
    idsAll (id' - 1) fs
termination_by structural f => f
/-- the loop of `innerFieldIndexes` over the fields of a struct; the counter is threaded through -/
def idsAll (id : Nat) : List SField → List Nat × Nat
  | [] => ([], id)
  | f :: fs =>
    let r := idsOf id f
    let rs := idsAll r.2 fs
    (r.1 ++ rs.1, rs.2)
termination_by structural fs => fs
end

/-- `ProtoFields(t)`: the numbers in field order; `none` = the panic "protobuf ID … reused" -/
def protoFields (fs : List SField) : Option (List Nat) :=
  let ids := (idsAll 0 fs).1
  if ids.Nodup then some ids else none

mutual
/-- number of wire fields (leaves) -/
def leavesOf : SField → Nat
  | .plain _ => 1
  | .emb _ fs => leavesAll fs
termination_by structural f => f
def leavesAll : List SField → Nat
  | [] => 0
  | f :: fs => leavesOf f + leavesAll fs
termination_by structural fs => fs
end

mutual
/-- no `protobuf:"<n>"` tag anywhere -/
def untaggedOf : SField → Bool
  | .plain tag => tag == 0
  | .emb tag fs => tag == 0 && untaggedAll fs
termination_by structural f => f
def untaggedAll : List SField → Bool
  | [] => true
  | f :: fs => untaggedOf f && untaggedAll fs
termination_by structural fs => fs
end

/-- the decoder's field cursor (`decode.go:117-121`): `for fieldi < len(fields) && fields[fieldi].ID <
fieldnum { fieldi++ }`, then the field is the one under the cursor if its number is `fieldnum`.  `ids` =
the numbers from the cursor on; result: was the field found, and the numbers from the new cursor on -/
def seek (fieldnum : Nat) : List Nat → Bool × List Nat
  | [] => (false, [])
  | i :: rest => if i < fieldnum then seek fieldnum rest else (i == fieldnum, i :: rest)

/-- decoding what the encoder wrote for a struct with the field numbers `ids` (one entry per field, in
field order): is every entry stored in its field? -/
def findsAll (ids : List Nat) : List Nat → Bool
  | [] => true
  | n :: entries => (seek n ids).1 && findsAll (seek n ids).2 entries

/-! ### line protocol: `c03 fids <fields>` — `p<tag>`, `e<tag>(<fields>)`, comma separated -/
namespace Text

def num (cs : List Char) : Option (Nat × List Char) :=
  let ds := cs.takeWhile Char.isDigit
  if ds.isEmpty || ds.length > 6 then none
  else (String.ofList ds).toNat?.map (·, cs.dropWhile Char.isDigit)

mutual
def parseField : Nat → List Char → Option (SField × List Char)
  | 0, _ => none
  | _ + 1, 'p' :: r => (num r).map fun (t, r') => (.plain t, r')
  | fuel + 1, 'e' :: r =>
    match num r with
    | some (t, '(' :: ')' :: r') => some (.emb t [], r')
    | some (t, '(' :: r') =>
      match parseFields fuel r' with
      | some (fs, ')' :: r'') => some (.emb t fs, r'')
      | _ => none
    | _ => none
  | _ + 1, _ => none
def parseFields : Nat → List Char → Option (List SField × List Char)
  | 0, _ => none
  | fuel + 1, cs =>
    match parseField fuel cs with
    | some (f, ',' :: r) => (parseFields fuel r).map fun (fs, r') => (f :: fs, r')
    | some (f, r) => some ([f], r)
    | none => none
end

def parse (s : String) : Option (List SField) :=
  if s = "-" then some []
  else match parseFields (2 * s.length + 2) s.toList with
    | some (fs, []) => some fs
    | _ => none

/-- answer: `ids=<n,…|-> found=<yes|no>` or `panic` -/
def fidsOp (fs : List SField) : String :=
  match protoFields fs with
  | none => "panic"
  | some ids =>
    "ids=" ++ (if ids.isEmpty then "-" else ",".intercalate (ids.map toString)) ++
      " found=" ++ (if findsAll ids ids then "yes" else "no")

end Text

end C03.Fields
