import OnetVerif.Model.Util
/-! Model for property C01, the `transmitMux` region of `Overlay.TransmitMsg` (overlay.go:148-225) for
messages whose tree is known: under the server-wide `transmitMux` the overlay looks the protocol
instance up by the token id of the message, and if there is none it lists a new TreeNodeInstance,
calls the protocol constructor (user code, may take arbitrarily long), registers the protocol
instance and hands the message over; otherwise it hands the message to the existing instance.
Threads: `wait` = before `transmitMux.Lock()`, `ctor` = inside the region while the constructor
runs (the lock is held), `fin`.  An instance may declare itself done (`done`): it is unlisted and marked,
and later messages for its token are dropped inside the region (the rest of that story is C11).  Core-only. -/
namespace C01.Inst

inductive Pc where | wait | ctor | fin deriving DecidableEq, Repr

structure Th where
  tok : Nat
  m : Nat
  pc : Pc
  deriving DecidableEq, Repr

structure St where
  mux : Option Nat := none          -- `transmitMux`: held by the thread constructing the instance of this token
  inst : List Nat := []             -- `o.protocolInstances`: tokens with a registered instance
  created : List Nat := []          -- ghost: constructor calls, by token
  handed : List (Nat × Nat) := []   -- ghost: (token of the instance, message) in hand-over order
  arrived : List (Nat × Nat) := []  -- ghost
  doneToks : List Nat := []         -- `o.instancesInfo[tok] = true`
  dropped : List (Nat × Nat) := []  -- ghost: late messages, dropped inside the region
  thr : List Th := []
  deriving Repr

inductive Act where
  | arrive (tok m : Nat)
  | thread (i : Nat)
  | done (tok : Nat)                -- the registered instance of `tok` declares itself done
  deriving Repr

def stepTh (s : St) (i : Nat) (t : Th) : Option St :=
  match t.pc with
  | .wait =>
      if s.mux.isSome then none                       -- blocked on `transmitMux`
      else if t.tok ∈ s.doneToks then              -- late message for a finished instance
        some { s with dropped := s.dropped ++ [(t.tok, t.m)], thr := s.thr.set i { t with pc := .fin } }
      else if t.tok ∈ s.inst then
        some { s with handed := s.handed ++ [(t.tok, t.m)], thr := s.thr.set i { t with pc := .fin } }
      else
        some { s with mux := some t.tok, created := s.created ++ [t.tok],
                      thr := s.thr.set i { t with pc := .ctor } }
  | .ctor =>
      some { s with mux := none, inst := s.inst ++ [t.tok], handed := s.handed ++ [(t.tok, t.m)],
                    thr := s.thr.set i { t with pc := .fin } }
  | .fin => none

def step (s : St) : Act → Option St
  | .arrive tok m => some { s with arrived := s.arrived ++ [(tok, m)], thr := s.thr ++ [⟨tok, m, .wait⟩] }
  | .thread i =>
      match s.thr[i]? with
      | some t => stepTh s i t
      | none => none
  | .done tok =>
      if tok ∈ s.inst then
        some { s with inst := s.inst.filter (· != tok), doneToks := s.doneToks ++ [tok] }
      else none

def run (s : St) : List Act → St
  | [] => s
  | a :: as => match step s a with
      | some s' => run s' as
      | none => run s as

end C01.Inst
