import OnetVerif.Model.C05Inst
/-! Model for property C05, the way from a connection to an instance's queue — the part of the server
that decides whether a blocked handler can hold back anybody else:

* `network/router.go` `handleConn` 442-515: one goroutine per connection, `c.Receive()` then
  `r.Dispatch(packet)` **synchronously**, then the next `Receive`;
* `network/dispatch.go` `BlockingDispatcher.Dispatch` 84-98 (the router's dispatcher): looks the
  processor up under its lock, releases the lock, calls `p.Process(packet)` in the caller's goroutine;
* protocol messages: the processor is the overlay, `overlay.go` `Process` 82-123 → `TransmitMsg`
  132-236: tree lookup, then the server-wide `transmitMux`; under it the instance is looked up by
  token; a missing instance is created — the protocol constructor (user code) runs **inside**
  `transmitMux` — and the message is handed over with `pi.ProcessProtocolMsg` (`C05.step … (.accept m)`,
  one short mutex region of the instance, never waits for a handler); then `Process` returns and the
  connection's goroutine reads the next envelope;
* service messages: the processor is the service manager (`service.go` `Process` 400-403), whose
  dispatcher is a `RoutineDispatcher` (`dispatch.go` 119-137): every envelope gets its own goroutine,
  `Dispatch` returns at once.

One `loop c` action per region of connection `c`'s goroutine: `recv` (blocked in `Receive` until the
peer has written something) → `disp e` (envelope in hand, up to `transmitMux.Lock`) → either the
hand-over and back to `recv`, or `ctor` (constructor running, lock held) until `ctorRet`.  A local
injection (`Router.Send` to the own identity dispatches in the caller's goroutine, router.go 316-337)
is one more "connection".  Connections, instances and processors are indexed by `Nat`; the tables
are total functions (an instance that was never addressed is an idle reader with an empty queue).
Core-only. -/
namespace C05.Conn

inductive Env where
  | proto (i m : Nat)     -- protocol message `m` for instance `i` (token of the instance)
  | svc (p m : Nat)       -- service message `m` for processor `p`
  deriving DecidableEq, Repr

inductive LPc where
  | recv                  -- in `c.Receive()`
  | disp (e : Env)        -- `Dispatch` → `Process` → `TransmitMsg`, before `transmitMux.Lock()`
  | ctor (i m : Nat)      -- inside `transmitMux`: the constructor of instance `i` runs
  deriving DecidableEq, Repr

/-- one hand-over: connection, instance, message, and whether the instance took it (`false`: the
instance was closing, `ProcessProtocolMsg` returned without queueing) -/
structure Hand where
  c : Nat
  i : Nat
  m : Nat
  ok : Bool
  deriving DecidableEq, Repr

structure St where
  wire : Nat → List Env := fun _ => []     -- written by the peer, not yet returned by `Receive`
  loop : Nat → LPc := fun _ => .recv        -- where each connection's goroutine is
  mux : Bool := false                        -- `transmitMux`
  live : List Nat := []                      -- `o.protocolInstances`
  inst : Nat → C05.St := fun _ => {}        -- queue / wake-up token / reader of each instance
  running : List (Nat × Nat) := []           -- service processors running in their own goroutines
  sent : List (Nat × Env) := []              -- ghost: (connection, envelope) in write order
  got : List (Nat × Env) := []               -- ghost: (connection, envelope) in `Receive` order
  hand : List Hand := []                     -- ghost: hand-overs in the order the server made them

def upd {α : Type} (f : Nat → α) (k : Nat) (v : α) : Nat → α := fun j => if j = k then v else f j

inductive Act where
  | send (c : Nat) (e : Env)   -- the peer (or a local sender) writes `e` on connection `c`
  | loop (c : Nat)             -- one step of connection `c`'s goroutine
  | ctorRet (c : Nat)          -- the constructor called from connection `c`'s goroutine returns
  | reader (i : Nat)           -- one step of instance `i`'s reader (entering / leaving a handler included)
  | close (i : Nat)            -- instance `i` is closed (`closeDispatch`)
  | svcRet (k : Nat)           -- the `k`-th running service processor returns
  deriving Repr

/-- `pi.ProcessProtocolMsg(m)` on instance `i`, recorded -/
def handOver (s : St) (c i m : Nat) : St :=
  -- `accept` is total (`c05_handover_nonblocking`): the default is never used
  { s with inst := upd s.inst i ((C05.step (s.inst i) (.accept m)).getD (s.inst i)),
           hand := s.hand ++ [⟨c, i, m, !(s.inst i).closing⟩] }

def step (s : St) : Act → Option St
  | .send c e => some { s with wire := upd s.wire c (s.wire c ++ [e]), sent := s.sent ++ [(c, e)] }
  | .loop c =>
      match s.loop c with
      | .recv =>
          match s.wire c with
          | [] => none                                   -- blocked in `Receive`
          | e :: rest => some { s with wire := upd s.wire c rest, loop := upd s.loop c (.disp e),
                                        got := s.got ++ [(c, e)] }
      | .disp (.svc p m) =>                              -- `go func() { p.Process(packet) }()`
          some { s with running := s.running ++ [(p, m)], loop := upd s.loop c .recv }
      | .disp (.proto i m) =>
          if s.mux then none                             -- blocked on `transmitMux`
          else if i ∈ s.live then
            some { handOver s c i m with loop := upd s.loop c .recv }
          else some { s with mux := true, loop := upd s.loop c (.ctor i m) }
      | .ctor _ _ => none                                -- inside user code
  | .ctorRet c =>
      match s.loop c with
      | .ctor i m =>
          let s1 := handOver s c i m
          some { s1 with mux := false, live := s.live ++ [i], loop := upd s.loop c .recv }
      | _ => none
  | .reader i => (C05.step (s.inst i) .reader).map fun t => { s with inst := upd s.inst i t }
  | .close i => (C05.step (s.inst i) .close).map fun t => { s with inst := upd s.inst i t }
  | .svcRet k => if k < s.running.length then some { s with running := s.running.eraseIdx k } else none

/-- a schedule: disabled actions are skipped (a blocked thread simply does not move) -/
def run (s : St) : List Act → St
  | [] => s
  | a :: as => match step s a with
      | some s' => run s' as
      | none => run s as

/-- whether connection `c`'s goroutine can take a step — a function of the wire, of where the
goroutine is and of `transmitMux` only: no instance's queue, wake-up token or reader occurs in it -/
def loopReady (s : St) (c : Nat) : Bool :=
  match s.loop c with
  | .recv => !(s.wire c).isEmpty
  | .disp (.svc _ _) => true
  | .disp (.proto _ _) => !s.mux
  | .ctor _ _ => false

end C05.Conn
