/-! Shared helpers for the line-protocol drivers (core-only). -/
namespace Util

def hexDigit (c : Char) : Option Nat :=
  if '0' ≤ c ∧ c ≤ '9' then some (c.toNat - '0'.toNat)
  else if 'a' ≤ c ∧ c ≤ 'f' then some (c.toNat - 'a'.toNat + 10)
  else if 'A' ≤ c ∧ c ≤ 'F' then some (c.toNat - 'A'.toNat + 10)
  else none

/-- decode a hex string into bytes (`-` stands for the empty string) -/
def unhex (s : String) : Option (List Nat) :=
  if s = "-" then some [] else
  let rec go : List Char → Option (List Nat)
    | [] => some []
    | [_] => none
    | a :: b :: rest => do
        let x ← hexDigit a
        let y ← hexDigit b
        let r ← go rest
        pure ((x * 16 + y) :: r)
  go s.toList

def hexChar (n : Nat) : Char :=
  if n < 10 then Char.ofNat ('0'.toNat + n) else Char.ofNat ('a'.toNat + n - 10)

def hex (bs : List Nat) : String :=
  if bs.isEmpty then "-" else
  String.ofList (bs.flatMap fun b => [hexChar (b / 16 % 16), hexChar (b % 16)])

def natList (s : String) : Option (List Nat) :=
  if s = "-" then some [] else (s.splitOn ",").mapM String.toNat?

def showNatList (l : List Nat) : String :=
  if l.isEmpty then "-" else ",".intercalate (l.map toString)

end Util
