import OnetVerif.Model.Util
import OnetVerif.Model.C03Sha1
import OnetVerif.Model.C03Wire
import OnetVerif.Model.C03Fields
import OnetVerif.Generated
/-! Model for property C03 — wire integrity (core-only: no Mathlib import, so the driver links).

* framing: `network/tcp.go` `sendRaw` (208-235) and `receiveRawProd` (143-185): a 4-byte big-endian
  length, then the body; the receiver reads through `conn.Read`, which hands out a non-empty prefix
  of what is in flight — modelled as a list of *segments* (`Segs`); "all segmentations and
  coalescings of the TCP stream" is "all `segs` whose concatenation is the stream".
* envelope: `network/encoding.go` `Marshal`/`Unmarshal` (133-180): 16-byte type id, then the
  protobuf body.  The protobuf codec and the type registry are a parameter (`Codec`).
* receive loop: `network/router.go` `handleConn` (415-484): which errors of `Conn.Receive` end the
  connection and which are skipped.
* in-memory transport: `network/local.go` (143-153 `send`, 258-311 `start`/`Send`/`Receive`): two
  chained bounded FIFOs of marshalled buffers.
-/
namespace C03

/-! ### framing -/

/-- `binary.Write(conn, BigEndian, Size(len(b)))` (tcp.go:214-217): `Size` is `uint32`, so the
conversion wraps. -/
def be32 (n : Nat) : List Nat := [n / 2^24 % 256, n / 2^16 % 256, n / 2^8 % 256, n % 256]

/-- `binary.Read(conn, BigEndian, &total)` on the four header bytes -/
def unbe32 : List Nat → Nat
  | [a, b, c, d] => a * 2^24 + b * 2^16 + c * 2^8 + d
  | _ => 0

/-- what `sendRaw` puts on the wire for one buffer -/
def encFrame (b : List Nat) : List Nat := be32 b.length ++ b

/-- bytes in flight towards the receiver, as the segments the transport will hand out -/
abbrev Segs := List (List Nat)

/-- one `conn.Read(buf)` with `len(buf) = n ≥ 1`: blocks until at least one byte is there, returns
at most `n` bytes of the first segment; `none` = `io.EOF` (peer closed, nothing left). -/
def read : Segs → Nat → Option (List Nat × Segs)
  | [], _ => none
  | s :: rest, n =>
    if s.isEmpty then read rest n
    else if s.length ≤ n then some (s, rest)
    else some (s.take n, s.drop n :: rest)

/-- the read loops of `io.ReadFull` (header, through `binary.Read`) and of `receiveRawProd`
(`for read < total { n, err := c.conn.Read(b); …; b = b[n:] }`, tcp.go:162-179): keep reading into
the rest of the buffer until `n` bytes are there.  `none` = EOF before that. The fuel is the number
of bytes wanted (every `Read` delivers at least one). -/
def readExact : Nat → Segs → Nat → List Nat → Option (List Nat) × Segs
  | _, c, 0, acc => (some acc, c)
  | 0, c, _ + 1, _ => (none, c)
  | fuel + 1, c, n + 1, acc =>
    match read c (n + 1) with
    | none => (none, [])
    | some (bs, c') => readExact fuel c' (n + 1 - bs.length) (acc ++ bs)

/-- the error sentinels of the network package (struct.go:28-44) an error may wrap with `%w` -/
inductive Sentinel where
  | timeout | closed | eof | unknown | canceled
  deriving DecidableEq, Repr

/-- what `Conn.Receive` can answer instead of a message -/
inductive RecvErr where
  /-- `io.EOF`/`io.ErrUnexpectedEOF` while reading header or body → `handleError` → `ErrEOF` -/
  | eof
  /-- header announces more than `MaxPacketSize` (tcp.go:154-157); wraps `ErrUnknown` since the fix -/
  | tooBig
  /-- `Unmarshal`: fewer than 16 bytes (`buffer read: …`, `%v`) -/
  | short
  /-- `Unmarshal`: type id not in the registry (`type … not registered`) -/
  | unknownType
  /-- `Unmarshal`: protobuf refused the body (`decoding: …`, `%v`) -/
  | decode
  /-- the connection was closed locally (`use of closed …`, closed local queue) → `ErrClosed` -/
  | closed
  /-- read deadline passed → `ErrTimeout` -/
  | timeout
  /-- any other `net.Error` / unrecognised error → `ErrUnknown` -/
  | unknownNet
  /-- `… canceled` → `ErrCanceled` -/
  | canceled
  deriving DecidableEq, Repr

/-- which sentinel the error value wraps (`%w` chains in tcp.go / local.go / encoding.go) -/
def sentinelOf : RecvErr → Option Sentinel
  | .eof => some .eof
  | .tooBig => some .unknown          -- the C03 fix: was `none` (plain `xerrors.Errorf` without `%w`)
  | .short | .unknownType | .decode => none
  | .closed => some .closed
  | .timeout => some .timeout
  | .unknownNet => some .unknown
  | .canceled => some .canceled

/-- `handleConn` (router.go:450-472): timeout, closed, EOF and unknown end the connection (error
handlers are fired, the deferred `c.Close()` runs); everything else is "temporary, continue". -/
def fatal : Option Sentinel → Bool
  | some .timeout | some .closed | some .eof | some .unknown => true
  | some .canceled | none => false

/-- `receiveRawProd` (tcp.go:143-185): header, size test against the limit, body.  Returns what is
left in flight as well, because a non-fatal error lets the loop go on from there. -/
def recvFrame (max : Nat) (c : Segs) : Except RecvErr (List Nat) × Segs :=
  match readExact 4 c 4 [] with
  | (none, c1) => (.error .eof, c1)
  | (some hdr, c1) =>
    let total := unbe32 hdr
    if total > max then (.error .tooBig, c1)
    else match readExact total c1 total [] with
      | (none, c2) => (.error .eof, c2)
      | (some b, c2) => (.ok b, c2)

/-- calling `receiveRaw` until it fails: the frames and the error that ended it -/
def recvFrames (max : Nat) : Nat → Segs → List (List Nat) × Option RecvErr
  | 0, _ => ([], none)
  | fuel + 1, c =>
    match recvFrame max c with
    | (.error e, _) => ([], some e)
    | (.ok b, c') => let r := recvFrames max fuel c'; (b :: r.1, r.2)

/-- bytes still in flight -/
def inflight (c : Segs) : Nat := c.flatten.length

/-! ### envelope -/

/-- the protobuf codec and the type registry, as far as `Marshal`/`Unmarshal` use them -/
structure Codec (V : Type) where
  /-- `computeMessageType(msg)`: the 16-byte type id of a value's Go type -/
  tyOf : V → List Nat
  /-- the type is registered on the sending side and `protobuf.Encode` accepts the value -/
  sendable : V → Bool
  /-- `protobuf.Encode` -/
  enc : V → List Nat
  /-- `registry.get` on the receiving side -/
  registered : List Nat → Bool
  /-- `protobuf.DecodeWithConstructors` into a fresh value of the registered type -/
  dec : List Nat → List Nat → Option V

/-- the assumed behaviour of the codec (DESIGN §7: trusted, exercised by the correspondence run) -/
structure Codec.Sound {V : Type} (cd : Codec V) : Prop where
  ty_len : ∀ v, cd.sendable v = true → (cd.tyOf v).length = 16
  ty_reg : ∀ v, cd.sendable v = true → cd.registered (cd.tyOf v) = true
  roundtrip : ∀ v, cd.sendable v = true → cd.dec (cd.tyOf v) (cd.enc v) = some v

/-- `Marshal` (encoding.go:133-157): `none` = error (type not registered / encoding failed) -/
def marshal {V : Type} (cd : Codec V) (v : V) : Option (List Nat) :=
  if cd.sendable v then some (cd.tyOf v ++ cd.enc v) else none

/-- `Unmarshal` (encoding.go:164-180) -/
def unmarshal {V : Type} (cd : Codec V) (buf : List Nat) : Except RecvErr V :=
  if buf.length < 16 then .error .short
  else if cd.registered (buf.take 16) then
    match cd.dec (buf.take 16) (buf.drop 16) with
    | some v => .ok v
    | none => .error .decode
  else .error .unknownType

/-- `TCPConn.Receive` (tcp.go:117-130) -/
def receive {V : Type} (cd : Codec V) (max : Nat) (c : Segs) : Except RecvErr V × Segs :=
  match recvFrame max c with
  | (.error e, c') => (.error e, c')
  | (.ok b, c') => (unmarshal cd b, c')

/-! ### receive loop -/

/-- what one turn of `handleConn` does -/
inductive Event (V : Type) where
  /-- `r.Dispatch(packet)` -/
  | deliver (v : V)
  /-- "Temporary error, continue" -/
  | refused (e : RecvErr)
  /-- error handlers fired, `return`; the deferred `c.Close()` closes the connection -/
  | closed (e : RecvErr)
  deriving DecidableEq, Repr

/-- how `handleConn` reacts to one result of `Receive` -/
def react {V : Type} : Except RecvErr V → Event V
  | .ok v => .deliver v
  | .error e => if fatal (sentinelOf e) then .closed e else .refused e

def Event.isClosed {V : Type} : Event V → Bool
  | .closed _ => true
  | _ => false

/-- `handleConn` (router.go:430-483) on a TCP connection; fuel = an upper bound on the turns. -/
def recvLoop {V : Type} (cd : Codec V) (max : Nat) : Nat → Segs → List (Event V)
  | 0, _ => []
  | fuel + 1, c =>
    let r := receive cd max c
    let ev := react r.1
    if ev.isClosed then [ev] else ev :: recvLoop cd max fuel r.2

/-- the loop with enough fuel for whatever is in flight (every turn that goes on has consumed a
4-byte header) -/
def recvAll {V : Type} (cd : Codec V) (max : Nat) (c : Segs) : List (Event V) :=
  recvLoop cd max (inflight c + 1) c

/-- the peer stalls for longer than the read deadline instead of closing: the `Read` that would
have seen EOF sees the deadline pass (`handleError` → `ErrTimeout`, tcp.go:288-290) — at the same
position of the stream, whether that is between two frames or inside one. Nothing the peer writes
after the stall belongs to the events: the time-out is fatal (router.go:451-455). -/
def stalled {V : Type} (l : List (Event V)) : List (Event V) :=
  l.map fun
    | .closed .eof => .closed .timeout
    | e => e

/-- the connection is reset instead of being closed in good order: the `Read` that would have seen
EOF gets a `net.Error` that is no time-out (`handleError` → `ErrUnknown`, tcp.go:282-299), at the
same position of the stream; fatal (router.go:493-498). -/
def wasReset {V : Type} (l : List (Event V)) : List (Event V) :=
  l.map fun
    | .closed .eof => .closed .unknownNet
    | e => e

/-- what a sender's `c.Send` calls put on the wire, one after the other (tcp.go:189-235) -/
def wire (bufs : List (List Nat)) : List Nat := (bufs.map encFrame).flatten

/-- what the loop does with one received buffer -/
def classify {V : Type} (cd : Codec V) (b : List Nat) : Event V := react (unmarshal cd b)

/-! ### in-memory transport -/

/-- `LocalConn.Receive` + `handleConn` on the in-memory transport (local.go:294-311): the queue
hands over whole buffers; a closed queue is `ErrClosed`. No size limit. -/
def localLoop {V : Type} (cd : Codec V) (q : List (List Nat)) : List (Event V) :=
  q.map (classify cd) ++ [.closed .closed]

/-- the two chained channels of one `LocalConn` (`incomingQueue` → goroutine `start` →
`outgoingQueue`, local.go:225-275), capacity `cap` each, and what `Receive` already took out -/
structure LQ where
  inc : List (List Nat) := []
  out : List (List Nat) := []
  got : List (List Nat) := []
  deriving DecidableEq, Repr

inductive LAct where
  /-- `manager.send`: `q.incomingQueue <- msg` -/
  | send (b : List Nat)
  /-- `start`: `buff := <-incomingQueue; outgoingQueue <- buff` -/
  | move
  /-- `Receive`: `<-outgoingQueue` -/
  | recv
  deriving DecidableEq, Repr

/-- one step; `none` = the thread is blocked (full / empty channel) -/
def lstep (cap : Nat) (s : LQ) : LAct → Option LQ
  | .send b => if s.inc.length < cap then some { s with inc := s.inc ++ [b] } else none
  | .move =>
    match s.inc with
    | [] => none
    | b :: rest => if s.out.length < cap then some { s with inc := rest, out := s.out ++ [b] } else none
  | .recv =>
    match s.out with
    | [] => none
    | b :: rest => some { s with out := rest, got := s.got ++ [b] }

/-- a schedule; blocked steps are skipped. Returns the state and the buffers whose `send` went through -/
def lrun (cap : Nat) : LQ → List LAct → LQ × List (List Nat)
  | s, [] => (s, [])
  | s, a :: l =>
    match lstep cap s a with
    | none => lrun cap s l
    | some s' =>
      let r := lrun cap s' l
      (r.1, (match a with | .send b => [b] | _ => []) ++ r.2)

/-! ### the type registry and the envelope

`RegisterMessage` / `computeMessageType` / `MessageType` / `registry.get|put` (encoding.go:85-127,
201-229): the 16-byte id of a message type is the version-5 UUID of
`NamespaceBodyType + reflect.Type.String()`; the registry maps ids to Go types, a later `put` of the
same id replaces the earlier entry.  `reflect.Type.String()` is *not* unique among types (package
name, not path; types declared inside functions), so a Go type is modelled by its name **and** an
identity. -/

structure GoType where
  /-- `reflect.Type.String()`, as bytes -/
  name : List Nat
  /-- identity of the `reflect.Type` -/
  uid : Nat
  deriving DecidableEq, Repr

/-- `NamespaceBodyType` = `"https://dedis.epfl.ch/" + "/protocolType/"` (encoding.go:75-78) -/
def namespaceBodyType : List Nat := [104, 116, 116, 112, 115, 58, 47, 47, 100, 101, 100, 105, 115, 46, 101, 112, 102, 108, 46, 99, 104, 47, 47, 112, 114, 111, 116, 111, 99, 111, 108, 84, 121, 112, 101, 47]

/-- `computeMessageType` (encoding.go:108-116) -/
def typeIdOf (t : GoType) : List Nat :=
  Sha1.uuid5 Sha1.nameSpaceURL (namespaceBodyType ++ t.name)

/-- `typeRegistry.types`, newest entry first -/
abbrev Registry := List (List Nat × GoType)

/-- `registry.get` (encoding.go:217-222) -/
def Registry.get (r : Registry) (id : List Nat) : Option GoType := (r.find? (fun e => e.1 == id)).map (·.2)

/-- `registry.put` (encoding.go:225-229): `tr.types[mid] = typ` -/
def Registry.put (r : Registry) (id : List Nat) (t : GoType) : Registry := (id, t) :: r

/-- `RegisterMessage` (encoding.go:85-94) -/
def registerMessage (r : Registry) (t : GoType) : Registry × List Nat :=
  (r.put (typeIdOf t) t, typeIdOf t)

/-- a whole history of registrations -/
def registerAll (r : Registry) (ts : List GoType) : Registry := ts.foldl (fun r t => (registerMessage r t).1) r

/-- `ErrorType` = `uuid.Nil` (encoding.go:50) -/
def errorType : List Nat := List.replicate 16 0

/-- `MessageType` (encoding.go:120-127): the id if *some* type is registered under it -/
def messageType (r : Registry) (t : GoType) : List Nat :=
  if (r.get (typeIdOf t)).isSome then typeIdOf t else errorType

/-- the protobuf codec, typed: what `protobuf.Encode` / `DecodeWithConstructors` do for values of a
Go type (the registry is not its business) -/
structure TCodec (V : Type) where
  typeOf : V → GoType
  /-- `protobuf.Encode` accepts the value -/
  encodable : V → Bool
  enc : V → List Nat
  /-- decode into `reflect.New(typ)` -/
  dec : GoType → List Nat → Option V

structure TCodec.Sound {V : Type} (tc : TCodec V) : Prop where
  roundtrip : ∀ v, tc.encodable v = true → tc.dec (tc.typeOf v) (tc.enc v) = some v

/-- `Marshal` / `Unmarshal` over a registry: the untyped `Codec` the framing theorems talk about -/
def codecOf {V : Type} (r : Registry) (tc : TCodec V) : Codec V where
  tyOf v := typeIdOf (tc.typeOf v)
  sendable v := (r.get (typeIdOf (tc.typeOf v))).isSome && tc.encodable v
  enc := tc.enc
  registered id := (r.get id).isSome
  dec id b := match r.get id with
    | some t => tc.dec t b
    | none => none

/-- what the receive loop hands to the dispatcher (struct.go `Envelope`; tcp.go:124-128,
local.go:306-310, router.go:504) -/
structure Envelope (V : Type) where
  /-- `ServerIdentity`: the peer of the connection (`packet.ServerIdentity = remote`) -/
  sender : Nat
  msgType : List Nat
  msg : V
  /-- `Size(len(buff))` -/
  size : Nat
  deriving DecidableEq, Repr

/-- one turn of `handleConn` with the envelope in view -/
inductive EnvEvent (V : Type) where
  /-- `Dispatch` found the processor registered for `MsgType` (dispatch.go:84-97) -/
  | processed (e : Envelope V)
  /-- "No Processor attached to this message type": logged, the message is dropped -/
  | noProcessor (e : Envelope V)
  | refused (e : RecvErr)
  | closed (e : RecvErr)
  deriving DecidableEq, Repr

def EnvEvent.erase {V : Type} : EnvEvent V → Event V
  | .processed e => .deliver e.msg
  | .noProcessor e => .deliver e.msg
  | .refused e => .refused e
  | .closed e => .closed e

/-- what the loop does with one received buffer, envelope in view; `procs` = the type ids a
processor is registered for -/
def classifyEnv {V : Type} (cd : Codec V) (remote : Nat) (procs : List (List Nat)) (b : List Nat) : EnvEvent V :=
  match unmarshal cd b with
  | .ok v =>
    let env : Envelope V := { sender := remote, msgType := b.take 16, msg := v, size := b.length }
    if procs.contains env.msgType then .processed env else .noProcessor env
  | .error e => if fatal (sentinelOf e) then .closed e else .refused e

def EnvEvent.isClosed {V : Type} : EnvEvent V → Bool
  | .closed _ => true
  | _ => false

/-- `handleConn` with the envelope in view -/
def recvEnvLoop {V : Type} (cd : Codec V) (max remote : Nat) (procs : List (List Nat)) :
    Nat → Segs → List (EnvEvent V)
  | 0, _ => []
  | fuel + 1, c =>
    match recvFrame max c with
    | (.error e, _) => [if fatal (sentinelOf e) then .closed e else .refused e]
    | (.ok b, c') =>
      let ev := classifyEnv cd remote procs b
      if ev.isClosed then [ev] else ev :: recvEnvLoop cd max remote procs fuel c'

/-- `Router.Send` to the router's own identity (router.go:316-337): no connection, no marshalling
on the way — the envelope is built from the value and dispatched at once; the value is marshalled
afterwards, only to count its bytes.  Returns the envelopes dispatched and whether `Send` reported
success. -/
def selfSend {V : Type} (r : Registry) (tc : TCodec V) (self : Nat) (procs : List (List Nat)) :
    List V → List (Envelope V) × Bool
  | [] => ([], true)
  | v :: l =>
    let env : Envelope V := { sender := self, msgType := messageType r (tc.typeOf v), msg := v, size := 0 }
    if procs.contains env.msgType then
      if (codecOf r tc).sendable v then
        let rest := selfSend r tc self procs l
        (env :: rest.1, rest.2)
      else ([env], false)          -- dispatched, then "marshaling: …"
    else ([], false)               -- "Error dispatching: …"

/-! ### the sending side

`TCPConn.Send` (tcp.go:192-205) and `sendRaw` (tcp.go:210-243): the length prefix through one
`binary.Write` (one `conn.Write` of four bytes, whose byte count is ignored), then
`for sent < packetSize { n, err := c.conn.Write(b[sent:]); …; sent += Size(n) }`.  The transport is
an *oracle*: per `Write` call it says how many bytes it takes and whether the call fails.  Every
accepted piece is a segment on the wire; the receiving side may re-cut them at will (`Segs`). -/

/-- what one `conn.Write(p)` does with the bytes it is given -/
inductive WAct where
  /-- no error. On the body: the transport takes `max k 1` bytes (at most `len p`) and returns that
  count — the partial write the loop of `sendRaw` exists for. On the header (whose count nobody
  looks at) the four bytes leave as two pieces cut at `k`. -/
  | acc (k : Nat)
  /-- the transport takes (at most) `k` bytes, then the call fails (write deadline, reset, closed) -/
  | fail (k : Nat)
  deriving DecidableEq, Repr

/-- `binary.Write(c.conn, globalOrder, packetSize)` (tcp.go:217-222) -/
def writeHeader (hdr : List Nat) : List WAct → Segs × Bool × List WAct
  | [] => ([hdr], true, [])
  | .acc k :: o => ([hdr.take k, hdr.drop k], true, o)
  | .fail k :: o => ([hdr.take k], false, o)

/-- the body loop (tcp.go:229-240); the fuel is the number of bytes left (every successful `Write`
moves at least one). An exhausted oracle is a transport that takes whatever it is given. -/
def writeBody : Nat → List Nat → List WAct → Segs × Bool × List WAct
  | 0, rest, o => ([], rest.isEmpty, o)
  | fuel + 1, rest, o =>
    if rest.isEmpty then ([], true, o) else
    match o with
    | [] => ([rest], true, [])
    | .acc k :: o' =>
      let r := writeBody fuel (rest.drop (max k 1)) o'
      (rest.take (max k 1) :: r.1, r.2.1, r.2.2)
    | .fail k :: o' => ([rest.take k], false, o')

/-- `sendRaw`: what went onto the wire, whether it reported success, what is left of the oracle.
(`Size(len(b))` wraps at 2^32 — `be32` does — and so would the loop counter; buffers of 4 GiB are
outside the model: the theorems ask for `b.length < 2^32`.) -/
def sendRaw (b : List Nat) (o : List WAct) : Segs × Bool × List WAct :=
  let h := writeHeader (be32 b.length) o
  if h.2.1 then
    let r := writeBody b.length b h.2.2
    (h.1 ++ r.1, r.2.1, r.2.2)
  else h

/-- the sending end of a connection: the segments written so far, the transport oracle, and
whether the connection was closed -/
structure SConn where
  closed : Bool := false
  out : Segs := []
  oracle : List WAct := []
  deriving DecidableEq, Repr

/-- `TCPConn.Send` once `Marshal` has produced `b`.  A failed write **closes the connection** (the
round-4 fix, tcp.go:218-221 and 232-235: the frame is only partly on the wire, the stream cannot be
used any further); a closed connection refuses every later send without writing a byte. -/
def SConn.send (c : SConn) (b : List Nat) : SConn × Bool :=
  if c.closed then (c, false) else
    let r := sendRaw b c.oracle
    ({ closed := !r.2.1, out := c.out ++ r.1, oracle := r.2.2 }, r.2.1)

/-- the behaviour before the fix: the connection stays usable after a failed write -/
def SConn.sendNoClose (c : SConn) (b : List Nat) : SConn × Bool :=
  if c.closed then (c, false) else
    let r := sendRaw b c.oracle
    ({ c with out := c.out ++ r.1, oracle := r.2.2 }, r.2.1)

/-- a caller that goes on sending whatever the earlier results were (`Router.Send` takes the first
registered connection of the peer, router.go:340-353, 519-527): the connection afterwards and the
result of every call -/
def SConn.sendAll (c : SConn) : List (List Nat) → SConn × List Bool
  | [] => (c, [])
  | b :: l =>
    let r := c.send b
    let r' := r.1.sendAll l
    (r'.1, r.2 :: r'.2)

def SConn.sendAllNoClose (c : SConn) : List (List Nat) → SConn × List Bool
  | [] => (c, [])
  | b :: l =>
    let r := c.sendNoClose b
    let r' := r.1.sendAllNoClose l
    (r'.1, r.2 :: r'.2)

/-! ### concurrent senders on one connection (`sendMutex`, tcp.go:193-194)

Every `Send` is `sendMutex.Lock(); …writes…; sendMutex.Unlock()`.  A transition system: thread `i`
has a list of buffers still to send and, while it is inside `Send`, the bytes of the current frame
it has not written yet.  One step of thread `i`: take the mutex (blocked while somebody holds it),
write the next piece (of adversarially chosen length: header and body may be cut anywhere), or
release the mutex when the frame is out. -/

structure Thr where
  todo : List (List Nat) := []
  /-- `some rest`: inside `Send`, holding `sendMutex`; `rest` = bytes of the frame still to write -/
  cur : Option (List Nat) := none
  deriving DecidableEq, Repr

structure CS where
  thr : Nat → Thr
  locked : Option Nat := none
  wire : List Nat := []
  /-- ghost: (thread, buffer) in the order the mutex was taken -/
  log : List (Nat × List Nat) := []

def CS.setThr (s : CS) (i : Nat) (t : Thr) : Nat → Thr := fun j => if j = i then t else s.thr j

/-- one step of thread `i`; `k` = how many bytes its next `Write` moves. `mutex = false` is the
system without `sendMutex` (for the counter-example). `none` = blocked or finished. -/
def cstep (mutex : Bool) (s : CS) (i k : Nat) : Option CS :=
  match (s.thr i).cur with
  | none =>
    match (s.thr i).todo with
    | [] => none
    | b :: rest =>
      if mutex && s.locked.isSome then none
      else some { s with thr := s.setThr i { todo := rest, cur := some (encFrame b) },
                         locked := some i, log := s.log ++ [(i, b)] }
  | some r =>
    if r.isEmpty then
      some { s with thr := s.setThr i { (s.thr i) with cur := none }, locked := none }
    else
      some { s with thr := s.setThr i { (s.thr i) with cur := some (r.drop (max k 1)) },
                    wire := s.wire ++ r.take (max k 1) }

/-- a schedule: (thread, write size) pairs; blocked / finished steps are skipped -/
def crun (mutex : Bool) : CS → List (Nat × Nat) → CS
  | s, [] => s
  | s, (i, k) :: l =>
    match cstep mutex s i k with
    | none => crun mutex s l
    | some s' => crun mutex s' l

/-- the start: every thread has its buffers, nobody is inside `Send` -/
def cinit (q : Nat → List (List Nat)) : CS := { thr := fun i => { todo := q i } }

/-! ### interface-typed fields: kyber points and scalars

A field of type `kyber.Point` / `kyber.Scalar` travels as the value's `MarshalBinary`, preceded by
the 8-byte `MarshalID` of its dynamic type **iff** a generator is registered for that id
(protobuf encode.go:259-287).  The receiver instantiates the field with the generator of the tag
when the first eight bytes are a registered id, and otherwise with the constructor table —
`DefaultConstructors(suite)` of the *connection's* suite (encoding.go:175, 190-199; protobuf
decode.go:339-357).  The generators are the ones `encoding.go`'s `init()` registers (20-31). -/

/-- the dynamic Go types behind `kyber.Point` / `kyber.Scalar` that the registered suites produce -/
inductive Grp where
  | edP | edS | g1P | g2P | gtP | bnS | p256P | p256S | resP | resS
  deriving DecidableEq, Repr

inductive Kind where
  | point | scalar
  deriving DecidableEq, Repr

/-- the suites `suites.Find` knows (kyber suites/all.go) -/
inductive SuiteId where
  | ed25519 | p256 | residue512 | bnG1 | bnG2 | bnGT | bnAdapter
  deriving DecidableEq, Repr

/-- `suite.Point()` / `suite.Scalar()` -/
def SuiteId.make : SuiteId → Kind → Grp
  | .ed25519, .point => .edP | .ed25519, .scalar => .edS
  | .p256, .point => .p256P | .p256, .scalar => .p256S
  | .residue512, .point => .resP | .residue512, .scalar => .resS
  | .bnG1, .point => .g1P | .bnG2, .point => .g2P | .bnGT, .point => .gtP | .bnAdapter, .point => .g2P
  | .bnG1, .scalar => .bnS | .bnG2, .scalar => .bnS | .bnGT, .scalar => .bnS | .bnAdapter, .scalar => .bnS

/-- `MarshalID()` of the dynamic type (kyber: edwards25519/point.go:27, scalar.go:26,
bn256/point.go:15-17, mod/int.go:19); the nist points have none. All `mod.Int` scalars — bn256's,
P256's, Residue512's — share one id: it does not name the modulus. -/
def Grp.marshalID : Grp → Option (List Nat)
  | .edP => some [101, 100, 46, 112, 111, 105, 110, 116] /- "ed.point" -/ | .edS => some [101, 100, 46, 115, 99, 97, 108, 97] /- "ed.scala" -/
  | .g1P => some [98, 110, 50, 53, 54, 46, 103, 49] /- "bn256.g1" -/ | .g2P => some [98, 110, 50, 53, 54, 46, 103, 50] /- "bn256.g2" -/ | .gtP => some [98, 110, 50, 53, 54, 46, 103, 116] /- "bn256.gt" -/
  | .bnS | .p256S | .resS => some [109, 111, 100, 46, 105, 110, 116, 32] /- "mod.int " -/
  | .p256P | .resP => none

/-- protobuf's generator registry (interface.go:22-48): id ↦ generator, a later registration of the
same id replaces the earlier one -/
abbrev Gens := List (List Nat × Grp)

def Gens.get (gs : Gens) (id : List Nat) : Option Grp := (gs.find? (fun e => e.1 == id)).map (·.2)

def Gens.register (gs : Gens) (g : Grp) : Gens :=
  match g.marshalID with
  | some id => (id, g) :: gs
  | none => gs

/-- `encoding.go` `init()` (20-31), in source order -/
def initGenerators : List Grp := [.g1P, .bnS, .g2P, .bnS, .gtP, .bnS, .edP, .edS]

def onetGens : Gens := initGenerators.foldl Gens.register []

/-- `DefaultConstructors(suite)` (encoding.go:190-199): a function of its argument and of nothing
else; no suite, no constructors -/
def defaultConstructors (suite : Option SuiteId) (k : Kind) : Option Grp := suite.map (·.make k)

/-- the field on the wire (encode.go:259-287): the tag is written only if a generator exists -/
def encIface (gs : Gens) (mid : Option (List Nat)) (bytes : List Nat) : List Nat :=
  match mid with
  | some id => if (gs.get id).isSome then id ++ bytes else bytes
  | none => bytes

/-- which type instantiates the field and which bytes its `UnmarshalBinary` gets
(decode.go:339-357); `none` = "no constructor for interface" -/
def decIface (gs : Gens) (ctor : Option Grp) (vb : List Nat) : Option (Grp × List Nat) :=
  if 8 < vb.length then
    match gs.get (vb.take 8) with
    | some g => some (g, vb.drop 8)
    | none => ctor.map (·, vb)
  else ctor.map (·, vb)

/-- a point/scalar of `g`, `n ≥ 1` bytes long, sent in a message and decoded on a connection with
`suite`: does the field come back as a value of the same dynamic type from the same bytes? -/
def ifaceSame (gs : Gens) (suite : Option SuiteId) (k : Kind) (g : Grp) (bytes : List Nat) : Bool :=
  decIface gs (defaultConstructors suite k) (encIface gs g.marshalID bytes) == some (g, bytes)

/-- `localLoop` with the envelope in view -/
def localEnvLoop {V : Type} (cd : Codec V) (remote : Nat) (procs : List (List Nat)) (q : List (List Nat)) :
    List (EnvEvent V) :=
  q.map (classifyEnv cd remote procs) ++ [.closed .closed]

/-- `Close` of an in-memory connection (local.go:157-176, 258-272, 341-345): `start` closes both
queues; what it had already moved to `outgoingQueue` can still be received, what was still in
`incomingQueue` is gone; from then on `Receive` (once drained) and the peer's `Send` answer
`ErrClosed` (local.go:143-149, 295-298). -/
def lclose (s : LQ) : LQ := { s with inc := [] }

/-- `LocalConn.Send` on a connection that was closed: `manager.send` no longer finds the peer -/
def localSendClosed : RecvErr := .closed

/-! ### line-protocol driver -/
namespace Drv

/-- the driver's codec: a value *is* its marshalled buffer; the registry and the set of buffers
the protobuf decoder refuses are tables supplied by the harness (the codec is a parameter of the
model — the tables instantiate it with what the real codec did on this run). -/
def tableCodec (reg bad : List (List Nat)) (unenc : List (List Nat) := []) : Codec (List Nat) where
  tyOf v := v.take 16
  sendable v := decide (16 ≤ v.length) && reg.contains (v.take 16) && !unenc.contains (v.take 16)
  enc v := v.drop 16
  registered t := reg.contains t
  dec t b := if bad.contains (t ++ b) then none else some (t ++ b)

structure State where
  max : Nat := Generated.maxPacketSize
  reg : List (List Nat) := []
  bad : List (List Nat) := []
  /-- registered types whose values `protobuf.Encode` refuses (a `chan` field) -/
  unenc : List (List Nat) := []
  /-- the registry as built by `reg` operations (names and identities of the Go types) -/
  registry : Registry := []
  /-- the type ids a processor is registered for in the receiving router; `none` = all registered -/
  procs : Option (List (List Nat)) := none

/-- the typed codec of the driver over the registry built by `reg`: a value is its marshalled
buffer, its Go type the one registered under its first 16 bytes -/
def tableTCodec (registry : Registry) (bad unenc : List (List Nat)) : TCodec (List Nat) where
  typeOf v := (registry.get (v.take 16)).getD ⟨[], 0⟩
  encodable v := decide (16 ≤ v.length) && !unenc.contains (v.take 16)
  enc v := v.drop 16
  dec t b := if bad.contains (typeIdOf t ++ b) then none else some (typeIdOf t ++ b)

def showEnvelope (e : Envelope (List Nat)) : String :=
  "d:" ++ Util.hex e.msgType ++ ":" ++ Util.hex e.msg

def init : State := {}

def hexList (s : String) : Option (List (List Nat)) :=
  if s = "-" then some [] else (s.splitOn ",").mapM Util.unhex

/-- cut a stream into segments of the given sizes (zero sizes are dropped); what is left after the
last size is one more segment -/
def cut : List Nat → List Nat → Segs
  | bs, [] => if bs.isEmpty then [] else [bs]
  | bs, k :: ks => if bs.isEmpty then [] else
      if k = 0 then cut bs ks else bs.take k :: cut (bs.drop k) ks

def showErr : RecvErr → String
  | .eof => "eof" | .tooBig => "toobig" | .short => "short" | .unknownType => "unknown"
  | .decode => "decode" | .closed => "closed" | .timeout => "timeout" | .unknownNet => "neterr"
  | .canceled => "canceled"

def showEvent : Event (List Nat) → String
  | .deliver v => "d:" ++ Util.hex v
  | .refused e => "x:" ++ showErr e
  | .closed e => "end:" ++ showErr e

def showEvents (l : List (Event (List Nat))) : String :=
  if l.isEmpty then "-" else ",".intercalate (l.map showEvent)

def showEnvEvent : EnvEvent (List Nat) → String
  | .processed e => "d:" ++ Util.hex e.msg
  | .noProcessor e => "np:" ++ Util.hex e.msg
  | .refused e => "x:" ++ showErr e
  | .closed e => "end:" ++ showErr e

def showEnvEvents (l : List (EnvEvent (List Nat))) : String :=
  if l.isEmpty then "-" else ",".intercalate (l.map showEnvEvent)

def stalledEnv (l : List (EnvEvent (List Nat))) : List (EnvEvent (List Nat)) :=
  l.map fun
    | .closed .eof => .closed .timeout
    | e => e

/-- the connection is reset instead of closed in good order: the `Read` that would have seen EOF
gets a `net.Error` that is no time-out — `handleError` → `ErrUnknown` (tcp.go:282-299), fatal -/
def resetEnv (l : List (EnvEvent (List Nat))) : List (EnvEvent (List Nat)) :=
  l.map fun
    | .closed .eof => .closed .unknownNet
    | e => e

/-- for `send`, the harness sees *that* the receiving router dropped the connection, not why -/
def showLive (l : List (Event (List Nat))) : String :=
  if l.isEmpty then "-" else ",".intercalate (l.map fun
    | .closed _ => "end:closed"
    | e => showEvent e)

/-- the sending side of `Router.Send(e, msgs...)`: buffers are marshalled and written one after the
other; the first one `Marshal` refuses ends the call with an error (the reconnect-and-retry of
router.go:339-351 fails on the same message again) -/
def sendable (cd : Codec (List Nat)) : List (List Nat) → List (List Nat) × Bool
  | [] => ([], true)
  | b :: l => if cd.sendable b then let r := sendable cd l; (b :: r.1, r.2) else ([], false)

/-- `<sizes>`, `<sizes>~<sizes>` or `<sizes>!`: after the bytes of the first list the sender stalls
for longer than the read deadline (`~`, the second list cuts what it writes afterwards) or the
connection is reset (`!`) -/
inductive Cut where
  | plain | stall | reset
  deriving DecidableEq, Repr

def parseChunks (s : String) : Option (List Nat × Cut) :=
  match s.splitOn "~" with
  | [a] =>
    if a.endsWith "!" then (Util.natList (a.dropEnd 1).toString).map (·, .reset)
    else (Util.natList a).map (·, .plain)
  | [a, b] => match Util.natList a, Util.natList b with
    | some a, some _ => some (a, .stall)
    | _, _ => none
  | _ => none

/-- drop the final "peer closed" of a stream that merely has nothing more in flight yet -/
def live (l : List (Event (List Nat))) : List (Event (List Nat)) :=
  l.filter (fun e => e != .closed .eof)

/-- `a<k>` = the write is accepted (`WAct.acc k`), `f<k>` = it fails after `k` bytes -/
def parseWAct (t : String) : Option WAct :=
  match t.toList with
  | 'a' :: r => (String.ofList r).toNat?.map .acc
  | 'f' :: r => (String.ofList r).toNat?.map .fail
  | _ => none

def parseOracle (s : String) : Option (List WAct) :=
  if s = "-" then some [] else (s.splitOn ",").mapM parseWAct

def insertSorted (x : String) : List String → List String
  | [] => [x]
  | y :: l => if x < y then x :: y :: l else y :: insertSorted x l

def sortStrings (l : List String) : List String := l.foldr insertSorted []

def showFrames (l : List (List Nat)) : String :=
  if l.isEmpty then "-" else ",".intercalate (l.map Util.hex)

/-- every thread in turn, each with a write as large as it likes, often enough for all to finish
(any schedule gives the same set of frames — `c03_mutex_no_interleave`) -/
def roundRobin (threads rounds : Nat) : List (Nat × Nat) :=
  (List.range rounds).flatMap fun _ => (List.range threads).map fun i => (i, 1 <<< 30)

def parseSuite : String → Option (Option SuiteId)
  | "nil" => some none
  | "Ed25519" => some (some .ed25519) | "P256" => some (some .p256) | "Residue512" => some (some .residue512)
  | "bn256.G1" => some (some .bnG1) | "bn256.G2" => some (some .bnG2) | "bn256.GT" => some (some .bnGT)
  | "bn256.adapter" => some (some .bnAdapter)
  | _ => none

def parseKind : String → Option Kind
  | "point" => some .point | "scalar" => some .scalar | _ => none

/--
* `cfg <max|gen> <registered type ids> <undecodable buffers>` — limit (`gen` = the constant
  extracted from /repo), registry and decoder tables
* `raw <frames> <tail> <chunks>` — a sender `sendRaw`s the frames, then writes `tail` as it is and
  closes; the transport cuts the stream as `chunks`; the receiver calls `receiveRaw` until it fails
* `unm <buffer>` — `Unmarshal`
* `loop <frames> <tail> <chunks>` — the same stream into `handleConn`; `<chunks>` may be
  `<sizes>~<sizes>`: the sender stalls after the bytes of the first list (see `stalled`)
* `unenc <type ids>` — registered types whose values the protobuf encoder refuses
* `procs <type ids|all>` — the types the receiving router has a processor for
* `reg <type name> <identity>` — `RegisterMessage` of a Go type with that `reflect.Type.String()`: the id
* `mtype <type name> <identity>` — `MessageType`
* `rt <type name> <identity> <protobuf body>` — `Marshal` of such a value, then `Unmarshal`: the
  identity of the type it comes back as
* `self <buffers>` — `Router.Send` of these values to the router's own identity
* `sendnil <tcp|local>` — `Router.Send` of a valid message and a nil one
* `iface <unm|tcp> <connection suite|nil> <value suite> <point|scalar> <length> <seed>` — a message with
  one point/scalar of the value suite, marshalled and then unmarshalled with the connection's suite
  (directly, or sent and received over a pair of `TCPConn`s): `same` / `differs`
* `pb <schema> <buffer>` — layer 2: `protobuf.Decode` of the buffer into a struct of that schema
  (`Model/C03Wire.lean`), the decoded value and its re-encoding by `protobuf.Encode`
* `lloop <buffers> <n>` — the buffers are put as they are onto an in-memory connection into a
  router's receive loop; once they are consumed the sender closes the connection and calls `Send`
  `n` more times
* `wsend <buffers> <write oracle> <chunks>` — one sender `sendRaw`s the buffers one after the other
  whatever the earlier results were; the transport treats its `Write` calls as the oracle says
  (`a<k>` accepted, `f<k>` fails after `k` bytes); the receiver reads what arrived, cut as `chunks`:
  the result of every send, the frames received, how it ended
* `csend <buffers of thread 0>;<buffers of thread 1>;…` — the threads `Send` concurrently on one
  connection: the frames received (sorted) and how it ended
* `send <tcp|local>[/<proxy chunk pattern>] <buffers>` — `Router.Send` of these messages over a live connection and what
  the receiving router does with them
-/
def step (s : State) (toks : List String) : State × String :=
  let cd := tableCodec s.reg s.bad s.unenc
  let procs := s.procs.getD s.reg
  match toks with
  | ["cfg", m, reg, bad] =>
    let m? : Option Nat := if m = "gen" then some Generated.maxPacketSize else m.toNat?
    match m?, hexList reg, hexList bad with
    | some m, some reg, some bad =>
      -- the process-wide type registry outlives a reconfiguration
      ({ max := m, reg := reg, bad := bad, registry := s.registry }, "ok")
    | _, _, _ => (s, "bad-op")
  | ["unenc", ids] =>
    match hexList ids with
    | some ids => ({ s with unenc := ids }, "ok")
    | none => (s, "bad-op")
  | ["procs", ids] =>
    if ids = "all" then ({ s with procs := none }, "ok") else
    match hexList ids with
    | some ids => ({ s with procs := some ids }, "ok")
    | none => (s, "bad-op")
  | ["reg", name, uid] =>
    match Util.unhex name, uid.toNat? with
    | some name, some uid =>
      let r := registerMessage s.registry ⟨name, uid⟩
      ({ s with registry := r.1 }, Util.hex r.2)
    | _, _ => (s, "bad-op")
  | ["mtype", name, uid] =>
    match Util.unhex name, uid.toNat? with
    | some name, some uid =>
      let id := messageType s.registry ⟨name, uid⟩
      (s, if id = errorType then "unregistered" else Util.hex id)
    | _, _ => (s, "bad-op")
  | ["rt", name, uid, body] =>
    -- `Marshal` of a value of that Go type with that protobuf body, then `Unmarshal`
    match Util.unhex name, uid.toNat?, Util.unhex body with
    | some name, some uid, some body =>
      let id := messageType s.registry ⟨name, uid⟩
      if id = errorType then (s, "err:marshal") else
      match s.registry.get id with
      | none => (s, "err:unknown")
      | some t => (s, if s.bad.contains (id ++ body) then "err:decode" else "ok type=" ++ toString t.uid)
    | _, _, _ => (s, "bad-op")
  | ["self", bufs] =>
    match hexList bufs with
    | some bufs =>
      let ps := s.procs.getD (s.registry.map (·.1))
      let r := selfSend s.registry (tableTCodec s.registry s.bad s.unenc) 0 ps bufs
      (s, (if r.2 then "ok" else "err") ++ " " ++
        (if r.1.isEmpty then "-" else ",".intercalate (r.1.map showEnvelope)))
    | none => (s, "bad-op")
  | ["sendnil", tr] =>
    if tr = "tcp" || tr = "local" then (s, "err:nil -") else (s, "bad-op")
  | ["raw", fr, tl, ch] =>
    match hexList fr, Util.unhex tl, Util.natList ch with
    | some fr, some tl, some ch =>
      let c := cut (wire fr ++ tl) ch
      let r := recvFrames s.max (inflight c + 1) c
      (s, (if r.1.isEmpty then "-" else ",".intercalate (r.1.map Util.hex)) ++ " end:" ++
        (match r.2 with | some e => showErr e | none => "fuel"))
    | _, _, _ => (s, "bad-op")
  | ["unm", b] =>
    match Util.unhex b with
    | some b => (s, match unmarshal cd b with | .ok _ => "ok" | .error e => "err:" ++ showErr e)
    | none => (s, "bad-op")
  | ["loop", fr, tl, ch] =>
    match hexList fr, Util.unhex tl, parseChunks ch with
    | some fr, some tl, some (ch, .plain) =>
      let c := cut (wire fr ++ tl) ch
      (s, showEnvEvents (recvEnvLoop cd s.max 0 procs (inflight c + 1) c))
    | some fr, some tl, some (ch, mode) =>
      -- only the bytes written before the stall / the reset ever reach the receive loop
      let seen := (wire fr ++ tl).take (ch.foldl (· + ·) 0)
      let c := cut seen ch
      let evs := recvEnvLoop cd s.max 0 procs (inflight c + 1) c
      (s, showEnvEvents (if mode = .stall then stalledEnv evs else resetEnv evs))
    | _, _, _ => (s, "bad-op")
  | ["iface", _via, su, vs, kd, n, _seed] =>
    match parseSuite su, parseSuite vs, parseKind kd, n.toNat? with
    | some su, some (some vs), some kd, some n =>
      -- the bytes themselves do not matter to the dispatch (they are not a registered tag: an
      -- assumption the generator checks), only their number does
      (s, if ifaceSame onetGens su kd (vs.make kd) (List.replicate n 0) then "same" else "differs")
    | _, _, _, _ => (s, "bad-op")
  | ["pb", schema, buf] =>
    -- `protobuf.Decode` of the buffer into a fresh struct of that schema, the value it yields and
    -- what `protobuf.Encode` makes of that value
    match Wire.Text.parseSchema schema, Util.unhex buf with
    | some ts, some buf =>
      match Wire.decode ts buf with
      | none => (s, "err")
      | some vs => (s, "ok (" ++ Wire.Text.showVals vs ++ ") " ++ Wire.Text.hexOf (Wire.encMsg 1 ts vs))
    | _, _ => (s, "bad-op")
  | ["pbi", vs, kd, n, val, t] =>
    -- a message `struct { N int32; P kyber.Point (or S kyber.Scalar); T string }` whose interface field holds a
    -- value of `vs` with the marshalled bytes `val` (`nil`: the field is nil): the bytes `protobuf.Encode` writes.
    -- On the wire the field is a length-delimited byte string — `encIface`: the 8-byte tag of the dynamic
    -- type if a generator is registered for it, then the bytes — or nothing when it is nil
    match parseSuite vs, parseKind kd, n.toInt?, (if val = "nil" then some none else (Util.unhex val).map some), Util.unhex t with
    | some (some vs), some kd, some n, some val, some t =>
      if n < -2147483648 ∨ n > 2147483647 then (s, "bad-op") else
      let fld : Wire.Val := .opt (val.map fun b => .bytes (encIface onetGens (vs.make kd).marshalID b))
      (s, "enc " ++ Wire.Text.hexOf (Wire.encMsg 1 [.i32, .opt .bytes, .bytes] [.int n, fld, .bytes t]))
    | _, _, _, _, _ => (s, "bad-op")
  | ["fids", desc] =>
    -- `ProtoFields` of a struct type described by its fields (`p<tag>`, `e<tag>(…)`): the field numbers in
    -- field order (or the panic on a repeated number), and whether the decoder's cursor finds every field
    match Fields.Text.parse desc with
    | some fs => (s, Fields.Text.fidsOp fs)
    | none => (s, "bad-op")
  | ["lloop", fr, after] =>
    match hexList fr, after.toNat? with
    | some fr, some n =>
      (s, showEnvEvents (localEnvLoop cd 0 procs fr) ++ " after:" ++
        (if n = 0 then "-" else ",".intercalate (List.replicate n (showErr localSendClosed))))
    | _, _ => (s, "bad-op")
  | ["wsend", bufs, orc, ch] =>
    match hexList bufs, parseOracle orc, Util.natList ch with
    | some bufs, some o, some ch =>
      let r := ({ oracle := o } : SConn).sendAll bufs
      let c := cut r.1.out.flatten ch
      let fr := recvFrames s.max (inflight c + 1) c
      (s, String.join (r.2.map fun ok => if ok then "1" else "0") ++ " " ++ showFrames fr.1 ++ " end:" ++
        (match fr.2 with | some e => showErr e | none => "fuel"))
    | _, _, _ => (s, "bad-op")
  | ["csend", qs] =>
    match (qs.splitOn ";").mapM hexList with
    | some qs =>
      let total := (qs.map List.length).foldl (· + ·) 0
      let fin := crun true (cinit fun i => qs.getD i []) (roundRobin qs.length (3 * total + 3))
      let fr := recvFrames s.max (fin.wire.length + 1) [fin.wire]
      (s, (if fr.1.isEmpty then "-" else ",".intercalate (sortStrings (fr.1.map Util.hex))) ++ " end:" ++
        (match fr.2 with | some e => showErr e | none => "fuel"))
    | none => (s, "bad-op")
  | ["send", tr, bufs] =>
    match hexList bufs with
    | some bufs =>
      let (ok, all) := sendable cd bufs
      let res := if bufs.isEmpty then "err:empty" else if all then "ok"
        else if ((bufs.drop ok.length).head?.map fun b => s.reg.contains (b.take 16)) == some true then "err:encode"
        else "err:marshal"
      let kind := (tr.splitOn "/").headD ""
      if kind = "tcp" then (s, res ++ " " ++ showLive (live (recvAll cd s.max [wire ok])))
      else if kind = "local" then (s, res ++ " " ++ showLive ((localLoop cd ok).dropLast))
      else (s, "bad-op")
    | none => (s, "bad-op")
  | _ => (s, "bad-op")

end Drv

end C03
