import OnetVerif.Model.C19Core
/-! Model for property C19, second part — the monitor's network side (`simul/monitor/monitor.go:86-219`,
the client side `measure.go:72-131, 247-287`) and the read-out of the simulation driver
(`simul/build.go:146-175`).

A reporting connection carries one JSON record per measure (`json.Encoder.Encode`, `measure.go:261`);
`Monitor.Listen` accepts connections and starts one handler routine per connection
(`handleConnection`, 180-210).  A handler decodes the next record; a record whose lower-cased name is
`end` is dropped (the `break` at line 204 leaves the `switch`, not the loop); any other record is
offered on the **unbuffered** channel `measures` — the handler holds it until the `Listen` loop takes
it (`m.update`, 130-131); at end of input the handler offers the connection's name on `done`, `Listen`
removes the connection and, when none is left, closes the listener and returns (133-149).

The model is a transition system: one `Act` per rendez-vous or decode step; a schedule is a `List Act`;
an action that is not enabled yields `none`.  Undecodable bytes are outside the property (and outside
this model).  Core-only. -/
namespace C19

section net
variable {κ α : Type}

/-- one reporting connection: its client and its handler routine in the monitor -/
structure Conn (κ α : Type) where
  future : List (Measure κ α) := []   -- records the client is still going to write, in order
  input : List (Measure κ α) := []    -- records in the socket, written and not yet decoded
  held : Option (Measure κ α) := none -- decoded and offered on `measures`, not yet taken by the `Listen` loop
  accepted : Bool := false            -- `ln.Accept()` returned it: it is in `m.conns` and has a handler routine
  closed : Bool := false              -- the client has closed its side: after the last record the decoder sees EOF
  gone : Bool := false                -- the handler has reported on `done` and `Listen` has removed the connection

/-- the monitor while `Listen` runs -/
structure Net (κ α : Type) where
  mon : Monitor κ α
  conns : List (Conn κ α) := []
  finished : Bool := false            -- `Listen` has returned (listener closed, nothing is accepted any more)

inductive Act where
  | accept (i : Nat)    -- `ln.Accept()`, `m.conns[addr] = conn`, `go m.handleConnection(conn)`
  | write (i : Nat)     -- the client of connection `i` writes its next record (`encoder.Encode`)
  | hangup (i : Nat)    -- the client of connection `i`, having written everything, closes its side
  | decode (i : Nat)    -- handler `i`: `dec.Decode(measure)` returns a record
  | deliver (i : Nat)   -- rendez-vous on `measures` between handler `i` and the `Listen` loop: `m.update(measure)`
  | eof (i : Nat)       -- handler `i` sees EOF; rendez-vous on `done`: `delete(m.conns, peer)`, none left ⇒ finished
  deriving DecidableEq, Repr

/-- the records that count: not the end marker -/
def noEnd (isEnd : κ → Bool) (l : List (Measure κ α)) : List (Measure κ α) := l.filter fun m => !isEnd m.name

/-- what connection `c` still has to hand to the monitor, in order: the held record, the records in
the socket and the records its client is going to write — without the end markers -/
def Conn.remaining (isEnd : κ → Bool) (c : Conn κ α) : List (Measure κ α) :=
  c.held.toList ++ noEnd isEnd c.input ++ noEnd isEnd c.future

variable [Num α] [KeyOrd κ] [DecidableEq κ]

/-- one step of the system; `none`: the action is not enabled (a blocked read, a blocked channel
operation, a closed listener) -/
def Net.step (isEnd : κ → Bool) (n : Net κ α) (a : Act) : Option (Net κ α) :=
  match a with
  | .accept i =>
    match n.conns[i]? with
    | some c =>
      -- the accept routine ends when `Listen` has finished: the listener is closed
      if n.finished || c.accepted then none else some { n with conns := n.conns.set i { c with accepted := true } }
    | none => none
  | .write i =>
    match n.conns[i]? with
    | some c =>
      match c.future with
      | m :: f => if c.closed then none else some { n with conns := n.conns.set i { c with input := c.input ++ [m], future := f } }
      | [] => none
    | none => none
  | .hangup i =>
    match n.conns[i]? with
    | some c => if c.closed || !c.future.isEmpty then none else some { n with conns := n.conns.set i { c with closed := true } }
    | none => none
  | .decode i =>
    match n.conns[i]? with
    | some c =>
      if !c.accepted || c.gone then none else
      match c.held, c.input with
      | none, m :: rest =>
        -- `strings.ToLower(measure.Name) == "end"`: the record is dropped and the loop goes on
        if isEnd m.name then some { n with conns := n.conns.set i { c with input := rest } }
        else some { n with conns := n.conns.set i { c with input := rest, held := some m } }
      | _, _ => none
    | none => none
  | .deliver i =>
    if n.finished then none else
    match n.conns[i]? with
    | some c =>
      match c.held with
      | some m => some { n with mon := n.mon.update m, conns := n.conns.set i { c with held := none } }
      | none => none
    | none => none
  | .eof i =>
    if n.finished then none else
    match n.conns[i]? with
    | some c =>
      if !c.accepted || c.gone || c.held.isSome || !c.input.isEmpty || !c.closed then none
      else
        let conns := n.conns.set i { c with gone := true }
        -- `len(m.conns) == 0`: every accepted connection has gone
        some { n with conns := conns, finished := conns.all fun c => !c.accepted || c.gone }
    | none => none

/-- the state `Listen` starts from: the clients with the records they are going to write, nothing
connected yet -/
def Net.start (mon : Monitor κ α) (futures : List (List (Measure κ α))) : Net κ α :=
  { mon := mon, conns := futures.map fun f => { future := f } }

/-- a schedule; `none` as soon as an action is not enabled -/
def Net.run (isEnd : κ → Bool) (n : Net κ α) : List Act → Option (Net κ α)
  | [] => some n
  | a :: rest =>
    match n.step isEnd a with
    | some n' => n'.run isEnd rest
    | none => none

/-- some action is enabled -/
def Net.canMove (isEnd : κ → Bool) (n : Net κ α) : Bool :=
  (List.range n.conns.length).any fun i =>
    [Act.accept i, .write i, .hangup i, .decode i, .deliver i, .eof i].any fun a => (n.step isEnd a).isSome

/-- the work still to do (decreases with every action) -/
def Conn.weight (c : Conn κ α) : Nat :=
  3 * c.future.length + 2 * c.input.length + (if c.held.isSome then 1 else 0) +
    (if c.accepted then 0 else 1) + (if c.closed then 0 else 1) + (if c.gone then 0 else 1)

def Net.weight (n : Net κ α) : Nat := (n.conns.map Conn.weight).sum

end net

section readout
variable {κ α : Type}

/-! ### The read-out of the simulation driver (`simul/build.go:146-175`)

`RunTests` logs the global result set (`log.Lvl1("Test results:", stats[0])` — `String()`), then for
every result set (global, then the buckets) writes the header (first run configuration only) and the
values.  `first` says whether this is the first run configuration. -/

/-- the read-outs `RunTests` performs on result set number `j` of one run -/
def buildReadouts (first : Bool) (j : Nat) : List Readout :=
  (if j = 0 then [Readout.string] else []) ++ (if first then [Readout.header] else []) ++ [Readout.values]

end readout

end C19
