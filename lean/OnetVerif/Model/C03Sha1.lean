/-! SHA-1 and the name-based UUID (version 5) that `computeMessageType` (network/encoding.go:108-116)
derives the 16-byte type id of a message from: `uuid.NewSHA1(uuid.NameSpaceURL, []byte(url))`
(github.com/google/uuid hash.go:26-40).  Executable, core-only; nothing is proved about the hash
itself — that two different names give different ids is the collision resistance of SHA-1 and an
explicit hypothesis wherever it is used.  The correspondence run compares every id the model
computes with the one the real `RegisterMessage` returns. -/
namespace C03.Sha1

def rotl (x : UInt32) (n : UInt32) : UInt32 := (x <<< n) ||| (x >>> (32 - n))

def be64 (n : Nat) : List Nat :=
  [n / 2^56 % 256, n / 2^48 % 256, n / 2^40 % 256, n / 2^32 % 256,
   n / 2^24 % 256, n / 2^16 % 256, n / 2^8 % 256, n % 256]

/-- message ‖ 0x80 ‖ zeros ‖ bit length (64 bit, big endian): a multiple of 64 bytes -/
def pad (msg : List Nat) : List Nat :=
  msg ++ [0x80] ++ List.replicate ((119 - msg.length % 64) % 64) 0 ++ be64 (8 * msg.length)

def word (l : List Nat) : UInt32 :=
  match l with
  | [a, b, c, d] => UInt32.ofNat (a * 2^24 + b * 2^16 + c * 2^8 + d)
  | _ => 0

/-- the sixteen words of one 64-byte block -/
def blockWords (blk : List Nat) : Array UInt32 :=
  ((List.range 16).map fun i => word ((blk.drop (4 * i)).take 4)).toArray

def schedule (blk : Array UInt32) : Array UInt32 := Id.run do
  let mut w := blk
  for t in [16:80] do
    w := w.push (rotl (w[t-3]! ^^^ w[t-8]! ^^^ w[t-14]! ^^^ w[t-16]!) 1)
  return w

abbrev State := UInt32 × UInt32 × UInt32 × UInt32 × UInt32

def compress (h : State) (blk : Array UInt32) : State := Id.run do
  let w := schedule blk
  let (h0, h1, h2, h3, h4) := h
  let mut a := h0
  let mut b := h1
  let mut c := h2
  let mut d := h3
  let mut e := h4
  for t in [0:80] do
    let (f, k) : UInt32 × UInt32 :=
      if t < 20 then ((b &&& c) ||| ((~~~ b) &&& d), 0x5A827999)
      else if t < 40 then (b ^^^ c ^^^ d, 0x6ED9EBA1)
      else if t < 60 then ((b &&& c) ||| (b &&& d) ||| (c &&& d), 0x8F1BBCDC)
      else (b ^^^ c ^^^ d, 0xCA62C1D6)
    let tmp := rotl a 5 + f + e + k + w[t]!
    e := d
    d := c
    c := rotl b 30
    b := a
    a := tmp
  return (h0 + a, h1 + b, h2 + c, h3 + d, h4 + e)

def blocks : Nat → List Nat → List (List Nat)
  | 0, _ => []
  | fuel + 1, l => if l.isEmpty then [] else l.take 64 :: blocks fuel (l.drop 64)

def wordBytes (w : UInt32) : List Nat :=
  let n := w.toNat
  [n / 2^24 % 256, n / 2^16 % 256, n / 2^8 % 256, n % 256]

/-- the 20-byte digest -/
def sha1 (msg : List Nat) : List Nat :=
  let p := pad msg
  let h := (blocks (p.length / 64 + 1) p).foldl (fun h b => compress h (blockWords b))
    (0x67452301, 0xEFCDAB89, 0x98BADCFE, 0x10325476, 0xC3D2E1F0)
  wordBytes h.1 ++ wordBytes h.2.1 ++ wordBytes h.2.2.1 ++ wordBytes h.2.2.2.1 ++ wordBytes h.2.2.2.2

theorem sha1_length (msg : List Nat) : (sha1 msg).length = 20 := by
  simp [sha1, wordBytes]

/-- `uuid.NewHash(sha1.New(), space, data, 5)`: the first 16 bytes of SHA-1(space ‖ data) with the
version nibble set to 5 and the variant bits to 10 -/
def uuid5 (space data : List Nat) : List Nat :=
  let d := (sha1 (space ++ data)).take 16
  (d.set 6 (d.getD 6 0 % 16 + 0x50)).set 8 (d.getD 8 0 % 64 + 0x80)

theorem uuid5_length (space data : List Nat) : (uuid5 space data).length = 16 := by
  simp [uuid5, sha1_length]

/-- `uuid.NameSpaceURL` = 6ba7b811-9dad-11d1-80b4-00c04fd430c8 -/
def nameSpaceURL : List Nat :=
  [0x6b, 0xa7, 0xb8, 0x11, 0x9d, 0xad, 0x11, 0xd1, 0x80, 0xb4, 0x00, 0xc0, 0x4f, 0xd4, 0x30, 0xc8]

end C03.Sha1
