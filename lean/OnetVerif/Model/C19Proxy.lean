import OnetVerif.Model.C19Net
/-! Model for property C19, third part — clients that report through the proxy (`simul/monitor/proxy.go`,
`tcpproxy.go`; the deterlab set-up puts one `TCPProxy` between the simulated processes and the monitor).

`TCPProxy.serve` (tcpproxy.go:158-196) picks an endpoint that is in the rotation (`pick`: the only endpoint is the
monitor), dials it — a failed dial takes the endpoint out of the rotation for `MonitorInterval` — and then copies
both directions until one side ends; with no endpoint in the rotation the client's connection is closed at once.
For the monitor a relayed client is one more reporting connection (`Model/C19Net.lean`).  A client ends in an
orderly way or with a connection reset; `sent` are the records the relay had passed on by then.  Core-only. -/
namespace C19.Proxy

/-- how a client ended -/
inductive End where
  | orderly | reset
  deriving DecidableEq, Repr

structure Client (κ α : Type) where
  sent : List (Measure κ α)
  ending : End

/-- `code`: `serve` as it is; `deactivateOnCopyError`: the variant that also takes the endpoint out of the rotation
when `io.Copy(out, in)` ends with an error — a reset on the *client's* side (seeded change C19r6-B) -/
inductive Variant where
  | code | deactivateOnCopyError
  deriving DecidableEq, Repr

structure St (κ α : Type) where
  /-- the endpoint (the monitor) is in the rotation -/
  active : Bool := true
  /-- the clients that were relayed, in order: each a reporting connection of the monitor with these records -/
  relayed : List (List (Measure κ α)) := []
  /-- clients whose connection was closed at once -/
  refused : Nat := 0

variable {κ α : Type}

/-- one client connects, reports and ends; `up`: the monitor accepts connections (the dial succeeds) -/
def serve (v : Variant) (up : Bool) (s : St κ α) (c : Client κ α) : St κ α :=
  if !s.active then { s with refused := s.refused + 1 }
  else if !up then { s with active := false, refused := s.refused + 1 }
  else
    let s' := { s with relayed := s.relayed ++ [c.sent] }
    match v, c.ending with
    | .deactivateOnCopyError, .reset => { s' with active := false }
    | _, _ => s'

/-- clients one after the other while the monitor is up -/
def run (v : Variant) (s : St κ α) (cs : List (Client κ α)) : St κ α := cs.foldl (serve v true) s

end C19.Proxy
