import OnetVerif.Model.Util
import OnetVerif.Model.C01Send
import OnetVerif.Model.C01Inst
import OnetVerif.Model.C01Net
/-! Model for property C01: the receiving side of one server for one tree id — arrival of
protocol messages, parking while the tree is unknown, the tree request, the tree store entry
and the flushes of the parked messages.  One thread step per region between two hook points of
`overlay.go` (the hooks are placed exactly at these boundaries, outside every lock):

* `lookup`  — `TransmitMsg`: `treeStorage.getAndRefresh` (overlay.go:143); present ⇒ the
              `transmitMux` region: look the instance up by the token id of the message, create it
              if absent, hand the message over (`pi.ProcessProtocolMsg`) — collapsed to `deliver`.
              The creation path (overlay.go:176-189, /repo fafcac0) stores the tree again
              (`treeStorage.Set`) and, when `hasPendingMsg` finds a message of this tree parked,
              calls `checkPendingMessages`, which spawns one more flush goroutine
* `park`    — `requestTree`: `savePendingMsg` (under `pendingMsgLock`)
* `recheck` — the re-check added by the repair: `treeStorage.Get` present ⇒ `checkPendingMessages`
* `chk`     — `treeStorage.IsRegistered`: registered (requested or present) ⇒ nothing more to do
* `reg`     — `treeStorage.Register` (keeps a tree that is present)
* `send`    — the `RequestTree` message leaves
* `respond` — a `ResponseTree` arrives (`handleSendTree`): stored only while requested-and-missing,
              then `RegisterTree` = `Set` + `checkPendingMessages`
* `localSet`— a local `RegisterTree`
* `localStart` — a run started on this server (`CreateProtocol` / `StartProtocol`, overlay.go 735-789): the
              instance is listed under a fresh token (`NewTreeNodeInstanceFromService` / `…FromProtocol`
              792-820: a new `RoundID`) and the tree is registered — `RegisterTree` = `Set` + flush —
              whatever the store held for it, in particular when it was only *requested* from a peer
* `flush`   — the goroutine of `checkPendingMessages`: takes every parked message of the tree under
              the lock and re-enters `TransmitMsg` for each (over-approximated by independent
              arrival threads — more schedules than reality, sound for universal statements)

The network between servers is the assumption "every envelope sent to this server is handed to its
dispatcher exactly once, unchanged" (C03 + no failure, which C01 presupposes).  Removal of the
tree after the grace period and finished instances belong to C11.  Core-only. -/
namespace C01

inductive TS where | absent | requested | present deriving DecidableEq, Repr
inductive Pc where | lookup | park | recheck | chk | reg | send | done deriving DecidableEq, Repr

structure Th where
  m : Nat
  pc : Pc
  deriving DecidableEq, Repr

structure St where
  tree : TS := .absent
  parked : List Nat := []
  delivered : List Nat := []    -- handed to the instance addressed by the message's token
  refused : List Nat := []      -- ghost: refused with an error inside the region (`bad` messages)
  arrived : List Nat := []      -- ghost: every envelope handed to the dispatcher
  thr : List Th := []
  flushes : Nat := 0            -- flush goroutines spawned and not yet run
  reqs : Nat := 0               -- tree requests sent and not yet answered
  insts : List Nat := []        -- the tokens of this tree whose instance is listed (created by a hand-over)
  deriving Repr

inductive Act where
  | arrive (m : Nat)
  | thread (i : Nat)
  | respond
  | localSet
  | flush
  | expire
  | localStart
  deriving Repr

/-- messages numbered 1000 and above carry a token that names no node of the tree: `TransmitMsg`
answers them with an error ("No TreeNode defined in this tree here") and they are gone -/
def bad (m : Nat) : Bool := 1000 ≤ m

/-- the token a message is addressed to: the harness runs two rounds per tree and sends message `m`
to the instance of round `m % 2` (any function would do — the theorems do not depend on it) -/
def tok (m : Nat) : Nat := m % 2

/-- the token of an instance started on this server: a fresh round, so no message that arrives from a
peer run carries it (`tok m < 2`) -/
def localTok : Nat := 2

/-- `handleRequestTree` (overlay.go 437-466): a peer that asks for the tree — what a server does on the
first message of a run whose tree it has not seen — gets it iff `treeStorage.Get` finds it stored; a
tree that is only requested (nil entry) is "couldn't find the tree" and the peer is left without answer -/
def answersTreeRequest (s : St) : Bool := s.tree == .present

/-- the creation path of `TransmitMsg` spawns a flush: the instance the message names is not listed
yet and some message of the tree is parked (`hasPendingMsg`) -/
def createFlush (s : St) (m : Nat) : Bool := !s.insts.contains (tok m) && !s.parked.isEmpty

def stepTh (s : St) (i : Nat) (t : Th) : St :=
  match t.pc with
  | .lookup =>
      if s.tree = .present then
        if bad t.m then
          { s with refused := s.refused ++ [t.m], thr := s.thr.set i { t with pc := .done } }
        else
        { s with delivered := s.delivered ++ [t.m],
                 insts := (if s.insts.contains (tok t.m) then s.insts else s.insts ++ [tok t.m]),
                 flushes := (if createFlush s t.m then s.flushes + 1 else s.flushes),
                 thr := s.thr.set i { t with pc := .done } }
      else { s with thr := s.thr.set i { t with pc := .park } }
  | .park => { s with parked := s.parked ++ [t.m], thr := s.thr.set i { t with pc := .recheck } }
  | .recheck =>
      if s.tree = .present then
        { s with flushes := s.flushes + 1, thr := s.thr.set i { t with pc := .done } }
      else { s with thr := s.thr.set i { t with pc := .chk } }
  | .chk =>
      if s.tree = .absent then { s with thr := s.thr.set i { t with pc := .reg } }
      else { s with thr := s.thr.set i { t with pc := .done } }
  | .reg =>
      { s with tree := (if s.tree = .absent then .requested else s.tree),
               thr := s.thr.set i { t with pc := .send } }
  | .send => { s with reqs := s.reqs + 1, thr := s.thr.set i { t with pc := .done } }
  | .done => s

def step (s : St) : Act → Option St
  | .arrive m => some { s with arrived := s.arrived ++ [m], thr := s.thr ++ [⟨m, .lookup⟩] }
  | .thread i =>
      match s.thr[i]? with
      | some t => if t.pc = .done then none else some (stepTh s i t)
      | none => none
  | .respond =>
      if s.reqs = 0 then none
      else if s.tree = .requested then
        some { s with reqs := s.reqs - 1, tree := .present, flushes := s.flushes + 1 }
      else some { s with reqs := s.reqs - 1 }
  | .localSet => some { s with tree := .present, flushes := s.flushes + 1 }
  | .flush =>
      if s.flushes = 0 then none
      else some { s with flushes := s.flushes - 1, parked := [],
                         thr := s.thr ++ s.parked.map (fun m => ⟨m, .lookup⟩) }
  -- the tree is removed after its grace period (C11: only when no instance uses it; here: only when
  -- its instances have finished and
  -- nothing of this tree is parked, in flight or waiting to be flushed)
  | .expire =>
      if s.tree = .present ∧ s.insts ≠ [] ∧ s.parked = [] ∧ s.flushes = 0 ∧ (∀ t ∈ s.thr, t.pc = .done) then
        some { s with tree := .absent, insts := [] }
      else none
  | .localStart =>
      some { s with tree := .present, flushes := s.flushes + 1,
                    insts := (if s.insts.contains localTok then s.insts else s.insts ++ [localTok]) }

/-- a schedule: disabled actions are skipped -/
def run (s : St) : List Act → St
  | [] => s
  | a :: as => match step s a with
      | some s' => run s' as
      | none => run s as

/-- the variant of the unrepaired code (pinned commit): no re-check after parking — the thread
goes from `park` straight to `chk`.  Used only for the negation witness. -/
def stepThOld (s : St) (i : Nat) (t : Th) : St :=
  match t.pc with
  | .park => { s with parked := s.parked ++ [t.m], thr := s.thr.set i { t with pc := .chk } }
  | _ => stepTh s i t

namespace Drv

structure State where
  trees : List (Nat × St) := []
  inst : Inst.St := {}
  net : Net.St := {}

def init : State := {}
def get (s : State) (t : Nat) : St := (s.trees.lookup t).getD {}
def set (s : State) (t : Nat) (x : St) : State := { s with trees := (t, x) :: s.trees.filter (fun p => p.1 != t) }

def showPc : Pc → String
  | .lookup => "lookup" | .park => "park" | .recheck => "recheck" | .chk => "chk"
  | .reg => "reg" | .send => "send" | .done => "done"

def showTs : TS → String
  | .absent => "absent" | .requested => "requested" | .present => "present"

def obs (x : St) : String :=
  s!"tree={showTs x.tree} parked={x.parked.length} delivered={Util.showNatList x.delivered}"

def iobs (x : Inst.St) (i : Nat) : String :=
  let pc := match x.thr[i]? with
    | some th => (match th.pc with | .wait => "blocked" | .ctor => "ctor" | .fin => "fin")
    | none => "?"
  let sorted := (x.handed.toArray.qsort (fun a b => a.1 < b.1 || (a.1 == b.1 && a.2 < b.2))).toList
  let hs := sorted.map fun (t, m) => s!"{t}:{m}"
  s!"pc={pc} created={Util.showNatList x.created} handed={if hs.isEmpty then "-" else ",".intercalate hs} dropped={x.dropped.length}"

/-- run every thread that sits at `lookup` once (the flush goroutine re-enters `TransmitMsg` for
each drained message right away) -/
def drain (x : St) : St :=
  (List.range x.thr.length).foldl (fun acc i =>
    match acc.thr[i]? with
    | some t => if t.pc = .lookup then stepTh acc i t else acc
    | none => acc) x

/-- every `Send` call runs to its end, then the pending listener callbacks, then the receptions -/
def netDrain (x : Net.St) : Net.St :=
  let x := (List.range x.thr.length).foldl (fun acc i => Net.run acc [.thread i, .thread i, .thread i, .thread i]) x
  let x := (List.range x.dialed.length).foldl (fun acc _ => Net.run acc [.accept 0]) x
  let x := (List.range x.junk.length).foldl (fun acc _ => Net.run acc [.recvJunk 0]) x
  (List.range x.wire.length).foldl (fun acc _ => Net.run acc [.recv 0]) x

/-- what was dispatched since `n0`, sorted, and the sizes of the two tables of the pair -/
def netObs (x : Net.St) (n0 a b : Nat) : String :=
  let d := (x.dispatched.drop n0).map fun (s, f, v) => s!"{s}:{f}:{v}"
  let d := (d.toArray.qsort (· < ·)).toList
  s!"disp={if d.isEmpty then "-" else ",".intercalate d} t={(x.table a b).length}/{(x.table b a).length}"

/-- the router class: `nstart <n> <tcp>`; `nsend <a> <b> <v>` (one `Send`, run to the end); `nrace <a> <b> <v> <w>`
(two concurrent `Send`s of a to b: both look the connection up before either registers one); `nopen <a> <b> <v> <w>`
(a sends to b while b sends to a, both look up first); `njunk <a> <b> <kind> <v> <w>` (an undecodable frame between
two values on one connection) -/
def nstep (s : State) (toks : List String) : Option (State × String) :=
  match toks with
  | ["nstart", _, _] => some ({ s with net := {} }, "ok")
  | ["nsend", a, b, v] =>
    match a.toNat?, b.toNat?, v.toNat? with
    | some a, some b, some v =>
      let n0 := s.net.dispatched.length
      let x := netDrain (Net.run s.net [.send a b v])
      some ({ s with net := x }, netObs x n0 a b)
    | _, _, _ => some (s, "bad-op")
  | ["nrace", a, b, v, w] =>
    match a.toNat?, b.toNat?, v.toNat?, w.toNat? with
    | some a, some b, some v, some w =>
      let n0 := s.net.dispatched.length
      let i := s.net.thr.length
      let x := netDrain (Net.run s.net [.send a b v, .send a b w, .thread i, .thread (i + 1)])
      some ({ s with net := x }, netObs x n0 a b)
    | _, _, _, _ => some (s, "bad-op")
  | ["nopen", a, b, v, w] =>
    match a.toNat?, b.toNat?, v.toNat?, w.toNat? with
    | some a, some b, some v, some w =>
      let n0 := s.net.dispatched.length
      let i := s.net.thr.length
      let x := netDrain (Net.run s.net [.send a b v, .send b a w, .thread i, .thread (i + 1)])
      some ({ s with net := x }, netObs x n0 a b)
    | _, _, _, _ => some (s, "bad-op")
  -- `njunk <a> <b> <kind> <v> <w>`: a sends v to b, then — while b's receive goroutine is still busy with v — a
  -- frame b cannot decode (kind 0: a type id nobody registered, kind 1: a registered type whose body the
  -- receiver's suite refuses) and w behind it on the same connection; both values are dispatched
  | ["njunk", a, b, k, v, w] =>
    match a.toNat?, b.toNat?, k.toNat?, v.toNat?, w.toNat? with
    | some a, some b, some k, some v, some w =>
      if a = b || k > 1 then some (s, "bad-op") else
      let n0 := s.net.dispatched.length
      let i := s.net.thr.length
      let x := Net.run s.net [.send a b v, .thread i, .thread i, .thread i, .thread i]
      match Net.step x (.junk a b) with
      | some x1 =>
        let x2 := netDrain (Net.run x1 [.send a b w])
        some ({ s with net := x2 }, netObs x2 n0 a b)
      | none => some (s, "disabled")
    | _, _, _, _, _ => some (s, "bad-op")
  | _ => none

/-- ops: `arrive <tree> <m>` (the thread runs to its first hook point), `thread <tree> <m>` (the
thread carrying message m advances to its next hook point), `respond <tree>`, `localset <tree>`,
`flush <tree>`.  Disabled ops answer `disabled`. -/
def step (s : State) (toks : List String) : State × String :=
  match nstep s toks with
  | some r => r
  | none =>
  match toks with
  | ["arrive", t, m] =>
    match t.toNat?, m.toNat? with
    | some t, some m =>
      let x := get s t
      match C01.step x (.arrive m) with
      | some x1 =>
        let i := x1.thr.length - 1
        let x2 := (C01.step x1 (.thread i)).getD x1
        (set s t x2, s!"pc={(x2.thr[i]?.map (fun th => showPc th.pc)).getD "?"} {obs x2}")
      | none => (s, "disabled")
    | _, _ => (s, "bad-op")
  | ["thread", t, m] =>
    match t.toNat?, m.toNat? with
    | some t, some m =>
      let x := get s t
      -- the live (not finished) thread carrying m; a message has at most one
      match (List.range x.thr.length).find? (fun i => match x.thr[i]? with
              | some th => th.m == m && th.pc != .done | none => false) with
      | some i =>
        match C01.step x (.thread i) with
        | some x1 => (set s t x1, s!"pc={(x1.thr[i]?.map (fun th => showPc th.pc)).getD "?"} {obs x1}")
        | none => (s, "disabled")
      | none => (s, "disabled")
    | _, _ => (s, "bad-op")
  | ["respond", t] =>
    match t.toNat? with
    | some t =>
      match C01.step (get s t) .respond with
      | some x => (set s t x, obs x)
      | none => (s, "disabled")
    | none => (s, "bad-op")
  | ["localset", t] =>
    match t.toNat? with
    | some t =>
      match C01.step (get s t) .localSet with
      | some x => (set s t x, obs x)
      | none => (s, "disabled")
    | none => (s, "bad-op")
  -- a run started on this server on tree t: instance listed, tree registered, one flush spawned
  | ["localstart", t] =>
    match t.toNat? with
    | some t =>
      match C01.step (get s t) .localStart with
      | some x => (set s t x, obs x)
      | none => (s, "disabled")
    | none => (s, "bad-op")
  | ["expire", t] =>
    match t.toNat? with
    | some t =>
      match C01.step (get s t) .expire with
      | some x => (set s t x, obs x)
      | none => (s, "disabled")
    | none => (s, "bad-op")
  | ["flush", t] =>
    match t.toNat? with
    | some t =>
      match C01.step (get s t) .flush with
      | some x => let x := drain x; (set s t x, obs x)
      | none => (s, "disabled")
    | none => (s, "bad-op")
  -- a later registration of the tree (known or not) followed at once by its flush
  | ["reflush", t] =>
    match t.toNat? with
    | some t =>
      match C01.step (get s t) .localSet with
      | some x1 =>
        match C01.step x1 .flush with
        | some x => let x := drain x; (set s t x, obs x)
        | none => (s, "disabled")
      | none => (s, "disabled")
    | none => (s, "bad-op")
  -- the transmitMux region: `iarrive <tok> <m>` (the thread runs until it is handed over, blocked on the
  -- lock, or inside the constructor), `ictor <tok>` (the constructor of that token returns), then every
  -- thread that was blocked on the lock gets its turn in arrival order
  | ["iarrive", tok, m] =>
    match tok.toNat?, m.toNat? with
    | some tok, some m =>
      let x := s.inst
      match Inst.step x (.arrive tok m) with
      | some x1 =>
        let i := x1.thr.length - 1
        let x2 := (Inst.step x1 (.thread i)).getD x1
        ({ s with inst := x2 }, iobs x2 i)
      | none => (s, "disabled")
    | _, _ => (s, "bad-op")
  | ["ictor", tok] =>
    match tok.toNat? with
    | some tok =>
      let x := s.inst
      match (List.range x.thr.length).find? (fun i => match x.thr[i]? with
              | some th => th.tok == tok && th.pc == .ctor | none => false) with
      | some i =>
        match Inst.step x (.thread i) with
        | some x1 =>
          -- the waiting threads take the lock one after the other, in arrival order
          let x2 := (List.range x1.thr.length).foldl (fun acc j =>
            match acc.thr[j]? with
            | some th => if th.pc == .wait then (Inst.step acc (.thread j)).getD acc else acc
            | none => acc) x1
          ({ s with inst := x2 }, iobs x2 i)
        | none => (s, "disabled")
      | none => (s, "disabled")
    | none => (s, "bad-op")
  -- the registered instance of `tok` declares itself done
  | ["idone", tok] =>
    match tok.toNat? with
    | some tok =>
      match Inst.step s.inst (.done tok) with
      | some x1 => ({ s with inst := x1 }, iobs x1 x1.thr.length)
      | none => (s, "disabled")
    | none => (s, "bad-op")
  -- sending side: `send <parents: -,0,0,1,…> <me> <to:j|children|childrenpar|parent|bcast|multi:j,k>` answers the
  -- addressed nodes, sorted
  | ["send", par, me, pat] =>
    let parents : Option (List (Option Nat)) :=
      (par.splitOn ",").mapM fun x => if x = "-" then some none else x.toNat?.map some
    let pat? : Option Send.Pattern :=
      if pat = "children" || pat = "childrenpar" then some .children
      else if pat = "parent" then some .parent
      else if pat = "bcast" then some .bcast
      else match pat.splitOn ":" with
        | ["to", j] => j.toNat?.map .to
        | ["multi", js] => (Util.natList js).map .multi
        | _ => none
    match parents, me.toNat?, pat? with
    | some ps, some me, some p =>
      let d := Send.dests ⟨ps⟩ me p
      (s, Util.showNatList (d.toArray.qsort (· < ·)).toList)
    | _, _, _ => (s, "bad-op")
  -- … with failing calls: `sendx <parents> <me> <pattern> <ok|closing|nil:k,…>` (the instance is closing / the
  -- destinations at these positions of the list are nil nodes) answers the nodes that get the message, sorted, and
  -- the number of errors the operation returns
  | ["sendx", par, me, pat, flt] =>
    let parents : Option (List (Option Nat)) :=
      (par.splitOn ",").mapM fun x => if x = "-" then some none else x.toNat?.map some
    let pat? : Option (Send.Pattern × Bool) :=
      if pat = "children" then some (.children, false)
      else if pat = "childrenpar" then some (.children, true)
      else if pat = "parent" then some (.parent, false)
      else if pat = "bcast" then some (.bcast, false)
      else match pat.splitOn ":" with
        | ["to", j] => j.toNat?.map fun j => (.to j, false)
        | ["multi", js] => (Util.natList js).map fun js => (.multi js, false)
        | _ => none
    let flt? : Option Send.Fault :=
      if flt = "ok" then some {}
      else if flt = "closing" then some { closing := true }
      else match flt.splitOn ":" with
        | ["nil", ks] => (Util.natList ks).map fun ks => { bad := ks }
        | _ => none
    match parents, me.toNat?, pat?, flt? with
    | some ps, some me, some (p, b), some f =>
      let r := Send.sendx ⟨ps⟩ me p b f
      (s, Util.showNatList (r.1.toArray.qsort (· < ·)).toList ++ s!" errs={r.2}")
    | _, _, _, _ => (s, "bad-op")
  | _ => (s, "bad-op")

end Drv

end C01
