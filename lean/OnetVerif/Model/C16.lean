/-! Model for property C16 (core-only: no Mathlib import, so the driver links). -/
namespace C16

namespace Drv
/-- line-protocol driver state for C16 -/
abbrev State := Unit
def init : State := ()
/-- one line in (tokens after the property prefix), new state and one line out -/
def step (s : State) (_toks : List String) : State × String := (s, "bad-op")
end Drv

end C16
